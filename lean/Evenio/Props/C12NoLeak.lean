import Evenio.Proofs.CompLedgerLeak
import Evenio.Props.C12History
/-!
# C12, "never neither": no leak for component types WITH a destructor

`Props/C12History.lean` proves "at most once, anywhere" along whole histories.  This file is about the converse for the
component types that have a destructor (`compNeedsDrop`): a value that leaves storage has been passed to its destructor.

* **(i) `World::drop`** — `drop_destroys_all_stored`, `drop_destroys_what_is_readable`, `drop_exactly_once`,
  `history_then_drop`: the model's `drop` operation (outside `Op.Valid`: it ends the history) never fails, leaves nothing
  stored, and logs `(type, serial)` of every stored cell whose component type has a destructor — each exactly once in
  the whole-history ledger.  No invariant of the world is needed for the cells of columns that have a component index
  (position by position); every value `World::get` can read is such a cell (`readable_position`).
* **(ii) the structural effects, one delivery** — from a world satisfying `WInv` (for a reachable world:
  `reachable_effects_no_leak`, only `Reach` and `Small` assumed), on normal return of the built-in effect:
  `insert_overwrite_old_destroyed` (the value an `Insert` overwrites), `remove_effect_old_destroyed` (the value a
  `Remove` removes), `despawn_effect_all_destroyed` (every value of the despawned entity): if the component type has a
  destructor, `(type, serial)` is in the ledger afterwards.  `effect_readable_or_destroyed` is the negative form of
  conservation over one effect (`Insert` / `Remove` / `Despawn` / `Spawn`): every value `World::get` reads before, of a
  type with destructor, is read at the same place afterwards OR is in the ledger — nothing leaves storage unlogged.
  With `C12History` ("at most once, anywhere"): destroyed exactly once or still stored, never both, never neither, for
  one effect.

## What is still not proved: (iii) the history-level statement

`∀ s, 0 < s → s < nextCSerial → (s was handed out for a type with destructor) → s ∈ stored ∨ s ∈ totalLedger` at every
quiescent point of every history.  What (i) and (ii) cover are the places where a value LEAVES STORAGE (all four
effects, and `drop`); `Archetypes::remove_component` (`archsRemoveComponent`: the cells of the removed archetypes are
dropped with `info.ty` resp. `compTy c`) is not covered.  What is missing for (iii) beyond that is the glue that carries
"tracked" from the creation of a value to its storage: (a) the payload of a QUEUED `Insert` is handed to `effectPhase`
with `info.kind = .insert c`, `compTy c = k`, or to `dropEvent` with `info.needsDrop = compNeedsDrop k` — a typing of the
registry entry at the queued item's index that `WInv` / `TevTyped` / `EvLedger.TW` do not contain for `Insert` entries;
(b) the new value IS stored by the effect (`C12History.insert_effect_stored_not_destroyed`, proved); (c) the handler
phase, `flushWith` (incl. unwinding: `dropQueued` consults the same registry entry) and the registration functions
keep "tracked" (they do not touch storage: `bump` changes values, not serials).  (a) is an auxiliary registry invariant
in the style of `TevTyped`; (c) is a `Keeps` table over the start-state-parametrised predicate
`fun w => ∀ s, tracked w0 s → tracked w s ∨ s ∈ dropSers w.cdrops`, as for `CL`.
-/
namespace Evenio
namespace C12NoLeak
open CompLedger C12History

/-! ## (i) `World::drop` -/

/-- a column and its component index, paired by position, are paired by `zip` -/
theorem mem_zip_of_getElem? {α β : Type} {l : List α} {m : List β} {j : Nat} {a : α} {b : β} (ha : l[j]? = some a)
    (hb : m[j]? = some b) : (a, b) ∈ l.zip m := by
  refine List.mem_of_getElem? (i := j) ?_
  rw [List.getElem?_zip_eq_some]
  exact ⟨ha, hb⟩

/-- **(i) the world drop destroys every stored value that has a destructor** — from ANY world `w`: `execOp .drop`
    returns normally; afterwards no cell is stored; the queue and the serial counter are untouched; the ledger kept what
    it had; and for every archetype `a` of `w`, every column `col = a.cols[j]` with its component index `c = a.comps[j]`,
    every cell `x` of that column: if the component type `w.compTy c` has a destructor, `(w.compTy c, x.ser)` is in the
    ledger. -/
theorem drop_destroys_all_stored (w : World) :
    ∃ w', (execOp .drop).run.run w = (.ok [], w') ∧ storedSers w'.archs = [] ∧ w'.queue = w.queue ∧
      w'.nextCSerial = w.nextCSerial ∧ (∀ e ∈ w.cdrops, e ∈ w'.cdrops) ∧
      ∀ (i : Nat) (a : Arch) (j c : Nat) (col : List Cell) (x : Cell), w.archs.get i = some a → a.comps[j]? = some c →
        a.cols[j]? = some col → x ∈ col →
        compNeedsDrop (w.compTy c) = true → (w.compTy c, x.ser) ∈ w'.cdrops := by
  have r := (execOp_drop_logs w).run w rfl
  generalize hrun : (execOp Op.drop).run.run w = res at r
  obtain ⟨(e | l), w'⟩ := res
  · exact r.elim
  · obtain ⟨rfl, h1, h2, h3, h4, h5⟩ := r
    refine ⟨w', rfl, ?_, h2, h3, h4, fun i a j c col x ha hc hcol hx hn => ?_⟩
    · unfold storedSers; rw [h1]; rfl
    · refine h5 i a ha _ ?_
      unfold archNeed
      refine List.mem_flatMap.2 ⟨(c, col), mem_zip_of_getElem? hc hcol, List.mem_flatMap.2 ⟨x, hx, ?_⟩⟩
      unfold logOf
      rw [← compTy_eq_tyOf, if_pos hn]
      exact List.mem_singleton.2 rfl

/-- a value `World::get` reads is a cell of a column that sits under its component index -/
theorem readable_position {w : World} (wf : w.entities.WF) {e : Key} {c : Nat} {y : Cell}
    (h : w.getCell e c = some y) :
    ∃ (i : Nat) (a : Arch) (j : Nat) (col : List Cell), w.archs.get i = some a ∧ a.comps[j]? = some c ∧
      a.cols[j]? = some col ∧ y ∈ col := by
  rw [world_getCell_eq wf] at h
  cases he : w.entities.get e with
  | none => rw [he] at h; cases h
  | some loc =>
    rw [he] at h
    dsimp only at h
    cases ha : w.archs.get loc.arch with
    | none => rw [ha] at h; cases h
    | some a =>
      rw [ha] at h
      dsimp only at h
      unfold Arch.readCell Arch.colIdx at h
      cases hj : a.comps.idxOf? c with
      | none => rw [hj] at h; cases h
      | some j =>
        rw [hj] at h
        simp only [Option.bind_eq_bind, Option.bind_some] at h
        cases hcol : a.cols[j]? with
        | none => rw [hcol] at h; cases h
        | some col =>
          rw [hcol] at h
          refine ⟨loc.arch, a, j, col, ha, ?_, hcol, List.mem_of_getElem? h⟩
          rw [List.idxOf?_eq_some_iff] at hj
          obtain ⟨hlt, hget, -⟩ := hj
          rw [List.getElem?_eq_getElem hlt, hget]

/-- **(i) … in particular everything the API can read**: after `drop`, every value `World::get` could read in `w` whose
    component type has a destructor is in the ledger -/
theorem drop_destroys_what_is_readable {w w' : World} (wf : w.entities.WF)
    (h : (execOp .drop).run.run w = (.ok [], w')) {e : Key} {c : Nat} {y : Cell} (hy : w.getCell e c = some y)
    (hn : compNeedsDrop (w.compTy c) = true) : (w.compTy c, y.ser) ∈ w'.cdrops := by
  obtain ⟨w'', h', -, -, -, -, hall⟩ := drop_destroys_all_stored w
  rw [h] at h'
  cases h'
  obtain ⟨i, a, j, col, ha, hc, hcol, hmem⟩ := readable_position wf hy
  exact hall i a j c col y ha hc hcol hmem hn

/-- **(i) … each exactly once**: from a world satisfying the ledger predicate (every world of a history does:
    `C12History.hist_cl`), after `drop` the predicate holds again — nothing is stored, and no serial `≠ 0` occurs twice in
    the ledger or both in the ledger and among what was destroyed earlier (`H`) -/
theorem drop_exactly_once {H : List Nat} {w w' : World} (hcl : CL H w) (h : (execOp .drop).run.run w = (.ok [], w')) :
    CL H w' ∧ storedSers w'.archs = [] ∧ (nz (dropSers w'.cdrops ++ H)).Nodup := by
  have r := (execOp_cl (X := H) .drop).run w hcl
  rw [h] at r
  obtain ⟨w'', h', hs, -⟩ := drop_destroys_all_stored w
  rw [h] at h'
  cases h'
  refine ⟨r, hs, ?_⟩
  have := (cl_spelled r).1
  rw [hs] at this
  simp only [List.nil_append, nz_append, List.append_assoc] at this ⊢
  exact (List.nodup_append.1 this).2.1

/-- **(i) "after the world is dropped every value with a destructor has been destroyed exactly once"**: any history of
    valid operations from the empty world without marker exit, then `drop`.  Nothing is stored any more; every value the
    API could read in the last world of the history, of a component type with destructor, is in the ledger of the `drop`;
    and in the ledger of the whole history INCLUDING the drop no serial occurs twice. -/
theorem history_then_drop {ops : List Op} (hv : ∀ op ∈ ops, op.Valid) (hc : HistClean {} ops) :
    ∃ w', (execOp .drop).run.run (stepInit (runHist {} ops)) = (.ok [], w') ∧ storedSers w'.archs = [] ∧
      (∀ (e : Key) (c : Nat) (y : Cell), (runHist {} ops).getCell e c = some y →
        compNeedsDrop ((runHist {} ops).compTy c) = true → ((runHist {} ops).compTy c, y.ser) ∈ w'.cdrops) ∧
      (nz (dropSers (w'.cdrops ++ totalLedger {} ops))).Nodup := by
  obtain ⟨w', h, hs, -⟩ := drop_destroys_all_stored (stepInit (runHist {} ops))
  have wf : (runHist {} ops).entities.WF := (runHist_entLe ops hv SlotMap.wf_empty).1
  have hcl := cl_stepInit (hist_cl cl_init hc)
  obtain ⟨-, -, hnd⟩ := drop_exactly_once hcl h
  refine ⟨w', h, hs, fun e c y hy hn => ?_, ?_⟩
  · exact drop_destroys_what_is_readable (w := stepInit (runHist {} ops)) wf h hy hn
  · unfold totalLedger
    unfold dropSers at hnd ⊢
    simp only [List.map_append, List.append_nil] at hnd ⊢
    exact hnd

/-! ## (ii) the three structural effects: what leaves storage is in the ledger

One delivery, from a world satisfying the invariant (`WInv`: the state the handlers of the delivery left satisfies it,
`Obl.glue_runHandler`; for a reachable world `ReachStore.winv`), on normal return of the built-in effect
(`C09.effect_iff`: the target is alive and no handler took the event).  `old` is the value `World::get` reads before the
effect; if its component type has a destructor, `(type, serial)` is in the ledger afterwards.  "At most once" is
`C12History`. -/

theorem logged_of_dropLog {w : World} {c : Nat} {y : Cell} {pairs : List (Nat × Cell)} (hm : (c, y) ∈ pairs)
    (hn : compNeedsDrop (w.compTy c) = true) (D : List (Nat × Nat)) :
    (w.compTy c, y.ser) ∈ dropLog w pairs ++ D :=
  List.mem_append_left _ (mem_dropLog.2 ⟨(c, y), hm, hn, rfl, rfl⟩)

open ReachStore in
/-- **(ii) `Insert` over an existing component: the overwritten value is destroyed** -/
theorem insert_overwrite_old_destroyed {w w' : World} (hw : WInv w) {it : QItem} {info : EvInfo} {loc : Loc} {c : Nat}
    {e : Key} {old : Cell} (hkind : info.kind = .insert c) (hloc : w.entities.get e = some loc)
    (h : (effectPhase it info loc).run.run w = (.ok (), w')) (hold : w.getCell e c = some old)
    (hn : compNeedsDrop (w.compTy c) = true) : (w.compTy c, old.ser) ∈ w'.cdrops := by
  rw [effectPhase_insert hkind] at h
  obtain ⟨⟨⟩, w0, h0, h⟩ := run_bind_ok h
  cases dbgAssert_ok h0
  obtain ⟨d, w1, h1, h2⟩ := run_bind_ok h
  obtain ⟨sa, hsa, -, hcs, -, hiff⟩ := read_winv hw hloc
  obtain ⟨ok1, hents, hreads, ⟨sa1, hsa1, hsac⟩, b, hb, hbc, hsame⟩ := traverseInsert_store_winv hw hsa h1
  have hloc1 : w1.entities.get e = some loc := by rw [hents]; exact hloc
  have hc : c ∈ sa.comps := (hiff c).1 (by rw [hold]; rfl)
  have hcd : w1.cdrops = w.cdrops := by
    have := (CompLedger.traverseInsert_cd (D := w.cdrops) loc.arch c).run w rfl
    rw [h1] at this; exact this
  have hty : w1.compTy c = w.compTy c := by
    have := (traverseInsert_cc (c := w.compsCore) loc.arch c).run w rfl
    rw [h1] at this
    exact CompLedger.compTy_of_core this c
  cases hsame hc
  obtain ⟨old', g1, -, -, -, g5⟩ := world_insert_get_self_same ok1 hloc1 hsa1 (hsac ▸ hc) h2
  rw [(hreads e).1 c, hold] at g1
  cases g1
  rw [g5, ← hty]
  exact logged_of_dropLog (List.mem_singleton.2 rfl) (hty ▸ hn) _

open ReachStore in
/-- **(ii) `Remove`: the removed value is destroyed** -/
theorem remove_effect_old_destroyed {w w' : World} (hw : WInv w) {it : QItem} {info : EvInfo} {loc : Loc} {c : Nat}
    {e : Key} {old : Cell} (hkind : info.kind = .remove c) (hloc : w.entities.get e = some loc)
    (h : (effectPhase it info loc).run.run w = (.ok (), w')) (hold : w.getCell e c = some old)
    (hn : compNeedsDrop (w.compTy c) = true) : (w.compTy c, old.ser) ∈ w'.cdrops := by
  rw [effectPhase_remove hkind] at h
  obtain ⟨d, w1, h1, h2⟩ := run_bind_ok h
  obtain ⟨sa, hsa, -, hcs, -, hiff⟩ := read_winv hw hloc
  obtain ⟨ok1, hents, hreads, ⟨sa1, hsa1, hsac⟩, b, hb, hbc, hsame⟩ := traverseRemove_store_winv hw hsa h1
  have hloc1 : w1.entities.get e = some loc := by rw [hents]; exact hloc
  have hc : c ∈ sa.comps := (hiff c).1 (by rw [hold]; rfl)
  have hty : w1.compTy c = w.compTy c := by
    have := (traverseRemove_cc (c := w.compsCore) loc.arch c).run w rfl
    rw [h1] at this
    exact CompLedger.compTy_of_core this c
  rw [← hsac] at hbc
  obtain ⟨old', g1, -, -, -, g5⟩ := world_remove_get_self ok1 hloc1 hsa1 hb (hsac ▸ hc) hbc h2
  rw [(hreads e).1 c, hold] at g1
  cases g1
  rw [g5, ← hty]
  exact logged_of_dropLog (List.mem_singleton.2 rfl) (hty ▸ hn) _

open ReachStore in
/-- **(ii) `Despawn`: every value of the despawned entity is destroyed** -/
theorem despawn_effect_all_destroyed {w w' : World} (hw : WInv w) {it : QItem} {info : EvInfo} {loc : Loc} {e : Key}
    (hkind : info.kind = .despawn) (hloc : w.entities.get e = some loc)
    (h : (effectPhase it info loc).run.run w = (.ok (), w')) {c : Nat} {y : Cell} (hy : w.getCell e c = some y)
    (hn : compNeedsDrop (w.compTy c) = true) : (w.compTy c, y.ser) ∈ w'.cdrops := by
  rw [effectPhase_despawn hkind] at h
  obtain ⟨w1, w2, h1, h2, h3⟩ := despawn_run_ok h
  rw [despawn_refresh_cannot_fail h1 h2] at h3
  cases h3
  obtain ⟨⟨ok1, -⟩, hkeep⟩ := world_spawnAll hw.storeOk hw.hasEmpty h1
  obtain ⟨hloc1, hg1, hc1⟩ := hkeep e loc hloc
  obtain ⟨sa, hsa, -, hcs, -, hiff⟩ := read_winv hw hloc
  have hty : w1.compTy c = w.compTy c := by
    have := (spawnAll_cc (c := w.compsCore)).run w rfl
    rw [h1] at this
    exact CompLedger.compTy_of_core this c
  obtain ⟨dropped, cs, -, hcs', hd, hcd, -⟩ := world_remove_ledger ok1 hloc1 h2
  have hcs_eq : cs = sa.comps := by
    rw [hc1, hcs] at hcs'; exact (Option.some.inj hcs').symm
  have hc : c ∈ cs := by rw [hcs_eq]; exact (hiff c).1 (by rw [hy]; rfl)
  obtain ⟨j, hj⟩ := List.mem_iff_getElem?.1 hc
  have hdj : dropped[j]? = some y := by
    have := congrArg (fun l => l[j]?) hd
    simp only [List.getElem?_map, hj, Option.map_some, hg1 c, hy] at this
    cases hdd : dropped[j]? with
    | none => rw [hdd] at this; cases this
    | some z => rw [hdd] at this; simp only [Option.map_some, Option.some.injEq] at this; rw [this]
  show (w.compTy c, y.ser) ∈ w2.cdrops
  rw [hcd, ← hty]
  exact logged_of_dropLog (mem_zip_of_getElem? hj hdj) (hty ▸ hn) _

/-- a live entity other than the target, or a component other than the one concerned, reads as before; so:

    **(ii) one effect never loses a readable value with a destructor.**  For the effect of an `Insert` / `Remove` /
    `Despawn` delivered to the live entity `e`, and for `Spawn`, from a world satisfying `WInv`: every value `World::get`
    reads before the effect, of a component type with destructor, is read at the same place afterwards or is in the
    ledger.  (The negative form of conservation, over one step; `w.compTy` is the type before the step — the effects do
    not touch the component registry up to `member_of`.) -/
theorem effect_readable_or_destroyed {w w' : World} (hw : WInv w) {it : QItem} {info : EvInfo} {loc : Loc} {e : Key}
    (hloc : w.entities.get e = some loc) (hk : info.kind ≠ .normal)
    (h : (effectPhase it info loc).run.run w = (.ok (), w')) {e' : Key} {c' : Nat} {y : Cell}
    (hy : w.getCell e' c' = some y) (hn : compNeedsDrop (w.compTy c') = true) :
    w'.getCell e' c' = some y ∨ (w.compTy c', y.ser) ∈ w'.cdrops := by
  have hlive : ∃ l, w.entities.get e' = some l := by
    rw [world_getCell_eq hw.entsWF] at hy
    cases he : w.entities.get e' with
    | none => rw [he] at hy; cases hy
    | some l => exact ⟨l, rfl⟩
  obtain ⟨l', hl'⟩ := hlive
  cases hkind : info.kind with
  | normal => exact absurd hkind hk
  | insert c =>
    obtain ⟨-, g2, -, g4⟩ := ReachStore.insert_effect_winv hw hkind hloc h
    by_cases he : e' = e
    · subst he
      by_cases hc : c' = c
      · subst hc
        exact .inr (insert_overwrite_old_destroyed hw hkind hloc h hy hn)
      · exact .inl ((g2 c' hc).trans hy)
    · exact .inl (((g4 e' he).1 c').trans hy)
  | remove c =>
    obtain ⟨-, g2, -, g4⟩ := ReachStore.remove_effect_winv hw hkind hloc h
    by_cases he : e' = e
    · subst he
      by_cases hc : c' = c
      · subst hc
        exact .inr (remove_effect_old_destroyed hw hkind hloc h hy hn)
      · exact .inl ((g2 c' hc).trans hy)
    · exact .inl (((g4 e' he).1 c').trans hy)
  | spawn =>
    rw [effectPhase_spawn hkind] at h
    obtain ⟨-, hkeep⟩ := world_spawnAll hw.storeOk hw.hasEmpty h
    exact .inl (((hkeep e' l' hl').2.1 c').trans hy)
  | despawn =>
    obtain ⟨-, -, -, g4⟩ := ReachStore.despawn_effect_reads_winv hw hkind hloc h
    by_cases he : e' = e
    · subst he
      exact .inr (despawn_effect_all_destroyed hw hkind hloc h hy hn)
    · exact .inl (((g4 e' l' he hl').1 c').trans hy)

/-- the three effects from a world the driver reaches (`Reach`, `Small`): nothing but reachability is assumed -/
theorem reachable_effects_no_leak {w w' : World} (hr : Reach w) (hs : Small w) {it : QItem} {info : EvInfo} {loc : Loc}
    {e : Key} (hloc : w.entities.get e = some loc) (h : (effectPhase it info loc).run.run w = (.ok (), w')) {c : Nat}
    {y : Cell} (hy : w.getCell e c = some y) (hn : compNeedsDrop (w.compTy c) = true) :
    (info.kind = .insert c → (w.compTy c, y.ser) ∈ w'.cdrops) ∧
    (info.kind = .remove c → (w.compTy c, y.ser) ∈ w'.cdrops) ∧
    (info.kind = .despawn → (w.compTy c, y.ser) ∈ w'.cdrops) :=
  ⟨fun hk => insert_overwrite_old_destroyed (ReachStore.winv hr hs) hk hloc h hy hn,
   fun hk => remove_effect_old_destroyed (ReachStore.winv hr hs) hk hloc h hy hn,
   fun hk => despawn_effect_all_destroyed (ReachStore.winv hr hs) hk hloc h hy hn⟩

end C12NoLeak
end Evenio

#print axioms Evenio.C12NoLeak.drop_destroys_all_stored
#print axioms Evenio.C12NoLeak.drop_destroys_what_is_readable
#print axioms Evenio.C12NoLeak.drop_exactly_once
#print axioms Evenio.C12NoLeak.history_then_drop
#print axioms Evenio.C12NoLeak.insert_overwrite_old_destroyed
#print axioms Evenio.C12NoLeak.remove_effect_old_destroyed
#print axioms Evenio.C12NoLeak.despawn_effect_all_destroyed
#print axioms Evenio.C12NoLeak.effect_readable_or_destroyed
#print axioms Evenio.C12NoLeak.reachable_effects_no_leak
