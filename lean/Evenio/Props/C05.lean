import Evenio.Proofs.Conflict
/-!
# C05 — "a handler is accepted iff its parameters can never alias a component mutably"

`try_add_handler` computes one `ComponentAccess` expression per handler parameter (`Query::init` for
fetchers), conjoins them — every parameter made optional, because each parameter matches or misses
an archetype independently (`acceptAccess`) — and rejects the handler iff the result contains a
`Conflict` literal (`collect_conflicts` non-empty).

The theorems below say that this syntactic check is *exact* with respect to the references the
structural matcher (`Query::new_arch_state` / `Query::get`) really hands out:

* `conflict_exact_query`: a single query's expression is conflict-free iff on no archetype the
  query hands out a mutable reference to a component next to another reference to it;
* `accept_exact`: a parameter list is accepted iff on no archetype the parameters that match hand
  out such references between them;
* `accept_old_counterexample`: the plain conjunction (without making the parameters optional) is
  *not* exact — it accepts `(&mut A, &mut A, Not<&A>)`-style parameter lists;
* `event_access_invalid_iff`: `Access::join` fails exactly for shared+exclusive / exclusive twice.
-/
namespace Evenio

/-- a mutable reference to `c` alongside any other reference to `c` -/
def aliases (l : List (Nat × Bool)) : Bool :=
  l.any fun (c, m) => m && decide (2 ≤ (l.filter (·.1 == c)).length)

/-- the references a query hands out for a row of an archetype with component set `S`
    (`none`: the query does not match the archetype) -/
def refs (S : Nat → Bool) (q : Query) : Option (List (Nat × Bool)) := (q.archState S).map AS.refs

/-- the references all parameters of a handler hand out together on an archetype; each parameter
    independently matches the archetype or not -/
def handed (S : Nat → Bool) (ps : List Query) : List (Nat × Bool) := (ps.filterMap (refs S)).flatten

/-- the check before the repair: plain conjunction of the parameters' expressions -/
def acceptOld (accesses : List CA) : CA := accesses.foldl (fun acc a => acc.and a) CA.tt

theorem aliases_iff (l : List (Nat × Bool)) : aliases l = true ↔ ∃ c, refsLvl c l = .cf :=
  any_alias_iff l

/-- the conflict check of one query is exact -/
theorem conflict_exact_query (q : Query) :
    q.init.hasConflict = false ↔ ∀ S l, refs S q = some l → aliases l = false := by
  constructor
  · intro h S l hl
    simp only [refs, Option.map_eq_some_iff] at hl
    obtain ⟨st, hst, rfl⟩ := hl
    cases ha : aliases st.refs with
    | false => rfl
    | true =>
      obtain ⟨c, hc⟩ := (aliases_iff _).mp ha
      have := (hasConflict_init_iff q).mpr ⟨S, st, c, hst, hc⟩
      simp [h] at this
  · intro h
    cases hc : q.init.hasConflict with
    | false => rfl
    | true =>
      obtain ⟨S, st, c, hst, hcf⟩ := (hasConflict_init_iff q).mp hc
      have h1 := h S st.refs (by simp [refs, hst])
      have h2 := (aliases_iff _).mpr ⟨c, hcf⟩
      simp [h1] at h2

/-- **C05**: a handler's parameter list is accepted iff on no archetype the parameters that match
    it hand out a mutable reference to a component alongside another reference to it. -/
theorem accept_exact (ps : List Query) :
    (acceptAccess (ps.map Query.init)).hasConflict = false ↔ ∀ S, aliases (handed S ps) = false := by
  rw [acceptAccess_eq_init, conflict_exact_query]
  constructor
  · intro h S
    obtain ⟨st, hst, hr⟩ := optTuple_archState S ps
    exact h S (handed S ps) (by simp only [refs, hst, Option.map_some, hr]; rfl)
  · intro h S l hl
    obtain ⟨st, hst, hr⟩ := optTuple_archState S ps
    simp only [refs, hst, Option.map_some, Option.some.injEq] at hl
    subst hl
    rw [hr]
    exact h S

/-- the rejection condition of `try_add_handler` (`!conflicts.is_empty()`) is `hasConflict` -/
theorem hasConflict_iff_conflicts_nonempty (ca : CA) : ca.hasConflict = !ca.conflicts.isEmpty :=
  hasConflict_eq ca

/-- in the form used by `addHandler`: rejected iff some archetype makes the parameters alias -/
theorem reject_exact (ps : List Query) :
    (acceptAccess (ps.map Query.init)).conflicts.isEmpty = false ↔ ∃ S, aliases (handed S ps) = true := by
  have h1 := hasConflict_iff_conflicts_nonempty (acceptAccess (ps.map Query.init))
  have h2 := accept_exact ps
  constructor
  · intro h
    rw [h] at h1
    have h3 : ¬ ∀ S, aliases (handed S ps) = false := fun hall => by
      rw [h2.mpr hall] at h1; simp at h1
    apply Classical.byContradiction
    intro hne
    exact h3 fun S => by
      cases ha : aliases (handed S ps) with
      | false => rfl
      | true => exact absurd ⟨S, ha⟩ hne
  · rintro ⟨S, hS⟩
    cases hc : (acceptAccess (ps.map Query.init)).conflicts.isEmpty with
    | false => rfl
    | true =>
      rw [hc] at h1
      have := h2.mp (by simpa using h1) S
      simp [hS] at this

/-- handler parameters `&mut A`, `&mut A`, `Not<&A>` -/
def oldCounterexample : List Query := [.mut 0, .mut 0, .not (.ref 0)]

/-- The plain conjunction is not exact: `(&mut A, &mut A, Not<&A>)` as three handler parameters is
    accepted by the old check although on the archetype `{A}` the first two parameters both hand
    out `&mut A`; the repaired check rejects it. -/
theorem accept_old_counterexample :
    (acceptOld (oldCounterexample.map Query.init)).hasConflict = false ∧
    aliases (handed (fun _ => true) oldCounterexample) = true ∧
    (acceptAccess (oldCounterexample.map Query.init)).hasConflict = true := by
  refine ⟨?_, by decide, ?_⟩
  · simp only [oldCounterexample, acceptOld, List.map_cons, List.map_nil, List.foldl_cons, List.foldl_nil]
    ca_eval
  · simp only [oldCounterexample, acceptAccess, List.map_cons, List.map_nil, List.foldl_cons, List.foldl_nil]
    ca_eval

/-- `Access::join` (event access / targeted-event access) is invalid exactly when one side is
    exclusive and the other is not `None`: shared together with exclusive, or exclusive twice. -/
theorem event_access_invalid_iff (a b : Access) :
    Access.join a b = none ↔
      (a = .readWrite ∧ b ≠ .none) ∨ (b = .readWrite ∧ a ≠ .none) := by
  cases a <;> cases b <;> simp [Access.join]

/-! ## non-vacuity -/

/-- the tutorial's pair of fetchers `(&mut A, With<&B>)`, `(&A, Not<&B>)` is accepted … -/
example : (acceptAccess ([Query.snoc (.snoc .unit (.mut 0)) (.wth (.ref 1)),
    Query.snoc (.snoc .unit (.ref 0)) (.not (.ref 1))].map Query.init)).hasConflict = false := by
  simp only [acceptAccess, List.map_cons, List.map_nil, List.foldl_cons, List.foldl_nil]; ca_eval
/-- … and indeed never aliases, e.g. on `{A, B}` only the first one matches -/
example : handed (fun _ => true) [Query.snoc (.snoc .unit (.mut 0)) (.wth (.ref 1)),
    Query.snoc (.snoc .unit (.ref 0)) (.not (.ref 1))] = [(0, true)] := by decide
/-- `(&mut A, &A)` as one query is rejected, and does alias -/
example : (Query.snoc (.snoc .unit (.mut 0)) (.ref 0)).init.hasConflict = true := by ca_eval
example : (refs (fun _ => true) (Query.snoc (.snoc .unit (.mut 0)) (.ref 0))).map aliases = some true := by decide
/-- two shared references are fine -/
example : aliases [(0, false), (0, false), (1, true)] = false := by decide
example : aliases [(0, false), (1, true), (0, true)] = true := by decide
example : Access.join .read .readWrite = none := rfl
example : Access.join .read .read = some .read := rfl

end Evenio

#print axioms Evenio.conflict_exact_query
#print axioms Evenio.accept_exact
#print axioms Evenio.reject_exact
#print axioms Evenio.hasConflict_iff_conflicts_nonempty
#print axioms Evenio.accept_old_counterexample
#print axioms Evenio.event_access_invalid_iff
