import Evenio.Proofs.QuerySem
/-!
# C06 — "queries match exactly the entities their documented Boolean meaning selects"

`Query.sem` is the documented Boolean meaning (tutorial.md, "Fetching"): `&C`/`&mut C` need the
component, tuples are conjunctions, `Option`/`Has`/`EntityId`/`PhantomData`/`()` always match,
`Or` is disjunction, `Xor` exclusive disjunction, `Not` negation, `With` the meaning of its argument.

* `Query.archState` (`Query::new_arch_state`, the fetcher's per-archetype cache) is `some _` exactly
  on the archetypes selected by `sem`;
* `Query.init` (the `ComponentAccess` expression that handler listener tables are filtered with)
  matches exactly the same archetypes;
* the item variant (`Or::Left/Right/Both`, `Xor::Left/Right`, `Option::Some/None`, `Has` flag) is
  the one the documentation promises;
* `Query::get` reads exactly the columns of its own row that the arch state refers to.
-/
namespace Evenio

/-! ## match sets -/

/-- the fetcher caches an arch state for an archetype iff the documented meaning selects it -/
theorem archState_isSome_eq_sem (q : Query) (S : Nat → Bool) : (q.archState S).isSome = q.sem S :=
  archState_isSome S q

/-- the access expression matches an archetype iff the documented meaning selects it -/
theorem matches_init_eq_sem (q : Query) (S : Nat → Bool) : q.init.matches S = q.sem S :=
  init_matches S q

/-- the archetype filter (`ComponentAccess::matches_archetype`, listener tables) and the fetcher
    cache (`new_arch_state`) select the same archetypes -/
theorem filter_agrees_with_cache (q : Query) (S : Nat → Bool) :
    q.init.matches S = (q.archState S).isSome := by
  rw [matches_init_eq_sem, archState_isSome_eq_sem]

/-! ## item variants -/

private theorem sem_false_iff (q : Query) (S : Nat → Bool) : q.sem S = false ↔ q.archState S = none :=
  (archState_eq_none S q).symm

private theorem sem_true_iff (q : Query) (S : Nat → Bool) :
    q.sem S = true ↔ ∃ a, q.archState S = some a := (archState_eq_some S q).symm

/-- `Or` yields `Both` with exactly the two sides' states -/
theorem or_both_eq (l r : Query) (S : Nat → Bool) (a b : AS) :
    (Query.or l r).archState S = some (.both a b) ↔ l.archState S = some a ∧ r.archState S = some b := by
  simp only [Query.archState]
  cases l.archState S <;> cases r.archState S <;> simp

theorem or_left_eq (l r : Query) (S : Nat → Bool) (a : AS) :
    (Query.or l r).archState S = some (.left a) ↔ l.archState S = some a ∧ r.archState S = none := by
  simp only [Query.archState]
  cases l.archState S <;> cases r.archState S <;> simp

theorem or_right_eq (l r : Query) (S : Nat → Bool) (b : AS) :
    (Query.or l r).archState S = some (.right b) ↔ l.archState S = none ∧ r.archState S = some b := by
  simp only [Query.archState]
  cases l.archState S <;> cases r.archState S <;> simp

/-- `Or<L, R>` produces `Or::Both` iff both sides' meanings hold -/
theorem or_both_iff (l r : Query) (S : Nat → Bool) :
    (∃ a b, (Query.or l r).archState S = some (.both a b)) ↔ l.sem S = true ∧ r.sem S = true := by
  simp only [or_both_eq, sem_true_iff]
  constructor
  · rintro ⟨a, b, ha, hb⟩; exact ⟨⟨a, ha⟩, ⟨b, hb⟩⟩
  · rintro ⟨⟨a, ha⟩, ⟨b, hb⟩⟩; exact ⟨a, b, ha, hb⟩

/-- `Or<L, R>` produces `Or::Left` iff only the left meaning holds -/
theorem or_left_iff (l r : Query) (S : Nat → Bool) :
    (∃ a, (Query.or l r).archState S = some (.left a)) ↔ l.sem S = true ∧ r.sem S = false := by
  simp only [or_left_eq, sem_true_iff, sem_false_iff]
  constructor
  · rintro ⟨a, ha, hb⟩; exact ⟨⟨a, ha⟩, hb⟩
  · rintro ⟨⟨a, ha⟩, hb⟩; exact ⟨a, ha, hb⟩

/-- `Or<L, R>` produces `Or::Right` iff only the right meaning holds -/
theorem or_right_iff (l r : Query) (S : Nat → Bool) :
    (∃ b, (Query.or l r).archState S = some (.right b)) ↔ l.sem S = false ∧ r.sem S = true := by
  simp only [or_right_eq, sem_true_iff, sem_false_iff]
  constructor
  · rintro ⟨a, ha, hb⟩; exact ⟨ha, ⟨a, hb⟩⟩
  · rintro ⟨ha, ⟨a, hb⟩⟩; exact ⟨a, ha, hb⟩

/-- `Or` never produces anything but `Left`/`Right`/`Both` -/
theorem or_variants (l r : Query) (S : Nat → Bool) (st : AS) (h : (Query.or l r).archState S = some st) :
    (∃ a, st = .left a) ∨ (∃ b, st = .right b) ∨ (∃ a b, st = .both a b) := by
  simp only [Query.archState] at h
  cases hl : l.archState S <;> cases hr : r.archState S <;> simp [hl, hr] at h <;> subst h <;> simp

/-- `Xor` never produces `Both` -/
theorem xor_never_both (l r : Query) (S : Nat → Bool) (a b : AS) :
    (Query.xor l r).archState S ≠ some (.both a b) := by
  simp only [Query.archState]
  cases l.archState S <;> cases r.archState S <;> simp

theorem xor_left_eq (l r : Query) (S : Nat → Bool) (a : AS) :
    (Query.xor l r).archState S = some (.left a) ↔ l.archState S = some a ∧ r.archState S = none := by
  simp only [Query.archState]
  cases l.archState S <;> cases r.archState S <;> simp

theorem xor_right_eq (l r : Query) (S : Nat → Bool) (b : AS) :
    (Query.xor l r).archState S = some (.right b) ↔ l.archState S = none ∧ r.archState S = some b := by
  simp only [Query.archState]
  cases l.archState S <;> cases r.archState S <;> simp

/-- `Xor<L, R>` produces `Xor::Left` iff the left meaning holds and the right one does not -/
theorem xor_left_iff (l r : Query) (S : Nat → Bool) :
    (∃ a, (Query.xor l r).archState S = some (.left a)) ↔ l.sem S = true ∧ r.sem S = false := by
  simp only [xor_left_eq, sem_true_iff, sem_false_iff]
  constructor
  · rintro ⟨a, ha, hb⟩; exact ⟨⟨a, ha⟩, hb⟩
  · rintro ⟨⟨a, ha⟩, hb⟩; exact ⟨a, ha, hb⟩

/-- `Xor<L, R>` produces `Xor::Right` iff the right meaning holds and the left one does not -/
theorem xor_right_iff (l r : Query) (S : Nat → Bool) :
    (∃ b, (Query.xor l r).archState S = some (.right b)) ↔ l.sem S = false ∧ r.sem S = true := by
  simp only [xor_right_eq, sem_true_iff, sem_false_iff]
  constructor
  · rintro ⟨a, ha, hb⟩; exact ⟨ha, ⟨a, hb⟩⟩
  · rintro ⟨ha, ⟨a, hb⟩⟩; exact ⟨a, ha, hb⟩

/-- `Xor` never produces anything but `Left`/`Right` -/
theorem xor_variants (l r : Query) (S : Nat → Bool) (st : AS) (h : (Query.xor l r).archState S = some st) :
    (∃ a, st = .left a) ∨ (∃ b, st = .right b) := by
  simp only [Query.archState] at h
  cases hl : l.archState S <;> cases hr : r.archState S <;> simp [hl, hr] at h <;> subst h <;> simp

theorem opt_some_eq (q : Query) (S : Nat → Bool) (a : AS) :
    (Query.opt q).archState S = some (.optSome a) ↔ q.archState S = some a := by
  simp only [Query.archState]
  cases q.archState S <;> simp

/-- `Option<Q>` produces `Some` iff `Q`'s meaning holds … -/
theorem opt_some_iff (q : Query) (S : Nat → Bool) :
    (∃ a, (Query.opt q).archState S = some (.optSome a)) ↔ q.sem S = true := by
  simp only [opt_some_eq, sem_true_iff]

/-- … and `None` otherwise -/
theorem opt_none_iff (q : Query) (S : Nat → Bool) :
    (Query.opt q).archState S = some .optNone ↔ q.sem S = false := by
  simp only [sem_false_iff, Query.archState]
  cases q.archState S <;> simp

/-- `Has<Q>` always matches and its flag is the meaning of `Q` -/
theorem has_flag (q : Query) (S : Nat → Bool) :
    (Query.has q).archState S = some (.flag (q.sem S)) := by
  simp only [Query.archState, archState_isSome]

/-- `Not<Q>` hands out nothing -/
theorem not_triv (q : Query) (S : Nat → Bool) :
    (Query.not q).archState S = if q.sem S then none else some .triv := by
  simp only [Query.archState, ← archState_isSome]
  cases q.archState S <;> rfl

/-- `With<Q>` hands out nothing -/
theorem wth_triv (q : Query) (S : Nat → Bool) :
    (Query.wth q).archState S = if q.sem S then some .triv else none := by
  simp only [Query.archState, ← archState_isSome]
  cases q.archState S <;> rfl

/-! ## items -/

/-- `Query::get` only reads the columns its arch state refers to, and every reference in the
    produced item is the value of that column at the row -/
theorem item_reads_own_row (rd rd' : Nat → Option Nat) (ent : Nat × Nat) (st : AS) :
    ((∀ c m, (c, m) ∈ st.refs → rd c = rd' c) → st.item rd ent = st.item rd' ent) ∧
    (∀ it, st.item rd ent = some it → it.leavesFrom rd) :=
  ⟨item_congr rd rd' ent st, fun it h => item_leaves rd ent st it h⟩

/-- `Query::get` is defined (no dangling column pointer) iff all referenced columns exist … -/
theorem item_defined_iff (rd : Nat → Option Nat) (ent : Nat × Nat) (st : AS) :
    (st.item rd ent).isSome = st.refs.all fun r => (rd r.1).isSome :=
  item_isSome rd ent st

/-- … and they do exist on the archetype the state was built for -/
theorem item_defined_on_own_archetype (q : Query) (S : Nat → Bool) (st : AS)
    (h : q.archState S = some st) (rd : Nat → Option Nat) (ent : Nat × Nat)
    (hrd : ∀ c, S c = true → (rd c).isSome = true) : (st.item rd ent).isSome = true := by
  rw [item_defined_iff, List.all_eq_true]
  intro r hr
  exact hrd _ (archState_refs_present S q st h r hr)

/-! ## non-vacuity -/

/-- archetype `{0, 2}` -/
private def S02 : Nat → Bool := fun c => c == 0 || c == 2

example : (Query.or (.ref 0) (.mut 1)).archState S02 = some (.left (.col 0 false)) := by decide
example : (Query.or (.ref 0) (.mut 2)).archState S02 = some (.both (.col 0 false) (.col 2 true)) := by decide
example : (Query.xor (.ref 0) (.mut 2)).archState S02 = none := by decide
example : (Query.xor (.ref 1) (.mut 2)).archState S02 = some (.right (.col 2 true)) := by decide
example : (Query.snoc (.snoc .unit (.opt (.ref 1))) (.has (.ref 2))).archState S02
    = some (.snoc (.snoc .triv .optNone) (.flag true)) := by decide
example : (Query.snoc (.snoc .unit (.mut 0)) (.not (.ref 1))).init.matches S02 = true := by ca_eval; decide
example : (Query.snoc (.snoc .unit (.mut 0)) (.not (.ref 2))).init.matches S02 = false := by ca_eval; decide
example : (Query.snoc (.snoc .unit (.mut 0)) (.not (.ref 2))).sem S02 = false := by decide
example : (AS.both (.col 0 false) (.col 2 true)).item (fun c => some (10 * c + 7)) (3, 1)
    = some (.both (.r 0 7) (.m 2 27)) := by decide
example : (AS.col 1 true).item (fun c => if c = 1 then none else some 0) (0, 0) = none := by decide

end Evenio

#print axioms Evenio.archState_isSome_eq_sem
#print axioms Evenio.matches_init_eq_sem
#print axioms Evenio.filter_agrees_with_cache
#print axioms Evenio.or_both_iff
#print axioms Evenio.or_left_iff
#print axioms Evenio.or_right_iff
#print axioms Evenio.or_variants
#print axioms Evenio.xor_never_both
#print axioms Evenio.xor_left_iff
#print axioms Evenio.xor_right_iff
#print axioms Evenio.xor_variants
#print axioms Evenio.opt_some_iff
#print axioms Evenio.opt_none_iff
#print axioms Evenio.has_flag
#print axioms Evenio.not_triv
#print axioms Evenio.wth_triv
#print axioms Evenio.item_reads_own_row
#print axioms Evenio.item_defined_iff
#print axioms Evenio.item_defined_on_own_archetype
