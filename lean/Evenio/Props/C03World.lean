import Evenio.Proofs.Reserve
import Evenio.Props.C03
import Evenio.Props.C09
import Evenio.Model.Inv
import Evenio.Model.Step
/-!
# C03 at the level of `World` — reservations, `spawn_all`, `Despawn`

> "Every id returned by spawning — from the world or from a handler's Sender — differs from every id returned
> earlier in that world, identifies exactly one new component-less entity from the moment its Spawn event has been
> delivered (immediately on return for the world-level call), and stays valid until that entity is despawned. The id
> of a despawned entity never becomes valid again …"

`Props/C03.lean` proves the slot-map half (histories of `insertWith` / `remove`, the predictor `nextKey`).
This file connects it to the executable world model (`Model/World.lean`): `reserve` (`ReservedEntities::reserve`,
what `World::spawn` and `Sender::spawn` call to obtain the id they return), `spawnAll`
(`ReservedEntities::spawn_all`, the built-in effect of a delivered `Spawn`), `removeEntity` + `resRefresh`
(the effect of `Despawn`, with the F2 repair: reservations are materialised BEFORE a slot is freed).

The invariant is `Reserved w ks` (`Proofs/Reserve.lean`):

    w.entities.WF ∧ w.resCount = ks.length ∧
      w.entities.reserveN ks.length w.entities.nextKeyIndex = .ok ks w.resIndex

"the pending reservations are, in order, exactly the keys `ks` the slot map will hand out next
(`reserved_predicts`), and the cursor `resIndex` is where the prediction stopped".

Hypotheses that are forced by the model (all are conjuncts of the quiescent-point invariant `World.Inv`):
* `a0.index = 0` for the archetype stored at index 0 (`invArch`): `setArch` writes an archetype back at ITS OWN
  `index`, so `archSpawn` only updates slot 0 if the archetype found there says it lives there;
* `a0.comps = []` (`invArch`) for "component-less";
* in the `Despawn` theorem: the id stored at the target location is a live entity (`invStore`) — otherwise the row
  could hold a reserved (not yet live) key and `removeEntity` would remove a freshly spawned entity;
* `ArchOK` (every archetype stored at its own index + the two facts above) in the `deliverOne` theorem, because the
  handlers' `bump` action writes archetypes back through `setArch` as well.

Contents.
1. `reserved_nil_iff`, `reserved_nil_of_invPending`, `invPending_of_reserved_nil`, `reserved_predicts`,
   `reserved_fresh_local`, `reserved_fresh_reachable`, `reserved_unique`.
2. `reserve_run`, `reserve_spec`, `reserve_fresh_reachable`, `reserve_never_badState`.
3. `spawnAll_spec`, `spawnAll_all_alive`, `spawnAll_resCount`.
4. `despawn_effect_keeps_reserved`, `despawn_effectPhase_keeps_reserved`, `despawn_target_dead_and_covered`,
   `despawn_refresh_cannot_fail`, `refresh_with_pending_asserts`, `spawnAll_dead_stays_dead`.
5. `pre_fix_counterexample` (F2) on the concrete `World` `twoWorld` (closed terms are evaluated by the kernel:
   `decide +kernel`, no axiom beyond the three standard ones).
6. `handlerPhase_extends_reserved`, `spawn_delivered_all_alive` (one `deliverOne` of a `Spawn` event).
7. `relocating_effect_keeps_ids` (`Insert` / `Remove` / ordinary events).
8. `world_spawn_delivers_first`, `world_spawn_returns_live` (`opSpawn` = `World::spawn`).
9. `sender_spawn_spec` (`Sender::spawn` = the scripted action `spawn`).

NOT proved here (would need the whole quiescent-point invariant through `flush` with arbitrary handlers): that
`Reserved`/`ArchOK`/"the row holds a live id" hold at EVERY delivery of a flush (sections 4, 6, 7 are the
per-delivery preservation steps for `Reserved`; `ArchOK` is only shown to survive the handler phase, not
`newArch`/`moveEntity`), hence "valid at return of `World::spawn`" is stated as: valid from the end of the first
delivery on, the rest of the flush being a `Dfs` from that state (`world_spawn_returns_live`).
-/
namespace Evenio
open SlotMap

/-! ## 1. The reservation invariant -/

/-- With nothing reserved the invariant says: count 0 and the cursor is the slot map's `nextKeyIndex` — the
    reservation part of `World.invPending`. -/
theorem reserved_nil_iff (w : World) :
    Reserved w [] ↔ w.entities.WF ∧ w.resCount = 0 ∧ w.resIndex = w.entities.nextKeyIndex := by
  unfold Reserved
  simp only [List.length_nil, reserveN, Reserve.ok.injEq, true_and]
  constructor
  · rintro ⟨h1, h2, h3⟩; exact ⟨h1, h2, h3.symm⟩
  · rintro ⟨h1, h2, h3⟩; exact ⟨h1, h2, h3.symm⟩

/-- at a quiescent point (`World.invPending`) of a world with a well-formed entity map nothing is reserved -/
theorem reserved_nil_of_invPending {w : World} (wf : w.entities.WF) (h : w.invPending = true) : Reserved w [] := by
  unfold World.invPending at h
  simp only [Bool.and_eq_true, beq_iff_eq] at h
  exact (reserved_nil_iff w).2 ⟨wf, h.1.1, h.2⟩

/-- … and conversely `Reserved w []` with an empty queue is `invPending` -/
theorem invPending_of_reserved_nil {w : World} (h : Reserved w []) (hq : w.queue = []) : w.invPending = true := by
  obtain ⟨_, h2, h3⟩ := (reserved_nil_iff w).1 h
  unfold World.invPending
  simp [h2, h3, hq]

/-- **What the invariant means.** The next `ks.length` inserts into the entity map (whatever the initial values)
    succeed, return exactly the reserved keys `ks` in order, leave the map well formed, and its `nextKeyIndex` is
    then the reservation cursor `resIndex`. -/
theorem reserved_predicts {w : World} {ks : List Key} (h : Reserved w ks) (fs : List (Key → Loc))
    (hl : fs.length = ks.length) :
    ∃ sm', w.entities.insertMany fs = some (ks, sm') ∧ sm'.nextKeyIndex = w.resIndex ∧ sm'.WF :=
  spawn_all h.1 rfl h.2.2 fs hl

/-- Reserved ids are pairwise distinct, not (yet) valid, and were never valid: their slot was never allocated, or is
    not retired and has a generation strictly below the id's (`Covers` is the slot-map notion "issued at some time",
    `Proofs/SlotMap.lean`). -/
theorem reserved_fresh_local {w : World} {ks : List Key} (h : Reserved w ks) :
    ks.Nodup ∧ ∀ k ∈ ks, w.entities.contains k = false ∧ ¬ w.entities.Covers k ∧
      ∀ s, w.entities.slots[k.idx]? = some s → s.gen ≠ 0 ∧ s.gen < k.gen := by
  obtain ⟨nd, hf⟩ := reserveN_fresh h.1 Loc.NULL h.2.2
  refine ⟨nd, fun k hk => ?_⟩
  obtain ⟨hc, hg⟩ := hf k hk
  exact ⟨by simp [SlotMap.contains, hg], hc, not_covers_iff.1 hc⟩

/-- In a world whose entity map has the history `ops`: no reserved id was ever returned by an insert of that history
    (so it differs from every id that is or ever was valid). -/
theorem reserved_fresh_reachable {w : World} {ks : List Key} (ops : List (SMOp Loc))
    (hw : w.entities = (run ops).sm) (h : Reserved w ks) : ks.Nodup ∧ ∀ k ∈ ks, k ∉ (run ops).issued := by
  have := h.2.2
  rw [hw] at this
  exact reserved_fresh ops this Loc.NULL

/-- the pending reservations are determined by the state -/
theorem reserved_unique {w : World} {ks ks' : List Key} (h : Reserved w ks) (h' : Reserved w ks') : ks = ks' := by
  have hl : ks.length = ks'.length := h.2.1.symm.trans h'.2.1
  have := h.2.2
  rw [hl, h'.2.2] at this
  simp only [Reserve.ok.injEq] at this
  exact this.1.symm

/-! ## 2. `reserve` -/

/-- what `reserve` does, as an equation -/
theorem reserve_run (w : World) :
    reserve.run.run w =
      match w.entities.nextKey w.resIndex with
      | .key k i' => (.ok k, { w with resIndex := i', resCount := w.resCount + 1 })
      | .exhausted => (.error (.panic "capacity"), w)
      | .badState => (.error (.panic "internal:incorrect state for next key iter"), w) := by
  unfold reserve
  rw [run_bind, run_get]
  simp only
  cases w.entities.nextKey w.resIndex <;> rfl

/-- **`reserve` (the id `World::spawn` / `Sender::spawn` return).** From a reserved state, a successful `reserve`
    appends its result to the pending reservations, creates nothing (entity map and archetypes unchanged), and the id
    it returns differs from every pending reservation, is not valid, and was never valid (local form: not `Covers`,
    i.e. its slot does not exist yet or has a strictly smaller, non-retired generation). -/
theorem reserve_spec {w w' : World} {ks : List Key} {k : Key} (hr : Reserved w ks)
    (h : reserve.run.run w = (.ok k, w')) :
    Reserved w' (ks ++ [k]) ∧ k ∉ ks ∧ w'.entities = w.entities ∧ w'.archs = w.archs ∧
    w.entities.contains k = false ∧ ¬ w.entities.Covers k ∧
    (∀ s, w.entities.slots[k.idx]? = some s → s.gen ≠ 0 ∧ s.gen < k.gen) := by
  obtain ⟨wf, hc, hres⟩ := hr
  rw [reserve_run] at h
  cases hk : w.entities.nextKey w.resIndex with
  | key k0 i' =>
    rw [hk] at h
    cases h
    have hr' : Reserved { w with resIndex := i', resCount := w.resCount + 1 } (ks ++ [k]) := by
      refine ⟨wf, ?_, ?_⟩
      · show w.resCount + 1 = _
        rw [hc]; simp
      · show w.entities.reserveN (ks ++ [k]).length w.entities.nextKeyIndex = .ok (ks ++ [k]) i'
        rw [List.length_append, List.length_singleton]
        exact reserveN_snoc hres hk
    obtain ⟨nd, hf⟩ := reserved_fresh_local hr'
    have hmem : k ∈ ks ++ [k] := by simp
    obtain ⟨h1, h2, h3⟩ := hf k hmem
    refine ⟨hr', ?_, rfl, rfl, h1, h2, h3⟩
    intro hm
    have := List.nodup_append.1 nd
    exact this.2.2 k hm k (by simp) rfl
  | exhausted => rw [hk] at h; cases h
  | badState => rw [hk] at h; cases h

/-- … and in a world whose entity map has history `ops`, the id differs from every id ever returned by an insert
    of that history: from every id that is valid now or was valid earlier. -/
theorem reserve_fresh_reachable {w w' : World} {ks : List Key} {k : Key} (ops : List (SMOp Loc))
    (hw : w.entities = (run ops).sm) (hr : Reserved w ks) (h : reserve.run.run w = (.ok k, w')) :
    k ∉ (run ops).issued ∧ k ∉ (run ops).removed ∧ k ∉ ks := by
  obtain ⟨hr', hnk, he, _⟩ := reserve_spec hr h
  have := (reserved_fresh_reachable ops (he.trans hw) hr').2 k (by simp)
  exact ⟨this, fun hm => this ((removed_subset_issued ops).1 k hm), hnk⟩

/-- From a reserved state `reserve` never reaches `panic!("incorrect state for next key iter")`: it returns an id
    or panics for lack of capacity. -/
theorem reserve_never_badState {w : World} {ks : List Key} (hr : Reserved w ks) :
    w.entities.nextKey w.resIndex ≠ .badState := by
  intro hb
  have := reserveN_succ_eq hr.2.2
  rw [hb] at this
  exact nextKey_never_badState hr.1 _ this

/-! ## 3. `spawnAll` -/

/-- **`spawn_all`.** From a reserved state with pending ids `ks`, archetype 0 being `a0` (stored at its own index,
    component-less), a normal return of `spawnAll` leaves:
    * nothing reserved (`Reserved w' []`: count 0, cursor = `nextKeyIndex`);
    * every reserved id live, the `i`-th at location `⟨0, a0.ids.length + i⟩`, and that row of archetype 0 holds it:
      archetype 0 is `a0` with `ks` appended to its id list, still without components or columns changed;
    * every other archetype untouched, every key that is not one of `ks` exactly as before — in particular every
      entity that was live is live at the same location;
    * `len` grown by `ks.length`. -/
theorem spawnAll_spec {w w' : World} {ks : List Key} {a0 : Arch} (hr : Reserved w ks)
    (ha : w.archs.get 0 = some a0) (hidx : a0.index = 0) (hcomps : a0.comps = [])
    (h : spawnAll.run.run w = (.ok (), w')) :
    Reserved w' [] ∧
    (∀ i k, ks[i]? = some k → w'.entities.get k = some ⟨0, a0.ids.length + i⟩) ∧
    (∃ a', w'.archs.get 0 = some a' ∧ a'.ids = a0.ids ++ ks ∧ a'.comps = [] ∧ a'.cols = a0.cols ∧ a'.index = 0 ∧
      ∀ i k, ks[i]? = some k → a'.ids[a0.ids.length + i]? = some k) ∧
    (∀ i, i ≠ 0 → w'.archs.get i = w.archs.get i) ∧
    (∀ k, k ∉ ks → w'.entities.get k = w.entities.get k) ∧
    (∀ k l, w.entities.get k = some l → w'.entities.get k = some l) ∧
    w'.entities.len = w.entities.len + ks.length ∧
    (∀ k, w.entities.Covers k → w'.entities.Covers k) := by
  obtain ⟨w1, post, rfl⟩ := spawnAll_ok hr ha hidx h
  obtain ⟨a', harch, hids, hcomps', hidx', hcols⟩ := post.archs
  refine ⟨?_, post.new, ⟨a', ?_, hids, hcomps'.trans hcomps, hcols, hidx', ?_⟩, ?_, post.old, ?_, post.len, post.covers⟩
  · exact (reserved_nil_iff _).2 ⟨post.wf, rfl, rfl⟩
  · show w1.archs.get 0 = some a'
    rw [harch, Slab.get_set_reserve]; simp [ha]
  · intro i k hi
    rw [hids, List.getElem?_append_right (Nat.le_add_right _ _), Nat.add_sub_cancel_left]
    exact hi
  · intro i hi
    show w1.archs.get i = _
    rw [harch, Slab.get_set_reserve, if_neg (fun hc => hi hc.1)]
  · intro k l hl
    have hk : k ∉ ks := by
      intro hm
      have := ((reserved_fresh_local hr).2 k hm).1
      simp [SlotMap.contains, hl] at this
    show w1.entities.get k = some l
    rw [post.old k hk]; exact hl

/-- every reserved id is valid after `spawnAll` -/
theorem spawnAll_all_alive {w w' : World} {ks : List Key} {a0 : Arch} (hr : Reserved w ks)
    (ha : w.archs.get 0 = some a0) (hidx : a0.index = 0) (hcomps : a0.comps = [])
    (h : spawnAll.run.run w = (.ok (), w')) : ∀ k ∈ ks, w'.entities.contains k = true := by
  intro k hk
  obtain ⟨i, hi⟩ := List.getElem?_of_mem hk
  have := (spawnAll_spec hr ha hidx hcomps h).2.1 i k hi
  simp [SlotMap.contains, this]

/-- whatever the state, a normal return of `spawnAll` leaves no reservation pending -/
theorem spawnAll_resCount {w w' : World} {u : Unit} (h : spawnAll.run.run w = (.ok u, w')) :
    w'.resCount = 0 ∧ w'.resIndex = w'.entities.nextKeyIndex := by
  rw [spawnAll_eq, run_bind, run_get] at h
  simp only at h
  rw [run_bind] at h
  generalize (forIn (List.range' 0 w.resCount) PUnit.unit (fun _ _ => spawnBody)).run.run w = r at h
  obtain ⟨(e|x), w1⟩ := r
  · cases h
  · simp only [run_modify] at h
    cases h
    exact ⟨rfl, rfl⟩

/-! ## 4. The `Despawn` effect: `spawnAll; removeEntity loc; resRefresh` -/

/-- **`Despawn` keeps the reservations sound (F2 repair).** Started from a reserved state with pending ids `ks`,
    where `loc` is the location of the live entity `id`, a normal return of the effect leaves nothing reserved
    (cursor = `nextKeyIndex` of the map AFTER the removal), every reserved id valid — `id` is not one of them —, the
    target invalid, every other entity valid as before, and `len` changed by `ks.length - 1`. -/
theorem despawn_effect_keeps_reserved {w w' : World} {ks : List Key} {a0 a : Arch} {loc : Loc} {id : Key}
    (hr : Reserved w ks) (ha0 : w.archs.get 0 = some a0) (hidx : a0.index = 0) (hcomps : a0.comps = [])
    (ha : w.archs.get loc.arch = some a) (hid : a.ids[loc.row]? = some id)
    (hlive : w.entities.contains id = true)
    (h : (do spawnAll; removeEntity loc; resRefresh : M Unit).run.run w = (.ok (), w')) :
    Reserved w' [] ∧ id ∉ ks ∧ (∀ k ∈ ks, w'.entities.contains k = true) ∧ w'.entities.contains id = false ∧
    (∀ k, k ≠ id → k ∉ ks → w'.entities.contains k = w.entities.contains k) ∧
    w'.entities.len + 1 = w.entities.len + ks.length ∧
    (∀ k, w.entities.Covers k → w'.entities.Covers k) := by
  obtain ⟨w1, w2, h1, h2, h3⟩ := despawn_run_ok h
  obtain ⟨hr1, hnew, ⟨a', ha', hids', _, _, _, _⟩, hother, hold, hkeep, hlen, hcov⟩ :=
    spawnAll_spec hr ha0 hidx hcomps h1
  have hidk : id ∉ ks := by
    intro hm
    have := ((reserved_fresh_local hr).2 id hm).1
    rw [hlive] at this; cases this
  -- the row still holds `id` after `spawnAll`
  have hrow : ∃ a1, w1.archs.get loc.arch = some a1 ∧ a1.ids[loc.row]? = some id := by
    by_cases h0 : loc.arch = 0
    · rw [h0] at ha ⊢
      rw [ha0] at ha; cases ha
      refine ⟨a', ha', ?_⟩
      have hlt : loc.row < a0.ids.length := by
        rcases List.getElem?_eq_some_iff.1 hid with ⟨h, _⟩; exact h
      rw [hids', List.getElem?_append_left hlt]; exact hid
    · exact ⟨a, by rw [hother _ h0]; exact ha, hid⟩
  obtain ⟨a1, ha1, hid1⟩ := hrow
  obtain ⟨wf2, hc2, hi2, _, hgone, hstay, hdead, hpos, hlen2, hcov2⟩ :=
    removeEntity_entities ((reserved_nil_iff _).1 hr1).1 ha1 hid1 h2
  have hc2' : w2.resCount = 0 := hc2.trans ((reserved_nil_iff _).1 hr1).2.1
  rw [resRefresh_run hc2'] at h3
  cases h3
  refine ⟨(reserved_nil_iff _).2 ⟨wf2, hc2', rfl⟩, hidk, ?_, ?_, ?_, ?_, fun k hk => hcov2 k (hcov k hk)⟩
  · intro k hk
    obtain ⟨i, hi⟩ := List.getElem?_of_mem hk
    have hk1 := hnew i k hi
    have hne : k ≠ id := fun e => hidk (e ▸ hk)
    show w2.entities.contains k = true
    rcases hstay k _ hne hk1 with h | h <;> simp [SlotMap.contains, h]
  · show w2.entities.contains id = false
    simp [SlotMap.contains, hgone]
  · intro k hne hk
    show w2.entities.contains k = _
    have h1k := hold k hk
    cases hg : w.entities.get k with
    | none =>
      rw [hg] at h1k
      simp [SlotMap.contains, hg, hdead k hne h1k]
    | some l =>
      rw [hg] at h1k
      rcases hstay k l hne h1k with h | h <;> simp [SlotMap.contains, hg, h]
  · show w2.entities.len + 1 = _
    rw [hlen2, ← hlen]
    have : 0 < w1.entities.len := hpos
    omega

/-- the same for the effect phase of a delivered `Despawn` event -/
theorem despawn_effectPhase_keeps_reserved {it : QItem} {info : EvInfo} {w w' : World} {ks : List Key} {a0 a : Arch}
    {loc : Loc} {id : Key} (hkind : info.kind = .despawn)
    (hr : Reserved w ks) (ha0 : w.archs.get 0 = some a0) (hidx : a0.index = 0) (hcomps : a0.comps = [])
    (ha : w.archs.get loc.arch = some a) (hid : a.ids[loc.row]? = some id)
    (hlive : w.entities.contains id = true)
    (h : (effectPhase it info loc).run.run w = (.ok (), w')) :
    Reserved w' [] ∧ id ∉ ks ∧ (∀ k ∈ ks, w'.entities.contains k = true) ∧ w'.entities.contains id = false ∧
    (∀ k, k ≠ id → k ∉ ks → w'.entities.contains k = w.entities.contains k) ∧
    w'.entities.len + 1 = w.entities.len + ks.length ∧
    (∀ k, w.entities.Covers k → w'.entities.Covers k) := by
  rw [despawn_effect hkind] at h
  exact despawn_effect_keeps_reserved hr ha0 hidx hcomps ha hid hlive h


/-- the target of a `Despawn` is invalid afterwards and stays "covered" (its slot is retired or beyond the id's
    generation), so by `spawnAll_dead_stays_dead` no later `spawnAll` makes it valid again -/
theorem despawn_target_dead_and_covered {w w' : World} {ks : List Key} {a0 a : Arch} {loc : Loc} {id : Key}
    (hr : Reserved w ks) (ha0 : w.archs.get 0 = some a0) (hidx : a0.index = 0) (hcomps : a0.comps = [])
    (ha : w.archs.get loc.arch = some a) (hid : a.ids[loc.row]? = some id)
    (hlive : w.entities.contains id = true)
    (h : (do spawnAll; removeEntity loc; resRefresh : M Unit).run.run w = (.ok (), w')) :
    w'.entities.contains id = false ∧ w'.entities.Covers id := by
  obtain ⟨_, _, _, hdead, _, _, hcov⟩ := despawn_effect_keeps_reserved hr ha0 hidx hcomps ha hid hlive h
  refine ⟨hdead, hcov id ?_⟩
  unfold SlotMap.contains at hlive
  cases hg : w.entities.get id with
  | none => rw [hg] at hlive; cases hlive
  | some l => exact covers_of_get hg

/-- **`resRefresh`'s debug assertion cannot fail in the repaired `Despawn` effect** — from ANY state: once `spawnAll`
    has returned, no reservation is pending (`spawnAll_resCount`), `removeEntity` does not write the count
    (`removeEntity_resCount`), so `resRefresh` passes `debug_assert!(self.count == 0)` and only resets the cursor. -/
theorem despawn_refresh_cannot_fail {w w1 w2 : World} {loc : Loc} (h1 : spawnAll.run.run w = (.ok (), w1))
    (h2 : (removeEntity loc).run.run w1 = (.ok (), w2)) :
    resRefresh.run.run w2 = (.ok (), { w2 with resIndex := w2.entities.nextKeyIndex }) := by
  have hc : w2.resCount = 0 := by
    have := removeEntity_resCount loc w1
    rw [h2] at this
    exact this.trans (spawnAll_resCount h1).1
  exact resRefresh_run hc

/-- … whereas with a reservation pending and debug assertions on it does fail: this is how F2 showed in debug
    builds (pre-fix, `Despawn` ran `removeEntity; resRefresh` with reservations pending) -/
theorem refresh_with_pending_asserts {w : World} (hc : w.resCount ≠ 0) (hd : w.debug = true) :
    resRefresh.run.run w = (.error (.assert "entity.rs:refresh:count"), w) :=
  resRefresh_assert hc hd

/-- **A despawned id never becomes valid again (one `spawnAll` at a time).** An id that is not valid but was valid
    at some time (`Covers`: its slot is retired or has reached the id's generation) is none of the reserved ids, so
    it is still invalid — and still covered — after `spawnAll`. With `despawn_effect_keeps_reserved` (the target is
    invalid and covered afterwards, coverage only grows) and `relocating_effect_keeps_ids`: no effect of any
    delivery revives it. -/
theorem spawnAll_dead_stays_dead {w w' : World} {ks : List Key} {a0 : Arch} {d : Key} (hr : Reserved w ks)
    (ha : w.archs.get 0 = some a0) (hidx : a0.index = 0) (hcomps : a0.comps = [])
    (h : spawnAll.run.run w = (.ok (), w')) (hcov : w.entities.Covers d) (hdead : w.entities.contains d = false) :
    w'.entities.contains d = false ∧ w'.entities.Covers d := by
  obtain ⟨_, _, _, _, hold, _, _, hc⟩ := spawnAll_spec hr ha hidx hcomps h
  have hd : d ∉ ks := fun hm => ((reserved_fresh_local hr).2 d hm).2.1 hcov
  refine ⟨?_, hc d hcov⟩
  unfold SlotMap.contains at hdead ⊢
  rw [hold d hd]; exact hdead

/-! ## 5. F2: why the reservations must be materialised BEFORE the slot is freed -/

/-- `ReservedEntities::refresh` as compiled without debug assertions: only the cursor is reset -/
def resRefresh' : M Unit := modify fun w => { w with resIndex := w.entities.nextKeyIndex }

/-- the PRE-FIX effect of `Despawn`: remove the entity, refresh the cursor (reservations still pending) -/
def preFixDespawn (loc : Loc) : M Unit := do removeEntity loc; resRefresh'

/-- the repaired effect of `Despawn` (what `deliverOne` runs, `despawn_effect`) -/
def fixedDespawn (loc : Loc) : M Unit := do spawnAll; removeEntity loc; resRefresh

/-- a small world: two entities `0v1`, `1v1` in the component-less archetype, nothing pending -/
def twoWorld : World :=
  { entities := (run [.ins ⟨0, 0⟩, .ins ⟨0, 1⟩] : Trace Loc).sm
    resIndex := 2
    archs := { entries := [.occ { index := 0, comps := [], cols := [], ids := [⟨0, 1⟩, ⟨1, 1⟩] }], next := 1 } }

/-- value of a normal return -/
def okVal {α : Type} (r : Except Err α × World) : Option α := r.1.toOption

/-- site of a failed debug assertion -/
def assertSite {α : Type} (r : Except Err α × World) : Option String :=
  match r.1 with
  | .error (.assert s) => some s
  | _ => none

theorem run_of_okVal {α : Type} {m : M α} {w : World} {a : α} (h : okVal (m.run.run w) = some a) :
    m.run.run w = (.ok a, (m.run.run w).2) := by
  unfold okVal at h
  generalize m.run.run w = r at h
  obtain ⟨(e|x), w'⟩ := r
  · cases h
  · simp only [Except.toOption, Option.some.injEq] at h; subst h; rfl

theorem twoWorld_reserved : Reserved twoWorld [] :=
  (reserved_nil_iff _).2 ⟨wf_reachable _, rfl, by decide⟩

theorem pre_fix_counterexample :
    -- a handler (or `World::spawn`) reserves an id in `twoWorld`: it gets `2v1`
    let w1 := (reserve.run.run twoWorld).2
    -- PRE-FIX: `Despawn` of entity `0v1` (location ⟨0, 0⟩) while `2v1` is pending, then the next `spawn_all`
    let wp := ((preFixDespawn ⟨0, 0⟩).run.run w1).2
    let wp' := (spawnAll.run.run wp).2
    -- REPAIRED order
    let wr := ((fixedDespawn ⟨0, 0⟩).run.run w1).2
    Reserved twoWorld [] ∧ okVal (reserve.run.run twoWorld) = some ⟨2, 1⟩ ∧ Reserved w1 [⟨2, 1⟩] ∧
    -- pre-fix: the effect returns normally, one reservation is still pending, but the prediction is broken: the
    -- next insert returns `0v3`, not the reserved `2v1`
    okVal ((preFixDespawn ⟨0, 0⟩).run.run w1) = some () ∧ wp.resCount = 1 ∧ ¬ Reserved wp [⟨2, 1⟩] ∧
    (wp.entities.insertWith fun _ => Loc.NULL).map (·.1) = some ⟨0, 3⟩ ∧
    -- … so after the next `spawn_all` the id that was handed out is still not an entity; a stranger exists instead
    okVal (spawnAll.run.run wp) = some () ∧ wp'.entities.contains ⟨2, 1⟩ = false ∧
    wp'.entities.contains ⟨0, 3⟩ = true ∧ wp'.resCount = 0 ∧
    -- with debug assertions on, the pre-fix order with the real `resRefresh` trips `debug_assert!(count == 0)`
    assertSite ((do removeEntity ⟨0, 0⟩; resRefresh : M Unit).run.run w1) = some "entity.rs:refresh:count" ∧
    -- repaired order: returns normally, nothing pending, the reserved id is a valid entity, the target is gone
    okVal ((fixedDespawn ⟨0, 0⟩).run.run w1) = some () ∧ Reserved wr [] ∧
    wr.entities.contains ⟨2, 1⟩ = true ∧ wr.entities.contains ⟨0, 1⟩ = false ∧ wr.entities.contains ⟨1, 1⟩ = true := by
  intro w1 wp wp' wr
  have h1 : okVal (reserve.run.run twoWorld) = some ⟨2, 1⟩ := by decide +kernel
  have hs1 := reserve_spec twoWorld_reserved (run_of_okVal h1)
  have hr1 : Reserved w1 [⟨2, 1⟩] := hs1.1
  have harch : w1.archs.get 0 =
      some { index := 0, comps := [], cols := [], ids := [⟨0, 1⟩, ⟨1, 1⟩] } := by
    show (reserve.run.run twoWorld).2.archs.get 0 = _
    rw [hs1.2.2.2.1]; rfl
  have h2 : okVal ((fixedDespawn ⟨0, 0⟩).run.run w1) = some () := by decide +kernel
  have hrr : Reserved wr [] :=
    (despawn_effect_keeps_reserved (a0 := { index := 0, comps := [], cols := [], ids := [⟨0, 1⟩, ⟨1, 1⟩] })
      (a := { index := 0, comps := [], cols := [], ids := [⟨0, 1⟩, ⟨1, 1⟩] }) (loc := ⟨0, 0⟩) (id := ⟨0, 1⟩)
      hr1 harch rfl rfl harch (by decide +kernel) (by decide +kernel) (run_of_okVal h2)).1
  refine ⟨twoWorld_reserved, h1, hr1, by decide +kernel, by decide +kernel, ?_, by decide +kernel,
    by decide +kernel, by decide +kernel, by decide +kernel, by decide +kernel, by decide +kernel, h2, hrr,
    by decide +kernel, by decide +kernel, by decide +kernel⟩
  intro hc
  exact absurd hc.2.2 (by decide +kernel)


/-! ## 6. Delivery of a `Spawn` event -/

/-- **Handlers can only reserve more.** Whatever the handlers of one delivery do (and however the handler phase
    ends), they leave the entity map exactly as it was, keep the archetype discipline, and the pending reservations
    afterwards extend the ones before: `Reserved wh (ks ++ ks')`. -/
theorem handlerPhase_extends_reserved {it : QItem} {info : EvInfo} {loc : Loc} {hs : List Key} {w : World}
    {ks : List Key} (hr : Reserved w ks) (har : ArchOK w.archs) :
    let wh := ((handlerPhase it info loc hs).run.run w).2
    wh.entities = w.entities ∧ ArchOK wh.archs ∧ (∀ i, (wh.archs.get i).map (·.ids) = (w.archs.get i).map (·.ids)) ∧
      ∃ ks', Reserved wh (ks ++ ks') := by
  have hq : EV_reserve (HQ w.entities (fun i => (w.archs.get i).map (·.ids)) ks) w :=
    ⟨rfl, ⟨har, fun _ => rfl⟩, [], hr.1,
      by rw [List.append_nil]; exact hr.2.1, by rw [List.append_nil]; exact hr.2.2⟩
  obtain ⟨he, ⟨har', hids⟩, ks', wf, hc, hres⟩ :=
    (handlerPhase_hq (ents := w.entities) (ids0 := fun i => (w.archs.get i).map (·.ids)) (ks := ks)
      it info loc hs).run w hq
  have he' : ((handlerPhase it info loc hs).run.run w).2.entities = w.entities := he
  refine ⟨he', har', hids, ks', ?_, hc, ?_⟩
  · rw [he']; exact wf
  · rw [he']; exact hres

/-- **A spawned entity exists once its `Spawn` event has been delivered.** Deliver a (global) event whose registry
    entry has kind `spawn`, from a state with pending reservations `ks` (which include the id the event carries: it
    was obtained by `reserve` before the event was sent). If the delivery returns normally and no handler took the
    event — for `Spawn` no handler can: the event type is `Mutability = Immutable` (`event.rs`), `ReceiverMut<Spawn>`
    does not type-check, so `take` is impossible; the model's scripts do not enforce this, hence the hypothesis —
    then every id reserved before the delivery, and every id `ks'` the handlers reserved during it, is a valid entity
    in archetype 0 (component-less), in reservation order after the rows `a0.ids` archetype 0 had before; nothing is
    left reserved, and all other entities are unchanged. -/
theorem spawn_delivered_all_alive {it : QItem} {w w' : World} {ks : List Key} {info : EvInfo}
    (hr : Reserved w ks) (har : ArchOK w.archs)
    (hinfo : w.evInfo it = some info) (hkind : info.kind = .spawn) (hglob : it.ty.targeted = false)
    (hnt : ¬ Taken it w) (h : (deliverOne it).run.run w = (.ok (), w')) :
    ∃ ks' a0 a', w.archs.get 0 = some a0 ∧
      Reserved w' [] ∧
      (∀ i k, (ks ++ ks')[i]? = some k → w'.entities.get k = some ⟨0, a0.ids.length + i⟩) ∧
      (∀ k ∈ ks ++ ks', w'.entities.contains k = true) ∧
      w'.archs.get 0 = some a' ∧ a'.ids = a0.ids ++ (ks ++ ks') ∧ a'.comps = [] ∧
      (∀ k l, w.entities.get k = some l → w'.entities.get k = some l) ∧
      (∀ k, k ∉ ks ++ ks' → w'.entities.get k = w.entities.get k) ∧
      w'.entities.len = w.entities.len + (ks ++ ks').length := by
  obtain ⟨info', hs, loc, hl, hinfo', hm⟩ := effect_after_handlers h
  rw [hinfo] at hinfo'
  cases hinfo'
  cases hs with
  | none =>
    have := (lookupPhase_cases hl).1.1 rfl
    rw [hglob] at this
    cases this.1
  | some hs =>
    obtain ⟨owned, wh, hh, hm⟩ := hm
    cases owned with
    | true => exact absurd ⟨info, hs, loc, wh, hl, hh⟩ hnt
    | false =>
      simp only [Bool.false_eq_true, if_false] at hm
      rw [spawn_effect_is_spawnAll hkind] at hm
      have hp := handlerPhase_extends_reserved (it := it) (info := info) (loc := loc) (hs := hs) hr har
      rw [hh] at hp
      obtain ⟨he, ⟨hidxs, ah, hah, hch⟩, hids, ks', hr'⟩ := hp
      obtain ⟨_, a0, ha0, _⟩ := har
      have hidsh : ah.ids = a0.ids := by
        have := hids 0
        rw [hah, ha0] at this
        exact Option.some.inj this
      -- the state `spawnAll` runs on differs from `wh` only in the queue
      have hr'' : Reserved { wh with queue := wh.queue.reverse } (ks ++ ks') := hr'
      obtain ⟨hres, hnew, ⟨a', ha', hids', hcomps', _, _, _⟩, _, hold, hkeep, hlen, _⟩ :=
        spawnAll_spec hr'' (a0 := ah) hah (hidxs 0 ah hah) hch hm
      refine ⟨ks', a0, a', ha0, hres, ?_, ?_, ha', by rw [hids', hidsh], hcomps', ?_, ?_, ?_⟩
      · intro i k hi; rw [← hidsh]; exact hnew i k hi
      · exact spawnAll_all_alive hr'' (a0 := ah) hah (hidxs 0 ah hah) hch hm
      · intro k l hl'
        have : wh.entities.get k = some l := by rw [he]; exact hl'
        exact hkeep k l this
      · intro k hk
        have := hold k hk
        rw [this]
        show wh.entities.get k = _
        rw [he]
      · rw [hlen]
        show wh.entities.len + _ = _
        rw [he]


/-! ## 7. `Insert`, `Remove` and ordinary events -/

/-- **`Insert` / `Remove` / ordinary events do not disturb ids.** The built-in effect of an event of kind `insert`,
    `remove` or `normal` — however it ends — keeps the pending reservations exactly as they are (`Reserved w ks` is
    preserved) and leaves the set of valid ids unchanged: no id becomes valid or invalid. -/
theorem relocating_effect_keeps_ids {it : QItem} {info : EvInfo} {loc : Loc} {w : World} {ks : List Key}
    (hkind : info.kind ≠ .spawn ∧ info.kind ≠ .despawn) (hr : Reserved w ks) :
    let w' := ((effectPhase it info loc).run.run w).2
    Reserved w' ks ∧ ∀ k, w'.entities.contains k = w.entities.contains k := by
  have key : Keeps (EV_reserve (MQ ks w.entities.contains)) (effectPhase it info loc) := by
    unfold effectPhase
    have h1 := @traverseInsert_mq ks w.entities.contains
    have h2 := @traverseRemove_mq ks w.entities.contains
    have h3 := @moveEntity_mq ks w.entities.contains
    split
    · keeps
    · keeps
      all_goals first | exact h1 _ _ | exact h3 _ _ _
    · keeps
      all_goals first | exact h2 _ _ | exact h3 _ _ _
    · exact absurd (by assumption) hkind.1
    · exact absurd (by assumption) hkind.2
  exact key.run w ⟨hr, fun _ => rfl⟩


/-! ## 8. `World::spawn` -/

/-- the `Spawn` event `World::spawn` sends for `id`, as queued -/
def spawnItem (gk id : Key) : QItem := { ty := .spawn, idx := gk.idx, pay := { ent := id } }

/-- **`World::spawn`, as far as the id is concerned.** Start at a quiescent point (nothing reserved, empty queue,
    archetype discipline) of a world in which `Spawn` is registered (`gk`, kind `spawn`). On normal return with `id`:
    the id was reserved from the untouched entity map (`w1`: exactly `[id]` pending, so by `reserve_spec` it is
    fresh), its `Spawn` event is the FIRST delivery of the flush, run from `w1` with an empty queue, and the rest of
    the flush is the depth-first propagation of what that delivery queued, from the state `w''` it ended in.
    By `spawn_delivered_all_alive`, if no handler took the event (impossible for `Spawn`), `id` is a valid
    component-less entity in `w''`, i.e. from the moment its `Spawn` event has been delivered. -/
theorem world_spawn_delivers_first {w w' : World} {id gk : Key} {gi : EvInfo}
    (hr : Reserved w []) (hq : w.queue = []) (hreg : w.gevOfTy .spawn = some (gk, gi))
    (h : opSpawn.run.run w = (.ok id, w')) :
    ∃ w1 w'' wd, Reserved w1 [id] ∧ w1.entities = w.entities ∧ w1.archs = w.archs ∧ w1.gevs = w.gevs ∧
      w1.queue = [] ∧
      (deliverOne (spawnItem gk id)).run.run w1 = (.ok (), w'') ∧
      Dfs deliverOne { w'' with queue := [] } w''.queue.reverse wd ∧
      w' = { wd with arenaEpoch := wd.arenaEpoch + 1, ords := wd.ords.push id } := by
  unfold opSpawn at h
  rw [run_bind] at h
  generalize hres : reserve.run.run w = r at h
  obtain ⟨(e|k), w0⟩ := r
  · cases h
  · obtain ⟨hr0, _, he0, ha0, _⟩ := reserve_spec hr hres
    simp only at h
    rw [run_bind] at h
    generalize hsend : (sendGlobal .spawn { ent := k }).run.run w0 = r at h
    obtain ⟨(e|u), w3⟩ := r
    · cases h
    · simp only [run_bind, run_modify, run_pure] at h
      cases h
      have hw0 : w0.gevs = w.gevs ∧ w0.queue = w.queue := by
        rw [reserve_run] at hres
        cases hk : w.entities.nextKey w.resIndex with
        | key k0 i' => rw [hk] at hres; cases hres; exact ⟨rfl, rfl⟩
        | exhausted => rw [hk] at hres; cases hres
        | badState => rw [hk] at hres; cases hres
      have hreg0 : w0.gevOfTy .spawn = some (gk, gi) := by
        unfold World.gevOfTy at hreg ⊢; rw [hw0.1]; exact hreg
      unfold sendGlobal at hsend
      rw [run_bind, run_tryCatch, addGlobalEvent_registered (by decide) hreg0] at hsend
      simp only at hsend
      rw [run_bind] at hsend
      unfold push at hsend
      rw [run_modify] at hsend
      simp only at hsend
      obtain ⟨wd, hdfs, rfl⟩ := flush_is_dfs hsend
      have hqueue : w0.queue ++ [spawnItem gk id] = [spawnItem gk id] := by rw [hw0.2, hq]; rfl
      have hdfs' : Dfs deliverOne { w0 with queue := [] } [spawnItem gk id] wd := by
        have := hdfs
        simp only at this
        rw [show ({ ty := EvTy.spawn, idx := gk.idx, pay := { ent := id } } : QItem) = spawnItem gk id from rfl,
          hqueue] at this
        exact this
      obtain ⟨w'', w2, hd, hrest, hnil⟩ := effect_before_queued_events hdfs'
      cases hnil
      refine ⟨{ w0 with queue := [] }, w'', _, hr0, he0, ha0, hw0.1, rfl, hd, hrest, rfl⟩


/-- **`World::spawn` returns an id that identifies a new component-less entity from the moment its `Spawn` event
    has been delivered** — the first delivery of the call's flush. Hypotheses: quiescent start (`Reserved w []`,
    empty queue, `ArchOK`), `Spawn` registered with kind `spawn` (as `addGlobalEvent` registers it: `gevKind`), and
    no handler takes the `Spawn` event (impossible in evenio, see `spawn_delivered_all_alive`). `w''` is the state
    right after that delivery; the rest of the flush (`Dfs` from `w''`) is everything the handlers queued, which may
    of course include a `Despawn` of the new entity — "stays valid until that entity is despawned". -/
theorem world_spawn_returns_live {w w' : World} {id gk : Key} {gi : EvInfo}
    (hr : Reserved w []) (har : ArchOK w.archs) (hq : w.queue = [])
    (hreg : w.gevOfTy .spawn = some (gk, gi)) (hkind : gi.kind = .spawn)
    (h : opSpawn.run.run w = (.ok id, w')) :
    w.entities.contains id = false ∧ ¬ w.entities.Covers id ∧
    ∃ w1 w'' wd a0, w.archs.get 0 = some a0 ∧ w1.entities = w.entities ∧
      (deliverOne (spawnItem gk id)).run.run w1 = (.ok (), w'') ∧
      Dfs deliverOne { w'' with queue := [] } w''.queue.reverse wd ∧
      w' = { wd with arenaEpoch := wd.arenaEpoch + 1, ords := wd.ords.push id } ∧
      (¬ Taken (spawnItem gk id) w1 →
        w''.entities.get id = some ⟨0, a0.ids.length⟩ ∧ Reserved w'' [] ∧
        (∃ a', w''.archs.get 0 = some a' ∧ a'.comps = [] ∧ a'.ids[a0.ids.length]? = some id) ∧
        ∀ k l, w.entities.get k = some l → w''.entities.get k = some l) := by
  obtain ⟨w1, w'', wd, hr1, he1, ha1, hg1, hq1, hd, hdfs, hw'⟩ := world_spawn_delivers_first hr hq hreg h
  have hfresh := (reserved_fresh_local hr1).2 id (by simp)
  rw [he1] at hfresh
  obtain ⟨a0, ha0, _⟩ := har.2
  refine ⟨hfresh.1, hfresh.2.1, w1, w'', wd, a0, ha0, he1, hd, hdfs, hw', fun hnt => ?_⟩
  have har1 : ArchOK w1.archs := by rw [ha1]; exact har
  have hinfo : w1.evInfo (spawnItem gk id) = some gi := by
    unfold World.evInfo
    rw [show (spawnItem gk id).ty.targeted = false from rfl]
    simp only [Bool.false_eq_true, if_false]
    rw [show (spawnItem gk id).idx = gk.idx from rfl, hg1, gevOfTy_getByIndex hreg]
    rfl
  obtain ⟨ks', a0', a', ha0', hres, hnew, _, ha', hids', hcomps', hkeep, _, _⟩ :=
    spawn_delivered_all_alive hr1 har1 hinfo hkind rfl hnt hd
  rw [ha1, ha0] at ha0'
  cases ha0'
  have h0 := hnew 0 id (by simp)
  refine ⟨by simpa using h0, hres, ⟨a', ha', hcomps', ?_⟩, ?_⟩
  · rw [hids']; simp
  · intro k l hl
    exact hkeep k l (by rw [he1]; exact hl)


/-! ## 9. `Sender::spawn` -/

/-- **`Sender::spawn`.** The scripted action `spawn` of a running handler, from a reserved state, on normal return:
    it never takes the event and never touches the entity map; either it did nothing (no `Sender` parameter or the
    send budget of the script is used up), or it reserved one id `id` — fresh as in `reserve_spec` — recorded it as
    the next returned id (`ords`) and queued exactly one `Spawn` event carrying it. The entity is NOT created here:
    it is materialised when a `Spawn` (or `Despawn`) event is delivered (`spawn_delivered_all_alive`). -/
theorem sender_spawn_spec {hk : Key} {it : QItem} {loc : Loc} {w w' : World} {ks : List Key} {b : Bool}
    (hr : Reserved w ks) (h : (runAct hk it loc .spawn).run.run w = (.ok b, w')) :
    b = false ∧ w'.entities = w.entities ∧
    ((Reserved w' ks ∧ w'.queue = w.queue ∧ w'.ords = w.ords) ∨
     ∃ id idx, Reserved w' (ks ++ [id]) ∧ id ∉ ks ∧ w.entities.contains id = false ∧ ¬ w.entities.Covers id ∧
       w'.queue = w.queue ++ [{ ty := .spawn, idx := idx, pay := { ent := id } }] ∧ w'.ords = w.ords.push id) := by
  unfold runAct at h
  rw [run_bind, run_get] at h
  simp only at h
  cases hh : w.handlers.get hk with
  | none => simp only [hh] at h; cases h
  | some hi =>
    simp only [hh] at h
    split at h
    · cases h; exact ⟨rfl, rfl, Or.inl ⟨hr, rfl, rfl⟩⟩
    · rw [run_bind, takeBudget_run] at h
      by_cases hb : w.budget = 0
      · simp only [hb, if_true, Bool.false_eq_true, if_false, run_pure] at h
        cases h; exact ⟨rfl, rfl, Or.inl ⟨hr, rfl, rfl⟩⟩
      · simp only [hb, if_false, if_true] at h
        have hrb : Reserved { w with budget := w.budget - 1 } ks := hr
        rw [run_bind] at h
        generalize hres : reserve.run.run { w with budget := w.budget - 1 } = r at h
        obtain ⟨(e|id), w1⟩ := r
        · cases h
        · obtain ⟨hr1, hnk, he1, _, hnl, hnc, _⟩ := reserve_spec hrb hres
          have hq1 : w1.queue = w.queue ∧ w1.ords = w.ords := by
            rw [reserve_run] at hres
            cases hk' : ({ w with budget := w.budget - 1 } : World).entities.nextKey
                ({ w with budget := w.budget - 1 } : World).resIndex with
            | key k0 i' => rw [hk'] at hres; cases hres; exact ⟨rfl, rfl⟩
            | exhausted => rw [hk'] at hres; cases hres
            | badState => rw [hk'] at hres; cases hres
          simp only at h
          split at h
          · rw [run_bind] at h; cases h
          · rename_i fst idx _
            simp only [push, logT, run_bind, run_modify, run_get, run_pure] at h
            cases h
            refine ⟨rfl, he1, Or.inr ⟨id, idx, hr1, hnk, hnl, hnc, ?_, ?_⟩⟩
            · show w1.queue ++ _ = _
              rw [hq1.1]
            · show w1.ords.push id = _
              rw [hq1.2]


#print axioms reserved_nil_iff
#print axioms reserved_nil_of_invPending
#print axioms invPending_of_reserved_nil
#print axioms reserved_predicts
#print axioms reserved_fresh_local
#print axioms reserved_fresh_reachable
#print axioms reserved_unique
#print axioms reserve_run
#print axioms reserve_spec
#print axioms reserve_fresh_reachable
#print axioms reserve_never_badState
#print axioms spawnAll_spec
#print axioms spawnAll_all_alive
#print axioms spawnAll_resCount
#print axioms despawn_effect_keeps_reserved
#print axioms despawn_effectPhase_keeps_reserved
#print axioms despawn_refresh_cannot_fail
#print axioms refresh_with_pending_asserts
#print axioms spawnAll_dead_stays_dead
#print axioms twoWorld_reserved
#print axioms pre_fix_counterexample
#print axioms handlerPhase_extends_reserved
#print axioms spawn_delivered_all_alive
#print axioms relocating_effect_keeps_ids
#print axioms despawn_target_dead_and_covered
#print axioms world_spawn_delivers_first
#print axioms world_spawn_returns_live
#print axioms sender_spawn_spec

end Evenio
