import Evenio.Proofs.ParIter
import Evenio.Proofs.SparseMap
/-!
# C19 — parallel iteration

> "Parallel iteration over a fetcher visits exactly the entities sequential iteration visits, each
> exactly once, for every thread-pool size and every way the work gets split and stolen, so no two tasks
> ever receive the same mutable item and no matching entity is skipped."

Model: `Evenio/Model/ParIter.lean`.  A producer is the zipped fetcher cache `(state, index, count)`;
sequential iteration is `seqItems`; an execution is an outer split tree for the producer and, for every
outer position, an inner split tree for that archetype's row range; `tasks` is the list of sequential leaf
runs (what one thread folds without interleaving).

**Trusted (not proved here):** rayon's `bridge_producer_consumer` realises SOME pair of split trees
(whatever the pool size, splitter state and steals are), runs every leaf exactly once, and `split_at` of
`slice::Iter`/`Zip`/`Range<u32>` producers is `take`/`drop`.  Everything else — that no choice of trees
can duplicate, drop or alias an item — is proved below for ALL trees.
-/
namespace Evenio
namespace ParIter
variable {σ : Type}

/-- **Exactness.** For every choice of split trees the concatenation of all tasks is the sequential
    iteration, item for item and in the same order.  (So the multisets agree: nothing is skipped,
    nothing is visited twice.) -/
theorem par_exact (outer : Split) (inner : Nat → Split) (p : List (Entry σ)) :
    (tasks outer inner p).flatten = seqItems p :=
  flatten_tasks outer inner p

/-- each item is visited by the parallel run exactly as often as by the sequential run -/
theorem par_count [DecidableEq σ] (outer : Split) (inner : Nat → Split) (p : List (Entry σ))
    (x : Item σ) : (tasks outer inner p).flatten.count x = (seqItems p).count x := by
  rw [par_exact]

/-- **Disjointness.** If the archetype indices of the producer are pairwise distinct (`keys_nodup` of the
    fetcher's sparse map) then all `(index, row)` cells handed out over all tasks are pairwise
    distinct. -/
theorem par_disjoint (outer : Split) (inner : Nat → Split) {p : List (Entry σ)}
    (hp : (p.map fun e => e.2.1).Nodup) : ((tasks outer inner p).flatten.map cell).Nodup := by
  rw [par_exact]; exact nodup_seqItems_cells hp

/-- … hence no two tasks ever receive the same mutable item, and no task receives one twice. -/
theorem par_disjoint_tasks (outer : Split) (inner : Nat → Split) {p : List (Entry σ)}
    (hp : (p.map fun e => e.2.1).Nodup) :
    (tasks outer inner p).Pairwise (fun t₁ t₂ => ∀ x ∈ t₁, ∀ y ∈ t₂, cell x ≠ cell y) ∧
      ∀ t ∈ tasks outer inner p, (t.map cell).Nodup := by
  have h := par_disjoint outer inner hp
  unfold List.Nodup at h
  rw [List.pairwise_map, List.pairwise_flatten] at h
  refine ⟨h.2, fun t ht => ?_⟩
  unfold List.Nodup
  rw [List.pairwise_map]
  exact h.1 t ht

/-- **Coverage.** Every row of every cached archetype is handed to some task. -/
theorem par_covers (outer : Split) (inner : Nat → Split) {p : List (Entry σ)} {s : σ} {i n row : Nat}
    (he : (s, i, n) ∈ p) (hr : row < n) : ∃ t ∈ tasks outer inner p, (s, i, row) ∈ t := by
  rw [← List.mem_flatten, par_exact]
  unfold seqItems
  rw [List.mem_flatMap]
  exact ⟨(s, i, n), he, (mem_rows _ _).2 ⟨rfl, rfl, hr⟩⟩

/-- Conversely every item of every task is a row of a cached archetype (nothing is invented). -/
theorem par_sound (outer : Split) (inner : Nat → Split) {p : List (Entry σ)} {t : List (Item σ)}
    (ht : t ∈ tasks outer inner p) {x : Item σ} (hx : x ∈ t) :
    ∃ n, (x.1, x.2.1, n) ∈ p ∧ x.2.2 < n := by
  have : x ∈ (tasks outer inner p).flatten := List.mem_flatten.2 ⟨t, ht, hx⟩
  rw [par_exact] at this
  unfold seqItems at this
  obtain ⟨⟨s, i, n⟩, he, hm⟩ := List.mem_flatMap.1 this
  obtain ⟨h1, h2, h3⟩ := (mem_rows _ _).1 hm
  exact ⟨n, by rw [h1, h2]; exact he, h3⟩

/-! ### the producer of a fetcher -/

/-- `ParIter { arch_states: map.values(), arch_indices: map.keys(), archetypes }` as a producer;
    `count i` is `archetypes.get(i).entity_count()` -/
def producerOf (m : SparseMap σ) (count : Nat → Nat) : List (Entry σ) :=
  (m.keys.zip m.values).map fun kv => (kv.2, kv.1, count kv.1)

theorem producerOf_indices {m : SparseMap σ} (hw : m.WF) (count : Nat → Nat) :
    ((producerOf m count).map fun e => e.2.1) = m.keys := by
  unfold producerOf
  rw [List.map_map]
  exact List.map_fst_zip (Nat.le_of_eq (SparseMap.keys_length_eq_values_length hw))

/-- `zip_eq` does not panic: both slices have the same length -/
theorem producerOf_length {m : SparseMap σ} (hw : m.WF) (count : Nat → Nat) :
    (producerOf m count).length = m.keys.length ∧ m.keys.length = m.values.length := by
  have := SparseMap.keys_length_eq_values_length hw
  simp [producerOf, this]

/-- **C19 for a well-formed fetcher cache**: for every thread-pool behaviour (= every choice of split
    trees) the tasks' concatenation is the sequential iteration, all cells over all tasks are pairwise
    distinct, and every row of every archetype the fetcher matches is handed to some task. -/
theorem par_fetcher {m : SparseMap σ} (hw : m.WF) (count : Nat → Nat) (outer : Split)
    (inner : Nat → Split) :
    (tasks outer inner (producerOf m count)).flatten = seqItems (producerOf m count) ∧
    ((tasks outer inner (producerOf m count)).flatten.map cell).Nodup ∧
    (∀ i s row, m.get i = some s → row < count i →
      ∃ t ∈ tasks outer inner (producerOf m count), (s, i, row) ∈ t) := by
  refine ⟨par_exact _ _ _, par_disjoint _ _ ?_, ?_⟩
  · rw [producerOf_indices hw]; exact SparseMap.keys_nodup hw
  · intro i s row hg hr
    have := (SparseMap.keys_values_aligned hw i s).1 hg
    refine par_covers outer inner (n := count i) ?_ hr
    unfold producerOf
    exact List.mem_map.2 ⟨(i, s), this, rfl⟩

/-! ### non-vacuity -/
section Examples

def exP : List (Entry Char) := [('a', 7, 3), ('b', 2, 0), ('c', 4, 2)]

def exOuter : Split := .node 1 .leaf (.node 5 .leaf .leaf)
def exInner : Nat → Split
  | 0 => .node 2 (.node 1 .leaf .leaf) .leaf
  | _ => .leaf

example : tasks exOuter exInner exP =
    [[('a', 7, 0)], [('a', 7, 1)], [('a', 7, 2)], [], [('c', 4, 0), ('c', 4, 1)]] := by decide

example : seqItems exP = [('a', 7, 0), ('a', 7, 1), ('a', 7, 2), ('c', 4, 0), ('c', 4, 1)] := by decide

/-- the `Nodup` hypothesis of `par_disjoint` is needed: a producer that lists an archetype twice hands
    the same cell to two different tasks -/
example : ¬ ((tasks (.node 1 .leaf .leaf) (fun _ => .leaf) [('a', 7, 1), ('a', 7, 1)]).flatten.map
    cell).Nodup := by decide

end Examples

end ParIter
end Evenio

#print axioms Evenio.ParIter.par_exact
#print axioms Evenio.ParIter.par_count
#print axioms Evenio.ParIter.par_disjoint
#print axioms Evenio.ParIter.par_disjoint_tasks
#print axioms Evenio.ParIter.par_covers
#print axioms Evenio.ParIter.par_sound
#print axioms Evenio.ParIter.par_fetcher
