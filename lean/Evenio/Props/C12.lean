import Evenio.Proofs.StorageOps
/-!
# C12

> Every component value that entered storage is destroyed exactly once — when it is overwritten, removed, its
> entity despawned … — and it is never destroyed while still reachable through the API nor reachable after being
> destroyed.

Ledger theorems for the pure counterparts (`Evenio/Model/StoragePure.lean`) of `moveEntity` / `removeEntity`.
`Store.cells st` is the list of all cells of all columns of all archetypes; the operations return the list of
cells whose destructor runs (`dropped`).  Conservation is stated as a permutation (`List.Perm`, multiset equality):
every stored or newly supplied cell is afterwards either still stored or in `dropped`, exactly once.
-/
namespace Evenio
open SparseMap (swapRemove)
open Store

/-! ## the merge loop -/

/-- Conservation for the `loop` of `move_entity`: the cells of both archetypes' columns plus the supplied new cells
    are, as a multiset, the cells of the resulting columns plus the dropped cells.  (`hnew` is what rules out
    supplied cells that the loop never consumes: they would be neither stored nor dropped.) -/
theorem moveCols_ledger (row : Nat) (scs : List Nat) (scols : List (List Cell)) (dcs : List Nat)
    (dcols : List (List Cell)) (new : List (Nat × Cell)) (r : MoveCols)
    (h : moveCols row scs scols dcs dcols new = some r)
    (hs : scs.Pairwise (· < ·)) (hd : dcs.Pairwise (· < ·))
    (hnew : new.map (·.1) = dcs.filter (fun c => !scs.contains c)) :
    (scols.flatten ++ dcols.flatten ++ new.map (·.2)).Perm (r.src.flatten ++ r.dst.flatten ++ r.dropped) := by
  rw [List.perm_iff_count]
  intro y
  have := moveCols_count row scs scols dcs dcols new r h hs hd hnew y
  simp only [List.count_append]
  omega

/-! ## the store operations -/

/-- Conservation for `moveEntity` (all cases: `Column::assign` in place, or the merge between two archetypes).
    `hnew` (needed only in the two-archetype case) says that `new` lists exactly the components of the destination
    that the source lacks, in order — the contract under which `World.lean` calls `moveEntity`. -/
theorem move_ledger {st st' : Store} {src : Loc} {dst : Nat} {new : List (Nat × Cell)} {dr : List Cell}
    (hwf : st.WF) (h : st.moveEntity src dst new = some (st', dr))
    (hnew : src.arch ≠ dst → ∀ sa da, st.archs[src.arch]? = some sa → st.archs[dst]? = some da →
      new.map (·.1) = da.comps.filter (fun c => !sa.comps.contains c)) :
    (st.cells ++ new.map (·.2)).Perm (st'.cells ++ dr) := by
  rw [List.perm_iff_count]
  intro y
  by_cases he : src.arch = dst
  · obtain ⟨a, a', m⟩ := moveEntity_same_inv he h
    exact m.count y
  · obtain ⟨sa, da, r, eid, m⟩ := moveEntity_ne_inv he h
    exact m.count he hwf (hnew he sa da m.hsa m.hda) y

/-- Conservation for `removeEntity`, and the dropped cells are exactly the removed entity's component values (one
    per component of its archetype, in component order). -/
theorem remove_ledger {st st' : Store} {e : Key} {loc : Loc} {dr : List Cell}
    (hwf : st.WF) (hloc : st.loc e = some loc) (h : st.removeEntity loc = some (st', dr)) :
    st.cells.Perm (st'.cells ++ dr) ∧
    ∃ cs, st.comps e = some cs ∧ dr.map some = cs.map (st.get e) := by
  obtain ⟨a, id, m⟩ := removeEntity_inv h
  have : id = e := by
    have h1 : st.loc id = some loc := (hwf.loc_iff _ _).mpr (by rw [rowId_of_arch m.ha]; exact m.hid)
    have h2 := (hwf.loc_iff _ _).mp hloc
    rw [(hwf.loc_iff _ _).mp h1] at h2; exact Option.some.inj h2
  subst this
  refine ⟨?_, a.comps, by simp [Store.comps, hloc, m.ha], m.dropped_eq hwf⟩
  rw [List.perm_iff_count]
  intro y
  exact m.count hwf y

/-! ## destroyed ⇒ unreachable, reachable ⇒ not destroyed -/

/-- the common core: if `before ~ after ++ dropped` and the serials of `before` are pairwise distinct, then every
    serial is dropped at most once, and no cell read from `after` shares a serial with a dropped cell -/
theorem dropped_disjoint {before after dropped : List Cell} (hperm : before.Perm (after ++ dropped))
    (hnd : (before.map (·.ser)).Nodup) :
    (dropped.map (·.ser)).Nodup ∧ ∀ y ∈ after, ∀ d ∈ dropped, y.ser ≠ d.ser := by
  have h1 : ((after ++ dropped).map (·.ser)).Nodup := (hperm.map _).nodup_iff.mp hnd
  rw [List.map_append, List.nodup_append] at h1
  refine ⟨h1.2.1, ?_⟩
  intro y hy d hd
  exact h1.2.2 _ (List.mem_map_of_mem hy) _ (List.mem_map_of_mem hd)

/-- If all serials among the stored and the newly supplied cells are distinct, then after `moveEntity`: no serial is
    dropped twice; a dropped cell's serial is not reachable via `get` of any entity; and no reachable cell is in
    `dropped`. -/
theorem dropped_not_reachable {st st' : Store} {src : Loc} {dst : Nat} {new : List (Nat × Cell)} {dr : List Cell}
    (hwf : st.WF) (h : st.moveEntity src dst new = some (st', dr))
    (hnew : src.arch ≠ dst → ∀ sa da, st.archs[src.arch]? = some sa → st.archs[dst]? = some da →
      new.map (·.1) = da.comps.filter (fun c => !sa.comps.contains c))
    (hnd : ((st.cells ++ new.map (·.2)).map (·.ser)).Nodup) :
    (dr.map (·.ser)).Nodup ∧
    (∀ d ∈ dr, ∀ e' c' y, st'.get e' c' = some y → y.ser ≠ d.ser) ∧
    (∀ e' c' y, st'.get e' c' = some y → y ∉ dr) := by
  obtain ⟨h1, h2⟩ := dropped_disjoint (move_ledger hwf h hnew) hnd
  refine ⟨h1, fun d hd e' c' y hy => h2 y (get_mem_cells hy) d hd, ?_⟩
  intro e' c' y hy hmem
  exact h2 y (get_mem_cells hy) y hmem rfl

/-- The same for `removeEntity` (despawn). -/
theorem remove_dropped_not_reachable {st st' : Store} {e : Key} {loc : Loc} {dr : List Cell}
    (hwf : st.WF) (hloc : st.loc e = some loc) (h : st.removeEntity loc = some (st', dr))
    (hnd : (st.cells.map (·.ser)).Nodup) :
    (dr.map (·.ser)).Nodup ∧
    (∀ d ∈ dr, ∀ e' c' y, st'.get e' c' = some y → y.ser ≠ d.ser) ∧
    (∀ e' c' y, st'.get e' c' = some y → y ∉ dr) := by
  obtain ⟨h1, h2⟩ := dropped_disjoint (remove_ledger hwf hloc h).1 hnd
  refine ⟨h1, fun d hd e' c' y hy => h2 y (get_mem_cells hy) d hd, ?_⟩
  intro e' c' y hy hmem
  exact h2 y (get_mem_cells hy) y hmem rfl

/-- Nothing is destroyed that was not there: every dropped cell was stored before the operation (a supplied new
    cell is never dropped by the move that stores it, given distinct serials). -/
theorem move_dropped_was_stored {st st' : Store} {src : Loc} {dst : Nat} {new : List (Nat × Cell)} {dr : List Cell}
    (hwf : st.WF) (h : st.moveEntity src dst new = some (st', dr))
    (hnew : src.arch ≠ dst → ∀ sa da, st.archs[src.arch]? = some sa → st.archs[dst]? = some da →
      new.map (·.1) = da.comps.filter (fun c => !sa.comps.contains c)) :
    ∀ d ∈ dr, d ∈ st.cells ∨ d ∈ new.map (·.2) := by
  intro d hd
  have := (move_ledger hwf h hnew).mem_iff (a := d)
  exact List.mem_append.mp (this.mpr (List.mem_append.mpr (Or.inr hd)))

/-- `spawn` neither stores nor destroys any cell. -/
theorem spawn_ledger (st : Store) (id : Key) (he : st.HasEmpty) : (st.spawn id).cells = st.cells := by
  obtain ⟨a0, ha0, _⟩ := he
  obtain ⟨hlt, rfl⟩ := List.getElem?_eq_some_iff.mp ha0
  simp only [Store.spawn, List.getElem?_eq_getElem hlt, Store.cells]
  rw [List.flatMap_eq_foldl, List.flatMap_eq_foldl]
  generalize ([] : List Cell) = acc
  have : ∀ (l : List Arch) (acc : List Cell) (h : 0 < l.length),
      List.foldl (fun acc a => acc ++ a.cols.flatten) acc (l.set 0 { l[0] with ids := l[0].ids ++ [id] })
        = List.foldl (fun acc a => acc ++ a.cols.flatten) acc l := by
    intro l acc h
    cases l with
    | nil => simp at h
    | cons a l => simp
  exact this st.archs acc hlt

/-! ## non-vacuity -/

example : ((ex0.cells ++ [(⟨777, 9⟩ : Cell)]).map (·.ser)).Nodup := by decide
example : ex0.cells.length = 8 := by decide

end Evenio

#print axioms Evenio.moveCols_ledger
#print axioms Evenio.move_ledger
#print axioms Evenio.remove_ledger
#print axioms Evenio.dropped_disjoint
#print axioms Evenio.dropped_not_reachable
#print axioms Evenio.remove_dropped_not_reachable
#print axioms Evenio.move_dropped_was_stored
#print axioms Evenio.spawn_ledger
