import Evenio.Proofs.Listeners
import Evenio.Props.C06
/-!
# C08 — targeted delivery

> "A targeted event is delivered to exactly those handlers listening for that event type whose receiver query matches
> the target's component set at the moment of delivery (not when it was sent) … If the target does not exist at
> delivery time no handler runs and the event is discarded. A handler is never invoked for a target that one of its
> receiver queries does not match."

How the model delivers a targeted event (`deliverOne`, `World.lean`): when the event is POPPED it looks up the target's
location in `entities`, then the archetype stored at that location, then that archetype's listener table for the
event's index, and runs the handlers of that list front to back. So "exactly those handlers … at the moment of
delivery" splits into

1. the listener filter of a handler is the conjunction of all its receiver queries (`setFilter_matches`, F7 repair),
   and `matches` is the documented Boolean meaning (C06);
2. `Archetype::register_handler` puts a handler into the table of the event it receives iff that filter matches the
   archetype's component set, and touches nothing else (`registerHandler_spec`, `registerHandler_mem_iff`);
3. the validated invariant conjunct `invListeners` says the tables ARE exact; `listeners_exact_pick` turns the Bool
   into the statement, `listeners_exact_mem` into a membership characterisation;
4. the lookup happens in the state the event is popped in (`targeted_lookup_is_at_pop_time`), a missing target runs
   no handler and drops the event, and the handler loop invokes nothing outside the looked-up list
   (`delivered_exactly_to_matching`, `never_invoked_for_unmatched`);
5. every registry entry `try_add_handler` creates really has the filter of 1. (`registered_filter_is_conjunction`, a
   triple over the monadic `addHandler`), it keeps it (`filterOk_stable_under_delivery`), and therefore a handler in a
   listener list finds a cached arch state for every one of its receivers (`recv_fetch_defined`: the F7 undefined
   behaviour is gone).

Helper definitions and lemmas: `Evenio/Proofs/Listeners.lean`.
-/
namespace Evenio

/-! ## 1. the listener filter is the conjunction of the receiver queries -/

/-- "A handler is never invoked for a target that ONE OF its receiver queries does not match": `Config.setFilter`,
    folded over the access expressions `cas` of the handler's targeted receivers starting from the default
    `HandlerConfig`, yields a filter that matches an archetype iff ALL of them do. -/
theorem setFilter_matches (cas : List CA) (hne : cas ≠ []) (S : Nat → Bool) :
    (cas.foldl Config.setFilter ({} : Config)).filter.matches S = cas.all (·.matches S) := by
  cases cas with
  | nil => exact absurd rfl hne
  | cons c cas => exact foldl_setFilter_unset c cas {} rfl S

/-- … from any configuration whose filter has not been set yet (the other `Config` fields are irrelevant) -/
theorem setFilter_matches_from (cfg : Config) (hs : cfg.filterSet = false) (cas : List CA) (hne : cas ≠ [])
    (S : Nat → Bool) : (cas.foldl Config.setFilter cfg).filter.matches S = cas.all (·.matches S) := by
  cases cas with
  | nil => exact absurd rfl hne
  | cons c cas => exact foldl_setFilter_unset c cas cfg hs S

/-- a further receiver only narrows the filter -/
theorem setFilter_matches_and (cfg : Config) (hs : cfg.filterSet = true) (ca : CA) (S : Nat → Bool) :
    (cfg.setFilter ca).filter.matches S = (cfg.filter.matches S && ca.matches S) := by
  have := (foldl_setFilter_set [ca] cfg hs S).2
  simpa using this

/-- with C06: the filter matches exactly the archetypes every receiver query's documented meaning selects -/
theorem setFilter_matches_queries (qs : List Query) (hne : qs ≠ []) (S : Nat → Bool) :
    ((qs.map Query.init).foldl Config.setFilter ({} : Config)).filter.matches S = qs.all (·.sem S) := by
  rw [setFilter_matches _ (by simpa using hne), List.all_map]
  congr 1
  funext q
  exact matches_init_eq_sem q S

/-- one receiver: the filter is its query -/
theorem setFilter_matches_one (q : Query) (S : Nat → Bool) :
    (({} : Config).setFilter q.init).filter.matches S = q.sem S := by
  have := setFilter_matches_queries [q] (by simp) S
  simpa using this

/-! ## 2. `Archetype::register_handler` -/

/-- a normal return of the monadic `Arch.registerHandler`: the archetype is the pure `registerPure`; the world is
    only changed through `handlerRefresh`, which only rewrites the fetcher caches of the handler itself -/
theorem registerHandler_ok {a : Arch} {h : HInfo} {w : World} {a' : Arch} {w' : World}
    (hr : (a.registerHandler h).run.run w = (.ok a', w')) :
    a' = a.registerPure h ∧
    (w' = w ∨ ∃ hi, w.handlers.get h.key = some hi ∧
      w' = { w with handlers := w.handlers.set h.key (hi.refreshed a) }) := by
  rw [registerHandler_run] at hr
  split at hr
  · rw [handlerRefresh_run] at hr
    cases hg : w.handlers.get h.key with
    | none => rw [hg] at hr; cases hr
    | some hi =>
      rw [hg] at hr
      dsimp only at hr
      by_cases hd : (w.debug && !(a.ids.length != 0)) = true
      · rw [if_pos hd] at hr; cases hr
      · rw [if_neg hd] at hr
        cases hr
        exact ⟨rfl, .inr ⟨hi, rfl, rfl⟩⟩
  · cases hr
    exact ⟨rfl, .inl rfl⟩

/-- Specification of `Archetype::register_handler` on normal return (`SparseMap.WF`: C19's invariant of the
    listener table). -/
theorem registerHandler_spec {a : Arch} {h : HInfo} {w : World} {a' : Arch} {w' : World}
    (hw : SparseMap.WF a.listeners) (hr : (a.registerHandler h).run.run w = (.ok a', w')) :
    -- a targeted receiver whose filter matches is inserted, by priority, into the table of its event
    (h.recv.targeted = true ∧ h.filter.matches a.S = true →
      a'.listeners.get h.recvIdx = some (((a.listeners.get h.recvIdx).getD {}).insert h.key h.prio) ∧
      ∀ t, t ≠ h.recvIdx → a'.listeners.get t = a.listeners.get t) ∧
    -- otherwise no table changes
    (¬ (h.recv.targeted = true ∧ h.filter.matches a.S = true) → a'.listeners = a.listeners) ∧
    -- the refresh set gains the handler iff its archetype filter matches
    (∀ x, x ∈ a'.refresh ↔ x ∈ a.refresh ∨ (x = h.key ∧ h.archFilter.matches a.S = true)) ∧
    (a.refresh.Nodup → a'.refresh.Nodup) ∧
    -- nothing else of the archetype changes
    a'.index = a.index ∧ a'.comps = a.comps ∧ a'.cols = a.cols ∧ a'.ids = a.ids ∧ a'.cap = a.cap ∧
    a'.epoch = a.epoch ∧ a'.insEdges = a.insEdges ∧ a'.remEdges = a.remEdges ∧
    -- the world is only changed through `handlerRefresh` (the handler's own fetcher caches)
    (w' = w ∨ ∃ hi, w.handlers.get h.key = some hi ∧
      w' = { w with handlers := w.handlers.set h.key (hi.refreshed a) }) := by
  obtain ⟨rfl, hworld⟩ := registerHandler_ok hr
  exact ⟨fun hc => ⟨registerPure_get_same a h hw hc.1 hc.2, fun t ht => registerPure_get_other a h hw ht⟩,
    registerPure_listeners_of_not a h, mem_registerPure_refresh a h, registerPure_refresh_nodup a h,
    registerPure_index a h, registerPure_comps a h, registerPure_cols a h, registerPure_ids a h,
    registerPure_cap a h, registerPure_epoch a h, registerPure_insEdges a h, registerPure_remEdges a h, hworld⟩

/-- the table stays well formed as long as event indices stay below a bound `N < u32::MAX` -/
theorem registerHandler_keeps_wf {a : Arch} {h : HInfo} {w : World} {a' : Arch} {w' : World}
    (hw : SparseMap.WF a.listeners) {N : Nat} (hN : N < U32MAX) (hb : ∀ k ∈ a.listeners.keys, k < N)
    (hi : h.recvIdx < N) (hr : (a.registerHandler h).run.run w = (.ok a', w')) :
    SparseMap.WF a'.listeners ∧ ∀ k ∈ a'.listeners.keys, k < N := by
  obtain ⟨rfl, -⟩ := registerHandler_ok hr
  exact registerPure_listeners_wf a h hw hN hb hi

/-- Who is in which list afterwards (`listenersFor t` is the list `deliverOne` iterates for event index `t`): the old
    members, plus the handler itself in the list of the event it receives iff its filter matches the archetype. -/
theorem registerHandler_mem_iff' {a : Arch} {h : HInfo} {w : World} {a' : Arch} {w' : World}
    (hw : SparseMap.WF a.listeners) (hr : (a.registerHandler h).run.run w = (.ok a', w')) (t : Nat) (x : Key) :
    x ∈ a'.listenersFor t ↔
      x ∈ a.listenersFor t ∨ (x = h.key ∧ h.recv.targeted = true ∧ t = h.recvIdx ∧ h.filter.matches a.S = true) := by
  obtain ⟨rfl, -⟩ := registerHandler_ok hr
  exact mem_listenersFor_registerPure a h hw t x

theorem registerHandler_mem_iff {a : Arch} {h : HInfo} {w : World} {a' : Arch} {w' : World}
    (hw : SparseMap.WF a.listeners) (hr : (a.registerHandler h).run.run w = (.ok a', w')) (t : Nat) :
    h.key ∈ a'.listenersFor t ↔
      h.key ∈ a.listenersFor t ∨ (h.recv.targeted = true ∧ t = h.recvIdx ∧ h.filter.matches a.S = true) := by
  rw [registerHandler_mem_iff' hw hr]
  simp

/-- the new handler goes to the end of its priority class; the order of the others is untouched (with C07) -/
theorem registerHandler_segments {a : Arch} {h : HInfo} {w : World} {a' : Arch} {w' : World}
    (hw : SparseMap.WF a.listeners) (hr : (a.registerHandler h).run.run w = (.ok a', w'))
    (ht : h.recv.targeted = true) (hm : h.filter.matches a.S = true)
    (hinv : ((a.listeners.get h.recvIdx).getD {}).Inv) :
    ∃ l', a'.listeners.get h.recvIdx = some l' ∧ l'.Inv ∧
      (l'.hi, l'.me, l'.lo) =
        match h.prio with
        | .high => (((a.listeners.get h.recvIdx).getD {}).hi ++ [h.key], ((a.listeners.get h.recvIdx).getD {}).me,
            ((a.listeners.get h.recvIdx).getD {}).lo)
        | .medium => (((a.listeners.get h.recvIdx).getD {}).hi, ((a.listeners.get h.recvIdx).getD {}).me ++ [h.key],
            ((a.listeners.get h.recvIdx).getD {}).lo)
        | .low => (((a.listeners.get h.recvIdx).getD {}).hi, ((a.listeners.get h.recvIdx).getD {}).me,
            ((a.listeners.get h.recvIdx).getD {}).lo ++ [h.key]) := by
  obtain ⟨rfl, -⟩ := registerHandler_ok hr
  exact ⟨_, registerPure_get_same a h hw ht hm, HandlerList.insert_inv hinv _ _,
    HandlerList.insert_segments hinv _ _⟩

/-! ## 3. the tables are exact (`invListeners`) -/

/-- The validated invariant conjunct `World.invListeners`, as a statement: for every live archetype `a` and every
    live targeted event `tk`, the list `deliverOne` would iterate for `tk` on a target in `a` is exactly the live
    handlers that receive `tk` and whose filter matches `a`'s component set NOW, High before Medium before Low, each
    class in insertion order (`handlersWhere`). -/
theorem listeners_exact_pick {w : World} (hinv : w.invListeners = true) {i : Nat} {a : Arch}
    (ha : w.archs.get i = some a) {tk : Key} {info : EvInfo} (ht : (tk, info) ∈ w.tevs.toList) :
    a.listenersFor tk.idx =
      w.handlersWhere (fun h => h.recv.targeted && h.recvKey == tk && h.filter.matches a.S) :=
  invListeners_pick hinv ha ht

/-- the same with the event looked up by key (`SlotMap.WF`: C03) -/
theorem listeners_exact_pick_get {w : World} (hinv : w.invListeners = true) (wfT : SlotMap.WF w.tevs) {i : Nat}
    {a : Arch} (ha : w.archs.get i = some a) {tk : Key} {info : EvInfo} (ht : w.tevs.get tk = some info) :
    a.listenersFor tk.idx =
      w.handlersWhere (fun h => h.recv.targeted && h.recvKey == tk && h.filter.matches a.S) :=
  invListeners_pick hinv ha ((SlotMap.mem_toList_iff wfT tk info).2 ht)

/-- … and with the event looked up by index, as `deliverOne` does -/
theorem listeners_exact_pick_idx {w : World} (hinv : w.invListeners = true) {i : Nat} {a : Arch}
    (ha : w.archs.get i = some a) {t : Nat} {tk : Key} {info : EvInfo} (ht : w.tevs.getByIndex t = some (tk, info)) :
    a.listenersFor t =
      w.handlersWhere (fun h => h.recv.targeted && h.recvKey == tk && h.filter.matches a.S) := by
  obtain ⟨hm, hidx⟩ := SlotMap.getByIndex_mem_toList ht
  rw [← hidx]
  exact invListeners_pick hinv ha hm

/-- membership: EXACTLY the live handlers listening for the event whose filter matches the archetype -/
theorem listeners_exact_mem {w : World} (hinv : w.invListeners = true) {i : Nat} {a : Arch}
    (ha : w.archs.get i = some a) {t : Nat} {tk : Key} {info : EvInfo} (ht : w.tevs.getByIndex t = some (tk, info))
    (hk : Key) :
    hk ∈ a.listenersFor t ↔
      hk ∈ w.byInsertOrder ∧ ∃ h, w.handlers.get hk = some h ∧
        h.recv.targeted = true ∧ h.recvKey = tk ∧ h.filter.matches a.S = true := by
  rw [listeners_exact_pick_idx hinv ha ht, mem_handlersWhere]
  simp only [Bool.and_eq_true, beq_iff_eq, and_assoc]

/-- the cursors of the list delimit the priority classes -/
theorem listeners_exact_cursors {w : World} (hinv : w.invListeners = true) {i : Nat} {a : Arch}
    (ha : w.archs.get i = some a) {tk : Key} {info : EvInfo} (ht : (tk, info) ∈ w.tevs.toList)
    {l : HandlerList Key} (hl : a.listeners.get tk.idx = some l) :
    l.before = (l.entries.filter fun k => (w.handlers.get k).any (·.prio == .high)).length ∧
    l.after = (l.entries.filter fun k => (w.handlers.get k).any (·.prio != .low)).length := by
  unfold World.invListeners at hinv
  rw [List.all_eq_true] at hinv
  have h1 := hinv (i, a) ((Slab.mem_toList_iff _ _ _).2 ha)
  simp only [Bool.and_eq_true, List.all_eq_true] at h1
  have h2 := h1.1 (tk, info) ht
  rw [hl] at h2
  simp only [Bool.and_eq_true, beq_iff_eq] at h2
  obtain ⟨⟨e1, e2⟩, e3⟩ := h2
  rw [e1]
  exact ⟨e2, e3⟩

/-! ## 4. the lookup happens when the event is popped -/

/-- `deliverOne` on a targeted event whose type is registered, from ANY state `w` (the state the event is popped
    in, however long ago it was sent):
    * the target does not exist in `w`: no handler runs — the whole delivery is "drop the event if it needs drop";
    * the target exists in `w`, at `loc`, in archetype `a` of `w`: the delivery is `deliverBody` over the list the
      archetype `a` holds in `w` for the event (`deliverBody`: `for hk in hs do runHandler hk …`, then the
      disposition). -/
theorem targeted_lookup_is_at_pop_time (it : QItem) (w : World) (k : Key) (info : EvInfo)
    (ht : it.ty.targeted = true) (hev : w.tevs.getByIndex it.idx = some (k, info)) :
    (w.entities.get it.target = none →
      (deliverOne it).run.run w = (if info.needsDrop then dropEvent it else pure ()).run.run w) ∧
    (∀ loc a, w.entities.get it.target = some loc → w.archs.get loc.arch = some a →
      (deliverOne it).run.run w = (deliverBody it info (a.listenersFor it.idx) loc).run.run w) :=
  ⟨deliverOne_target_missing it w k info ht hev,
   fun loc a hloc ha => deliverOne_target_live it w k info loc a ht hev hloc ha⟩

/-- a discarded event runs no handler and changes nothing but the drop ledger -/
theorem missing_target_discards (it : QItem) (w : World) (k : Key) (info : EvInfo)
    (ht : it.ty.targeted = true) (hev : w.tevs.getByIndex it.idx = some (k, info))
    (hno : w.entities.get it.target = none) :
    ∃ w', (deliverOne it).run.run w = (.ok (), w') ∧ w'.out = w.out ∧ w'.queue = w.queue ∧
      w'.entities = w.entities ∧ w'.archs = w.archs ∧ w'.handlers = w.handlers := by
  rw [deliverOne_target_missing it w k info ht hev hno]
  split
  · unfold dropEvent
    split
    · exact ⟨_, rfl, rfl, rfl, rfl, rfl, rfl⟩
    · exact ⟨_, rfl, rfl, rfl, rfl, rfl, rfl⟩
    · unfold dropCell
      split
      · exact ⟨_, rfl, rfl, rfl, rfl, rfl, rfl⟩
      · exact ⟨_, rfl, rfl, rfl, rfl, rfl, rfl⟩
    · exact ⟨_, rfl, rfl, rfl, rfl, rfl, rfl⟩
  · exact ⟨_, rfl, rfl, rfl, rfl, rfl, rfl⟩

/-- The property, assembled: in a state satisfying `invListeners`, a targeted event whose target exists is
    delivered by running — in list order, until one takes the event — exactly the handlers `hs` with
    `hk ∈ hs ↔ hk is live, receives this event type, and its filter matches the target's CURRENT archetype`. -/
theorem delivered_exactly_to_matching (it : QItem) (w : World) (tk : Key) (info : EvInfo) (loc : Loc) (a : Arch)
    (hinv : w.invListeners = true)
    (ht : it.ty.targeted = true) (hev : w.tevs.getByIndex it.idx = some (tk, info))
    (hloc : w.entities.get it.target = some loc) (ha : w.archs.get loc.arch = some a) :
    ∃ hs, (deliverOne it).run.run w = (deliverBody it info hs loc).run.run w ∧
      hs = w.handlersWhere (fun h => h.recv.targeted && h.recvKey == tk && h.filter.matches a.S) ∧
      ∀ hk, hk ∈ hs ↔ hk ∈ w.byInsertOrder ∧ ∃ h, w.handlers.get hk = some h ∧
        h.recv.targeted = true ∧ h.recvKey = tk ∧ h.filter.matches a.S = true :=
  ⟨a.listenersFor it.idx, deliverOne_target_live it w tk info loc a ht hev hloc ha,
    listeners_exact_pick_idx hinv ha hev, listeners_exact_mem hinv ha hev⟩

/-- "A handler is never invoked for a target that one of its receiver queries does not match": if handler `k`'s
    filter does not match the target's current archetype (or `k` does not receive this event type, or is not live),
    then the delivery is the same whatever invoking `k` would do — `bad` is an arbitrary replacement of its code. -/
theorem never_invoked_for_unmatched (it : QItem) (w : World) (tk : Key) (info : EvInfo) (loc : Loc) (a : Arch)
    (hinv : w.invListeners = true)
    (ht : it.ty.targeted = true) (hev : w.tevs.getByIndex it.idx = some (tk, info))
    (hloc : w.entities.get it.target = some loc) (ha : w.archs.get loc.arch = some a)
    (k : Key) (hk : ∀ h, w.handlers.get k = some h →
      ¬ (h.recv.targeted = true ∧ h.recvKey = tk ∧ h.filter.matches a.S = true))
    (bad : QItem → Loc → M Bool) :
    (deliverOne it).run.run w =
      (deliverBodyWith (fun hk => if hk = k then bad else runHandler hk) it info (a.listenersFor it.idx) loc).run.run w := by
  rw [deliverOne_target_live it w tk info loc a ht hev hloc ha]
  unfold deliverBody
  rw [deliverBodyWith_congr]
  intro x hx
  have hne : x ≠ k := by
    rintro rfl
    obtain ⟨-, h, hh, hp⟩ := (listeners_exact_mem hinv ha hev x).1 hx
    exact hk h hh hp
  simp only [hne, if_false]

/-! ## 5. the filter of every registered handler IS that conjunction; consequence for the receiver fetch -/

/-- `try_add_handler` (`addHandler`): whenever it returns `Ok(k)`, the world holds a registry entry for `k` whose
    listener filter is the fold of `setFilter` over the access expressions of its own targeted receivers
    (`HInfo.FilterOk`, proved in `Proofs/Listeners.lean` through `initParam` / `initQuery` and the parameter loop), so
    by 1.: if the handler receives a targeted event, its filter matches an archetype iff EVERY receiver query's
    documented meaning selects it. -/
theorem registered_filter_is_conjunction {hs : HSpec} {w : World} {k : Key} {w' : World}
    (hr : (addHandler hs).run.run w = (.ok (.ok k), w')) :
    ∃ h, w'.handlers.get k = some h ∧ h.FilterOk ∧
      (h.recv.targeted = true → ∀ S, h.filter.matches S = (h.params.filter Param.isTRecv).all (·.q.sem S)) := by
  obtain ⟨h, hg, hf⟩ := (addHandler_filter hs).run w trivial _ w' hr k rfl
  refine ⟨h, hg, hf, fun ht S => ?_⟩
  rw [hf.matches ht S]
  unfold recvInits
  rw [List.all_map]
  congr 1
  funext p
  exact matches_init_eq_sem p.q S

/-- … and event delivery / `send` never alters a registry entry except for its fetcher caches
    (`sendGlobal_handlers`, `deliverOne_handlers`), so the property persists: -/
theorem filterOk_stable_under_delivery (it : QItem) (w : World) (k : Key) (h : HInfo)
    (hg : w.handlers.get k = some h) (hf : h.FilterOk) :
    ∃ h', ((deliverOne it).run.run w).2.handlers.get k = some h' ∧ h'.FilterOk := by
  have := deliverOne_handlers it w k
  rw [hg] at this
  cases hg' : ((deliverOne it).run.run w).2.handlers.get k with
  | none => rw [hg'] at this; cases this
  | some h' =>
    rw [hg'] at this
    simp only [Option.map_some, Option.some.injEq] at this
    exact ⟨h', rfl, HInfo.FilterOk_of_core this hf⟩

/-- Why "never invoked for a target that one of its receiver queries does not match" matters (defect F7: the filter
    used to be the LAST receiver's query only, and `Receiver::get` is an `unwrap_unchecked` of the per-archetype
    cache): a handler that is in the listener list of a non-empty archetype `a` — its filter matches `a` — finds, for
    EVERY one of its targeted-receiver parameters, a cached arch state for `a` with the current column epoch, provided
    the cache conjunct `invCache` of the invariant holds. So the `.recv` materialisation in `runHandler`
    (`fetch.rs:get_by_location_mut`, the stale-pointer check) cannot fail for it. -/
theorem recv_fetch_defined {w : World} (hC : w.invCache = true) (wfH : SlotMap.WF w.handlers)
    {hk : Key} {h : HInfo} (hg : w.handlers.get hk = some h) (hf : h.FilterOk) (ht : h.recv.targeted = true)
    {i : Nat} {a : Arch} (ha : w.archs.get i = some a) (hne : a.ids ≠ [])
    (hm : h.filter.matches a.S = true) {pm : Param} (hpm : pm ∈ h.params) (hrecv : pm.isTRecv = true) :
    ∃ st, pm.q.archState a.S = some st ∧ pm.cache.get i = some (st, a.epoch) := by
  -- every receiver query matches
  have hall := hf.matches ht a.S
  rw [hm] at hall
  have hq : pm.q.init.matches a.S = true := by
    have := (List.all_eq_true.1 hall.symm) pm.q.init
      (by unfold recvInits; exact List.mem_map.2 ⟨pm, List.mem_filter.2 ⟨hpm, hrecv⟩, rfl⟩)
    exact this
  rw [filter_agrees_with_cache] at hq
  obtain ⟨st, hst⟩ := Option.isSome_iff_exists.1 hq
  refine ⟨st, hst, ?_⟩
  -- the cache conjunct
  unfold World.invCache at hC
  rw [List.all_eq_true] at hC
  have h1 := hC (hk, h) ((SlotMap.mem_toList_iff wfH hk h).2 hg)
  simp only [List.all_eq_true] at h1
  have h2 := h1 pm hpm
  have hQ : pm.hasQ = true := by
    unfold Param.isTRecv at hrecv
    simp only [Bool.and_eq_true] at hrecv
    exact hrecv.2
  simp only [hQ, Bool.not_true, Bool.false_or, Bool.and_eq_true, List.all_eq_true] at h2
  have h3 := h2.1.1.1 (i, a) ((Slab.mem_toList_iff _ _ _).2 ha)
  have hemp : a.ids.isEmpty = false := by
    cases hi : a.ids with
    | nil => exact absurd hi hne
    | cons _ _ => rfl
  simp only [hemp, Bool.false_eq_true, if_false, hst, Option.map_some, beq_iff_eq] at h3
  exact h3

end Evenio

#print axioms Evenio.setFilter_matches
#print axioms Evenio.setFilter_matches_from
#print axioms Evenio.setFilter_matches_and
#print axioms Evenio.setFilter_matches_queries
#print axioms Evenio.setFilter_matches_one
#print axioms Evenio.registerHandler_ok
#print axioms Evenio.registerHandler_spec
#print axioms Evenio.registerHandler_keeps_wf
#print axioms Evenio.registerHandler_mem_iff'
#print axioms Evenio.registerHandler_mem_iff
#print axioms Evenio.registerHandler_segments
#print axioms Evenio.listeners_exact_pick
#print axioms Evenio.listeners_exact_pick_get
#print axioms Evenio.listeners_exact_pick_idx
#print axioms Evenio.listeners_exact_mem
#print axioms Evenio.listeners_exact_cursors
#print axioms Evenio.targeted_lookup_is_at_pop_time
#print axioms Evenio.missing_target_discards
#print axioms Evenio.delivered_exactly_to_matching
#print axioms Evenio.never_invoked_for_unmatched
#print axioms Evenio.addHandler_filter
#print axioms Evenio.registered_filter_is_conjunction
#print axioms Evenio.filterOk_stable_under_delivery
#print axioms Evenio.recv_fetch_defined
