import Evenio.Proofs.Listeners
/-!
# C15 — removing handlers and event types

> "A handler's removal is announced by RemoveHandler before it happens; afterwards the handler is never invoked for any
> event and its id is invalid. Removing an event type announces it, then removes exactly the handlers that receive it
> or are able to send it; all other handlers keep running in unchanged relative order."

`World::remove_handler` (`removeHandler`, `World.lean`) is: membership test; `send(RemoveHandler(k))` — a complete
`send`, i.e. the whole depth-first propagation of the announcement; only then `handlers.remove(k).unwrap()`, the
registry update and `Archetypes::remove_handler`.  The file proves

1. `removeHandler_eq` (in `Proofs/Listeners.lean`) / `removeHandler_run`: the monadic function IS that sequence, with
   the state update after the announcement equal to the pure function `removeHandlerPure`;
2. `removed_handler_in_no_list`: after the update the handler is in no global list, in no archetype's refresh set or
   listener table, not in the insertion-order index, and its id is invalid;
3. `other_handlers_keep_order` / `other_handlers_keep_segments`: every list keeps its other entries, in order, priority
   class by priority class;
4. `announced_before_removed`: the announcement is sent from the unchanged world, and in EVERY delivery of its
   propagation the handler is still registered with its unchanged registry entry;
5. `deliver_only_invokes_list_members` / `absent_handler_never_invoked`: a delivery invokes nothing outside the
   looked-up list, so a handler that is in no list is never invoked;
6. `removeEvent_selects` / `removeEvent_announces_then_removes`: `remove_*_event` announces first, then removes
   exactly `eventUsers` — the handlers that receive the event or have it in their sent set — in insertion order.

The preconditions of 2./3. (`RemovalPre`) are consequences of the validated invariant: `RemovalPre.of_inv`.
-/
namespace Evenio
variable {w : World} {k : Key} {h : HInfo}

/-! ## 1. `removeHandler` is: announce, then the pure update -/

/-- `World::remove_handler`, completely (restated from `removeHandler_eq`): the membership test; the announcement, run
    from the UNCHANGED world `w`; then, from the world `w1` the announcement left, `handlers.remove(k).unwrap()`, the
    registry update `dropHandlerRegs`, the debug assertion, and the archetype sweep —
    `removeHandlerPure w1 k h = (w1.dropHandlerRegs k h).dropHandlerArchs k h`. -/
theorem removeHandler_run (k : Key) (w : World) :
    (removeHandler k).run.run w =
      if w.handlers.contains k = false then (.ok false, w) else
      match (sendGlobal .remH { id := k }).run.run w with
      | (.error e, w1) => (.error e, w1)
      | (.ok _, w1) =>
        match w1.handlers.remove k with
        | none => (.error (.panic "internal:unwrap on None (remove_handler)"), w1)
        | some (h, _) =>
          if w1.debug && !((w1.dropHandlerRegs k h).handlers.len == (w1.dropHandlerRegs k h).byInsertOrder.length) then
            (.error (.assert "handler.rs:remove:len"), w1.dropHandlerRegs k h)
          else (.ok true, removeHandlerPure w1 k h) :=
  removeHandler_eq k w

/-- as a triple: whenever `removeHandler k` returns `true`, the final world is the pure update of the world the
    announcement left -/
theorem removeHandler_triple (k : Key) :
    HoareOk (fun _ => True) (removeHandler k) (fun b w' =>
      b = true → ∃ w1 h, w1.handlers.get k = some h ∧ w' = removeHandlerPure w1 k h) := by
  refine ⟨fun w _ b w' hr => ?_⟩
  rcases removeHandler_ok hr with ⟨rfl, -, -⟩ | ⟨-, -, w1, h, hs, -, -, hg, rfl⟩
  · intro hb; cases hb
  · exact fun _ => ⟨w1, h, hg, rfl⟩

/-- the membership test is performed on the world the call starts in, and the call returns whether it held; a call
    that returns `false` changes nothing -/
theorem removeHandler_result {b : Bool} {w' : World} (hr : (removeHandler k).run.run w = (.ok b, w')) :
    b = w.handlers.contains k ∧ (b = false → w' = w) := by
  rcases removeHandler_ok hr with ⟨rfl, hc, rfl⟩ | ⟨rfl, hc, -⟩
  · exact ⟨hc.symm, fun _ => rfl⟩
  · exact ⟨hc.symm, fun hb => by cases hb⟩

/-! ## 2. afterwards the handler is in no list and its id is invalid -/

/-- After the update: `k` is in no global handler list, in no archetype's refresh set, in no listener table of any
    archetype (so in no list a delivery can look up), not in the insertion-order index (so no archetype created later
    registers it), and `handlers.contains k = false`. (That the id stays invalid for ever — the slot map never
    reissues a removed key — is C03 `removed_never_valid` / `removed_never_reissued`.) -/
theorem removed_handler_in_no_list (pre : RemovalPre w k h) :
    let w' := removeHandlerPure w k h
    (∀ l ∈ w'.byGlobal, k ∉ l.entries) ∧
    (∀ i a', w'.archs.get i = some a' →
      k ∉ a'.refresh ∧ (∀ t l, a'.listeners.get t = some l → k ∉ l.entries) ∧ ∀ t, k ∉ a'.listenersFor t) ∧
    k ∉ w'.byInsertOrder ∧
    w'.handlers.get k = none ∧ w'.handlers.contains k = false := by
  intro w'
  have hget : w'.handlers.get k = none := by rw [pre.handlers_get]; simp
  have harch : ∀ i a', w'.archs.get i = some a' →
      k ∉ a'.refresh ∧ ∀ t l, a'.listeners.get t = some l → k ∉ l.entries := by
    intro i a' ha'
    rw [pre.archs_get] at ha'
    cases ha : w.archs.get i with
    | none => rw [ha] at ha'; cases ha'
    | some a =>
      rw [ha] at ha'
      simp only [Option.map_some, Option.some.injEq] at ha'
      subst ha'
      refine ⟨by rw [dropHandler_refresh]; simp, fun t l hl => ?_⟩
      rw [pre.listeners_get ha] at hl
      cases hg : a.listeners.get t with
      | none => rw [hg] at hl; cases hl
      | some l0 =>
        rw [hg] at hl
        simp only [Option.map_some, Option.some.injEq] at hl
        subst hl
        rw [HandlerList.mem_remove (pre.nodupL i a ha t l0 hg)]
        exact fun hh => hh.1 rfl
  refine ⟨?_, ?_, ?_, hget, by simp [SlotMap.contains, hget]⟩
  · intro l hl
    rw [pre.byGlobal_eq, List.mem_map] at hl
    obtain ⟨l0, hl0, rfl⟩ := hl
    rw [HandlerList.mem_remove (pre.nodupG l0 hl0)]
    exact fun hh => hh.1 rfl
  · intro i a' ha'
    obtain ⟨h1, h2⟩ := harch i a' ha'
    refine ⟨h1, h2, fun t => ?_⟩
    unfold Arch.listenersFor
    cases hg : a'.listeners.get t with
    | none => simp
    | some l => simpa using h2 t l hg
  · rw [removeHandlerPure_byInsertOrder]; simp

/-! ## 3. all other handlers keep their relative order -/

/-- Every list is the old list with `k` filtered out (`filter` keeps the order of what remains): all global lists,
    every listener table of every archetype and the list a delivery looks up (`listenersFor`), the refresh sets, the
    insertion-order index; no archetype appears or disappears; every other handler id maps to the same entry. -/
theorem other_handlers_keep_order (pre : RemovalPre w k h) :
    let w' := removeHandlerPure w k h
    w'.byGlobal.map (·.entries) = w.byGlobal.map (fun l => l.entries.filter (· != k)) ∧
    (∀ i a, w.archs.get i = some a → ∃ a', w'.archs.get i = some a' ∧
      a'.refresh = a.refresh.filter (· != k) ∧
      (∀ t, (a'.listeners.get t).map (·.entries) = (a.listeners.get t).map (fun l => l.entries.filter (· != k))) ∧
      (∀ t, a'.listenersFor t = (a.listenersFor t).filter (· != k))) ∧
    (∀ i, w.archs.get i = none → w'.archs.get i = none) ∧
    w'.byInsertOrder = w.byInsertOrder.filter (· != k) ∧
    (∀ k', k' ≠ k → w'.handlers.get k' = w.handlers.get k') := by
  intro w'
  refine ⟨?_, ?_, ?_, removeHandlerPure_byInsertOrder w k h, ?_⟩
  · rw [pre.byGlobal_eq, List.map_map]
    apply List.map_congr_left
    intro l hl
    exact remove_entries_filter (pre.nodupG l hl) k
  · intro i a ha
    refine ⟨a.dropHandler k h, by rw [pre.archs_get, ha]; rfl, dropHandler_refresh a k h, fun t => ?_,
      listenersFor_dropHandler a k h (pre.wfL i a ha) (pre.onlyL i a ha) (pre.nodupL i a ha)⟩
    rw [pre.listeners_get ha]
    cases hg : a.listeners.get t with
    | none => rfl
    | some l => simp only [Option.map_some]; rw [remove_entries_filter (pre.nodupL i a ha t l hg)]
  · intro i hi
    rw [pre.archs_get, hi]; rfl
  · intro k' hk'
    rw [pre.handlers_get, if_neg hk']

/-- the priority segments (the two cursors of `HandlerList`) move with the removed entry: every class keeps its
    other members, in order -/
theorem other_handlers_keep_segments (pre : RemovalPre w k h) {i : Nat} {a : Arch} (ha : w.archs.get i = some a)
    {t : Nat} {l : HandlerList Key} (hl : a.listeners.get t = some l) (hinv : l.Inv) :
    ∃ a' l', (removeHandlerPure w k h).archs.get i = some a' ∧ a'.listeners.get t = some l' ∧ l'.Inv ∧
      l'.hi = l.hi.filter (· != k) ∧ l'.me = l.me.filter (· != k) ∧ l'.lo = l.lo.filter (· != k) := by
  refine ⟨a.dropHandler k h, l.remove k, by rw [pre.archs_get, ha]; rfl, by rw [pre.listeners_get ha, hl]; rfl,
    HandlerList.remove_inv hinv k, ?_⟩
  have := HandlerList.remove_segments_filter hinv (pre.nodupL i a ha t l hl) k
  simpa only [filter_bne_inst] using this

/-- the same for the global lists -/
theorem other_global_handlers_keep_segments (pre : RemovalPre w k h) {i : Nat} {l : HandlerList Key}
    (hl : w.byGlobal[i]? = some l) (hinv : l.Inv) :
    ∃ l', (removeHandlerPure w k h).byGlobal[i]? = some l' ∧ l'.Inv ∧
      l'.hi = l.hi.filter (· != k) ∧ l'.me = l.me.filter (· != k) ∧ l'.lo = l.lo.filter (· != k) := by
  refine ⟨l.remove k, by rw [pre.byGlobal_eq, List.getElem?_map, hl]; rfl, HandlerList.remove_inv hinv k, ?_⟩
  have := HandlerList.remove_segments_filter hinv (pre.nodupG l (List.mem_of_getElem? hl)) k
  simpa only [filter_bne_inst] using this

/-- The hypotheses of 2. and 3. from the executable invariant (`invArch`, `invListeners`, `invGlobal` are conjuncts of
    `World.Inv`, evaluated by the driver after every operation), plus what it does not spell out: the
    insertion-order index is duplicate free, the handler slot map and the listener tables are well formed (C03, C19),
    and `recvIdx` is the index of `recvKey` (true by construction: `addHandler` builds `HInfo` with
    `recvIdx := recvKey.idx` and nothing assigns these fields). -/
theorem removal_pre_of_inv
    (hA : w.invArch = true) (hL : w.invListeners = true) (hG : w.invGlobal = true)
    (hn : w.byInsertOrder.Nodup) (wfH : SlotMap.WF w.handlers)
    (wfL : ∀ i a, w.archs.get i = some a → SparseMap.WF a.listeners)
    (live : w.handlers.get k = some h) (hrk : h.recvIdx = h.recvKey.idx) : RemovalPre w k h :=
  RemovalPre.of_inv hA hL hG hn wfH wfL live hrk

/-! ## 4. announced before removed -/

/-- If `removeHandler k` returns `true` from `w`:
    * `k` was registered in `w`, and the announcement `RemoveHandler(k)` is sent from `w` itself: its event type is
      registered (`addGlobalEvent`, at most announcing `AddGlobalEvent`), the event is pushed and the queue is flushed;
    * the flush is a depth-first propagation `log` of the announcement (and of whatever was still queued), and EVERY
      delivery in it — in particular every invocation of a handler listening for `RemoveHandler` — starts in a world
      where `k` is still registered, with the registry entry it had in `w` (up to fetcher caches);
    * only in the world `w1` the propagation left is `k` removed: `w' = removeHandlerPure w1 k h`. -/
theorem announced_before_removed {w' : World} (hr : (removeHandler k).run.run w = (.ok true, w')) :
    w.handlers.contains k = true ∧
    ∃ (ak : Key) (w0 wd : World) (log : List Delivery) (h : HInfo) (hs : SlotMap HInfo),
      (addGlobalEvent .remH).run.run w = (.ok ak, w0) ∧
      DfsLog deliverOne { w0 with queue := [] }
        (({ ty := .remH, idx := ak.idx, pay := { id := k } } : QItem) :: w0.queue.reverse) wd log ∧
      (∀ d ∈ log, d.pre.handlers.contains k = true ∧
        (d.pre.handlers.get k).map HInfo.core = (w.handlers.get k).map HInfo.core) ∧
      ({ wd with arenaEpoch := wd.arenaEpoch + 1 } : World).handlers.remove k = some (h, hs) ∧
      w' = removeHandlerPure { wd with arenaEpoch := wd.arenaEpoch + 1 } k h := by
  rcases removeHandler_ok hr with ⟨hb, -, -⟩ | ⟨-, hc, w1, h, hs, hsend, hrm, -, rfl⟩
  · cases hb
  · refine ⟨hc, ?_⟩
    obtain ⟨ak, w0, hadd, hflush⟩ := sendGlobal_ok hsend
    have hflush' : (flushWith deliverOne FUEL).run.run
        { w0 with queue := w0.queue ++ [{ ty := .remH, idx := ak.idx, pay := { id := k } }] } = (.ok (), w1) := hflush
    obtain ⟨wd, log, hlog, rfl⟩ := flushWith_ok_log hflush'
    rw [List.reverse_append, List.reverse_singleton, List.singleton_append] at hlog
    have h0 : HK (fun k => (w.handlers.get k).map HInfo.core) w0 := by
      have := (addGlobalEvent_hk (reg := fun k => (w.handlers.get k).map HInfo.core) .remH).run w (fun _ => rfl)
      rw [hadd] at this
      exact this
    have hall := (hlog.hk (reg := fun k => (w.handlers.get k).map HInfo.core) h0).2
    refine ⟨ak, w0, wd, log, h, hs, hadd, hlog, fun d hd => ?_, hrm, rfl⟩
    have hk : (d.pre.handlers.get k).map HInfo.core = (w.handlers.get k).map HInfo.core := (hall d hd).1 k
    refine ⟨?_, hk⟩
    unfold SlotMap.contains at hc ⊢
    cases h1 : d.pre.handlers.get k with
    | some _ => rfl
    | none =>
      rw [h1] at hk
      cases h2 : w.handlers.get k with
      | none => rw [h2] at hc; cases hc
      | some _ => rw [h2] at hk; cases hk

/-- in short: the announcement neither removes nor alters any handler — after it (however it ends) every handler id
    still maps to its registry entry -/
theorem announcement_keeps_handlers (k k' : Key) (w : World) :
    (((sendGlobal .remH { id := k }).run.run w).2.handlers.get k').map HInfo.core =
      (w.handlers.get k').map HInfo.core :=
  sendGlobal_handlers _ _ w k'

/-! ## 5. a delivery invokes only members of the looked-up list -/

/-- `deliverOne` is, after its lookups, `deliverBody it info hs loc = deliverBodyWith runHandler it info hs loc`, whose
    handler loop is `forIn hs false (handlerStep runHandler it info loc)` (`Proofs/Listeners.lean`:
    `deliverOne_target_live`, `deliverOne_global`, by unfolding). Structurally: the delivery depends on the handler
    invocation only through the members of `hs`. -/
theorem deliver_only_invokes_list_members (run run' : Key → QItem → Loc → M Bool) (it : QItem) (info : EvInfo)
    (hs : List Key) (loc : Loc) (hagree : ∀ hk ∈ hs, run hk it loc = run' hk it loc) :
    deliverBodyWith run it info hs loc = deliverBodyWith run' it info hs loc :=
  deliverBodyWith_congr run run' it info hs loc hagree

/-- a handler that is not in the list is never invoked: whatever its code is replaced by (`bad`), the delivery is the
    same -/
theorem absent_handler_never_invoked (it : QItem) (info : EvInfo) (hs : List Key) (loc : Loc) (k : Key)
    (hk : k ∉ hs) (bad : QItem → Loc → M Bool) :
    deliverBodyWith (fun hk => if hk = k then bad else runHandler hk) it info hs loc = deliverBody it info hs loc := by
  unfold deliverBody
  apply deliverBodyWith_congr
  intro x hx
  have : x ≠ k := fun e => hk (e ▸ hx)
  simp only [this, if_false]

/-- With 2.: in the world right after its removal, the removed handler is invoked by NO delivery — neither of a
    global event (list `byGlobal[idx]`) nor of a targeted event (list `listenersFor idx` of the target's archetype). -/
theorem removed_handler_never_invoked (pre : RemovalPre w k h) (it : QItem) (bad : QItem → Loc → M Bool) :
    let w' := removeHandlerPure w k h
    (∀ ek info l, it.ty.targeted = false → w'.gevs.getByIndex it.idx = some (ek, info) →
      w'.byGlobal[it.idx]? = some l →
      (deliverOne it).run.run w' =
        (deliverBodyWith (fun hk => if hk = k then bad else runHandler hk) it info l.entries Loc.NULL).run.run w') ∧
    (∀ ek info loc a, it.ty.targeted = true → w'.tevs.getByIndex it.idx = some (ek, info) →
      w'.entities.get it.target = some loc → w'.archs.get loc.arch = some a →
      (deliverOne it).run.run w' =
        (deliverBodyWith (fun hk => if hk = k then bad else runHandler hk) it info (a.listenersFor it.idx) loc).run.run
          w') := by
  intro w'
  obtain ⟨hG, hA, -, -, -⟩ := removed_handler_in_no_list pre
  refine ⟨fun ek info l ht hev hl => ?_, fun ek info loc a ht hev hloc ha => ?_⟩
  · rw [deliverOne_global it w' ek info l ht hev hl,
      absent_handler_never_invoked it info l.entries Loc.NULL k (hG l (List.mem_of_getElem? hl)) bad]
  · rw [deliverOne_target_live it w' ek info loc a ht hev hloc ha,
      absent_handler_never_invoked it info _ loc k ((hA loc.arch a ha).2.2 it.idx) bad]

/-! ## 6. removing an event type -/

/-- `removeEvent` computes its `toRemove` list with exactly the selection functions `targetedEventUsers` /
    `globalEventUsers` (`removeEventSel` is `removeEvent` with the two filters named; the equation is `rfl`) … -/
theorem removeEvent_selects (ty : EvTy) (k : Key) : removeEvent ty k = removeEventSel ty k :=
  removeEvent_eq_sel ty k

/-- … and a handler is selected iff it is live and RECEIVES the event or is ABLE TO SEND it (the event's index is in
    its sent set); the selection is in insertion order. -/
theorem eventUsers_mem (w : World) (ty : EvTy) (k hk : Key) :
    hk ∈ eventUsers w ty k ↔ hk ∈ w.byInsertOrder ∧ ∃ h, w.handlers.get hk = some h ∧
      if ty.targeted then (h.recv.targeted = true ∧ h.recvKey = k) ∨ k.idx ∈ h.sentT
      else (h.recv.targeted = false ∧ h.recvKey = k) ∨ k.idx ∈ h.sentG := by
  unfold eventUsers
  split
  · exact mem_targetedEventUsers w k hk
  · exact mem_globalEventUsers w k hk

theorem eventUsers_sublist (w : World) (ty : EvTy) (k : Key) : (eventUsers w ty k).Sublist w.byInsertOrder := by
  unfold eventUsers
  split
  · exact targetedEventUsers_sublist w k
  · exact globalEventUsers_sublist w k

/-- `remove_targeted_event` / `remove_global_event` on a live event type, from a quiescent world: FIRST the
    announcement (`RemoveTargetedEvent(k)` / `RemoveGlobalEvent(k)`: a complete `send` from the unchanged world, in
    which the event type and all its handlers are still registered), THEN — in the world `w1` the announcement left —
    one `removeHandler` (each with its own `RemoveHandler` announcement, section 4) per member of `eventUsers w1 ty k`
    in insertion order, and only then the registry entry of the event itself. -/
theorem removeEvent_announces_then_removes (ty : EvTy) (k : Key) (w : World) (hq : w.queue = [])
    (hlive : (if ty.targeted then w.tevs.contains k else w.gevs.contains k) = true) :
    (removeEvent ty k).run.run w =
      (do sendGlobal (if ty.targeted then .remT else .remG) { id := k }
          let w1 ← get
          removeAll (eventUsers w1 ty k)
          removeEventFinish ty k : M Bool).run.run w :=
  removeEvent_run ty k w hq hlive

/-- an event type that is not registered: nothing happens -/
theorem removeEvent_dead (ty : EvTy) (k : Key) (w : World) (hq : w.queue = [])
    (hdead : (if ty.targeted then w.tevs.contains k else w.gevs.contains k) = false) :
    (removeEvent ty k).run.run w = (.ok false, w) := by
  unfold removeEvent assertQueueEmpty
  by_cases ht : ty.targeted = true
  · simp only [ht, if_true] at hdead
    simp only [run_bind, run_get, hq, List.isEmpty_nil, Bool.not_true, Bool.false_eq_true, if_false, ht, if_true,
      hdead, Bool.not_false, run_pure]
  · have ht' : ty.targeted = false := by simpa using ht
    simp only [ht', Bool.false_eq_true, if_false] at hdead
    simp only [run_bind, run_get, hq, List.isEmpty_nil, Bool.not_true, Bool.false_eq_true, if_false, ht',
      hdead, Bool.not_false, if_true, run_pure]

end Evenio

#print axioms Evenio.removeHandler_eq
#print axioms Evenio.removeHandler_run
#print axioms Evenio.removeHandler_triple
#print axioms Evenio.removeHandler_result
#print axioms Evenio.removed_handler_in_no_list
#print axioms Evenio.other_handlers_keep_order
#print axioms Evenio.other_handlers_keep_segments
#print axioms Evenio.other_global_handlers_keep_segments
#print axioms Evenio.removal_pre_of_inv
#print axioms Evenio.announced_before_removed
#print axioms Evenio.announcement_keeps_handlers
#print axioms Evenio.deliver_only_invokes_list_members
#print axioms Evenio.absent_handler_never_invoked
#print axioms Evenio.removed_handler_never_invoked
#print axioms Evenio.removeEvent_selects
#print axioms Evenio.eventUsers_mem
#print axioms Evenio.eventUsers_sublist
#print axioms Evenio.removeEvent_announces_then_removes
#print axioms Evenio.removeEvent_dead
