import Evenio.Proofs.FlushPanic
import Evenio.Proofs.DeliverOneFifo
/-!
# C04 — delivery order

> Events sent by handlers while event X is being delivered are delivered only after every handler of X has run and
> X's built-in effect has been applied, in the order they were sent, and each is propagated completely — including
> everything it triggers in turn — before the next one starts. A top-level send returns only once nothing is left
> queued.

Formal reading. The event loop of the model is `flushWith deliver`, where `deliver it` is one iteration of
`while let Some(item) = self.event_queue.pop()` ("run every handler of `it`, reverse what they pushed, apply the
built-in effect"); `flush = flushWith deliverOne`. The theorems below hold for an ARBITRARY `deliver : QItem → M Unit`
— this is the reading of "for every handler graph" — and are then instantiated at `deliverOne`.

* `Step deliver w it w' seg` — one complete delivery (all handlers + built-in effect) of `it` from `w`, run with the
  rest of the stack set aside; it ends in `w'` and leaves the segment `seg` queued (stack order: last = next to pop,
  so the events in the order they will be popped are `seg.reverse`; for `deliverOne`, which reverses the segment the
  handlers pushed, that is the order in which they were sent).
* `Dfs deliver w es w'` — the big-step specification: deliver the head of `es` completely (`Step`); then propagate
  everything it left queued, each event completely (recursively), in pop order; only then go on with the next sibling.

`flushWith_dfs`: a normal return of the loop from `w` IS such a depth-first propagation of the initial stack in pop
order (`w.queue.reverse`); the queue is empty on return; the arena is reset exactly once, after the last delivery.
`flushWith_dfs_complete` is the converse (with enough fuel), so the specification is not vacuous and, being
deterministic (`Dfs.det`), it is the only behaviour. Since no `Step` of a child can start before the `Step` of its
parent has ended (the parent's `Step` is a premise producing the child list), children are delivered only after all of
the parent's handlers and its built-in effect; since the children are propagated by `Dfs` on `seg.reverse`, they are
delivered in pop order, each completely before the next.

For the real delivery, `deliverOne_fifo` identifies the pop order with the order in which the handlers sent the events
(`deliverOne` = lookup; handler loop, which only appends to an initially empty segment; reversal of the segment;
built-in effect, which sends nothing). -/
namespace Evenio

variable {deliver : QItem → M Unit}

/-- **C04, main theorem.** Normal return of the event loop = depth-first propagation of the queued events in pop
    order; nothing is left queued; the arena is reset exactly once, at the very end. -/
theorem flushWith_dfs {fuel : Nat} {w w' : World} (h : (flushWith deliver fuel).run.run w = (.ok (), w')) :
    w'.queue = [] ∧
    ∃ wd, Dfs deliver { w with queue := [] } w.queue.reverse wd ∧
      w' = { wd with arenaEpoch := wd.arenaEpoch + 1 } := by
  obtain ⟨wd, log, hd, rfl⟩ := flushWith_ok_log (w0 := w) (q := w.queue) h
  exact ⟨hd.queue_nil rfl, wd, hd.toDfs, rfl⟩

/-- Converse of `flushWith_dfs`: whenever the specification has a derivation with `n` deliveries, the loop with more
    than `n` units of fuel returns normally in the world the specification predicts. -/
theorem flushWith_dfs_complete {w wd : World} {es : List QItem} {log : List Delivery}
    (h : DfsLog deliver w es wd log) (fuel : Nat) (hf : log.length < fuel) :
    (flushWith deliver fuel).run.run { w with queue := es.reverse } =
      (.ok (), { wd with queue := [], arenaEpoch := wd.arenaEpoch + 1 }) :=
  flushWith_complete h fuel hf

/-- the specification determines the final world -/
theorem dfs_deterministic {w w1 w2 : World} {es : List QItem} (h1 : Dfs deliver w es w1) (h2 : Dfs deliver w es w2) :
    w1 = w2 := h1.det h2

/-- Siblings: propagating `a ++ b` is propagating `a` completely, then `b` (so an event is propagated completely —
    including everything it triggers in turn — before the next one starts). -/
theorem dfs_append_iff {w w' : World} {a b : List QItem} :
    Dfs deliver w (a ++ b) w' ↔ ∃ wm, Dfs deliver w a wm ∧ Dfs deliver wm b w' :=
  ⟨Dfs.split a, fun ⟨_, h1, h2⟩ => h1.append h2⟩

/-- Inversion: the head is delivered first (one `Step`: all handlers, then the built-in effect), then what it left
    queued, in pop order and completely, and only then the remaining siblings. -/
theorem dfs_cons_iff {w w3 : World} {e : QItem} {es : List QItem} :
    Dfs deliver w (e :: es) w3 ↔
      ∃ w1 seg w2, Step deliver w e w1 seg ∧ Dfs deliver w1 seg.reverse w2 ∧ Dfs deliver w2 es w3 := by
  constructor
  · intro h
    cases h with
    | cons hs hc hr => exact ⟨_, _, _, hs, hc, hr⟩
  · rintro ⟨_, _, _, hs, hc, hr⟩
    exact .cons hs hc hr

/-- **C04.** A top-level send returns only once nothing is left queued. -/
theorem flushWith_returns_empty {fuel : Nat} {w w' : World}
    (h : (flushWith deliver fuel).run.run w = (.ok (), w')) : w'.queue = [] :=
  (flushWith_dfs h).1

theorem flush_returns_empty {fuel : Nat} {w w' : World} (h : (flush fuel).run.run w = (.ok (), w')) :
    w'.queue = [] :=
  flushWith_returns_empty h

/-- `flush` is a depth-first propagation with `deliverOne` as the delivery -/
theorem flush_dfs {fuel : Nat} {w w' : World} (h : (flush fuel).run.run w = (.ok (), w')) :
    w'.queue = [] ∧
    ∃ wd, Dfs deliverOne { w with queue := [] } w.queue.reverse wd ∧
      w' = { wd with arenaEpoch := wd.arenaEpoch + 1 } :=
  flushWith_dfs h

/-- When the loop is left by a panic (other than the model's own fuel exhaustion, which has no counterpart in the
    Rust code), the queue is empty as well: the guard's `dropQueued` ran to completion. (`dropQueued` can itself only
    fail with `ub`, never with a panic: `dropQueued_error_ub`.) -/
theorem flushWith_error_queue {fuel : Nat} {w w' : World} {c : String}
    (h : (flushWith deliver fuel).run.run w = (.error (.panic c), w')) (hc : c ≠ "model:fuel") :
    w'.queue = [] := by
  rcases flushWith_error_log (w0 := w) (q := w.queue) h with hf | ⟨err, log, x, wl, P, _, hg⟩
  · cases hf; exact absurd rfl hc
  · unfold guardExit at hg
    cases err with
    | panic c' =>
      simp only at hg
      generalize hr : dropQueued.run.run { wl with queue := P ++ wl.queue } = r at hg
      obtain ⟨(e'|_), w3⟩ := r
      · cases hg
        obtain ⟨s, hs⟩ := dropQueued_error_ub hr
        cases hs
      · cases hg
        exact dropQueued_ok_queue hr
    | ub s => cases hg
    | assert s => cases hg

/-- on every return of the loop — normal, or by a panic raised by a delivery — nothing is left queued -/
theorem flushWith_queue_empty {fuel : Nat} {w w' : World} {r : Except Err Unit}
    (h : (flushWith deliver fuel).run.run w = (r, w'))
    (hr : r = .ok () ∨ ∃ c, r = .error (.panic c) ∧ c ≠ "model:fuel") : w'.queue = [] := by
  rcases hr with rfl | ⟨c, rfl, hc⟩
  · exact flushWith_returns_empty h
  · exact flushWith_error_queue h hc

/-! ### the real delivery: "in the order they were sent"

For `deliverOne` the segment a delivery leaves is what its handlers appended to the (initially empty) queue, reversed
once the handler loop is over; neither the registry lookup nor the built-in effect touches the queue. Hence the pop
order `seg.reverse` of `Dfs` is the order in which the handlers sent the events. -/

/-- **C04 for `deliverOne`.** The events a delivery leaves are popped (`seg.reverse`) in exactly the order in which the
    handlers of the delivered event appended them (`wh.queue`, the queue at the end of the handler loop, which started
    from the empty queue and only ever grew at its end); a delivery to a dead target leaves nothing. -/
theorem deliverOne_fifo {w : World} {it : QItem} {w' : World} {seg : List QItem} (h : Step deliverOne w it w' seg) :
    seg = [] ∨
    ∃ info hs loc w1 owned wh,
      (lookupPhase it { w with queue := [] }).run.run { w with queue := [] } = (.ok (info, some hs, loc), w1) ∧
      w1.queue = [] ∧
      (handlerPhase it info loc hs).run.run w1 = (.ok owned, wh) ∧
      seg.reverse = wh.queue :=
  deliverOne_segment h

/-- a handler never removes or reorders what is already queued: it only appends (so the queue order is the
    chronological order of the sends, across all handlers of the event) -/
theorem handlers_only_append (hk : Key) (it : QItem) (loc : Loc) (w : World) :
    w.queue <+: ((runHandler hk it loc).run.run w).2.queue :=
  runHandler_appends hk it loc w

theorem handler_loop_only_appends (it : QItem) (info : EvInfo) (loc : Loc) (hs : List Key) (w : World) :
    w.queue <+: ((handlerPhase it info loc hs).run.run w).2.queue :=
  handlerPhase_appends it info loc hs w

/-- the built-in effect (`Insert`/`Remove`/`Spawn`/`Despawn`, or dropping a normal event) sends nothing -/
theorem builtin_effect_sends_nothing (it : QItem) (info : EvInfo) (loc : Loc) (w : World) :
    ((effectPhase it info loc).run.run w).2.queue = w.queue :=
  (effectPhase_qu w.queue it info loc).run w rfl

/-- `deliverOne` is literally: lookup; handler loop; reverse the segment; built-in effect unless taken -/
theorem deliverOne_is_phases (it : QItem) :
    deliverOne it = (do
      let w ← get
      let (info, hs, loc) ← lookupPhase it w
      match hs with
      | none => if info.needsDrop then dropEvent it else pure ()
      | some hs => do
        let owned ← handlerPhase it info loc hs
        modify fun w => { w with queue := w.queue.reverse }
        if owned then pure () else effectPhase it info loc) :=
  deliverOne_phases it

/-! ### the handler log

The trace `out` is a field of `World`, so `Dfs` over worlds already orders every line the handlers log. For a
delivery that does nothing but log a label and send a list of children, the statement becomes the familiar one: the
log of a flush is the pre-order traversal of the send forest. -/

/-- a delivery that logs `label it` and sends `kids it` in that order (like `deliverOne`, it leaves the segment
    reversed, so that the events pop in the order they were sent) -/
def traceDeliver (label : QItem → String) (kids : QItem → List QItem) (it : QItem) : M Unit := do
  logT (label it)
  modify fun w => { w with queue := (w.queue ++ kids it).reverse }

/-- pre-order traversal of the forest `es` whose nodes have children `kids` -/
inductive PreOrder (label : QItem → String) (kids : QItem → List QItem) : List QItem → List String → Prop
  | nil : PreOrder label kids [] []
  | cons {e : QItem} {es : List QItem} {t1 t2 : List String} :
      PreOrder label kids (kids e) t1 → PreOrder label kids es t2 →
      PreOrder label kids (e :: es) (label e :: t1 ++ t2)

theorem traceDeliver_run (label : QItem → String) (kids : QItem → List QItem) (it : QItem) (w : World) :
    (traceDeliver label kids it).run.run { w with queue := [] } =
      (.ok (), { w with out := w.out.push (label it), queue := (kids it).reverse }) := by
  simp only [traceDeliver, logT, run_bind, run_modify, List.nil_append]

theorem dfs_trace {label : QItem → String} {kids : QItem → List QItem} {w w' : World} {es : List QItem}
    (h : Dfs (traceDeliver label kids) w es w') :
    ∃ t, PreOrder label kids es t ∧ w'.out.toList = w.out.toList ++ t := by
  induction h with
  | nil w => exact ⟨[], .nil, by simp⟩
  | @cons w e w1 seg w2 es w3 hs _ _ ih1 ih2 =>
    obtain ⟨w'', hd, rfl, rfl⟩ := hs
    rw [traceDeliver_run] at hd
    cases hd
    obtain ⟨t1, hp1, ho1⟩ := ih1
    obtain ⟨t2, hp2, ho2⟩ := ih2
    simp only [List.reverse_reverse] at hp1
    refine ⟨label e :: t1 ++ t2, .cons hp1 hp2, ?_⟩
    rw [ho2, ho1]
    simp

/-- **C04, trace form.** The log written by a flush whose deliveries only log and send is the pre-order traversal
    of the send forest rooted at the initially queued events (in pop order): parent, then its first child with all of
    that child's descendants, then its second child, … -/
theorem trace_is_dfs {label : QItem → String} {kids : QItem → List QItem} {fuel : Nat} {w w' : World}
    (h : (flushWith (traceDeliver label kids) fuel).run.run w = (.ok (), w')) :
    ∃ t, PreOrder label kids w.queue.reverse t ∧ w'.out.toList = w.out.toList ++ t := by
  obtain ⟨_, wd, hd, rfl⟩ := flushWith_dfs h
  have := dfs_trace hd
  exact this

/-! ### non-vacuity: a concrete run

`X` (idx 0) sends `a` (idx 1) and `b` (idx 2); `a` sends `a1` (idx 3). The loop delivers `X a a1 b`. -/

def demoKids (it : QItem) : List QItem :=
  match it.idx with
  | 0 => [{ ty := .g 1, idx := 1 }, { ty := .g 2, idx := 2 }]
  | 1 => [{ ty := .g 3, idx := 3 }]
  | _ => []

def demoLabel (it : QItem) : String :=
  match it.idx with
  | 0 => "X" | 1 => "a" | 2 => "b" | _ => "a1"

def demoWorld : World := { queue := [{ ty := .g 0, idx := 0 }] }

/-- the run, evaluated: normal return, log `X a a1 b`, queue empty, arena reset once -/
theorem demo_run :
    (flushWith (traceDeliver demoLabel demoKids) 5).run.run demoWorld =
      (.ok (), { out := #["X", "a", "a1", "b"], arenaEpoch := 1 }) := by
  rfl

/-- the hypothesis of `flushWith_dfs` is satisfiable, hence so is `Dfs` on a non-trivial forest -/
example : ∃ wd, Dfs (traceDeliver demoLabel demoKids) { demoWorld with queue := [] } demoWorld.queue.reverse wd := by
  obtain ⟨_, wd, hd, _⟩ := flushWith_dfs demo_run
  exact ⟨wd, hd⟩

/-- and `trace_is_dfs` applies to it: `X a a1 b` is the pre-order traversal -/
example : ∃ t, PreOrder demoLabel demoKids demoWorld.queue.reverse t ∧ #["X", "a", "a1", "b"].toList = [] ++ t :=
  trace_is_dfs demo_run

#print axioms flushWith_dfs
#print axioms flushWith_dfs_complete
#print axioms dfs_deterministic
#print axioms dfs_append_iff
#print axioms dfs_cons_iff
#print axioms flushWith_returns_empty
#print axioms flush_returns_empty
#print axioms flush_dfs
#print axioms flushWith_error_queue
#print axioms flushWith_queue_empty
#print axioms trace_is_dfs
#print axioms deliverOne_fifo
#print axioms handlers_only_append
#print axioms handler_loop_only_appends
#print axioms builtin_effect_sends_nothing
#print axioms deliverOne_is_phases

end Evenio
