import Evenio.Model.Gates
/-!
# C18 — compile-time gates (the provable core)

"The shared-borrow fetch APIs (`Fetcher::get`, `Fetcher::iter`, `IntoIterator for &Fetcher`,
`Iter::clone`, `par_iter`, `ParIter::clone`) are only available for `ReadOnlyQuery` queries, and a
`ReadOnlyQuery` query can never hand out a mutable reference."

`Evenio/Generated/Gates.lean` is regenerated from the `impl ReadOnlyQuery for …` marker
impls (and the `where Q: ReadOnlyQuery` bounds) of the Rust source on every run.  `readOnly_sound`
consumes the `ro_*` entries of that table: loosening a marker impl (e.g. `Option<Q>` read-only for
every `Q`, or `&mut C` read-only) regenerates the table and breaks the proof below.
-/
namespace Evenio
open Gates

/-- A query that passes the `ReadOnlyQuery` gate never hands out a mutable reference, on any
    archetype — hence `Fetcher::get`/`iter`/`Iter::clone` (which take `&self`) cannot alias mutably. -/
theorem readOnly_sound (q : Query) (hq : q.readOnlyGate = true) :
    ∀ S st, q.archState S = some st → ∀ r ∈ st.refs, r.2 = false := by
  intro S
  induction q with
  | ref c =>
    intro st h r hr
    simp only [Query.archState] at h
    split at h <;> simp at h
    subst h; simp [AS.refs] at hr; simp [hr]
  | «mut» c => simp [Query.readOnlyGate, ro_mut, RO.eval] at hq
  | unit => intro st h; simp only [Query.archState, Option.some.injEq] at h; subst h; simp [AS.refs]
  | snoc t q iht ihq =>
    simp only [Query.readOnlyGate, ro_tup, RO.eval, Bool.and_eq_true] at hq
    intro st h r hr
    simp only [Query.archState] at h
    cases ht : Query.archState S t <;> cases hq' : Query.archState S q <;> simp [ht, hq'] at h
    subst h
    simp only [AS.refs, List.mem_append] at hr
    rcases hr with hr | hr
    · exact iht hq.1 _ ht r hr
    · exact ihq hq.2 _ hq' r hr
  | opt q ih =>
    simp only [Query.readOnlyGate, ro_opt, RO.eval] at hq
    intro st h r hr
    simp only [Query.archState] at h
    cases hq' : Query.archState S q <;> simp [hq'] at h <;> subst h
    · simp [AS.refs] at hr
    · exact ih hq _ hq' r (by simpa [AS.refs] using hr)
  | or l r ihl ihr =>
    simp only [Query.readOnlyGate, ro_or, RO.eval, Bool.and_eq_true] at hq
    intro st h x hx
    simp only [Query.archState] at h
    cases hl : Query.archState S l <;> cases hr : Query.archState S r <;> simp [hl, hr] at h <;> subst h
    · exact ihr hq.2 _ hr x (by simpa [AS.refs] using hx)
    · exact ihl hq.1 _ hl x (by simpa [AS.refs] using hx)
    · simp only [AS.refs, List.mem_append] at hx
      rcases hx with hx | hx
      · exact ihl hq.1 _ hl x hx
      · exact ihr hq.2 _ hr x hx
  | xor l r ihl ihr =>
    simp only [Query.readOnlyGate, ro_xor, RO.eval, Bool.and_eq_true] at hq
    intro st h x hx
    simp only [Query.archState] at h
    cases hl : Query.archState S l <;> cases hr : Query.archState S r <;> simp [hl, hr] at h <;> subst h
    · exact ihr hq.2 _ hr x (by simpa [AS.refs] using hx)
    · exact ihl hq.1 _ hl x (by simpa [AS.refs] using hx)
  | not q ih =>
    intro st h
    simp only [Query.archState] at h
    cases hq' : Query.archState S q <;> simp [hq'] at h
    subst h; simp [AS.refs]
  | wth q ih =>
    intro st h
    simp only [Query.archState, Option.map_eq_some_iff] at h
    obtain ⟨_, _, rfl⟩ := h; simp [AS.refs]
  | has q ih => intro st h; simp only [Query.archState, Option.some.injEq] at h; subst h; simp [AS.refs]
  | eid => intro st h; simp only [Query.archState, Option.some.injEq] at h; subst h; simp [AS.refs]
  | phantom => intro st h; simp only [Query.archState, Option.some.injEq] at h; subst h; simp [AS.refs]

/-- in terms of `AS.readOnly` -/
theorem readOnly_sound' (q : Query) (hq : q.readOnlyGate = true) (S : Nat → Bool) (st : AS)
    (h : q.archState S = some st) : st.readOnly = true := by
  simp only [AS.readOnly, List.all_eq_true]
  intro r hr
  have := readOnly_sound q hq S st h r hr
  obtain ⟨c, m⟩ := r
  simp_all

/-- `&mut C` is not `ReadOnlyQuery` -/
theorem mut_not_readOnly (c : Nat) : (Query.mut c).readOnlyGate = false := by
  simp [Query.readOnlyGate, ro_mut, RO.eval]

/-- one mutable leaf anywhere under `Option`/tuple/`Or`/`Xor` spoils the gate (non-vacuity: the gate
    is not constantly `false`, and it does reject nested `&mut`) -/
example : (Query.snoc (.snoc .unit (.ref 0)) (.opt (.or (.ref 1) (.mut 2)))).readOnlyGate = false := by decide
example : (Query.snoc (.snoc .unit (.ref 0)) (.opt (.or (.ref 1) (.ref 2)))).readOnlyGate = true := by decide
/-- `Not`/`With`/`Has` of a mutable query are read-only (they hand out nothing) -/
example : (Query.snoc (.snoc (.snoc .unit (.not (.mut 0))) (.wth (.mut 1))) (.has (.mut 2))).readOnlyGate = true := by
  decide
example : ((Query.mut 0).archState (fun _ => true)).map AS.refs = some [(0, true)] := by decide

/-- the marker-impl table has exactly the shape the soundness proof relies on -/
theorem ro_table_as_expected :
    ro_ref = .always ∧ ro_mut = .never ∧ ro_tup = .inner ∧ ro_opt = .inner ∧ ro_or = .inner ∧
    ro_xor = .inner ∧ ro_not = .always ∧ ro_wth = .always ∧ ro_has = .always ∧ ro_eid = .always ∧
    ro_phantom = .always := by decide

/-- the remaining compile-time gates extracted from the Rust source are all in place:
    shared-borrow fetch APIs require `ReadOnlyQuery`; `#[derive(Query)]` derives `ReadOnlyQuery` only
    from its fields; `&mut C`/`get_mut`/`ReceiverMut` need `Mutability = Mutable`; `Send`/`Sync` of
    fetchers and iterators are conditional on the item; `World` is `!Send` and nothing re-implements `Send` for it;
    `EventMut::new` is private and `take` exists only on `EventMut`. -/
theorem gates_as_expected :
    (derive_inner && mut_needs_mutable && get_gated && iter_gated && iter_clone_gated &&
     into_iter_ref_gated && par_iter_gated && par_clone_gated && fetcher_send_iff_item &&
     fetcher_sync_iff_item && iter_send_iff_item && iter_sync_iff_item && par_item_send &&
     world_not_send_marker && world_no_unsafe_send && world_get_mut_needs_mutable &&
     recvmut_global_needs_mutable && recvmut_targeted_needs_mutable && eventmut_ctor_private &&
     take_only_on_eventmut && eventmut_send_iff_event) = true := by decide

/-- C18 for the fetch APIs, end to end: every shared-borrow entry point is gated, and whatever
    passes the gate hands out only shared references. -/
theorem shared_fetch_never_mutable :
    (get_gated && iter_gated && iter_clone_gated && into_iter_ref_gated && par_iter_gated &&
      par_clone_gated) = true ∧
    ∀ q : Query, q.readOnlyGate = true →
      ∀ S st, q.archState S = some st → ∀ r ∈ st.refs, r.2 = false :=
  ⟨by decide, readOnly_sound⟩

end Evenio

#print axioms Evenio.readOnly_sound
#print axioms Evenio.readOnly_sound'
#print axioms Evenio.mut_not_readOnly
#print axioms Evenio.ro_table_as_expected
#print axioms Evenio.gates_as_expected
#print axioms Evenio.shared_fetch_never_mutable
