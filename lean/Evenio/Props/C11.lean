import Evenio.Proofs.DispositionFlush
/-!
# C11 — every event is destroyed exactly once

> Every event value handed to the world or to a Sender is destroyed exactly once … When a top-level send returns, no
> event value is still alive inside the world.

What is proved here is the part that does not depend on what a delivery does, i.e. it holds for `flushWith deliver`
with an ARBITRARY `deliver` (every handler graph), and in particular for `flush = flushWith deliverOne`:

* every event that is ever on the queue — queued before the loop started, or left queued by some delivery — is handed
  to `deliver` EXACTLY ONCE (`flushWith_delivers_each_once`: the list of delivered events is a permutation of
  "initially queued ++ everything every delivery left queued"; none twice: `flushWith_delivered_nodup`; none lost),
  in depth-first order (`dfsLog_cons_iff`, `delivered_cons`: the delivered list is, by construction of the log, the
  pre-order flattening of the send forest);
* when the loop returns nothing is queued (`flushWith_returns_nothing_queued`), so the only event values that can
  still be alive are those a delivery itself kept.

The per-delivery half ("a delivery disposes of the event it is handed exactly once") is a statement about `deliverOne`
only. It is proved here for the EVENT ledger `edrops` (user events `G n`/`T n`, whose destruction is logged there):
`deliverOne_disposition`, `deliverOne_destroys_at_most_it_once`, `deliverOne_user_event_destroyed_once`, for a delivery
that panics `deliverOne_panic_disposition` (dropped exactly once: by the `take` or by the unwinding guard, never both —
the ownership flag `inflightOwned` decides), and, for a whole flush, `flush_destroys_each_user_event_once`. The COMPONENT-cell half (an `Insert` whose cell ends up stored in
the archetype, or dropped if the event is dropped) is not proved; see the comment at the end of this file. -/
namespace Evenio

variable {deliver : QItem → M Unit}

/-- the events handed to `deliver`, in order -/
def delivered (log : List Delivery) : List QItem := log.map (·.ev)

/-- everything the deliveries of the log left queued -/
def leftQueued (log : List Delivery) : List QItem := log.flatMap (·.seg)

@[simp] theorem delivered_nil : delivered [] = [] := rfl

/-- The log of a propagation of `e :: es` is `e`'s own delivery, then the whole log of what `e` left queued (in pop
    order), then the log of the siblings `es`: the delivered list IS the depth-first flattening. -/
theorem dfsLog_cons_iff {w w3 : World} {e : QItem} {es : List QItem} {log : List Delivery} :
    DfsLog deliver w (e :: es) w3 log ↔
      ∃ w1 seg w2 l1 l2, Step deliver w e w1 seg ∧ DfsLog deliver w1 seg.reverse w2 l1 ∧ DfsLog deliver w2 es w3 l2 ∧
        log = ⟨w, e, w1, seg⟩ :: l1 ++ l2 := by
  constructor
  · intro h
    cases h with
    | cons hs hc hr => exact ⟨_, _, _, _, _, hs, hc, hr, rfl⟩
  · rintro ⟨_, _, _, _, _, hs, hc, hr, rfl⟩
    exact .cons hs hc hr

theorem delivered_cons (d : Delivery) (l1 l2 : List Delivery) :
    delivered (d :: l1 ++ l2) = d.ev :: delivered l1 ++ delivered l2 := by
  simp [delivered]

/-- the first event delivered is the top of the stack, and the delivered list of a propagation of `e :: es` is
    `e :: (deliveries caused by e) ++ (deliveries caused by es)` -/
theorem dfs_delivered_flatten {w w3 : World} {e : QItem} {es : List QItem} {log : List Delivery}
    (h : DfsLog deliver w (e :: es) w3 log) :
    ∃ w1 seg w2 l1 l2, Step deliver w e w1 seg ∧ DfsLog deliver w1 seg.reverse w2 l1 ∧ DfsLog deliver w2 es w3 l2 ∧
      delivered log = e :: delivered l1 ++ delivered l2 := by
  obtain ⟨w1, seg, w2, l1, l2, hs, hc, hr, rfl⟩ := dfsLog_cons_iff.mp h
  exact ⟨w1, seg, w2, l1, l2, hs, hc, hr, delivered_cons ..⟩

/-- **C11 (generic part).** In a completed propagation the delivered events are, counted with multiplicity, exactly
    the initially queued events plus the events the deliveries left queued: no event is delivered twice, none is
    lost. Every log entry is a genuine, completed delivery. -/
theorem dfs_delivers_each_once {w w' : World} {es : List QItem} {log : List Delivery}
    (h : DfsLog deliver w es w' log) :
    (delivered log).Perm (es ++ leftQueued log) ∧ ∀ d ∈ log, Step deliver d.pre d.ev d.post d.seg :=
  ⟨h.perm, h.steps⟩

/-- the same for a normal return of the event loop, together with "nothing is queued on return" -/
theorem flushWith_delivers_each_once {fuel : Nat} {w w' : World}
    (h : (flushWith deliver fuel).run.run w = (.ok (), w')) :
    ∃ wd log, DfsLog deliver { w with queue := [] } w.queue.reverse wd log ∧
      (delivered log).Perm (w.queue ++ leftQueued log) ∧
      (∀ d ∈ log, Step deliver d.pre d.ev d.post d.seg) ∧
      w'.queue = [] ∧ w' = { wd with arenaEpoch := wd.arenaEpoch + 1 } := by
  obtain ⟨wd, log, hd, rfl⟩ := flushWith_ok_log (w0 := w) (q := w.queue) h
  refine ⟨wd, log, hd, ?_, hd.steps, hd.queue_nil rfl, rfl⟩
  exact hd.perm.trans ((List.reverse_perm _).append_right _)

/-- if the events ever queued are pairwise distinct (e.g. they carry distinct serials), no event is delivered twice -/
theorem flushWith_delivered_nodup {w w' : World} {es : List QItem} {log : List Delivery}
    (h : DfsLog deliver w es w' log) (hn : (es ++ leftQueued log).Nodup) : (delivered log).Nodup :=
  h.perm.nodup_iff.mpr hn

/-- every queued event is delivered, and every delivered event had been queued -/
theorem dfs_mem_delivered_iff {w w' : World} {es : List QItem} {log : List Delivery}
    (h : DfsLog deliver w es w' log) (x : QItem) : x ∈ delivered log ↔ x ∈ es ∨ x ∈ leftQueued log := by
  have := h.perm.mem_iff (a := x)
  rw [List.mem_append] at this
  exact this

/-- **C11.** When the loop returns, nothing is queued: no event value is still alive in the queue. -/
theorem flushWith_returns_nothing_queued {fuel : Nat} {w w' : World}
    (h : (flushWith deliver fuel).run.run w = (.ok (), w')) : w'.queue = [] := by
  obtain ⟨_, _, _, _, _, hq, _⟩ := flushWith_delivers_each_once h
  exact hq

theorem flush_delivers_each_once {fuel : Nat} {w w' : World} (h : (flush fuel).run.run w = (.ok (), w')) :
    ∃ wd log, DfsLog deliverOne { w with queue := [] } w.queue.reverse wd log ∧
      (delivered log).Perm (w.queue ++ leftQueued log) ∧
      (∀ d ∈ log, Step deliverOne d.pre d.ev d.post d.seg) ∧
      w'.queue = [] ∧ w' = { wd with arenaEpoch := wd.arenaEpoch + 1 } :=
  flushWith_delivers_each_once h

/-- Interrupted propagation (a delivery failed): every event ever queued is either delivered (once), or is the one in
    flight, or is still pending below the failing delivery's segment — and then handed to the guard (C13). -/
theorem dfsPanic_accounts_each_once {w : World} {es : List QItem} {err : Err} {log : List Delivery} {x : QItem}
    {wl : World} {P : List QItem} (h : DfsPanic deliver w es err log x wl P) :
    (delivered log ++ x :: P).Perm (es ++ leftQueued log) :=
  h.perm

/-! ### non-vacuity -/

/-- a delivery that sends two events when handed event number 0, and nothing otherwise -/
def twoKids (it : QItem) : M Unit :=
  match it.idx with
  | 0 => do push { ty := .g 1, idx := 1 }; push { ty := .g 1, idx := 2 }; modify fun w => { w with queue := w.queue.reverse }
  | _ => pure ()

example : ∃ wd log, DfsLog twoKids {} [{ ty := .g 0, idx := 0 }] wd log ∧ (delivered log).map (·.idx) = [0, 1, 2] := by
  refine ⟨_, _, .cons (seg := [{ ty := .g 1, idx := 2 }, { ty := .g 1, idx := 1 }]) ⟨_, rfl, rfl, rfl⟩
    (.cons ⟨_, rfl, rfl, rfl⟩ (.nil _) (.cons ⟨_, rfl, rfl, rfl⟩ (.nil _) (.nil _))) (.nil _), ?_⟩
  rfl

/-! ### per-delivery disposition for `deliverOne` (event ledger) -/

/-- **Disposition.** On normal return of `deliverOne it` from `w` (any queue), with `info` the registry entry of
    `it` (`w.evInfo it`, the same entry `dropQueued` uses), exactly one of the following cases applies, and the event
    ledger is as stated (`dropE it l` is `l` extended by `it`'s serial if `it` is a user event, `l` otherwise):
    * dead target (`hs = none`): dropped iff `info.needsDrop`;
    * taken (`owned = true`, which is exactly when the handler phase ends with the ownership flag `inflightOwned` set):
      dropped by the handler's `take`, once; later handlers and the built-in effect skipped;
    * not taken, `info.kind = .normal`: dropped after the handler loop iff `info.needsDrop`;
    * not taken, kind `Insert`/`Remove`/`Spawn`/`Despawn`: not dropped.
    In every case nothing else is written to the event ledger. -/
theorem deliverOne_disposition {it : QItem} {w w' : World} (h : (deliverOne it).run.run w = (.ok (), w')) :
    ∃ info hs loc w1,
      (lookupPhase it w).run.run w = (.ok (info, hs, loc), w1) ∧ w.evInfo it = some info ∧
      match hs with
      | none => w'.edrops = if info.needsDrop then dropE it w.edrops else w.edrops
      | some hs =>
        ∃ owned wh, (handlerPhase it info loc hs).run.run w1 = (.ok owned, wh) ∧ wh.inflightOwned = owned ∧
          w'.edrops =
            if owned then dropE it w.edrops
            else if info.kind = .normal ∧ info.needsDrop then dropE it w.edrops
            else w.edrops :=
  deliverOne_edrops h

/-- A handler run started with the ownership flag clear (as every handler run of `deliverOne` is: the flag is cleared
    before the loop and the loop stops at the first handler that took the event): on normal return the handler reports
    `owned` iff one of its `take` actions fired, iff the flag `inflightOwned` is now set, iff the received event has
    been written to the ledger — once (a second `take` finds the flag set and does nothing); nothing else is written.
    The body keeps running after `take`, so this holds whatever the handler did afterwards. -/
theorem runHandler_drops_iff_taken (hk : Key) (it : QItem) (loc : Loc) {w w' : World} {owned : Bool}
    (h : (runHandler hk it loc).run.run w = (.ok owned, w')) (hf : w.inflightOwned = false) :
    w'.inflightOwned = owned ∧ w'.edrops = if owned then dropE it w.edrops else w.edrops := by
  have := (runHandler_spec (l := w.edrops) (b := false) hk it loc).ok ⟨hf, rfl⟩ h
  rw [Bool.or_false] at this
  exact this

/-- the same when the handler run throws: the flag tells whether a `take` fired before the exception, the ledger
    holds the received event iff it did, plus at most one entry for an event a failing send rejected -/
theorem runHandler_throw_drops_iff_taken (hk : Key) (it : QItem) (loc : Loc) {w w' : World} {e : Err}
    (h : (runHandler hk it loc).run.run w = (.error e, w')) (hf : w.inflightOwned = false) :
    ∃ rej : List Nat, rej.length ≤ 1 ∧
      w'.edrops = rej ++ (if w'.inflightOwned then dropE it w.edrops else w.edrops) :=
  (runHandler_spec (l := w.edrops) (b := false) hk it loc).err ⟨hf, rfl⟩ h

/-- never twice, never another event: a normally returning delivery leaves the event ledger unchanged or extends it
    by the delivered event's serial, once -/
theorem deliverOne_destroys_at_most_it_once {it : QItem} {w w' : World}
    (h : (deliverOne it).run.run w = (.ok (), w')) :
    w'.edrops = w.edrops ∨ w'.edrops = it.pay.serial :: w.edrops := by
  obtain ⟨info, hs, loc, w1, _, _, hd⟩ := deliverOne_edrops h
  have hE : dropE it w.edrops = w.edrops ∨ dropE it w.edrops = it.pay.serial :: w.edrops := by
    rw [dropE_eq]
    obtain ⟨ty, idx, tgt, pay⟩ := it
    cases ty <;> first | exact .inl rfl | exact .inr rfl
  cases hs with
  | none =>
    simp only at hd
    rw [hd]
    split
    · exact hE
    · exact .inl rfl
  | some hs =>
    obtain ⟨owned, wh, _, _, hd⟩ := hd
    rw [hd]
    split
    · exact hE
    · split
      · exact hE
      · exact .inl rfl

/-- **exactly once**: a delivered user event whose registry entry is well formed (has a drop function, normal kind —
    the way `G n`/`T n` are registered) is destroyed exactly once by its delivery, whichever way the delivery goes
    (dead target, taken, or dropped after the handler loop) -/
theorem deliverOne_user_event_destroyed_once {it : QItem} {w w' : World}
    (h : (deliverOne it).run.run w = (.ok (), w')) (hu : it.isUser = true) (hok : UserEntryOk w it) :
    w'.edrops = it.pay.serial :: w.edrops := by
  rw [deliverOne_ledger h hok]
  obtain ⟨ty, idx, tgt, pay⟩ := it
  cases ty <;> first | rfl | cases hu

/-- events of the built-in types never touch the event ledger -/
theorem deliverOne_builtin_event_no_edrop {it : QItem} {w w' : World}
    (h : (deliverOne it).run.run w = (.ok (), w')) (hu : it.isUser = false) : w'.edrops = w.edrops := by
  rw [deliverOne_ledger h (fun hc => by rw [hu] at hc; cases hc), ledgerOf_not_user hu]
  rfl

/-- **Disposition when the delivery panics.** If `deliverOne it` throws `panic c` (for an in-flight event whose
    registry entry is well formed, `UserEntryOk`), the in-flight event has been written to the event ledger EXACTLY
    ONCE when control leaves `deliverOne`: either a handler took it before the panic (`inflightOwned` is set: the `take`
    dropped it and the unwinding guard — first half of `EventDropper::drop` — left it alone), or nobody took it
    (`inflightOwned` clear: the guard dropped it) — never both, never neither. The only other entry the delivery can
    have written is `rej`: the one event a failing `Sender::send` rejected and destroyed itself before panicking (at
    most one: that send is what panicked). For an event of a built-in type `ledgerOf it = []` and the statement says
    that nothing but `rej` was written. -/
theorem deliverOne_panic_disposition {it : QItem} {w w' : World} {c : String}
    (h : (deliverOne it).run.run w = (.error (.panic c), w')) (hok : UserEntryOk w it) :
    ∃ rej : List Nat, rej.length ≤ 1 ∧
      ((w'.inflightOwned = true ∧ w'.edrops = rej ++ ledgerOf it ++ w.edrops) ∨
       (w'.inflightOwned = false ∧ w'.edrops = ledgerOf it ++ rej ++ w.edrops)) :=
  deliverOne_panic_ledger h hok

/-- the underlying case analysis without the registry hypothesis: the panic came out of the handler loop (guard ran),
    or out of the built-in effect of an event nobody took (never for the `normal` kind; ledger unchanged) -/
theorem deliverOne_panic_cases {it : QItem} {w w' : World} {c : String}
    (h : (deliverOne it).run.run w = (.error (.panic c), w')) :
    ∃ info, w.evInfo it = some info ∧
      ((∃ rej : List Nat, rej.length ≤ 1 ∧
          ((w'.inflightOwned = true ∧ w'.edrops = rej ++ dropE it w.edrops) ∨
           (w'.inflightOwned = false ∧
              w'.edrops = if info.needsDrop then dropE it (rej ++ w.edrops) else rej ++ w.edrops))) ∨
       (info.kind ≠ .normal ∧ w'.inflightOwned = false ∧ w'.edrops = w.edrops)) :=
  deliverOne_panic_edrops h

/-- **C11 for `flush`, event ledger.** When a top-level send returns, the event ledger has grown by exactly the
    delivered user events — each once, in delivery order — the delivered events are exactly those ever queued
    (`Perm`), and nothing is queued any more. The ledger equation needs the registry entries of the delivered user
    events to be well formed in the world the flush started in (they cannot change during the flush:
    `deliverOne_frame`); it is therefore stated as an implication inside the conclusion. -/
theorem flush_destroys_each_user_event_once {fuel : Nat} {w w' : World}
    (h : (flush fuel).run.run w = (.ok (), w')) :
    ∃ wd log, DfsLog deliverOne { w with queue := [] } w.queue.reverse wd log ∧
      (delivered log).Perm (w.queue ++ leftQueued log) ∧
      ((∀ x ∈ delivered log, UserEntryOk w x) →
        w'.edrops = ((delivered log).flatMap ledgerOf).reverse ++ w.edrops) ∧
      w'.queue = [] := by
  obtain ⟨wd, log, hd, hp, _, hq, rfl⟩ := flush_delivers_each_once h
  refine ⟨wd, log, hd, hp, fun hok => ?_, hq⟩
  exact hd.ledger fun d hd' => hok d.ev (List.mem_map_of_mem hd')

/-- non-vacuity of `UserEntryOk`: in `ledgerWorld` the global events with index 0 have a well-formed entry -/
def ledgerWorld : World :=
  { gevs := { slots := [⟨1, U32MAX, some { ty := .g 0, id := ⟨0, 1⟩, kind := .normal, needsDrop := true }⟩], len := 1 }
    byGlobal := [{}] }

example : UserEntryOk ledgerWorld { ty := .g 0, idx := 0, pay := { serial := 5 } } :=
  fun _ => ⟨_, rfl, rfl, rfl⟩

/-- and delivering such an event (no handlers) destroys it exactly once -/
example :
    ((deliverOne { ty := .g 0, idx := 0, pay := { serial := 5 } }).run.run ledgerWorld).2.edrops = [5] := by
  decide

/-!
### What is NOT proved: the component-cell half of the disposition

`Insert` events carry a component cell whose destruction is logged in `cdrops`, not in `edrops`. The analogue of
`deliverOne_disposition` for `cdrops` — "(taken / unwinding) the cell is dropped once; (Insert applied) the cell is
stored in the destination archetype by `moveEntity` and the cell it replaces, if any, is dropped" — needs a
specification of `moveEntity`/`assignCol`/`moveCols` (what is stored where); the dead-target case is in C09
(`dead_target_noop`). Also not proved: that the rejected event `rej` of `deliverOne_panic_disposition` carries a fresh
serial (it does: `runAct` draws it from `freshE` just before the send), which is what makes "exactly once" a statement
about VALUES rather than ledger entries; it would need the value flow `freshE → senderPush` in the triple of `runAct`.
A handler run started with the flag already set is not covered by `runHandler_drops_iff_taken`; `deliverOne` never
does that. -/

#print axioms dfsLog_cons_iff
#print axioms dfs_delivered_flatten
#print axioms dfs_delivers_each_once
#print axioms flushWith_delivers_each_once
#print axioms flushWith_delivered_nodup
#print axioms dfs_mem_delivered_iff
#print axioms flushWith_returns_nothing_queued
#print axioms flush_delivers_each_once
#print axioms dfsPanic_accounts_each_once
#print axioms deliverOne_disposition
#print axioms runHandler_drops_iff_taken
#print axioms runHandler_throw_drops_iff_taken
#print axioms deliverOne_panic_disposition
#print axioms deliverOne_panic_cases
#print axioms deliverOne_destroys_at_most_it_once
#print axioms deliverOne_user_event_destroyed_once
#print axioms deliverOne_builtin_event_no_edrop
#print axioms flush_destroys_each_user_event_once

end Evenio
