import Evenio.Proofs.StorageRefine
import Evenio.Props.C02
import Evenio.Props.C12
import Evenio.Model.Step
/-!
# C02 and C12 on the world model

**C02**
> Reading component C of entity e yields exactly the value most recently inserted for (e, C) if e is alive and
> still has C, and nothing otherwise. An operation on one entity never changes the presence or value of any
> component of another entity.

**C12**
> Every component value that entered storage is destroyed exactly once — when it is overwritten, removed, its
> entity despawned … — and it is never destroyed while still reachable through the API nor reachable after being
> destroyed.

`Props/C02.lean` and `Props/C12.lean` prove these for the PURE storage model (`Evenio/Model/StoragePure.lean`).  This file
links the pure operations to the MONADIC ones the driver executes (`moveEntity`, `removeEntity`, `archSpawn` and the
step of `spawnAll` in `Evenio/Model/World.lean`) and lifts the theorems to worlds.

## The abstraction (`Evenio/Proofs/StorageRefine.lean`)

`absStore w : Store` has
* `archs`: one archetype per slab ENTRY, by position: the occupant of an occupied entry with `cap := 0`, `epoch := 0`
  (`absArch`: capacity and buffer epoch are what `reserve_one` changes and the pure model does not track); for a vacant
  entry a placeholder without components, columns and rows.  The placeholder stores no cell, hosts no entity and is
  trivially well formed, so none of `Store.get`, `Store.comps`, `Store.cells`, `Store.WF` sees it, and positions agree
  with slab indices;
* `locs := w.entities.toList` (`Entities::iter`).

`World.getCell w e c := (absStore w).get e c` is — for a well-formed `entities` slot map — literally the lookup that
`World.renderStore` (`Evenio/Model/Step.lean`, the `> st` observation line compared with the Rust harness) performs for
every registered component type: `w.entities.get e`, then `w.archs.get loc.arch`, then `a.readCell c loc.row`
(`world_getCell_eq`).

## Hypotheses

All simulation lemmas assume `IndexOk w` (every archetype is stored at its own index: a conjunct of `World.invArch`) and
`SlotMap.WF w.entities` (C03: holds in every reachable world; `setLoc` is checked against `Store.setLoc` through
`Entities::get`, which agrees with the association list `toList` only if occupied ⇔ odd generation).  The lifted C02 /
C12 theorems additionally assume `(absStore w).WF`, which follows from `World.invStore`, `World.invArch` and
`SlotMap.WF w.entities` (`world_inv_abs_wf`).  `StoreOk w` bundles the three; it is preserved by the three operations
(`world_storeOk_move`, `world_storeOk_remove`, `world_storeOk_spawnStep`).

The handler caches (`handlerRefresh` / `handlerRemoveArch`) are a pure FRAME for storage: they only rewrite
`w.handlers` with `SlotMap.set`, which the simulation lemmas state as "`handlers` may change", and
`moveEntity_handlers_keys` & co. show that no handler key appears or disappears.
-/
namespace Evenio
open SparseMap (swapRemove)
open Store

/-! ## 1. the abstraction -/

/-- reading component `c` of entity `e` (`World::get`) -/
def World.getCell (w : World) (e : Key) (c : Nat) : Option Cell := (absStore w).get e c
/-- the component set of `e`'s archetype -/
def World.compsOf (w : World) (e : Key) : Option (List Nat) := (absStore w).comps e
/-- all cells in storage -/
def World.cells (w : World) : List Cell := (absStore w).cells

/-- `Store.loc` of the abstraction is `Entities::get` -/
theorem world_abs_loc {w : World} (wf : w.entities.WF) (e : Key) : (absStore w).loc e = w.entities.get e :=
  absStore_loc wf e

/-- the archetypes of the abstraction, by slab position -/
theorem world_abs_arch (w : World) (i : Nat) :
    (absStore w).archs[i]? =
      match w.archs.entries[i]? with
      | some (.occ a) => some { a with cap := 0, epoch := 0 }
      | some (.vacant _) => some { index := i, comps := [], cols := [], ids := [] }
      | none => none := by
  rw [absStore_archs_getElem?]
  cases w.archs.entries[i]? with
  | none => rfl
  | some e => cases e <;> rfl

theorem world_abs_arch_of_get {w : World} {i : Nat} {a : Arch} (h : w.archs.get i = some a) :
    (absStore w).archs[i]? = some { a with cap := 0, epoch := 0 } :=
  absStore_arch_of_get h

/-- `getCell` is the lookup `World.renderStore` prints: location from `entities`, archetype from the slab, cell from
    the column -/
theorem world_getCell_eq {w : World} (wf : w.entities.WF) (e : Key) (c : Nat) :
    w.getCell e c =
      match w.entities.get e with
      | none => none
      | some loc =>
        match w.archs.get loc.arch with
        | none => none
        | some a => a.readCell c loc.row := by
  unfold World.getCell Store.get
  rw [absStore_loc wf]
  cases w.entities.get e with
  | none => rfl
  | some loc =>
    dsimp only
    cases ha : w.archs.get loc.arch with
    | some a => rw [absStore_arch_of_get ha]; rfl
    | none =>
      rcases absStore_arch_of_get_none ha with h | h <;> rw [h]
      rfl

theorem world_compsOf_eq {w : World} (wf : w.entities.WF) {e : Key} {loc : Loc} {a : Arch}
    (hl : w.entities.get e = some loc) (ha : w.archs.get loc.arch = some a) : w.compsOf e = some a.comps := by
  unfold World.compsOf Store.comps
  rw [absStore_loc wf, hl]
  dsimp only
  rw [absStore_arch_of_get ha]
  rfl

/-- the hypotheses of the lifted theorems (all consequences of `World.Inv` and C03) -/
structure StoreOk (w : World) : Prop where
  idx : IndexOk w
  ents : w.entities.WF
  wf : (absStore w).WF

/-- **`World.invStore` (with `World.invArch` and the slot-map invariant) implies `Store.WF` of the abstraction**; the
    extra facts needed are exactly: `strictlySorted` component lists (`invArch`; `invStore` does not mention them) and
    `SlotMap.WF w.entities` (so that `Entities::get` and `Entities::iter` agree) -/
theorem world_inv_abs_wf {w : World} (hs : w.invStore = true) (ha : w.invArch = true) (he : w.entities.WF) :
    StoreOk w ∧ (absStore w).HasEmpty := by
  obtain ⟨h1, h2, h3⟩ := invArch_facts ha
  exact ⟨⟨h1, he, invStore_absWF hs he h2⟩, h3⟩

/-- in particular for a world satisfying the full invariant `World.Inv` -/
theorem world_Inv_abs_wf {w : World} (h : w.Inv = true) (he : w.entities.WF) : StoreOk w ∧ (absStore w).HasEmpty := by
  have hrep : w.invReport = [] := by simpa [World.Inv] using h
  have hs : w.invStore = true := by
    cases hb : w.invStore with
    | true => rfl
    | false => simp [World.invReport, hb] at hrep
  have ha : w.invArch = true := by
    cases hb : w.invArch with
    | true => rfl
    | false => simp [World.invReport, hb] at hrep
  exact world_inv_abs_wf hs ha he

/-! ## 2. simulation -/

/-- **`moveEntity` refines `Store.moveEntity`** (both branches).  `dropped` are the cells passed to `dropCellIdx`, in
    order; `w'.cdrops` is the log (`dropLog`: component type and serial of the cells whose type `compNeedsDrop`) of
    exactly those cells, paired with their component indices `moveDropComps`, prepended to `w.cdrops`; no field other
    than `archs`, `entities`, `handlers`, `epochCtr`, `cdrops` changes. -/
theorem world_move_sim {w w' : World} {src : Loc} {dst : Nat} {new : List (Nat × Cell)} (hidx : IndexOk w)
    (hwf : w.entities.WF) (h : (moveEntity src dst new).run.run w = (.ok (), w')) :
    ∃ dropped, Store.moveEntity (absStore w) src dst new = some (absStore w', dropped) ∧
      w' = { w with
        epochCtr := w'.epochCtr, archs := w'.archs, entities := w'.entities, handlers := w'.handlers
        cdrops := dropLog w ((moveDropComps w src dst new).zip dropped) ++ w.cdrops } :=
  moveEntity_sim hidx hwf h

/-- what `moveEntity` does to the individual fields in the two-archetype case: see `MoveRun` (columns / ids of the two
    archetypes, capacity / epoch of the destination, the two locations, `epochCtr + 1`) -/
theorem world_move_run {w w' : World} {src : Loc} {dst : Nat} {new : List (Nat × Cell)} (hne : src.arch ≠ dst)
    (h : (moveEntity src dst new).run.run w = (.ok (), w')) : ∃ sa da r eid, MoveRun w w' src dst new sa da r eid :=
  moveEntity_ne_run hne h

/-- in a well-formed store the pairing with component indices loses no dropped cell -/
theorem world_move_drops_complete {w w' : World} {src : Loc} {dst : Nat} {new : List (Nat × Cell)} (ok : StoreOk w)
    (h : (moveEntity src dst new).run.run w = (.ok (), w')) {dropped : List Cell}
    (hs : Store.moveEntity (absStore w) src dst new = some (absStore w', dropped)) :
    ((moveDropComps w src dst new).zip dropped).map (·.2) = dropped :=
  (moveEntity_sim_complete ok.idx ok.ents ok.wf h hs).2

/-- **`removeEntity` refines `Store.removeEntity`** -/
theorem world_remove_sim {w w' : World} {loc : Loc} (hidx : IndexOk w) (hwf : w.entities.WF)
    (h : (removeEntity loc).run.run w = (.ok (), w')) :
    ∃ dropped, Store.removeEntity (absStore w) loc = some (absStore w', dropped) ∧
      w' = { w with
        archs := w'.archs, entities := w'.entities, handlers := w'.handlers
        cdrops := dropLog w ((removeDropComps w loc).zip dropped) ++ w.cdrops } :=
  removeEntity_sim' hidx hwf h

theorem world_remove_drops_complete {w w' : World} {loc : Loc} (ok : StoreOk w)
    (h : (removeEntity loc).run.run w = (.ok (), w')) {dropped : List Cell}
    (hs : Store.removeEntity (absStore w) loc = some (absStore w', dropped)) :
    ((removeDropComps w loc).zip dropped).map (·.2) = dropped :=
  (removeEntity_sim_complete ok.idx ok.ents ok.wf h hs).2.2

/-- **`archSpawn` is the archetype half of `Store.spawn`**: it appends the id to archetype 0 and returns the location
    `Store.spawn` records, but does NOT touch `entities` (the caller sets the location) -/
theorem world_archSpawn_sim {w w' : World} {id : Key} {loc : Loc} (hidx : IndexOk w)
    (h : (archSpawn id).run.run w = (.ok loc, w')) :
    (absStore w').archs = ((absStore w).spawn id).archs ∧
    ((absStore w).spawn id).locs = (absStore w).locs ++ [(id, loc)] ∧
    (absStore w').locs = (absStore w).locs ∧
    w' = { w with epochCtr := w'.epochCtr, archs := w'.archs, handlers := w'.handlers } := by
  obtain ⟨a0, m, h1, h2, h3⟩ := archSpawn_sim hidx h
  refine ⟨h1, h2, h3, m.hw.trans ?_⟩
  conv => rhs; rw [m.hw]

/-- **the step of `spawnAll`** (`insertWith (fun _ => Loc.NULL)`; `archSpawn k`; `entities.set k loc`) **refines
    `Store.spawn k`** for the key `k` chosen by the slot map, which was not live before.  The stores agree up to the
    order of `locs` (`Store.Equiv`): `insertWith` reuses freed slots, so the new entry of `Entities::iter` need not be
    the last one. -/
theorem world_spawnStep_sim {w w' : World} (hidx : IndexOk w) (hwf : w.entities.WF)
    (h : spawnStep.run.run w = (.ok (), w')) :
    ∃ k, w.entities.get k = none ∧ Store.Equiv (absStore w') ((absStore w).spawn k) ∧
      w' = { w with epochCtr := w'.epochCtr, archs := w'.archs, entities := w'.entities, handlers := w'.handlers } := by
  obtain ⟨k, ents1, a0, _, hfresh, _, heq, _, he⟩ := spawnStep_sim hidx hwf h
  refine ⟨k, hfresh, heq, he.trans ?_⟩
  conv => rhs; rw [he]

/-- **`spawnAll`** is `resCount` pure spawns of distinct keys that were not live -/
theorem world_spawnAll_sim {w w' : World} (hidx : IndexOk w) (hwf : w.entities.WF)
    (h : spawnAll.run.run w = (.ok (), w')) :
    ∃ ks : List Key, ks.length = w.resCount ∧ Store.Equiv (absStore w') (ks.foldl Store.spawn (absStore w)) ∧
      ks.Nodup ∧ (∀ k ∈ ks, w.entities.get k = none) ∧ IndexOk w' ∧ w'.entities.WF :=
  spawnAll_sim hidx hwf h


/-! ## 3. C02 on worlds -/

section lifted
variable {w w' : World}

theorem StoreOk.loc (ok : StoreOk w) {e : Key} {l : Loc} (h : w.entities.get e = some l) :
    (absStore w).loc e = some l := by rw [absStore_loc ok.ents]; exact h

/-- **General form, two different archetypes**: after a normal return of `moveEntity src dst new`, where `src` is the
    location of the live entity `e` and `new` lists the components of `dst` the source lacks: `e` lives in the last
    row of `dst`, has exactly the components of `dst`; a component the source had keeps its value, one it lacked has
    the supplied value, every other read yields nothing; the dropped cells are the values of the source-only
    components, and `cdrops` logs exactly them. -/
theorem world_move_get_self {e : Key} {src : Loc} {dst : Nat} {new : List (Nat × Cell)} {sa da : Arch}
    (ok : StoreOk w) (hsrc : w.entities.get e = some src) (hne : src.arch ≠ dst)
    (hsa : w.archs.get src.arch = some sa) (hda : w.archs.get dst = some da)
    (hnew : new.map (·.1) = da.comps.filter (fun c => !sa.comps.contains c))
    (h : (moveEntity src dst new).run.run w = (.ok (), w')) :
    w'.entities.get e = some ⟨dst, da.ids.length⟩ ∧ w'.compsOf e = some da.comps ∧
    (∀ c, w'.getCell e c = if c ∈ da.comps then (if c ∈ sa.comps then w.getCell e c else new.lookup c) else none) ∧
    ∃ dropped, dropped.map some = (sa.comps.filter fun c => !da.comps.contains c).map (w.getCell e) ∧
      w'.cdrops = dropLog w ((sa.comps.filter fun c => !da.comps.contains c).zip dropped) ++ w.cdrops := by
  obtain ⟨dropped, hs, hfr⟩ := moveEntity_sim ok.idx ok.ents h
  obtain ⟨st', dr, h1, h2, h3, h4, h5⟩ :=
    move_get_self ok.wf (ok.loc hsrc) hne (absStore_arch_of_get hsa) (absStore_arch_of_get hda) hnew
  rw [hs] at h1
  obtain ⟨rfl, rfl⟩ := Prod.mk.inj (Option.some.inj h1)
  have hwf' := (moveEntity_keeps ok.idx ok.ents h).2
  refine ⟨by rw [← absStore_loc hwf']; exact h2, h3, h4, dropped, h5, ?_⟩
  have hcd := congrArg World.cdrops hfr
  dsimp only at hcd
  rw [hcd]
  unfold moveDropComps
  rw [if_neg hne, hsa, hda]

/-- **The Insert effect, new component** (`traverse_insert` led to another archetype): afterwards reading `c` of `e`
    yields the inserted cell, every other component of `e` is unchanged, nothing is destroyed. -/
theorem world_insert_get_self {e : Key} {src : Loc} {dst : Nat} {c : Nat} {x : Cell} {sa da : Arch}
    (ok : StoreOk w) (hsrc : w.entities.get e = some src)
    (hsa : w.archs.get src.arch = some sa) (hda : w.archs.get dst = some da)
    (hc : c ∉ sa.comps) (hcomps : da.comps = insertSorted sa.comps c)
    (h : (moveEntity src dst [(c, x)]).run.run w = (.ok (), w')) :
    w'.compsOf e = some (insertSorted sa.comps c) ∧ w'.getCell e c = some x ∧
    (∀ c', c' ≠ c → w'.getCell e c' = w.getCell e c') ∧ w'.cdrops = w.cdrops := by
  obtain ⟨dropped, hs, hfr⟩ := moveEntity_sim ok.idx ok.ents h
  obtain ⟨st', h1, h2, h3, h4⟩ :=
    move_get_self_insert (x := x) ok.wf (ok.loc hsrc) (absStore_arch_of_get hsa) (absStore_arch_of_get hda) hc hcomps
  rw [hs] at h1
  obtain ⟨rfl, rfl⟩ := Prod.mk.inj (Option.some.inj h1)
  refine ⟨h2, h3, h4, ?_⟩
  have hcd := congrArg World.cdrops hfr
  dsimp only at hcd
  rw [hcd]
  simp [dropLog]

/-- **The Insert effect, existing component** (`traverse_insert` returns the source archetype: `Column::assign`):
    reading `c` yields the new cell, the old one — and nothing else — is destroyed, `e` keeps its component set and
    every other value. -/
theorem world_insert_get_self_same {e : Key} {src : Loc} {c : Nat} {x : Cell} {sa : Arch}
    (ok : StoreOk w) (hsrc : w.entities.get e = some src) (hsa : w.archs.get src.arch = some sa) (hc : c ∈ sa.comps)
    (h : (moveEntity src src.arch [(c, x)]).run.run w = (.ok (), w')) :
    ∃ old, w.getCell e c = some old ∧ w'.compsOf e = w.compsOf e ∧ w'.getCell e c = some x ∧
      (∀ c', c' ≠ c → w'.getCell e c' = w.getCell e c') ∧ w'.cdrops = dropLog w [(c, old)] ++ w.cdrops := by
  obtain ⟨dropped, hs, hfr⟩ := moveEntity_sim ok.idx ok.ents h
  obtain ⟨st', old, h1, h2, h3, h4, h5⟩ :=
    move_get_self_same (x := x) ok.wf (ok.loc hsrc) (absStore_arch_of_get hsa) hc
  rw [hs] at h1
  obtain ⟨rfl, rfl⟩ := Prod.mk.inj (Option.some.inj h1)
  refine ⟨old, h2, h3, h4, h5, ?_⟩
  have hcd := congrArg World.cdrops hfr
  dsimp only at hcd
  rw [hcd]
  simp [moveDropComps]

/-- **The Remove effect** (the entity has `c`; the destination has the same components without `c`): reading `c`
    yields nothing, every other component is unchanged, exactly the old value of `c` is destroyed. -/
theorem world_remove_get_self {e : Key} {src : Loc} {dst : Nat} {c : Nat} {sa da : Arch}
    (ok : StoreOk w) (hsrc : w.entities.get e = some src)
    (hsa : w.archs.get src.arch = some sa) (hda : w.archs.get dst = some da)
    (hc : c ∈ sa.comps) (hcomps : da.comps = sa.comps.filter (· != c))
    (h : (moveEntity src dst []).run.run w = (.ok (), w')) :
    ∃ old, w.getCell e c = some old ∧ w'.compsOf e = some (sa.comps.filter (· != c)) ∧ w'.getCell e c = none ∧
      (∀ c', c' ≠ c → w'.getCell e c' = w.getCell e c') ∧ w'.cdrops = dropLog w [(c, old)] ++ w.cdrops := by
  obtain ⟨dropped, hs, hfr⟩ := moveEntity_sim ok.idx ok.ents h
  obtain ⟨st', old, h1, h2, h3, h4, h5⟩ :=
    move_get_self_remove ok.wf (ok.loc hsrc) (absStore_arch_of_get hsa) (absStore_arch_of_get hda) hc hcomps
  rw [hs] at h1
  obtain ⟨rfl, rfl⟩ := Prod.mk.inj (Option.some.inj h1)
  refine ⟨old, h2, h3, h4, h5, ?_⟩
  have hcd := congrArg World.cdrops hfr
  dsimp only at hcd
  rw [hcd]
  have hmem : ∀ y, y ∈ da.comps ↔ y ∈ sa.comps ∧ y ≠ c := by
    intro y; rw [hcomps, List.mem_filter]; simp
  have hne : src.arch ≠ dst := by
    intro he; rw [he, hda] at hsa; cases hsa; exact ((hmem c).mp hc).2 rfl
  have hsorted := (ok.wf.archWF (absStore_arch_of_get hsa)).sorted
  have hfil : (sa.comps.filter fun c => !da.comps.contains c) = [c] := by
    apply filter_eq_singleton (Sorted.nodup hsorted) hc
    intro y hy
    simp only [Bool.not_eq_true', List.contains_eq_mem, decide_eq_false_iff_not, hmem]
    constructor
    · intro h; exact Classical.byContradiction fun hne => h ⟨hy, hne⟩
    · intro h hh; exact hh.2 h
  unfold moveDropComps
  rw [if_neg hne, hsa, hda]
  dsimp only
  rw [hfil]
  rfl

/-- **Removing an absent component is a no-op on storage** (`traverse_remove` returns the source archetype) -/
theorem world_remove_absent {src : Loc} (hidx : IndexOk w)
    (h : (moveEntity src src.arch []).run.run w = (.ok (), w')) : w' = w := by
  obtain ⟨a, a', dr, ha, hassign, _, rfl⟩ := moveEntity_same_run h
  simp only [Store.assignAll, Option.some.injEq, Prod.mk.injEq] at hassign
  obtain ⟨rfl, rfl⟩ := hassign
  rw [dropAllW_eq, hidx _ _ ha, slab_set_self ha]
  rfl

/-- **Every other entity**: a move of `e` changes neither the value or presence of any component of any other entity
    `e'`, nor its component set (this is where the swap-remove location fix-up matters). -/
theorem world_move_get_other {e : Key} {src : Loc} {dst : Nat} {new : List (Nat × Cell)}
    (ok : StoreOk w) (hsrc : w.entities.get e = some src)
    (h : (moveEntity src dst new).run.run w = (.ok (), w')) (e' : Key) (hne : e' ≠ e) :
    (∀ c', w'.getCell e' c' = w.getCell e' c') ∧ w'.compsOf e' = w.compsOf e' := by
  obtain ⟨dropped, hs, _⟩ := moveEntity_sim ok.idx ok.ents h
  exact move_get_other ok.wf (ok.loc hsrc) hs e' hne

/-- **Despawn**: after a normal return of `removeEntity` at the location of the live entity `e`: `e` is not alive,
    every read of `e` yields nothing; every other entity's reads and component set are unchanged. -/
theorem world_remove_get {e : Key} {loc : Loc} (ok : StoreOk w) (hloc : w.entities.get e = some loc)
    (h : (removeEntity loc).run.run w = (.ok (), w')) :
    w'.entities.get e = none ∧ (∀ c, w'.getCell e c = none) ∧ w'.compsOf e = none ∧
    ∀ e', e' ≠ e → (∀ c', w'.getCell e' c' = w.getCell e' c') ∧ w'.compsOf e' = w.compsOf e' := by
  obtain ⟨dropped, hs, _⟩ := removeEntity_sim' ok.idx ok.ents h
  obtain ⟨h1, h2, h3, h4⟩ := remove_get ok.wf (ok.loc hloc) hs
  have hwf' := (removeEntity_keeps ok.idx ok.ents h).2
  refine ⟨?_, h2, h3, h4⟩
  rw [← absStore_loc hwf']
  exact (alookup_eq_none_iff _ _).mpr h1

/-- **Spawn** (one step of `spawnAll`): exactly the key `k` chosen by the slot map — not live before — becomes live,
    in the last row of archetype 0, with no components; every other entity is unchanged. -/
theorem world_spawn_get (ok : StoreOk w) (hemp : (absStore w).HasEmpty) (h : spawnStep.run.run w = (.ok (), w')) :
    ∃ k a0, w.entities.get k = none ∧ w.archs.get 0 = some a0 ∧
      (∀ k', w'.entities.get k' = if k' = k then some ⟨0, a0.ids.length⟩ else w.entities.get k') ∧
      w'.compsOf k = some [] ∧ (∀ c, w'.getCell k c = none) ∧
      ∀ e', e' ≠ k → (∀ c', w'.getCell e' c' = w.getCell e' c') ∧ w'.compsOf e' = w.compsOf e' := by
  obtain ⟨k, ents1, a0, hins, hfresh, ha0, heq, _, he⟩ := spawnStep_sim ok.idx ok.ents h
  have hfr : k ∉ (absStore w).locs.map (·.1) := by
    rw [← alookup_eq_none_iff]
    show (absStore w).loc k = none
    rw [absStore_loc ok.ents]; exact hfresh
  obtain ⟨hwf2, _⟩ := spawn_wf ok.wf hemp hfr
  have hk := (heq.symm.wf hwf2).keys
  obtain ⟨h1, h2, h3⟩ := spawn_get ok.wf hemp hfr
  have hg1 : ents1.get k = some Loc.NULL := by rw [SlotMap.get_insertWith ok.ents hins, if_pos rfl]
  refine ⟨k, a0, hfresh, ha0, ?_, ?_, ?_, ?_⟩
  · intro k'
    rw [he]
    dsimp only
    rw [SlotMap.get_set_refine hg1, SlotMap.get_insertWith ok.ents hins]
    by_cases hkk : k' = k <;> simp [hkk]
  · unfold World.compsOf; rw [heq.comps hk]; exact h1
  · intro c; unfold World.getCell; rw [heq.get hk]; exact h2 c
  · intro e' hne
    obtain ⟨h4, h5⟩ := h3 e' hne
    constructor
    · intro c'; unfold World.getCell; rw [heq.get hk]; exact h4 c'
    · unfold World.compsOf; rw [heq.comps hk]; exact h5

/-! ## well-formedness is preserved -/

/-- `moveEntity` preserves the hypotheses -/
theorem world_storeOk_move {src : Loc} {dst : Nat} {new : List (Nat × Cell)} (ok : StoreOk w)
    (h : (moveEntity src dst new).run.run w = (.ok (), w')) : StoreOk w' := by
  obtain ⟨dropped, hs, _⟩ := moveEntity_sim ok.idx ok.ents h
  obtain ⟨h1, h2⟩ := moveEntity_keeps ok.idx ok.ents h
  exact ⟨h1, h2, move_wf ok.wf hs⟩

/-- `removeEntity` preserves the hypotheses -/
theorem world_storeOk_remove {loc : Loc} (ok : StoreOk w) (h : (removeEntity loc).run.run w = (.ok (), w')) :
    StoreOk w' := by
  obtain ⟨dropped, hs, _⟩ := removeEntity_sim' ok.idx ok.ents h
  obtain ⟨h1, h2⟩ := removeEntity_keeps ok.idx ok.ents h
  exact ⟨h1, h2, remove_wf ok.wf hs⟩

/-- the step of `spawnAll` preserves the hypotheses.  (`archSpawn` alone does NOT preserve `Store.WF`: between
    `archSpawn k` and `entities.set k loc` the id `k` is in row `loc` of archetype 0 while `entities` still maps it to
    `Loc.NULL`.) -/
theorem world_storeOk_spawnStep (ok : StoreOk w) (hemp : (absStore w).HasEmpty)
    (h : spawnStep.run.run w = (.ok (), w')) : StoreOk w' ∧ (absStore w').HasEmpty := by
  obtain ⟨k, ents1, a0, _, hfresh, _, heq, _, _⟩ := spawnStep_sim ok.idx ok.ents h
  have hfr : k ∉ (absStore w).locs.map (·.1) := by
    rw [← alookup_eq_none_iff]
    show (absStore w).loc k = none
    rw [absStore_loc ok.ents]; exact hfresh
  obtain ⟨hwf2, hemp2⟩ := spawn_wf ok.wf hemp hfr
  obtain ⟨h1, h2⟩ := spawnStep_keeps ok.idx ok.ents h
  exact ⟨⟨h1, h2, heq.symm.wf hwf2⟩, heq.symm.hasEmpty hemp2⟩

/-- `Store.WF` of the abstraction is preserved by the three operations (the statement asked for) -/
theorem world_store_wf_preserved (ok : StoreOk w) :
    (∀ src dst new w', (moveEntity src dst new).run.run w = (.ok (), w') → (absStore w').WF) ∧
    (∀ loc w', (removeEntity loc).run.run w = (.ok (), w') → (absStore w').WF) ∧
    (∀ w', (absStore w).HasEmpty → spawnStep.run.run w = (.ok (), w') → (absStore w').WF) :=
  ⟨fun _ _ _ _ h => (world_storeOk_move ok h).wf, fun _ _ h => (world_storeOk_remove ok h).wf,
   fun _ he h => (world_storeOk_spawnStep ok he h).1.wf⟩

/-- the empty archetype stays at index 0 -/
theorem world_hasEmpty_move {src : Loc} {dst : Nat} {new : List (Nat × Cell)} (ok : StoreOk w)
    (hemp : (absStore w).HasEmpty) (h : (moveEntity src dst new).run.run w = (.ok (), w')) :
    (absStore w').HasEmpty := by
  obtain ⟨dropped, hs, _⟩ := moveEntity_sim ok.idx ok.ents h
  exact move_hasEmpty hs hemp

theorem world_hasEmpty_remove {loc : Loc} (ok : StoreOk w) (hemp : (absStore w).HasEmpty)
    (h : (removeEntity loc).run.run w = (.ok (), w')) : (absStore w').HasEmpty := by
  obtain ⟨dropped, hs, _⟩ := removeEntity_sim' ok.idx ok.ents h
  exact remove_hasEmpty ok.wf hs hemp

end lifted


/-! ## 4. C12 on worlds -/

section ledger
variable {w w' : World}

/-- the contract under which the world model calls `moveEntity` with two different archetypes: `new` lists exactly
    the components of the destination that the source lacks, in order -/
def NewOk (w : World) (src : Loc) (dst : Nat) (new : List (Nat × Cell)) : Prop :=
  src.arch ≠ dst → ∀ sa da, w.archs.get src.arch = some sa → w.archs.get dst = some da →
    new.map (·.1) = da.comps.filter (fun c => !sa.comps.contains c)

/-- the world-level contract gives the store-level one whenever the monadic `moveEntity` returned normally -/
theorem newOk_abs {src : Loc} {dst : Nat} {new : List (Nat × Cell)} (hnew : NewOk w src dst new)
    (h : (moveEntity src dst new).run.run w = (.ok (), w')) :
    src.arch ≠ dst → ∀ sa da, (absStore w).archs[src.arch]? = some sa → (absStore w).archs[dst]? = some da →
      new.map (·.1) = da.comps.filter (fun c => !sa.comps.contains c) := by
  intro hne sa' da' hsa' hda'
  obtain ⟨sa, da, r, eid, m⟩ := moveEntity_ne_run hne h
  rw [absStore_arch_of_get m.hsa] at hsa'
  rw [absStore_arch_of_get m.hda] at hda'
  cases hsa'; cases hda'
  exact hnew hne sa da m.hsa m.hda

/-- **Conservation for `moveEntity`** (assignment in place or merge between two archetypes): every stored or newly
    supplied cell is afterwards either still stored or was passed to its destructor (`dropped`), exactly once; the
    ledger `cdrops` gained exactly the log of `dropped` (each cell paired with its component index; none is lost by
    the pairing). -/
theorem world_move_ledger {src : Loc} {dst : Nat} {new : List (Nat × Cell)} (ok : StoreOk w)
    (hnew : NewOk w src dst new) (h : (moveEntity src dst new).run.run w = (.ok (), w')) :
    ∃ dropped, (w.cells ++ new.map (·.2)).Perm (w'.cells ++ dropped) ∧
      w'.cdrops = dropLog w ((moveDropComps w src dst new).zip dropped) ++ w.cdrops ∧
      ((moveDropComps w src dst new).zip dropped).map (·.2) = dropped := by
  obtain ⟨dropped, hs, hfr⟩ := moveEntity_sim ok.idx ok.ents h
  have hcd := congrArg World.cdrops hfr
  dsimp only at hcd
  exact ⟨dropped, move_ledger ok.wf hs (newOk_abs hnew h), hcd,
    (moveEntity_sim_complete ok.idx ok.ents ok.wf h hs).2⟩

/-- **Conservation for `removeEntity`** (despawn): the stored cells are afterwards still stored or in `dropped`,
    exactly once; `dropped` are exactly the removed entity's component values, one per component of its archetype, in
    component order; `cdrops` gained exactly their log. -/
theorem world_remove_ledger {e : Key} {loc : Loc} (ok : StoreOk w) (hloc : w.entities.get e = some loc)
    (h : (removeEntity loc).run.run w = (.ok (), w')) :
    ∃ dropped cs, w.cells.Perm (w'.cells ++ dropped) ∧ w.compsOf e = some cs ∧
      dropped.map some = cs.map (w.getCell e) ∧
      w'.cdrops = dropLog w (cs.zip dropped) ++ w.cdrops ∧ (cs.zip dropped).map (·.2) = dropped := by
  obtain ⟨dropped, hs, hfr⟩ := removeEntity_sim' ok.idx ok.ents h
  have hcd := congrArg World.cdrops hfr
  dsimp only at hcd
  obtain ⟨⟨a, ha, he⟩, _, hz⟩ := removeEntity_sim_complete ok.idx ok.ents ok.wf h hs
  obtain ⟨h1, cs, h2, h3⟩ := remove_ledger ok.wf (ok.loc hloc) hs
  have : cs = a.comps := by
    have := world_compsOf_eq ok.ents hloc ha
    unfold World.compsOf at this
    rw [h2] at this
    exact Option.some.inj this
  subst this
  rw [he] at hcd hz
  exact ⟨dropped, a.comps, h1, h2, h3, hcd, hz⟩

/-- **Destroyed ⇒ unreachable, reachable ⇒ not destroyed** (`moveEntity`): if all serials among the stored and the
    newly supplied cells are distinct, then no serial is destroyed twice, no destroyed serial is readable afterwards
    from any entity, and no readable cell was destroyed. -/
theorem world_dropped_not_reachable {src : Loc} {dst : Nat} {new : List (Nat × Cell)} (ok : StoreOk w)
    (hnew : NewOk w src dst new) (h : (moveEntity src dst new).run.run w = (.ok (), w'))
    (hnd : ((w.cells ++ new.map (·.2)).map (·.ser)).Nodup) :
    ∃ dropped, w'.cdrops = dropLog w ((moveDropComps w src dst new).zip dropped) ++ w.cdrops ∧
      ((moveDropComps w src dst new).zip dropped).map (·.2) = dropped ∧
      (dropped.map (·.ser)).Nodup ∧
      (∀ d ∈ dropped, ∀ e' c' y, w'.getCell e' c' = some y → y.ser ≠ d.ser) ∧
      (∀ e' c' y, w'.getCell e' c' = some y → y ∉ dropped) := by
  obtain ⟨dropped, hs, hfr⟩ := moveEntity_sim ok.idx ok.ents h
  have hcd := congrArg World.cdrops hfr
  dsimp only at hcd
  obtain ⟨h1, h2, h3⟩ := dropped_not_reachable ok.wf hs (newOk_abs hnew h) hnd
  exact ⟨dropped, hcd, (moveEntity_sim_complete ok.idx ok.ents ok.wf h hs).2, h1, h2, h3⟩

/-- the same for `removeEntity` (despawn) -/
theorem world_remove_dropped_not_reachable {e : Key} {loc : Loc} (ok : StoreOk w)
    (hloc : w.entities.get e = some loc) (h : (removeEntity loc).run.run w = (.ok (), w'))
    (hnd : (w.cells.map (·.ser)).Nodup) :
    ∃ dropped, w'.cdrops = dropLog w ((removeDropComps w loc).zip dropped) ++ w.cdrops ∧
      ((removeDropComps w loc).zip dropped).map (·.2) = dropped ∧
      (dropped.map (·.ser)).Nodup ∧
      (∀ d ∈ dropped, ∀ e' c' y, w'.getCell e' c' = some y → y.ser ≠ d.ser) ∧
      (∀ e' c' y, w'.getCell e' c' = some y → y ∉ dropped) := by
  obtain ⟨dropped, hs, hfr⟩ := removeEntity_sim' ok.idx ok.ents h
  have hcd := congrArg World.cdrops hfr
  dsimp only at hcd
  obtain ⟨h1, h2, h3⟩ := remove_dropped_not_reachable ok.wf (ok.loc hloc) hs hnd
  exact ⟨dropped, hcd, (removeEntity_sim_complete ok.idx ok.ents ok.wf h hs).2.2, h1, h2, h3⟩

/-- nothing is destroyed that was not there -/
theorem world_move_dropped_was_stored {src : Loc} {dst : Nat} {new : List (Nat × Cell)} (ok : StoreOk w)
    (hnew : NewOk w src dst new) (h : (moveEntity src dst new).run.run w = (.ok (), w')) :
    ∃ dropped, Store.moveEntity (absStore w) src dst new = some (absStore w', dropped) ∧
      ∀ d ∈ dropped, d ∈ w.cells ∨ d ∈ new.map (·.2) := by
  obtain ⟨dropped, hs, _⟩ := moveEntity_sim ok.idx ok.ents h
  exact ⟨dropped, hs, move_dropped_was_stored ok.wf hs (newOk_abs hnew h)⟩

/-- the ledger only grows, and by exactly the log: every entry `moveEntity` adds to `cdrops` is
    `(component type, serial)` of a dropped cell whose component type needs a destructor -/
theorem mem_dropLog {w : World} {pairs : List (Nat × Cell)} {t s : Nat} :
    (t, s) ∈ dropLog w pairs ↔ ∃ p ∈ pairs, compNeedsDrop (w.compTy p.1) = true ∧ t = w.compTy p.1 ∧ s = p.2.ser := by
  unfold dropLog
  simp only [List.mem_reverse, List.mem_map, List.mem_filter, Prod.mk.injEq]
  constructor
  · rintro ⟨p, ⟨hp, hn⟩, h1, h2⟩; exact ⟨p, hp, hn, h1.symm, h2.symm⟩
  · rintro ⟨p, hp, hn, h1, h2⟩; exact ⟨p, ⟨hp, hn⟩, h1.symm, h2.symm⟩

/-- one ledger entry per dropped cell whose type needs a destructor: no destructor runs twice for one cell -/
theorem length_dropLog (w : World) (pairs : List (Nat × Cell)) :
    (dropLog w pairs).length = (pairs.filter fun p => compNeedsDrop (w.compTy p.1)).length := by
  simp [dropLog]

/-- **Spawn neither stores nor destroys a cell** -/
theorem world_spawn_ledger (ok : StoreOk w) (hemp : (absStore w).HasEmpty) (h : spawnStep.run.run w = (.ok (), w')) :
    w'.cells = w.cells ∧ w'.cdrops = w.cdrops := by
  obtain ⟨k, ents1, a0, _, _, _, heq, _, he⟩ := spawnStep_sim ok.idx ok.ents h
  constructor
  · unfold World.cells; rw [heq.cells, spawn_ledger _ _ hemp]
  · rw [he]

end ledger

/-! ## 5. the handler caches are a frame: the handler table keeps its keys -/

/-- `moveEntity` rewrites handler caches with `handlers.set` only: no handler key appears or disappears (however the
    call ends) -/
theorem moveEntity_handlers_keys_any (src : Loc) (dst : Nat) (new : List (Nat × Cell)) (w : World) (k : Key) :
    ((moveEntity src dst new).run.run w).2.handlers.contains k = w.handlers.contains k :=
  (moveEntity_hk_refine w.handlers src dst new).run w (fun _ => rfl) k

theorem moveEntity_handlers_keys {w w' : World} {src : Loc} {dst : Nat} {new : List (Nat × Cell)}
    (h : (moveEntity src dst new).run.run w = (.ok (), w')) (k : Key) :
    w'.handlers.contains k = w.handlers.contains k := by
  have := moveEntity_handlers_keys_any src dst new w k
  rw [h] at this; exact this

theorem removeEntity_handlers_keys {w w' : World} {loc : Loc}
    (h : (removeEntity loc).run.run w = (.ok (), w')) (k : Key) :
    w'.handlers.contains k = w.handlers.contains k := by
  have := (removeEntity_hk_refine w.handlers loc).run w (fun _ => rfl) k
  rw [h] at this; exact this

theorem archSpawn_handlers_keys {w w' : World} {id : Key} {loc : Loc}
    (h : (archSpawn id).run.run w = (.ok loc, w')) (k : Key) :
    w'.handlers.contains k = w.handlers.contains k := by
  have := (archSpawn_hk_refine w.handlers id).run w (fun _ => rfl) k
  rw [h] at this; exact this

theorem spawnAll_handlers_keys {w w' : World} (h : spawnAll.run.run w = (.ok (), w')) (k : Key) :
    w'.handlers.contains k = w.handlers.contains k := by
  have := (spawnAll_hk_refine w.handlers).run w (fun _ => rfl) k
  rw [h] at this; exact this


/-! ## 6. `spawnAll` as a whole -/

/-- `spawnAll` is `resCount` iterations of `spawnStep` (the body of its loop, verbatim), then the cursor reset -/
theorem world_spawnAll_run {w w' : World} (h : spawnAll.run.run w = (.ok (), w')) :
    ∃ w1, Iter spawnStep w.resCount w w1 ∧
      w' = { w1 with resIndex := w1.entities.nextKeyIndex, resCount := 0 } :=
  spawnAll_run h

theorem iter_spawnStep_ok {n : Nat} {w w1 : World} (hit : Iter spawnStep n w w1) (ok : StoreOk w)
    (hemp : (absStore w).HasEmpty) :
    (StoreOk w1 ∧ (absStore w1).HasEmpty) ∧
    ∀ e l, w.entities.get e = some l →
      w1.entities.get e = some l ∧ (∀ c, w1.getCell e c = w.getCell e c) ∧ w1.compsOf e = w.compsOf e := by
  induction hit with
  | zero w => exact ⟨⟨ok, hemp⟩, fun e l h => ⟨h, fun _ => rfl, rfl⟩⟩
  | @succ n w w1 w2 hstep _ ih =>
    obtain ⟨ok1, hemp1⟩ := world_storeOk_spawnStep ok hemp hstep
    obtain ⟨h1, h2⟩ := ih ok1 hemp1
    refine ⟨h1, ?_⟩
    intro e l hl
    obtain ⟨k, a0, hfresh, _, hget, _, _, hother⟩ := world_spawn_get ok hemp hstep
    have hne : e ≠ k := by intro he; rw [he, hfresh] at hl; cases hl
    have hl1 : w1.entities.get e = some l := by rw [hget, if_neg hne]; exact hl
    obtain ⟨g1, g2, g3⟩ := h2 e l hl1
    obtain ⟨o1, o2⟩ := hother e hne
    exact ⟨g1, fun c => (g2 c).trans (o1 c), g3.trans o2⟩

/-- **`spawnAll`** preserves the hypotheses, and no entity that was alive is moved, changed, or loses or gains a
    component; nothing is stored or destroyed. -/
theorem world_spawnAll {w w' : World} (ok : StoreOk w) (hemp : (absStore w).HasEmpty)
    (h : spawnAll.run.run w = (.ok (), w')) :
    (StoreOk w' ∧ (absStore w').HasEmpty) ∧
    (∀ e l, w.entities.get e = some l →
      w'.entities.get e = some l ∧ (∀ c, w'.getCell e c = w.getCell e c) ∧ w'.compsOf e = w.compsOf e) := by
  obtain ⟨w1, hit, rfl⟩ := spawnAll_run h
  obtain ⟨⟨ok1, hemp1⟩, h2⟩ := iter_spawnStep_ok hit ok hemp
  exact ⟨⟨⟨ok1.idx, ok1.ents, ok1.wf⟩, hemp1⟩, h2⟩

/-! ## 7. non-vacuity: a concrete world, every operation evaluated -/

/-- `moveCols` with structural recursion on a fuel argument (so that the kernel can evaluate it: `moveCols` itself is
    compiled by well-founded recursion) -/
def moveColsF : Nat → Nat → List Nat → List (List Cell) → List Nat → List (List Cell) → List (Nat × Cell) →
    Option MoveCols
  | 0, _, _, _, _, _, _ => none
  | f + 1, row, scs, scols, dcs, dcols, new =>
    match scs, scols, dcs, dcols, new with
    | [], [], [], [], _ => some ⟨[], [], []⟩
    | _ :: scs, scol :: scols, [], [], new =>
      match scol[row]?, moveColsF f row scs scols [] [] new with
      | some x, some r => some ⟨swapRemove scol row :: r.src, r.dst, x :: r.dropped⟩
      | _, _ => none
    | [], [], dc :: dcs, dcol :: dcols, (nc, nv) :: new =>
      if nc = dc then
        match moveColsF f row [] [] dcs dcols new with
        | some r => some ⟨r.src, (dcol ++ [nv]) :: r.dst, r.dropped⟩
        | none => none
      else none
    | sc :: scs, scol :: scols, dc :: dcs, dcol :: dcols, new =>
      if sc < dc then
        match scol[row]?, moveColsF f row scs scols (dc :: dcs) (dcol :: dcols) new with
        | some x, some r => some ⟨swapRemove scol row :: r.src, r.dst, x :: r.dropped⟩
        | _, _ => none
      else if sc = dc then
        match scol[row]?, moveColsF f row scs scols dcs dcols new with
        | some x, some r => some ⟨swapRemove scol row :: r.src, (dcol ++ [x]) :: r.dst, r.dropped⟩
        | _, _ => none
      else
        match new with
        | (nc, nv) :: new' =>
          if nc = dc then
            match moveColsF f row (sc :: scs) (scol :: scols) dcs dcols new' with
            | some r => some ⟨r.src, (dcol ++ [nv]) :: r.dst, r.dropped⟩
            | none => none
          else none
        | [] => none
    | _, _, _, _, _ => none

theorem moveColsF_eq (f row : Nat) (scs scols dcs dcols new) (hf : scs.length + dcs.length < f) :
    moveColsF f row scs scols dcs dcols new = moveCols row scs scols dcs dcols new := by
  fun_induction moveCols row scs scols dcs dcols new generalizing f <;>
    (cases f with
     | zero => omega
     | succ f => simp_all [moveColsF] <;> grind)

theorem moveCols_eq_fuel : moveCols = fun row scs scols dcs dcols new =>
    moveColsF (scs.length + dcs.length + 1) row scs scols dcs dcols new := by
  funext row scs scols dcs dcols new
  exact (moveColsF_eq _ _ _ _ _ _ _ (by omega)).symm

/-- a concrete world: component indices 0..3 of types 0..3 (types 1 and 3 need a destructor), archetypes `{}`,
    `{1,3}` with two entities, `{1,2}` empty -/
def exW : World :=
  { entities := { slots := [⟨1, U32MAX, some ⟨1, 0⟩⟩, ⟨1, U32MAX, some ⟨1, 1⟩⟩], nextFree := U32MAX, len := 2 }
    comps := { slots := [⟨1, U32MAX, some { ty := 0, id := ⟨0, 1⟩ }⟩, ⟨1, U32MAX, some { ty := 1, id := ⟨1, 1⟩ }⟩,
                         ⟨1, U32MAX, some { ty := 2, id := ⟨2, 1⟩ }⟩, ⟨1, U32MAX, some { ty := 3, id := ⟨3, 1⟩ }⟩],
               nextFree := U32MAX, len := 4 }
    archs := { entries := [.occ { index := 0, comps := [], cols := [], ids := [] },
                           .occ { index := 1, comps := [1, 3],
                                  cols := [[⟨100, 1⟩, ⟨110, 2⟩], [⟨300, 4⟩, ⟨310, 5⟩]], ids := [⟨0, 1⟩, ⟨1, 1⟩] },
                           .occ { index := 2, comps := [1, 2], cols := [[], []], ids := [] }],
               next := 3 } }

def runOk (m : M Unit) (w : World) : Option World :=
  match m.run.run w with
  | (.ok _, w') => some w'
  | _ => none

theorem runOk_some {m : M Unit} {w w' : World} (h : runOk m w = some w') : m.run.run w = (.ok (), w') := by
  unfold runOk at h
  split at h
  · rename_i u w1 heq; cases h; exact heq
  · cases h

example : exW.invStore = true := by decide
example : exW.invArch = true := by decide

example : ((runOk (removeEntity ⟨1, 0⟩) exW).map fun w' =>
    (w'.cdrops, w'.getCell ⟨1, 1⟩ 3, w'.getCell ⟨1, 1⟩ 1)) =
    some ([(3, 4), (1, 1)], some ⟨310, 5⟩, some ⟨110, 2⟩) := by decide
example : ((runOk (removeEntity ⟨1, 0⟩) exW).map fun w' => (w'.entities.get ⟨0, 1⟩, w'.entities.get ⟨1, 1⟩)) =
    some (none, some ⟨1, 0⟩) := by decide

example : ((runOk (moveEntity ⟨1, 0⟩ 1 [(3, ⟨999, 9⟩)]) exW).map fun w' =>
    (w'.cdrops, w'.getCell ⟨0, 1⟩ 3, w'.getCell ⟨0, 1⟩ 1)) =
    some ([(3, 4)], some ⟨999, 9⟩, some ⟨100, 1⟩) := by decide

example : ((runOk spawnStep exW).map fun w' => (w'.entities.get ⟨2, 1⟩, w'.compsOf ⟨2, 1⟩)) =
    some (some ⟨0, 0⟩, some []) := by decide


theorem exW_ents_wf : exW.entities.WF := by
  refine ⟨?_, ?_, ⟨[], rfl, List.nodup_nil⟩, by decide, by decide⟩
  · intro i s h
    rcases i with _ | _ | i <;> simp [exW] at h <;> subst h <;> decide
  · intro i s h
    rcases i with _ | _ | i <;> simp [exW] at h <;> subst h <;> decide

/-- the hypotheses of all lifted theorems hold of `exW` -/
theorem exW_ok : StoreOk exW ∧ (absStore exW).HasEmpty :=
  world_inv_abs_wf (by decide) (by decide) exW_ents_wf

theorem exMove : ((runOk (moveEntity ⟨1, 0⟩ 2 [(2, ⟨777, 9⟩)]) exW).map fun w' =>
    (w'.cdrops, w'.getCell ⟨0, 1⟩ 3, w'.getCell ⟨0, 1⟩ 1, w'.getCell ⟨0, 1⟩ 2, w'.getCell ⟨1, 1⟩ 3)) =
    some ([(3, 4)], none, some ⟨100, 1⟩, some ⟨777, 9⟩, some ⟨310, 5⟩) := by
  unfold moveEntity
  rw [moveCols_eq_fuel]
  decide



/-- the two-archetype move returns normally on `exW` … -/
theorem exMove_ok : ∃ w', (moveEntity ⟨1, 0⟩ 2 [(2, ⟨777, 9⟩)]).run.run exW = (.ok (), w') := by
  have h := exMove
  cases hr : runOk (moveEntity ⟨1, 0⟩ 2 [(2, ⟨777, 9⟩)]) exW with
  | none => rw [hr] at h; cases h
  | some w' => exact ⟨w', runOk_some hr⟩

/-- … so the hypotheses of the lifted theorems are jointly satisfiable: `world_move_get_self` applies to it -/
example : ∃ w', (moveEntity ⟨1, 0⟩ 2 [(2, ⟨777, 9⟩)]).run.run exW = (.ok (), w') ∧
    w'.entities.get ⟨0, 1⟩ = some ⟨2, 0⟩ ∧ w'.compsOf ⟨0, 1⟩ = some [1, 2] := by
  obtain ⟨w', h⟩ := exMove_ok
  obtain ⟨h1, h2, _⟩ := world_move_get_self (e := ⟨0, 1⟩) exW_ok.1 (by decide) (by decide) rfl rfl (by decide) h
  exact ⟨w', h, h1, h2⟩

end Evenio

#print axioms Evenio.world_abs_loc
#print axioms Evenio.world_abs_arch
#print axioms Evenio.world_abs_arch_of_get
#print axioms Evenio.world_getCell_eq
#print axioms Evenio.world_compsOf_eq
#print axioms Evenio.world_inv_abs_wf
#print axioms Evenio.world_Inv_abs_wf
#print axioms Evenio.world_move_sim
#print axioms Evenio.world_move_run
#print axioms Evenio.world_move_drops_complete
#print axioms Evenio.world_remove_sim
#print axioms Evenio.world_remove_drops_complete
#print axioms Evenio.world_archSpawn_sim
#print axioms Evenio.world_spawnStep_sim
#print axioms Evenio.world_spawnAll_sim
#print axioms Evenio.StoreOk.loc
#print axioms Evenio.world_move_get_self
#print axioms Evenio.world_insert_get_self
#print axioms Evenio.world_insert_get_self_same
#print axioms Evenio.world_remove_get_self
#print axioms Evenio.world_remove_absent
#print axioms Evenio.world_move_get_other
#print axioms Evenio.world_remove_get
#print axioms Evenio.world_spawn_get
#print axioms Evenio.world_storeOk_move
#print axioms Evenio.world_storeOk_remove
#print axioms Evenio.world_storeOk_spawnStep
#print axioms Evenio.world_store_wf_preserved
#print axioms Evenio.world_hasEmpty_move
#print axioms Evenio.world_hasEmpty_remove
#print axioms Evenio.newOk_abs
#print axioms Evenio.world_move_ledger
#print axioms Evenio.world_remove_ledger
#print axioms Evenio.world_dropped_not_reachable
#print axioms Evenio.world_remove_dropped_not_reachable
#print axioms Evenio.world_move_dropped_was_stored
#print axioms Evenio.mem_dropLog
#print axioms Evenio.length_dropLog
#print axioms Evenio.world_spawn_ledger
#print axioms Evenio.moveEntity_handlers_keys_any
#print axioms Evenio.moveEntity_handlers_keys
#print axioms Evenio.removeEntity_handlers_keys
#print axioms Evenio.archSpawn_handlers_keys
#print axioms Evenio.spawnAll_handlers_keys
#print axioms Evenio.world_spawnAll_run
#print axioms Evenio.iter_spawnStep_ok
#print axioms Evenio.world_spawnAll
#print axioms Evenio.moveColsF_eq
#print axioms Evenio.moveCols_eq_fuel
#print axioms Evenio.runOk_some
#print axioms Evenio.exW_ents_wf
#print axioms Evenio.exW_ok
#print axioms Evenio.exMove
#print axioms Evenio.exMove_ok
