import Evenio.Proofs.StorageOps
/-!
# C02

> Reading component C of entity e yields exactly the value most recently inserted for (e, C) if e is alive and
> still has C, and nothing otherwise. An operation on one entity never changes the presence or value of any
> component of another entity.

Proved for the pure counterparts (`Evenio/Model/StoragePure.lean`) of the storage half of `moveEntity`,
`removeEntity`, `archSpawn` of the world model, for arbitrary numbers of archetypes, columns and rows.
`Store.get st e c` reads component `c` of entity `e` through its location; `Store.WF` is the (decidable)
well-formedness of a store: shapes of the archetypes, distinct keys, locations ↔ rows bijection.
-/
namespace Evenio
open SparseMap (swapRemove)
open Store

/-! ## the merge loop -/

/-- Specification of the `loop` of `move_entity`.  Preconditions: both component lists strictly sorted, one column
    per component, source columns as long as the source id list (`n` rows), `row < n`, and `new` lists exactly the
    components of the destination that the source lacks, in order.  Then `moveCols` succeeds and
    * every source column is the `swap_remove` of the old one,
    * the `j`-th destination column is the old one with one cell appended: the source's cell at `row` if the source
      has that component, else the supplied new cell,
    * the dropped cells are the cells at `row` of the source-only components, in order. -/
theorem moveCols_spec (row n : Nat) (scs : List Nat) (scols : List (List Cell)) (dcs : List Nat)
    (dcols : List (List Cell)) (new : List (Nat × Cell))
    (hs : scs.Pairwise (· < ·)) (hd : dcs.Pairwise (· < ·))
    (hsl : scols.length = scs.length) (hdl : dcols.length = dcs.length)
    (hcol : ∀ col ∈ scols, col.length = n) (hrow : row < n)
    (hnew : new.map (·.1) = dcs.filter (fun c => !scs.contains c)) :
    ∃ r, moveCols row scs scols dcs dcols new = some r ∧
      r.src = scols.map (swapRemove · row) ∧
      r.dst.length = dcols.length ∧
      (∀ (j dc : Nat) (dcol : List Cell), dcs[j]? = some dc → dcols[j]? = some dcol →
        ∃ x, r.dst[j]? = some (dcol ++ [x]) ∧
          (if dc ∈ scs then cellAt row scs scols dc else new.lookup dc) = some x) ∧
      r.dropped.map some = (scs.filter fun c => !dcs.contains c).map (cellAt row scs scols) := by
  obtain ⟨r, hr⟩ := moveCols_some row n scs scols dcs dcols new hs hd hsl hdl hcol hrow hnew
  exact ⟨r, hr, moveCols_src _ _ _ _ _ _ _ hr, (moveCols_dst_shape _ _ _ _ _ _ _ hr).1,
    moveCols_dst_val _ _ _ _ _ _ _ hr hs hd, moveCols_dropped _ _ _ _ _ _ _ hr hs hd⟩

/-! ## well-formedness is preserved -/

theorem move_wf {st st' : Store} {src : Loc} {dst : Nat} {new : List (Nat × Cell)} {dr : List Cell}
    (hwf : st.WF) (h : st.moveEntity src dst new = some (st', dr)) : st'.WF := by
  by_cases he : src.arch = dst
  · obtain ⟨a, a', m⟩ := moveEntity_same_inv he h
    exact m.wf hwf
  · obtain ⟨sa, da, r, eid, m⟩ := moveEntity_ne_inv he h
    exact m.wf he hwf

theorem remove_wf {st st' : Store} {loc : Loc} {dr : List Cell}
    (hwf : st.WF) (h : st.removeEntity loc = some (st', dr)) : st'.WF := by
  obtain ⟨a, id, m⟩ := removeEntity_inv h
  exact m.wf hwf

/-- spawning a fresh id into the empty archetype -/
theorem spawn_wf {st : Store} {id : Key} (hwf : st.WF) (he : st.HasEmpty) (hfresh : id ∉ st.locs.map (·.1)) :
    (st.spawn id).WF ∧ (st.spawn id).HasEmpty := by
  have hf : st.loc id = none := (alookup_eq_none_iff _ _).mpr hfresh
  refine ⟨spawn_wf_aux hwf he hf, ?_⟩
  obtain ⟨a0, ha0, hc0⟩ := he
  exact ⟨{ a0 with ids := a0.ids ++ [id] }, by rw [(spawn_facts ha0 hf).1]; rfl, hc0⟩

/-- the archetype-0-is-empty side condition of `spawn_wf` is itself preserved -/
theorem move_hasEmpty {st st' : Store} {src : Loc} {dst : Nat} {new : List (Nat × Cell)} {dr : List Cell}
    (h : st.moveEntity src dst new = some (st', dr)) (hemp : st.HasEmpty) : st'.HasEmpty := by
  by_cases he : src.arch = dst
  · obtain ⟨a, a', m⟩ := moveEntity_same_inv he h
    exact hasEmpty_of_archComps (m.archComps 0) hemp
  · obtain ⟨sa, da, r, eid, m⟩ := moveEntity_ne_inv he h
    exact hasEmpty_of_archComps (m.archComps he 0) hemp

theorem remove_hasEmpty {st st' : Store} {loc : Loc} {dr : List Cell} (hwf : st.WF)
    (h : st.removeEntity loc = some (st', dr)) (hemp : st.HasEmpty) : st'.HasEmpty := by
  obtain ⟨a, id, m⟩ := removeEntity_inv h
  exact hasEmpty_of_archComps (m.archComps hwf 0) hemp

/-! ## the moved entity -/

/-- General form, two different archetypes: the move succeeds; afterwards `e` lives in the last row of `dst`, has
    exactly the components of `dst`; a component that the source had keeps its value, a component that the source
    lacked has the supplied value, every other read yields nothing; the dropped cells are the values of the
    source-only components. -/
theorem move_get_self {st : Store} {e : Key} {src : Loc} {dst : Nat} {new : List (Nat × Cell)} {sa da : Arch}
    (hwf : st.WF) (hsrc : st.loc e = some src) (hne : src.arch ≠ dst)
    (hsa : st.archs[src.arch]? = some sa) (hda : st.archs[dst]? = some da)
    (hnew : new.map (·.1) = da.comps.filter (fun c => !sa.comps.contains c)) :
    ∃ st' dr, st.moveEntity src dst new = some (st', dr) ∧
      st'.loc e = some ⟨dst, da.ids.length⟩ ∧ st'.comps e = some da.comps ∧
      (∀ c, st'.get e c = if c ∈ da.comps then (if c ∈ sa.comps then st.get e c else new.lookup c) else none) ∧
      dr.map some = (sa.comps.filter fun c => !da.comps.contains c).map (st.get e) := by
  have heid : sa.ids[src.row]? = some e := by
    have := (hwf.loc_iff _ _).mp hsrc
    rwa [rowId_of_arch hsa] at this
  obtain ⟨st', dr, h⟩ := moveEntity_ne_some hwf hne hsa hda heid hnew
  obtain ⟨sa', da', r, eid, m⟩ := moveEntity_ne_inv hne h
  have e1 : sa' = sa := by have := m.hsa; rw [hsa] at this; exact (Option.some.inj this).symm
  have e2 : da' = da := by have := m.hda; rw [hda] at this; exact (Option.some.inj this).symm
  subst e1 e2
  have e3 : eid = e := by have := m.heid; rw [heid] at this; exact (Option.some.inj this).symm
  subst e3
  refine ⟨st', dr, h, m.loc_self hwf, m.comps_self hne hwf, m.get_self hne hwf, ?_⟩
  rw [m.hdr, moveCols_dropped _ _ _ _ _ _ _ m.hr (hwf.archWF hsa).sorted (hwf.archWF hda).sorted]
  apply List.map_congr_left
  intro c _
  simp only [Store.get, hsrc, hsa, readCell_eq]

/-- The Insert effect (`traverse_insert` led to another archetype: the entity did not have `c`):
    `get e c = some x`, every other component is unchanged, nothing is dropped. -/
theorem move_get_self_insert {st : Store} {e : Key} {src : Loc} {dst : Nat} {c : Nat} {x : Cell} {sa da : Arch}
    (hwf : st.WF) (hsrc : st.loc e = some src)
    (hsa : st.archs[src.arch]? = some sa) (hda : st.archs[dst]? = some da)
    (hc : c ∉ sa.comps) (hcomps : da.comps = insertSorted sa.comps c) :
    ∃ st', st.moveEntity src dst [(c, x)] = some (st', []) ∧
      st'.comps e = some (insertSorted sa.comps c) ∧
      st'.get e c = some x ∧ ∀ c', c' ≠ c → st'.get e c' = st.get e c' := by
  have hcd : c ∈ da.comps := by rw [hcomps, mem_insertSorted]; exact Or.inl rfl
  have hne : src.arch ≠ dst := by
    intro h; rw [h, hda] at hsa; cases hsa; exact hc hcd
  have hwda := hwf.archWF hda
  have hnew : [(c, x)].map (·.1) = da.comps.filter (fun c => !sa.comps.contains c) := by
    rw [filter_eq_singleton (Sorted.nodup hwda.sorted) hcd]
    · rfl
    · intro y hy
      rw [hcomps, mem_insertSorted] at hy
      simp only [Bool.not_eq_true', List.contains_eq_mem, decide_eq_false_iff_not]
      constructor
      · intro h; rcases hy with h' | h'
        · exact h'
        · exact absurd h' h
      · intro h; subst h; exact hc
  obtain ⟨st', dr, h, _, hcs, hget, hdr⟩ := move_get_self hwf hsrc hne hsa hda hnew
  have hdr' : dr = [] := by
    have : (sa.comps.filter fun c => !da.comps.contains c) = [] := by
      rw [List.filter_eq_nil_iff]
      intro y hy
      have : y ∈ da.comps := by rw [hcomps, mem_insertSorted]; exact Or.inr hy
      simp [this]
    rw [this] at hdr; simpa using hdr
  subst hdr'
  refine ⟨st', h, by rw [hcs, hcomps], ?_, ?_⟩
  · rw [hget, if_pos hcd, if_neg hc]; simp [List.lookup]
  · intro c' hc'
    rw [hget]
    by_cases h1 : c' ∈ sa.comps
    · have : c' ∈ da.comps := by rw [hcomps, mem_insertSorted]; exact Or.inr h1
      rw [if_pos this, if_pos h1]
    · have : c' ∉ da.comps := by
        rw [hcomps, mem_insertSorted]; intro h; rcases h with h | h
        · exact hc' h
        · exact h1 h
      rw [if_neg this]
      simp only [Store.get, hsrc, hsa, readCell_eq, cellAt_not_mem _ _ _ _ h1]

/-- The Insert effect when the entity already has `c` (`traverse_insert` returns the source archetype,
    `Column::assign`): `get e c = some x`, every other component is unchanged, the old value is dropped. -/
theorem move_get_self_same {st : Store} {e : Key} {src : Loc} {c : Nat} {x : Cell} {sa : Arch}
    (hwf : st.WF) (hsrc : st.loc e = some src) (hsa : st.archs[src.arch]? = some sa) (hc : c ∈ sa.comps) :
    ∃ st' old, st.moveEntity src src.arch [(c, x)] = some (st', [old]) ∧ st.get e c = some old ∧
      st'.comps e = st.comps e ∧
      st'.get e c = some x ∧ ∀ c', c' ≠ c → st'.get e c' = st.get e c' := by
  have heid : sa.ids[src.row]? = some e := by
    have := (hwf.loc_iff _ _).mp hsrc
    rwa [rowId_of_arch hsa] at this
  obtain ⟨a', old, hassign, hold, hread⟩ :=
    assignAll_single (hwf.archWF hsa) x hc (lt_of_getElem?_eq_some heid)
  have h : st.moveEntity src src.arch [(c, x)] = some ({ st with archs := st.archs.set src.arch a' }, [old]) := by
    simp only [Store.moveEntity, if_true, hsa, hassign]
  obtain ⟨a1, a1', m⟩ := moveEntity_same_inv rfl h
  have e1 : a1 = sa := by have := m.ha; rw [hsa] at this; exact (Option.some.inj this).symm
  subst e1
  have e2 : a1' = a' := by
    have := m.hassign; rw [hassign] at this
    exact ((Prod.mk.inj (Option.some.inj this)).1).symm
  subst e2
  have hg : ∀ c', Store.get { st with archs := st.archs.set src.arch a1' } e c' = a1'.readCell c' src.row := by
    intro c'
    simp only [Store.get, m.loc_eq, hsrc, m.archs_eq, if_true]
  have hg0 : ∀ c', st.get e c' = a1.readCell c' src.row := by
    intro c'; simp only [Store.get, hsrc, hsa]
  refine ⟨_, old, h, by rw [hg0, hold], m.comps_eq e, ?_, ?_⟩
  · rw [hg, hread, if_pos rfl]
  · intro c' hc'; rw [hg, hread, if_neg hc', hg0]

/-- The Remove effect (the entity has `c`; the destination has the same components without `c`):
    `get e c = none`, every other component is unchanged, exactly the old value of `c` is dropped. -/
theorem move_get_self_remove {st : Store} {e : Key} {src : Loc} {dst : Nat} {c : Nat} {sa da : Arch}
    (hwf : st.WF) (hsrc : st.loc e = some src)
    (hsa : st.archs[src.arch]? = some sa) (hda : st.archs[dst]? = some da)
    (hc : c ∈ sa.comps) (hcomps : da.comps = sa.comps.filter (· != c)) :
    ∃ st' old, st.moveEntity src dst [] = some (st', [old]) ∧ st.get e c = some old ∧
      st'.comps e = some (sa.comps.filter (· != c)) ∧
      st'.get e c = none ∧ ∀ c', c' ≠ c → st'.get e c' = st.get e c' := by
  have hmem : ∀ y, y ∈ da.comps ↔ y ∈ sa.comps ∧ y ≠ c := by
    intro y; rw [hcomps, List.mem_filter]; simp
  have hcd : c ∉ da.comps := by rw [hmem]; exact fun h => h.2 rfl
  have hne : src.arch ≠ dst := by
    intro h; rw [h, hda] at hsa; cases hsa; exact hcd hc
  have hwsa := hwf.archWF hsa
  have hnew : ([] : List (Nat × Cell)).map (·.1) = da.comps.filter (fun c => !sa.comps.contains c) := by
    symm
    rw [List.map_nil, List.filter_eq_nil_iff]
    intro y hy
    simp [((hmem y).mp hy).1]
  obtain ⟨st', dr, h, _, hcs, hget, hdr⟩ := move_get_self hwf hsrc hne hsa hda hnew
  have hfil : (sa.comps.filter fun c => !da.comps.contains c) = [c] := by
    apply filter_eq_singleton (Sorted.nodup hwsa.sorted) hc
    intro y hy
    simp only [Bool.not_eq_true', List.contains_eq_mem, decide_eq_false_iff_not, hmem]
    constructor
    · intro h; exact Classical.byContradiction fun hne => h ⟨hy, hne⟩
    · intro h hh; exact hh.2 h
  rw [hfil] at hdr
  have heid : sa.ids[src.row]? = some e := by
    have := (hwf.loc_iff _ _).mp hsrc
    rwa [rowId_of_arch hsa] at this
  cases dr with
  | nil => simp at hdr
  | cons old dr =>
    cases dr with
    | cons _ _ => simp at hdr
    | nil =>
      simp only [List.map_cons, List.map_nil, List.cons.injEq, and_true] at hdr
      refine ⟨st', old, h, hdr.symm, by rw [hcs, hcomps], ?_, ?_⟩
      · rw [hget, if_neg hcd]
      · intro c' hc'
        rw [hget]
        by_cases h1 : c' ∈ sa.comps
        · rw [if_pos ((hmem c').mpr ⟨h1, hc'⟩), if_pos h1]
        · have : c' ∉ da.comps := fun h => h1 ((hmem c').mp h).1
          rw [if_neg this]
          simp only [Store.get, hsrc, hsa, readCell_eq, cellAt_not_mem _ _ _ _ h1]

/-- The Remove effect when the entity does not have `c` (`traverse_remove` returns the source archetype):
    nothing changes, nothing is dropped. -/
theorem move_get_self_remove_absent {st : Store} {src : Loc} {sa : Arch}
    (hsa : st.archs[src.arch]? = some sa) : st.moveEntity src src.arch [] = some (st, []) := by
  obtain ⟨hlt, rfl⟩ := List.getElem?_eq_some_iff.mp hsa
  simp only [Store.moveEntity, if_true, List.getElem?_eq_getElem hlt, assignAll, List.set_getElem_self]

/-! ## every other entity -/

/-- A move of `e` (any of the cases above) changes neither the value or presence of any component of any other
    entity `e'`, nor its component set.  This is where the swap-remove location fix-up matters. -/
theorem move_get_other {st st' : Store} {e : Key} {src : Loc} {dst : Nat} {new : List (Nat × Cell)} {dr : List Cell}
    (hwf : st.WF) (hsrc : st.loc e = some src) (h : st.moveEntity src dst new = some (st', dr))
    (e' : Key) (hne : e' ≠ e) :
    (∀ c', st'.get e' c' = st.get e' c') ∧ st'.comps e' = st.comps e' := by
  by_cases he : src.arch = dst
  · obtain ⟨a, a', m⟩ := moveEntity_same_inv he h
    have : st.loc e' ≠ some src := by
      intro h'
      have h1 := (hwf.loc_iff _ _).mp h'
      have h2 := (hwf.loc_iff _ _).mp hsrc
      rw [h1] at h2; exact hne (Option.some.inj h2)
    exact ⟨fun c' => m.get_other e' this c', m.comps_eq e'⟩
  · obtain ⟨sa, da, r, eid, m⟩ := moveEntity_ne_inv he h
    have : eid = e := by
      have h1 := (hwf.loc_iff _ _).mp (m.loc_src hwf)
      have h2 := (hwf.loc_iff _ _).mp hsrc
      rw [h1] at h2; exact Option.some.inj h2
    subst this
    exact ⟨fun c' => m.get_other he hwf e' hne c', m.comps_other he hwf e' hne⟩

/-- After `removeEntity` of `e`: `e` is gone (not in `locs`, every read yields nothing); every other entity's reads
    and component set are unchanged. -/
theorem remove_get {st st' : Store} {e : Key} {loc : Loc} {dr : List Cell}
    (hwf : st.WF) (hloc : st.loc e = some loc) (h : st.removeEntity loc = some (st', dr)) :
    e ∉ st'.locs.map (·.1) ∧ (∀ c, st'.get e c = none) ∧ st'.comps e = none ∧
    ∀ e', e' ≠ e → (∀ c', st'.get e' c' = st.get e' c') ∧ st'.comps e' = st.comps e' := by
  obtain ⟨a, id, m⟩ := removeEntity_inv h
  have : id = e := by
    have h1 : st.loc id = some loc := (hwf.loc_iff _ _).mpr (by rw [rowId_of_arch m.ha]; exact m.hid)
    have h2 := (hwf.loc_iff _ _).mp hloc
    rw [(hwf.loc_iff _ _).mp h1] at h2; exact Option.some.inj h2
  subst this
  have hl := m.loc_self
  refine ⟨(alookup_eq_none_iff _ _).mp hl, fun c => by simp [Store.get, hl], by simp [Store.comps, hl], ?_⟩
  intro e' hne
  exact ⟨fun c' => m.get_other hwf e' hne c', m.comps_other hwf e' hne⟩

/-- `removeEntity` at the location of a live entity succeeds. -/
theorem remove_some {st : Store} {e : Key} {loc : Loc} (hwf : st.WF) (hloc : st.loc e = some loc) :
    ∃ st' dr, st.removeEntity loc = some (st', dr) := removeEntity_some hwf hloc

/-- After `spawn` of a fresh id: the new entity is alive with no components; every other entity is unchanged. -/
theorem spawn_get {st : Store} {id : Key} (hwf : st.WF) (he : st.HasEmpty) (hfresh : id ∉ st.locs.map (·.1)) :
    (st.spawn id).comps id = some [] ∧ (∀ c, (st.spawn id).get id c = none) ∧
    ∀ e', e' ≠ id → (∀ c', (st.spawn id).get e' c' = st.get e' c') ∧ (st.spawn id).comps e' = st.comps e' := by
  have hf : st.loc id = none := (alookup_eq_none_iff _ _).mpr hfresh
  obtain ⟨a0, ha0, hc0⟩ := he
  obtain ⟨harchs, hloc⟩ := spawn_facts ha0 hf
  have hl : (st.spawn id).loc id = some ⟨0, a0.ids.length⟩ := by rw [hloc]; simp [locPush]
  refine ⟨by simp [Store.comps, hl, harchs, hc0], ?_, ?_⟩
  · intro c
    simp only [Store.get, hl, harchs, if_true, readCell_eq, hc0, cellAt_nil]
  · intro e' hne
    constructor
    · intro c'
      rw [get_eq, get_eq]
      apply spawn_bind_other _ _ hwf ha0 hf _ _ e' hne
      · intro r _; simp only [cellOf, harchs, if_true, ha0]; rfl
      · intro a r h; simp only [cellOf, harchs, if_neg h]
    · rw [comps_eq, comps_eq]
      apply spawn_bind_other _ _ hwf ha0 hf _ _ e' hne
      · intro r _; simp only [compsOf, harchs, if_true, ha0]; rfl
      · intro a r h; simp only [compsOf, harchs, if_neg h]

/-! ## non-vacuity: a concrete three-archetype store -/

example : ex0.WF := by decide
example : ex0.HasEmpty := by decide

/-- the expected result of moving entity 10 (row 0 of archetype 1 = `{1,3}`) to archetype 2 = `{1,2}` with a new
    component 2: component 1 is transferred, component 2 is written, component 3 (serial 4) is dropped; entity 12 is
    swapped into row 0 of archetype 1 and its location is fixed up -/
def ex1 : Store :=
  { archs := [{ index := 0, comps := [], cols := [], ids := [] },
              { index := 1, comps := [1, 3], cols := [[⟨120, 3⟩, ⟨110, 2⟩], [⟨320, 6⟩, ⟨310, 5⟩]],
                ids := [⟨12, 1⟩, ⟨11, 1⟩] },
              { index := 2, comps := [1, 2], cols := [[⟨105, 7⟩, ⟨100, 1⟩], [⟨205, 8⟩, ⟨777, 9⟩]],
                ids := [⟨15, 1⟩, ⟨10, 1⟩] }],
    locs := [(⟨10, 1⟩, ⟨2, 1⟩), (⟨11, 1⟩, ⟨1, 1⟩), (⟨12, 1⟩, ⟨1, 0⟩), (⟨15, 1⟩, ⟨2, 0⟩)] }

/-- evaluating the move (`moveCols` is compiled by well-founded recursion, so this unfolds its equations with
    `simp` instead of `decide`) -/
example : ex0.moveEntity ⟨1, 0⟩ 2 [(2, ⟨777, 9⟩)] = some (ex1, [⟨300, 4⟩]) := by
  simp [Store.moveEntity, ex0, ex1, moveCols, SparseMap.swapRemove, Store.setLoc, Store.loc]

example : ex1.WF := by decide
/-- reads after the move: entity 10 has `{1 ↦ 100, 2 ↦ 777}`, entities 11, 12, 15 are unchanged -/
example : ([(⟨10, 1⟩ : Key), ⟨11, 1⟩, ⟨12, 1⟩, ⟨15, 1⟩].map fun e => [1, 2, 3].map fun c => (ex1.get e c).map (·.v))
    = [[some 100, some 777, none], [some 110, none, some 310], [some 120, none, some 320],
       [some 105, some 205, none]] := by decide
example : ([(⟨10, 1⟩ : Key), ⟨11, 1⟩, ⟨12, 1⟩, ⟨15, 1⟩].map fun e => [1, 2, 3].map fun c => (ex0.get e c).map (·.v))
    = [[some 100, none, some 300], [some 110, none, some 310], [some 120, none, some 320],
       [some 105, some 205, none]] := by decide

/-- despawning entity 10 drops both of its cells and moves entity 12 into its row -/
example : (ex0.removeEntity ⟨1, 0⟩).map (·.2) = some [⟨100, 1⟩, ⟨300, 4⟩] := by decide
example : ∀ p ∈ ex0.removeEntity ⟨1, 0⟩, p.1.WF ∧ p.1.get ⟨12, 1⟩ 3 = some ⟨320, 6⟩ ∧ p.1.loc ⟨10, 1⟩ = none := by
  decide
example : (ex0.spawn ⟨20, 1⟩).WF := by decide

end Evenio

#print axioms Evenio.moveCols_spec
#print axioms Evenio.move_wf
#print axioms Evenio.remove_wf
#print axioms Evenio.spawn_wf
#print axioms Evenio.move_hasEmpty
#print axioms Evenio.remove_hasEmpty
#print axioms Evenio.move_get_self
#print axioms Evenio.move_get_self_insert
#print axioms Evenio.move_get_self_same
#print axioms Evenio.move_get_self_remove
#print axioms Evenio.move_get_self_remove_absent
#print axioms Evenio.move_get_other
#print axioms Evenio.remove_get
#print axioms Evenio.remove_some
#print axioms Evenio.spawn_get
