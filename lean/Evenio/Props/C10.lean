import Evenio.Proofs.Cache
import Evenio.Proofs.Graph
/-!
# C10 — cached column pointers are never stale

"Whatever a handler's fetcher, Single/TrySingle parameter or targeted receiver query observes is the state of the
world at that invocation, no matter which structural changes happened since …: storage growth, archetypes being
created, emptied, refilled or removed, entities moving between archetypes, component types being removed and
re-registered."

The mechanism (fetch.rs `FetcherState`, archetype.rs `reserve_one` / `refresh_listeners`): every query-carrying
parameter caches, per archetype index, the arch state (column pointers) it computed; the model pairs it with the
BUFFER EPOCH the pointers were taken at (`Param.cache : SparseMap (AS × Nat)`).  A read through the cache raises the
marker `fetch.rs:stale-column-pointer` iff the stored epoch is not the archetype's current one.

* `reserveOne_reports` — `reserve_one` changes the epoch exactly when it reports a reallocation, and then to the
  fresh one; nothing else but the capacity changes.  Holds for every growth policy with `n < grow n`.
* `refreshArch_*`, `removeArch_*` — the two cache operations are `insert` / `remove` of one key of a well-formed
  sparse map; all other keys are untouched; well-formedness is kept.
* `CacheExact p a` — the cache entry of `a` is what `World.invCache` demands.  `refresh_makes_exact`,
  `remove_makes_exact` re-establish it for the archetype that changed, the `_frame` versions keep it for all others.
* `exact_cache_reads_current` — with an exact entry, `FetcherState::get_unchecked` (`paramGet`) neither hits the
  stale-pointer marker nor the unchecked `dense` lookup, and computes its item from the archetype's CURRENT columns.
* `refresh_listeners_cover` — the handler's archetype filter is the disjunction of its parameters' access
  expressions, so every archetype a parameter's query can match has the handler among its refresh listeners.
* `C10.archSpawn_keeps_caches`, `C10.removeEntity_keeps_caches`, `C10.moveEntity_keeps_caches` — the model's own
  `Archetypes::spawn`, `remove_entity`, `move_entity` (monadic code, including `reserve_one`, the
  `refresh_listeners` / `remove_archetype` loops and their conditions) re-establish exactness of EVERY cache of EVERY
  live handler for EVERY live archetype whenever they return; `C10.CacheInv.reads_current`: so every later read is
  current.
-/
namespace Evenio

/-! ## 1. `reserve_one` reports every reallocation -/

/-- no reallocation reported ⇒ nothing changed (in particular not the epoch); reallocation reported ⇒ the epoch
    is the fresh one and only capacity and epoch changed.  Any growth function. -/
theorem reserveOneWith_reports (grow : Nat → Nat) (a : Arch) (f : Nat) :
    ((reserveOneWith grow a f).2 = false → (reserveOneWith grow a f).1 = a) ∧
    ((reserveOneWith grow a f).2 = true →
      (reserveOneWith grow a f).1.epoch = f ∧
      (reserveOneWith grow a f).1.cap = grow a.cap ∧
      (reserveOneWith grow a f).1.ids = a.ids ∧
      (reserveOneWith grow a f).1.cols = a.cols ∧
      (reserveOneWith grow a f).1.comps = a.comps ∧
      (reserveOneWith grow a f).1.index = a.index ∧
      (reserveOneWith grow a f).1.insEdges = a.insEdges ∧
      (reserveOneWith grow a f).1.remEdges = a.remEdges ∧
      (reserveOneWith grow a f).1.refresh = a.refresh ∧
      (reserveOneWith grow a f).1.listeners = a.listeners) := by
  refine ⟨reserveOneWith_false, fun h => ?_⟩
  rw [(reserveOneWith_true h).1]
  exact ⟨rfl, rfl, rfl, rfl, rfl, rfl, rfl, rfl, rfl, rfl⟩

/-- the model's `reserve_one` is the instance `grow = growCap`, and `growCap` is a growth policy -/
theorem reserveOne_is_instance : Arch.reserveOne = reserveOneWith growCap ∧ ∀ n, n < growCap n :=
  ⟨reserveOne_eq_with, lt_growCap⟩

/-- C10.1 for the model's `reserve_one`.  FORCED HYPOTHESIS for the capacity claim: `a.ids.length ≤ a.cap`
    (`Vec`'s invariant `len ≤ capacity`; `reserveOne_keeps_len_le_cap` shows the model maintains it).  Without it
    the claim is false: see `reserveOne_room_needs_len_le_cap`. -/
theorem reserveOne_reports (a : Arch) (f : Nat) :
    ((a.reserveOne f).2 = false → (a.reserveOne f).1 = a) ∧
    ((a.reserveOne f).2 = true →
      (a.reserveOne f).1.epoch = f ∧
      (a.reserveOne f).1.ids = a.ids ∧ (a.reserveOne f).1.cols = a.cols ∧ (a.reserveOne f).1.comps = a.comps ∧
      (a.reserveOne f).1.index = a.index ∧
      (a.ids.length ≤ a.cap → a.ids.length < (a.reserveOne f).1.cap)) := by
  rw [reserveOne_eq_with]
  have h := reserveOneWith_reports growCap a f
  refine ⟨h.1, fun ht => ?_⟩
  obtain ⟨h1, h2, h3, h4, h5, h6, -⟩ := h.2 ht
  refine ⟨h1, h3, h4, h5, h6, fun hc => ?_⟩
  have := reserveOneWith_room lt_growCap (a := a) f hc
  rwa [h3] at this

/-- in both cases there is room for the row that is pushed next (any growth policy) -/
theorem reserveOneWith_has_room {grow : Nat → Nat} (hg : ∀ n, n < grow n) (a : Arch) (f : Nat)
    (hcap : a.ids.length ≤ a.cap) :
    (reserveOneWith grow a f).1.ids.length < (reserveOneWith grow a f).1.cap :=
  reserveOneWith_room hg f hcap

/-- `len ≤ capacity` is maintained by `reserve_one` followed by a push (`archSpawn`, `moveEntity`) -/
theorem reserveOne_keeps_len_le_cap (a : Arch) (f : Nat) (id : Key) (hcap : a.ids.length ≤ a.cap) :
    ({ (a.reserveOne f).1 with ids := (a.reserveOne f).1.ids ++ [id] } : Arch).ids.length
      ≤ ({ (a.reserveOne f).1 with ids := (a.reserveOne f).1.ids ++ [id] } : Arch).cap := by
  have := reserveOneWith_room lt_growCap (a := a) f hcap
  rw [← reserveOne_eq_with] at this
  simp only [List.length_append, List.length_cons, List.length_nil]
  omega

/-- the hypothesis of the capacity claim cannot be dropped -/
theorem reserveOne_room_needs_len_le_cap :
    ∃ a : Arch, (a.reserveOne 7).2 = true ∧ ¬ a.ids.length < (a.reserveOne 7).1.cap :=
  ⟨{ index := 0, comps := [], cols := [], ids := List.replicate 5 Key.NULL, cap := 0 }, by decide⟩

/-- no report ⇒ the epoch a cache recorded earlier is still the current one -/
theorem reserveOne_silent_keeps_epoch (a : Arch) (f : Nat) (h : (a.reserveOne f).2 = false) :
    (a.reserveOne f).1.epoch = a.epoch := by
  rw [(reserveOne_reports a f).1 h]

/-! ## 2. the cache operations -/

theorem refreshArch_get_same {p : Param} {a : Arch} {st : AS} (hw : SparseMap.WF p.cache) (hq : p.hasQ = true)
    (hs : p.q.archState a.S = some st) : (p.refreshArch a).cache.get a.index = some (st, a.epoch) := by
  rw [refreshArch_of_some hq hs]
  exact SparseMap.get_insert_same hw _ _

/-- a non-matching archetype is not entered (and `refreshArch` does not remove anything either) -/
theorem refreshArch_get_same_none {p : Param} {a : Arch} (hs : p.q.archState a.S = none) :
    (p.refreshArch a).cache.get a.index = p.cache.get a.index := by
  rw [refreshArch_of_none hs]

theorem refreshArch_get_other {p : Param} {a : Arch} {k : Nat} (hw : SparseMap.WF p.cache) (hk : k ≠ a.index) :
    (p.refreshArch a).cache.get k = p.cache.get k := by
  rcases refreshArch_cache_cases p a with h | ⟨st, -, h⟩
  · rw [h]
  · rw [h]; exact SparseMap.get_insert_other hw hk _

theorem removeArch_get_same {p : Param} {a : Arch} (hw : SparseMap.WF p.cache) (hq : p.hasQ = true) :
    (p.removeArch a).cache.get a.index = none := by
  rw [removeArch_of_hasQ a hq]
  exact SparseMap.get_remove_same hw _

theorem removeArch_get_other {p : Param} {a : Arch} {k : Nat} (hw : SparseMap.WF p.cache) (hk : k ≠ a.index) :
    (p.removeArch a).cache.get k = p.cache.get k := by
  rcases removeArch_cache_cases p a with h | h
  · rw [h]
  · rw [h]; exact SparseMap.get_remove_other hw hk

/-- FORCED HYPOTHESES: the key is a `u32` other than the sentinel (`a.index < U32MAX`, the `assert_ne!` of
    `SparseMap::insert`), and pushing a NEW key needs room below the sentinel in `dense`. -/
theorem refreshArch_wf {p : Param} {a : Arch} (hw : SparseMap.WF p.cache) (hi : a.index < U32MAX)
    (hroom : p.cache.get a.index = none → p.cache.dense.length + 1 < U32MAX) :
    SparseMap.WF (p.refreshArch a).cache := by
  rcases refreshArch_cache_cases p a with h | ⟨st, -, h⟩
  · rw [h]; exact hw
  · rw [h]; exact SparseMap.insert_wf hw hi _ hroom

/-- the capacity side condition discharged from a bound on the archetype index space: if all cached indices
    and the refreshed one are below some `N < u32::MAX`, well-formedness and the bound are kept -/
theorem refreshArch_wf_of_bound {p : Param} {a : Arch} {N : Nat} (hw : SparseMap.WF p.cache) (hN : N < U32MAX)
    (hb : CacheBelow p N) (hi : a.index < N) :
    SparseMap.WF (p.refreshArch a).cache ∧ CacheBelow (p.refreshArch a) N := by
  rcases refreshArch_cache_cases p a with h | ⟨st, -, h⟩
  · unfold CacheBelow; rw [h]; exact ⟨hw, hb⟩
  · unfold CacheBelow; rw [h]
    refine ⟨SparseMap.insert_wf_of_bound hw hN hb hi _, fun k hk => ?_⟩
    rcases SparseMap.mem_keys_insert _ _ _ _ hk with rfl | hk
    · exact hi
    · exact hb k hk

theorem removeArch_wf {p : Param} {a : Arch} (hw : SparseMap.WF p.cache) :
    SparseMap.WF (p.removeArch a).cache := by
  rcases removeArch_cache_cases p a with h | h
  · rw [h]; exact hw
  · rw [h]; exact SparseMap.remove_wf hw _

theorem removeArch_below {p : Param} {a : Arch} {N : Nat} (hw : SparseMap.WF p.cache) (hb : CacheBelow p N) :
    CacheBelow (p.removeArch a) N := by
  unfold CacheBelow
  rcases removeArch_cache_cases p a with h | h
  · rw [h]; exact hb
  · rw [h]; exact fun k hk => hb k (SparseMap.mem_keys_remove hw _ _ hk)

/-! ## 3. exactness of the cache entry -/

/-- `refresh_archetype` on a non-empty archetype makes its entry exact.

    `refreshArch` (like `FetcherState::refresh_archetype`) never REMOVES an entry: when the query does not match,
    the cache is left alone.  So the side condition "the old entry is absent or the query matches" is needed.  It
    always holds along a run: an archetype's component set never changes after `Archetype::new` (no model operation
    writes `Arch.comps`; an archetype index is only reused after `Archetypes::remove_component` removed the old
    archetype, which calls `remove_archetype` on all its refresh listeners first), hence whether the query matches
    index `a.index` is constant over the lifetime of the archetype, and an entry is only ever created by
    `refreshArch` itself in the matching case.  A stale entry for a non-matching archetype therefore cannot be
    present. -/
theorem refresh_makes_exact {p : Param} {a : Arch} (hw : SparseMap.WF p.cache) (hq : p.hasQ = true)
    (hne : a.ids ≠ []) (hold : p.cache.get a.index = none ∨ p.q.sem a.S = true) :
    CacheExact (p.refreshArch a) a := by
  unfold CacheExact
  have he : a.ids.isEmpty = false := by cases h : a.ids <;> simp_all
  rw [he, refreshArch_q]
  cases hs : p.q.archState a.S with
  | some st => rw [refreshArch_get_same hw hq hs]; rfl
  | none =>
    rw [refreshArch_get_same_none hs]
    rcases hold with h | h
    · rw [h]; rfl
    · rw [← archState_isSome_eq_sem, hs] at h; cases h

/-- the special case spelt out: absent old entry, non-matching query — still exact (nothing is cached) -/
theorem refresh_nonmatching_exact {p : Param} {a : Arch} (hw : SparseMap.WF p.cache) (hq : p.hasQ = true)
    (hne : a.ids ≠ []) (habs : p.cache.get a.index = none) (hno : p.q.sem a.S = false) :
    CacheExact (p.refreshArch a) a ∧ (p.refreshArch a).cache.get a.index = none := by
  refine ⟨refresh_makes_exact hw hq hne (.inl habs), ?_⟩
  have : p.q.archState a.S = none := by
    have := archState_isSome_eq_sem p.q a.S
    rw [hno] at this
    cases h : p.q.archState a.S <;> simp_all
  rw [refreshArch_get_same_none this, habs]

/-- and the side condition is sharp: a present entry of a non-matching archetype is NOT repaired by
    `refresh_archetype` -/
theorem refresh_keeps_stale_entry {p : Param} {a : Arch} {e : AS × Nat}
    (hpres : p.cache.get a.index = some e) (hno : p.q.sem a.S = false) : ¬ CacheExact (p.refreshArch a) a := by
  have hs : p.q.archState a.S = none := by
    have := archState_isSome_eq_sem p.q a.S
    rw [hno] at this
    cases h : p.q.archState a.S <;> simp_all
  unfold CacheExact
  rw [refreshArch_get_same_none hs, refreshArch_q, hs, hpres]
  split <;> simp

theorem remove_makes_exact {p : Param} {a : Arch} (hw : SparseMap.WF p.cache) (hq : p.hasQ = true)
    (he : a.ids = []) : CacheExact (p.removeArch a) a := by
  unfold CacheExact
  rw [removeArch_get_same hw hq, he]
  rfl

theorem refresh_frame {p : Param} {a b : Arch} (hw : SparseMap.WF p.cache) (hab : b.index ≠ a.index)
    (h : CacheExact p b) : CacheExact (p.refreshArch a) b := by
  unfold CacheExact at h ⊢
  rw [refreshArch_get_other hw hab, refreshArch_q]
  exact h

theorem remove_frame {p : Param} {a b : Arch} (hw : SparseMap.WF p.cache) (hab : b.index ≠ a.index)
    (h : CacheExact p b) : CacheExact (p.removeArch a) b := by
  unfold CacheExact at h ⊢
  rw [removeArch_get_other hw hab, removeArch_q]
  exact h

/-- `CacheExact` is what `World.invCache` says about each live archetype (stored under its own index) -/
theorem invCache_exact {w : World} (hinv : w.invCache = true) {k : Key} {h : HInfo} {p : Param} {i : Nat} {a : Arch}
    (hh : (k, h) ∈ w.handlers.toList) (hp : p ∈ h.params) (hq : p.hasQ = true) (ha : (i, a) ∈ w.archs.toList)
    (hidx : a.index = i) : CacheExact p a := by
  unfold World.invCache at hinv
  rw [List.all_eq_true] at hinv
  have h1 := hinv _ hh
  simp only [List.all_eq_true] at h1
  have h2 := h1 p hp
  simp only [hq, Bool.not_true, Bool.false_or, Bool.and_eq_true, List.all_eq_true] at h2
  have h3 := h2.1.1.1 _ ha
  simp only [beq_iff_eq] at h3
  unfold CacheExact
  rw [hidx]
  exact h3

/-! ## 4. an exact entry is read without hitting a stale pointer -/

/-- `FetcherState::get_unchecked` for an entity located in a non-empty archetype `a` whose cache entry is exact:
    the lookup `dense[idx]` is in bounds (no `sparse_map.rs:get:dense` marker), the stored epoch IS the current one
    (no `fetch.rs:stale-column-pointer` marker), and the item is computed by `Query::get` from `a` as it is NOW
    (`itemAtPure st a loc.row` reads `a.cols`), with the arch state of `a`'s component set; if the query does not
    match `a`, the answer is `QueryDoesNotMatch`.  The state is not changed.
    FORCED HYPOTHESIS `a.index = loc.arch` (archetypes are stored under their own index, `World.invArch`). -/
theorem exact_cache_reads_current {w : World} {p : Param} {id : Key} {loc : Loc} {a : Arch}
    (hw : SparseMap.WF p.cache) (he : w.entities.get id = some loc) (ha : w.archs.get loc.arch = some a)
    (hidx : a.index = loc.arch) (hne : a.ids ≠ []) (hex : CacheExact p a) :
    (paramGet p id).run.run w =
      (match p.q.archState a.S with
       | some st => (itemAtPure st a loc.row).map Except.ok
       | none => .ok (.error "QueryDoesNotMatch"), w) := by
  have hemp : a.ids.isEmpty = false := by cases h : a.ids <;> simp_all
  unfold CacheExact at hex
  rw [hemp, hidx, if_neg Bool.false_ne_true] at hex
  unfold paramGet
  rw [run_bind, run_get]
  dsimp only
  rw [he]
  dsimp only
  rw [SparseMap.getChecked_eq hw, hex]
  cases hs : p.q.archState a.S with
  | none => rfl
  | some st =>
    dsimp only [Option.map_some]
    unfold getArch
    rw [run_bind, run_bind, run_get]
    dsimp only
    rw [ha]
    dsimp only
    rw [run_pure]
    dsimp only
    have : (a.epoch != a.epoch) = false := by simp
    rw [this, if_neg Bool.false_ne_true, run_bind, run_itemAt]
    cases itemAtPure st a loc.row <;> rfl

/-- in particular: whatever goes wrong, it is not a stale column pointer and not the unchecked `dense` access -/
theorem exact_cache_never_stale {w : World} {p : Param} {id : Key} {loc : Loc} {a : Arch}
    (hw : SparseMap.WF p.cache) (he : w.entities.get id = some loc) (ha : w.archs.get loc.arch = some a)
    (hidx : a.index = loc.arch) (hne : a.ids ≠ []) (hex : CacheExact p a) {e : Err} {w' : World}
    (hr : (paramGet p id).run.run w = (.error e, w')) :
    e = .ub "query.rs:get:row-oob" ∨ e = .ub "query.rs:get:column" := by
  rw [exact_cache_reads_current hw he ha hidx hne hex] at hr
  cases hs : p.q.archState a.S with
  | none => rw [hs] at hr; cases hr
  | some st =>
    rw [hs] at hr
    dsimp only at hr
    unfold itemAtPure at hr
    split at hr
    · cases hr; exact .inl rfl
    · split at hr
      · cases hr
      · cases hr; exact .inr rfl

/-- With the shape conjunct of `World.invStore` for `a` (one column per component, all as long as `ids`, the
    entity stored at its recorded row) nothing goes wrong at all: the answer is `QueryDoesNotMatch` exactly when the
    documented meaning of the query rejects `a`'s component set, and otherwise the item `Query::get` computes from
    `a`'s current columns at the entity's row. -/
theorem exact_cache_get_total {w : World} {p : Param} {id : Key} {loc : Loc} {a : Arch}
    (hw : SparseMap.WF p.cache) (he : w.entities.get id = some loc) (ha : w.archs.get loc.arch = some a)
    (hidx : a.index = loc.arch) (hex : CacheExact p a)
    (hcols : a.cols.length = a.comps.length) (hlen : ∀ col ∈ a.cols, col.length = a.ids.length)
    (hrow : a.ids[loc.row]? = some id) :
    (p.q.sem a.S = false → (paramGet p id).run.run w = (.ok (.error "QueryDoesNotMatch"), w)) ∧
    (p.q.sem a.S = true → ∃ st it, p.q.archState a.S = some st ∧
        st.item (fun c => (a.readCell c loc.row).map (·.v)) (id.idx, id.gen) = some it ∧
        (paramGet p id).run.run w = (.ok (.ok it), w)) := by
  have hlt : loc.row < a.ids.length := (List.getElem?_eq_some_iff.1 hrow).1
  have hne : a.ids ≠ [] := by intro h; rw [h] at hlt; cases hlt
  have hrun := exact_cache_reads_current hw he ha hidx hne hex
  refine ⟨fun hs => ?_, fun hs => ?_⟩
  · have : p.q.archState a.S = none := by
      have := archState_isSome_eq_sem p.q a.S
      rw [hs] at this
      cases h : p.q.archState a.S <;> simp_all
    rw [hrun, this]
  · rw [← archState_isSome_eq_sem] at hs
    cases hst : p.q.archState a.S with
    | none => rw [hst] at hs; cases hs
    | some st =>
      have hdef := item_defined_on_own_archetype p.q a.S st hst
        (fun c => (a.readCell c loc.row).map (·.v)) (id.idx, id.gen) (fun c hc => by
          rw [Option.isSome_map]; exact readCell_isSome hcols hlen hlt hc)
      cases hit : st.item (fun c => (a.readCell c loc.row).map (·.v)) (id.idx, id.gen) with
      | none => rw [hit] at hdef; cases hdef
      | some it =>
        refine ⟨st, it, rfl, hit, ?_⟩
        rw [hrun, hst]
        dsimp only
        unfold itemAtPure
        rw [hrow]
        dsimp only
        rw [hit]
        rfl

/-- the stale-pointer marker is real: with an entry whose epoch is not the current one the read IS flagged (so
    the theorems above are not vacuous about the marker) -/
theorem stale_entry_is_flagged {w : World} {p : Param} {id : Key} {loc : Loc} {a : Arch} {st : AS} {ep : Nat}
    (hw : SparseMap.WF p.cache) (he : w.entities.get id = some loc) (ha : w.archs.get loc.arch = some a)
    (hc : p.cache.get loc.arch = some (st, ep)) (hep : ep ≠ a.epoch) :
    (paramGet p id).run.run w = (.error (.ub "fetch.rs:stale-column-pointer"), w) := by
  unfold paramGet
  rw [run_bind, run_get]
  dsimp only
  rw [he]
  dsimp only
  rw [SparseMap.getChecked_eq hw, hc]
  dsimp only
  unfold getArch
  rw [run_bind, run_bind, run_get]
  dsimp only
  rw [ha]
  dsimp only
  rw [run_pure]
  dsimp only
  have : (ep != a.epoch) = true := by simp [hep]
  rw [this]
  rfl

/-! ## 5. the refresh listeners cover every parameter -/

/-- `disj` of `try_add_handler`: the fold of `or` from `new_false` matches iff some access expression does -/
theorem archFilter_matches (cas : List CA) (S : Nat → Bool) :
    (cas.foldl CA.or CA.ff).matches S = cas.any (·.matches S) := by
  rw [foldl_or_matches, ff_matches, Bool.false_or]

/-- the same with the literal lambda of `addHandler` -/
theorem archFilter_matches' (cas : List CA) (S : Nat → Bool) :
    (cas.foldl (fun acc a => acc.or a) CA.ff).matches S = cas.any (·.matches S) :=
  archFilter_matches cas S

/-- If the handler's archetype filter is the disjunction of the access expressions of its parameters' queries,
    then every archetype that some parameter's query selects matches the filter — so the handler is one of that
    archetype's refresh listeners (`World.invRefresh`) and gets `refresh_archetype` / `remove_archetype` calls for
    it. -/
theorem refresh_listeners_cover (h : HInfo) (cas : List CA) (hf : h.archFilter = cas.foldl CA.or CA.ff)
    (q : Query) (hq : q.init ∈ cas) (S : Nat → Bool) (hs : q.sem S = true) : h.archFilter.matches S = true := by
  rw [hf, archFilter_matches, List.any_eq_true]
  exact ⟨q.init, hq, by rw [matches_init_eq_sem]; exact hs⟩

/-- conversely, an archetype matching the filter is matched by at least one parameter: refresh listeners are not
    notified about archetypes none of their parameters can see -/
theorem refresh_listeners_exact (h : HInfo) (qs : List Query)
    (hf : h.archFilter = (qs.map Query.init).foldl CA.or CA.ff) (S : Nat → Bool) :
    h.archFilter.matches S = qs.any (·.sem S) := by
  rw [hf, archFilter_matches, List.any_map]
  congr 1
  funext q
  exact matches_init_eq_sem q S

/-! ## 6. end to end: the model's structural operations keep all caches exact

`CacheInv N H A` (handler table `H`, archetype slab `A`) is the `get`-level content of `World.invCache` together with
what makes it inductive: archetypes stored under their own index below a bound `N < u32::MAX`, every cache
well-formed with keys below `N`, every query parameter of every live handler exact for every live archetype, and the
refresh listeners of every archetype duplicate-free and covering every handler one of whose parameters selects it.
`archSpawn_keeps_caches`, `removeEntity_keeps_caches`, `moveEntity_keeps_caches`: the three operations that add,
remove or move rows — growing storage, emptying and refilling archetypes — re-establish it whenever they return. -/

namespace C10
open Graph

/-! ### `SlotMap.set` -/

theorem SlotMap.get_set_same {α : Type} {sm : SlotMap α} {k : Key} {u : α} (h : sm.get k = some u) (v : α) :
    (sm.set k v).get k = some v := by
  unfold SlotMap.get at h
  unfold SlotMap.set
  cases hs : sm.slots[k.idx]? with
  | none => rw [hs] at h; cases h
  | some s =>
    rw [hs] at h
    dsimp only at h ⊢
    split at h
    · next hg =>
      rw [if_pos hg]
      unfold SlotMap.get
      have hlt : k.idx < sm.slots.length := (List.getElem?_eq_some_iff.1 hs).1
      simp [hlt, hg]
    · cases h

theorem SlotMap.get_set_other {α : Type} (sm : SlotMap α) {k k' : Key} (hne : k' ≠ k) (v : α) :
    (sm.set k v).get k' = sm.get k' := by
  unfold SlotMap.set
  cases hs : sm.slots[k.idx]? with
  | none => rfl
  | some s =>
    dsimp only
    split
    · next hg =>
      unfold SlotMap.get
      dsimp only
      by_cases hi : k.idx = k'.idx
      · have hlt : k.idx < sm.slots.length := (List.getElem?_eq_some_iff.1 hs).1
        have hgen : s.gen ≠ k'.gen := by
          intro hg'
          apply hne
          cases k; cases k'
          simp_all
        rw [← hi, hs]
        simp [hlt, hgen]
      · rw [List.getElem?_set_ne hi]
    · rfl

/-! ### the refresh loop -/

theorem run_handlerRefresh_some {w : World} {hk : Key} {h : HInfo} {a : Arch} (hh : w.handlers.get hk = some h)
    (hne : a.ids ≠ []) :
    (handlerRefresh hk a).run.run w =
      (.ok (), { w with handlers := w.handlers.set hk { h with params := h.params.map (fun p => p.refreshArch a) } }) := by
  have hlen : (a.ids.length != 0) = true := by
    cases hi : a.ids with
    | nil => exact absurd hi hne
    | cons x xs => simp
  unfold handlerRefresh
  rw [run_bind, run_get]
  dsimp only
  rw [hh]
  dsimp only
  unfold dbgAssert
  rw [run_bind, run_bind, run_get]
  dsimp only
  rw [hlen]
  simp only [Bool.not_true, Bool.and_false, Bool.false_eq_true, if_false]
  rfl

theorem run_handlerRefresh_none {w : World} {hk : Key} {a : Arch} (hh : w.handlers.get hk = none) :
    (handlerRefresh hk a).run.run w = (.error (.ub "handler-ptr:refresh"), w) := by
  unfold handlerRefresh
  rw [run_bind, run_get]
  dsimp only
  rw [hh]
  rfl

/-- the handler table after a loop that maps `f` over the parameters of the handlers in `l` -/
structure HandlersMapped (f : Param → Param) (l : List Key) (H H' : SlotMap HInfo) : Prop where
  hit : ∀ k, k ∈ l → ∃ h, H.get k = some h ∧ H'.get k = some { h with params := h.params.map f }
  miss : ∀ k, k ∉ l → H'.get k = H.get k

/-- `for hk in l do handlerRefresh hk a` (the body of the `refresh_listeners` loops): if it returns, exactly the
    handlers in `l` had `refresh_archetype(a)` applied to all their parameters, and nothing else changed -/
theorem refreshLoop_spec (a : Arch) (hne : a.ids ≠ []) :
    ∀ (l : List Key) (w0 : World), l.Nodup →
      HoareOk (fun w => w = w0)
        (forIn l PUnit.unit fun hk _ => do handlerRefresh hk a; pure (ForInStep.yield PUnit.unit))
        (fun _ w' => ∃ H', w' = { w0 with handlers := H' } ∧
          HandlersMapped (fun p => p.refreshArch a) l w0.handlers H') := by
  intro l
  induction l with
  | nil =>
    intro w0 _
    exact HoareOk.pure fun w hw => ⟨w0.handlers, hw, ⟨fun _ h => absurd h List.not_mem_nil, fun _ _ => rfl⟩⟩
  | cons hk l ih =>
    intro w0 hnd
    rw [List.nodup_cons] at hnd
    refine ⟨fun w hw u w' hr => ?_⟩
    subst hw
    rw [List.forIn_cons, run_bind, run_bind] at hr
    cases hh : w.handlers.get hk with
    | none =>
      rw [run_handlerRefresh_none hh] at hr
      cases hr
    | some h =>
      rw [run_handlerRefresh_some hh hne] at hr
      dsimp only at hr
      rw [run_pure] at hr
      dsimp only at hr
      obtain ⟨H', hw', hm⟩ := (ih _ hnd.2).run _ rfl u w' hr
      refine ⟨H', hw', ⟨fun k hk' => ?_, fun k hk' => ?_⟩⟩
      · rcases List.mem_cons.1 hk' with rfl | hkl
        · refine ⟨h, hh, ?_⟩
          rw [hm.miss k hnd.1]
          exact SlotMap.get_set_same hh _
        · obtain ⟨h2, hh2, hh2'⟩ := hm.hit k hkl
          have hne' : k ≠ hk := by rintro rfl; exact hnd.1 hkl
          dsimp only at hh2
          rw [SlotMap.get_set_other _ hne'] at hh2
          exact ⟨h2, hh2, hh2'⟩
      · rw [List.mem_cons, not_or] at hk'
        rw [hm.miss k hk'.2]
        exact SlotMap.get_set_other _ hk'.1 _

/-! ### the caches of all handlers -/

/-- the fetcher caches of all live handlers: well-formed, with keys below the bound `N` on archetype indices, and
    exact for every live archetype (the `get`-level content of `World.invCache`) -/
structure CachesOK (N : Nat) (H : SlotMap HInfo) (A : Slab Arch) : Prop where
  wf : ∀ k h, H.get k = some h → ∀ p ∈ h.params, SparseMap.WF p.cache ∧ CacheBelow p N
  exact : ∀ k h, H.get k = some h → ∀ p ∈ h.params, p.hasQ = true → ∀ i a, A.get i = some a → CacheExact p a

/-- the refresh listeners of `a` are duplicate-free and include every live handler one of whose query parameters
    selects `a` (what `World.invRefresh` gives for a handler whose archetype filter is the disjunction of its
    parameters' access expressions, `refresh_listeners_cover`) -/
structure RefreshCovers (H : SlotMap HInfo) (a : Arch) : Prop where
  nodup : a.refresh.Nodup
  cover : ∀ k h, H.get k = some h → ∀ p ∈ h.params, p.hasQ = true → p.q.sem a.S = true → k ∈ a.refresh

theorem S_congr {a b : Arch} (h : b.comps = a.comps) : b.S = a.S := by
  funext c; unfold Arch.S; rw [h]

theorem archState_none_of_sem_false {q : Query} {S : Nat → Bool} (h : q.sem S ≠ true) : q.archState S = none := by
  have := archState_isSome_eq_sem q S
  cases hs : q.archState S with
  | none => rfl
  | some st => rw [hs] at this; exact absurd this.symm h

/-- An archetype `e` is written back as `e'` — same index and component set, now NON-EMPTY — and either all its
    refresh listeners were refreshed with `e'`, or nobody was and then the buffer epoch is the old one and `e` was
    non-empty already.  Then all caches are exact again.  (This is the situation after every push into an
    archetype: `archSpawn`, the destination of `moveEntity`.) -/
theorem caches_after_write {N : Nat} {H H' : SlotMap HInfo} {A : Slab Arch} (hN : N < U32MAX)
    (hb : ∀ i a, A.get i = some a → i < N) (hidx : IndexOK A) (hC : CachesOK N H A) {i0 : Nat} {e e' : Arch}
    (he : A.get i0 = some e) (hcov : RefreshCovers H e) (hi : e'.index = e.index) (hc : e'.comps = e.comps)
    (hne : e'.ids ≠ [])
    (hH : HandlersMapped (fun p => p.refreshArch e') e.refresh H H' ∨ (H' = H ∧ e'.epoch = e.epoch ∧ e.ids ≠ [])) :
    CachesOK N H' (A.set i0 e') := by
  have hei : e.index = i0 := hidx i0 e he
  have hS : e'.S = e.S := S_congr hc
  have hget : ∀ j, (A.set i0 e').get j = if j = i0 then some e' else A.get j := by
    intro j; rw [Slab.get_set, he]; rfl
  have hemp' : e'.ids.isEmpty = false := by cases h : e'.ids <;> simp_all
  -- an unrefreshed parameter that does not select `e`
  have hnosel : ∀ p : Param, CacheExact p e → p.q.sem e.S ≠ true → CacheExact p e' := by
    intro p hex hs
    unfold CacheExact at hex ⊢
    have hn := archState_none_of_sem_false hs
    rw [hi, hS, hn, hex, hn]
    cases e.ids.isEmpty <;> cases e'.ids.isEmpty <;> rfl
  rcases hH with hH | ⟨rfl, hep, hne0⟩
  · refine ⟨fun k h' hk p' hp' => ?_, fun k h' hk p' hp' hq' j b hj => ?_⟩
    · by_cases hkr : k ∈ e.refresh
      · obtain ⟨h, hh, hh'⟩ := hH.hit k hkr
        rw [hk] at hh'; cases hh'
        obtain ⟨p, hp, rfl⟩ := List.mem_map.1 hp'
        obtain ⟨hw, hbel⟩ := hC.wf k h hh p hp
        exact refreshArch_wf_of_bound hw hN hbel (by rw [hi, hei]; exact hb i0 e he)
      · rw [hH.miss k hkr] at hk
        exact hC.wf k h' hk p' hp'
    · rw [hget] at hj
      by_cases hkr : k ∈ e.refresh
      · obtain ⟨h, hh, hh'⟩ := hH.hit k hkr
        rw [hk] at hh'; cases hh'
        obtain ⟨p, hp, rfl⟩ := List.mem_map.1 hp'
        obtain ⟨hw, -⟩ := hC.wf k h hh p hp
        rw [refreshArch_hasQ] at hq'
        split at hj
        · cases hj
          refine refresh_makes_exact hw hq' hne ?_
          have hex := hC.exact k h hh p hp hq' i0 e he
          unfold CacheExact at hex
          rw [hi, hS]
          cases hs : p.q.archState e.S with
          | none =>
            left
            rw [hex, hs]
            cases e.ids.isEmpty <;> rfl
          | some st =>
            right
            rw [← archState_isSome_eq_sem, hs]; rfl
        · next hji =>
          have hbi : b.index = j := hidx j b hj
          exact refresh_frame hw (by rw [hbi, hi, hei]; exact hji) (hC.exact k h hh p hp hq' j b hj)
      · rw [hH.miss k hkr] at hk
        split at hj
        · cases hj
          refine hnosel p' (hC.exact k h' hk p' hp' hq' i0 e he) fun hs => hkr ?_
          exact hcov.cover k h' hk p' hp' hq' hs
        · exact hC.exact k h' hk p' hp' hq' j b hj
  · refine ⟨hC.wf, fun k h hk p hp hq j b hj => ?_⟩
    rw [hget] at hj
    split at hj
    · cases hj
      have hex := hC.exact k h hk p hp hq i0 e he
      have hemp : e.ids.isEmpty = false := by cases h : e.ids <;> simp_all
      unfold CacheExact at hex ⊢
      rw [hi, hS, hep, hemp', hex, hemp]
    · exact hC.exact k h hk p hp hq j b hj

/-- writing back an archetype with the same index, component set, buffer epoch and emptiness (rows swapped, cells
    assigned, edges or listeners changed) needs no cache update -/
theorem caches_after_same {N : Nat} {H : SlotMap HInfo} {A : Slab Arch} (hC : CachesOK N H A) {i0 : Nat} {e e' : Arch}
    (he : A.get i0 = some e) (hi : e'.index = e.index) (hc : e'.comps = e.comps) (hep : e'.epoch = e.epoch)
    (hemp : e'.ids.isEmpty = e.ids.isEmpty) : CachesOK N H (A.set i0 e') := by
  refine ⟨hC.wf, fun k h hk p hp hq j b hj => ?_⟩
  rw [Slab.get_set, he] at hj
  split at hj
  · cases hj
    have hex := hC.exact k h hk p hp hq i0 e he
    unfold CacheExact at hex ⊢
    rw [hi, S_congr hc, hep, hemp]
    exact hex
  · exact hC.exact k h hk p hp hq j b hj

/-- An archetype `e` is written back as `e'` — same index, component set and epoch, now EMPTY — and all its
    refresh listeners had `remove_archetype(e')` applied.  Then all caches are exact again.  (The situation after
    the last row left an archetype: `removeEntity`, the source of `moveEntity`.) -/
theorem caches_after_emptied {N : Nat} {H H' : SlotMap HInfo} {A : Slab Arch} (hidx : IndexOK A)
    (hC : CachesOK N H A) {i0 : Nat} {e e' : Arch} (he : A.get i0 = some e) (hcov : RefreshCovers H e)
    (hi : e'.index = e.index) (hc : e'.comps = e.comps) (hemp : e'.ids = [])
    (hH : HandlersMapped (fun p => p.removeArch e') e.refresh H H') : CachesOK N H' (A.set i0 e') := by
  have hei : e.index = i0 := hidx i0 e he
  have hget : ∀ j, (A.set i0 e').get j = if j = i0 then some e' else A.get j := by
    intro j; rw [Slab.get_set, he]; rfl
  refine ⟨fun k h' hk p' hp' => ?_, fun k h' hk p' hp' hq' j b hj => ?_⟩
  · by_cases hkr : k ∈ e.refresh
    · obtain ⟨h, hh, hh'⟩ := hH.hit k hkr
      rw [hk] at hh'; cases hh'
      obtain ⟨p, hp, rfl⟩ := List.mem_map.1 hp'
      obtain ⟨hw, hbel⟩ := hC.wf k h hh p hp
      exact ⟨removeArch_wf hw, removeArch_below hw hbel⟩
    · rw [hH.miss k hkr] at hk
      exact hC.wf k h' hk p' hp'
  · rw [hget] at hj
    by_cases hkr : k ∈ e.refresh
    · obtain ⟨h, hh, hh'⟩ := hH.hit k hkr
      rw [hk] at hh'; cases hh'
      obtain ⟨p, hp, rfl⟩ := List.mem_map.1 hp'
      obtain ⟨hw, -⟩ := hC.wf k h hh p hp
      rw [removeArch_hasQ] at hq'
      split at hj
      · cases hj
        exact remove_makes_exact hw hq' hemp
      · next hji =>
        have hbi : b.index = j := hidx j b hj
        exact remove_frame hw (by rw [hbi, hi, hei]; exact hji) (hC.exact k h hh p hp hq' j b hj)
    · rw [hH.miss k hkr] at hk
      split at hj
      · cases hj
        have hs : p'.q.sem e.S ≠ true := fun hs => hkr (hcov.cover k h' hk p' hp' hq' hs)
        have hex := hC.exact k h' hk p' hp' hq' i0 e he
        have hn := archState_none_of_sem_false hs
        unfold CacheExact at hex ⊢
        rw [hi, S_congr hc, hn, hex, hn, hemp]
        cases e.ids.isEmpty <;> rfl
      · exact hC.exact k h' hk p' hp' hq' j b hj

/-- mapping `refresh_archetype` / `remove_archetype` over parameters does not change which archetypes a
    parameter selects, so refresh-listener coverage survives the loops -/
theorem RefreshCovers.mapped {H H' : SlotMap HInfo} {a : Arch} {f : Param → Param} {l : List Key}
    (hf : ∀ p, (f p).q = p.q ∧ (f p).hasQ = p.hasQ) (hm : HandlersMapped f l H H') (h : RefreshCovers H a) :
    RefreshCovers H' a := by
  refine ⟨h.nodup, fun k h' hk p' hp' hq' hs => ?_⟩
  by_cases hkl : k ∈ l
  · obtain ⟨h0, hh0, hh0'⟩ := hm.hit k hkl
    rw [hk] at hh0'; cases hh0'
    obtain ⟨p, hp, rfl⟩ := List.mem_map.1 hp'
    rw [(hf p).1] at hs
    rw [(hf p).2] at hq'
    exact h.cover k h0 hh0 p hp hq' hs
  · rw [hm.miss k hkl] at hk
    exact h.cover k h' hk p' hp' hq' hs

theorem run_handlerRemoveArch_some {w : World} {hk : Key} {h : HInfo} {a : Arch} (hh : w.handlers.get hk = some h) :
    (handlerRemoveArch hk a).run.run w =
      (.ok (), { w with handlers := w.handlers.set hk { h with params := h.params.map (fun p => p.removeArch a) } }) := by
  unfold handlerRemoveArch
  rw [run_bind, run_get]
  dsimp only
  rw [hh]
  rfl

theorem run_handlerRemoveArch_none {w : World} {hk : Key} {a : Arch} (hh : w.handlers.get hk = none) :
    (handlerRemoveArch hk a).run.run w = (.error (.ub "handler-ptr:remove_archetype"), w) := by
  unfold handlerRemoveArch
  rw [run_bind, run_get]
  dsimp only
  rw [hh]
  rfl

/-- `for hk in l do handlerRemoveArch hk a` -/
theorem removeLoop_spec (a : Arch) :
    ∀ (l : List Key) (w0 : World), l.Nodup →
      HoareOk (fun w => w = w0)
        (forIn l PUnit.unit fun hk _ => do handlerRemoveArch hk a; pure (ForInStep.yield PUnit.unit))
        (fun _ w' => ∃ H', w' = { w0 with handlers := H' } ∧
          HandlersMapped (fun p => p.removeArch a) l w0.handlers H') := by
  intro l
  induction l with
  | nil =>
    intro w0 _
    exact HoareOk.pure fun w hw => ⟨w0.handlers, hw, ⟨fun _ h => absurd h List.not_mem_nil, fun _ _ => rfl⟩⟩
  | cons hk l ih =>
    intro w0 hnd
    rw [List.nodup_cons] at hnd
    refine ⟨fun w hw u w' hr => ?_⟩
    subst hw
    rw [List.forIn_cons, run_bind, run_bind] at hr
    cases hh : w.handlers.get hk with
    | none =>
      rw [run_handlerRemoveArch_none hh] at hr
      cases hr
    | some h =>
      rw [run_handlerRemoveArch_some hh] at hr
      dsimp only at hr
      rw [run_pure] at hr
      dsimp only at hr
      obtain ⟨H', hw', hm⟩ := (ih _ hnd.2).run _ rfl u w' hr
      refine ⟨H', hw', ⟨fun k hk' => ?_, fun k hk' => ?_⟩⟩
      · rcases List.mem_cons.1 hk' with rfl | hkl
        · refine ⟨h, hh, ?_⟩
          rw [hm.miss k hnd.1]
          exact SlotMap.get_set_same hh _
        · obtain ⟨h2, hh2, hh2'⟩ := hm.hit k hkl
          have hne' : k ≠ hk := by rintro rfl; exact hnd.1 hkl
          dsimp only at hh2
          rw [SlotMap.get_set_other _ hne'] at hh2
          exact ⟨h2, hh2, hh2'⟩
      · rw [List.mem_cons, not_or] at hk'
        rw [hm.miss k hk'.2]
        exact SlotMap.get_set_other _ hk'.1 _

/-! ### the cache invariant and the two-field frame -/

/-- what the cache conjunct of the invariant needs to be inductive: index consistency, a bound on archetype
    indices, exact well-formed caches, and refresh-listener coverage -/
structure CacheInv (N : Nat) (H : SlotMap HInfo) (A : Slab Arch) : Prop where
  idx : IndexOK A
  bound : ∀ i a, A.get i = some a → i < N
  caches : CachesOK N H A
  covers : ∀ i a, A.get i = some a → RefreshCovers H a

/-- the handler table is `H` and the archetype slab is `A` -/
abbrev HA (H : SlotMap HInfo) (A : Slab Arch) : World → Prop := fun w => w.handlers = H ∧ w.archs = A

theorem getArch_ha (H : SlotMap HInfo) (A : Slab Arch) (i : Nat) (s : String) :
    HoareOk (HA H A) (getArch i s) (fun a w => HA H A w ∧ A.get i = some a) := by
  unfold getArch
  refine HoareOk.get_bind fun w hw => ?_
  split
  · next a ha => exact HoareOk.pure fun w' hw' => ⟨hw', hw.2 ▸ ha⟩
  · exact HoareOk.ubErr _

theorem setArch_ha (H : SlotMap HInfo) (A : Slab Arch) (a : Arch) :
    HoareOk (HA H A) (setArch a) (fun _ w => HA H (A.set a.index a) w) := by
  refine ⟨fun w hw u w' hr => ?_⟩
  unfold setArch at hr
  rw [run_modify] at hr
  cases hr
  exact ⟨hw.1, by rw [← hw.2]⟩

theorem ubErr_ha {α : Type} (H : SlotMap HInfo) (A : Slab Arch) (s : String) : Keeps (HA H A) (ubErr s : M α) := by
  unfold ubErr; keeps
theorem dbgAssert_ha (H : SlotMap HInfo) (A : Slab Arch) (c : Bool) (s : String) :
    Keeps (HA H A) (dbgAssert c s) := by
  unfold dbgAssert; keeps
theorem dropCellIdx_ha (H : SlotMap HInfo) (A : Slab Arch) (c : Nat) (x : Cell) :
    Keeps (HA H A) (dropCellIdx c x) := by
  unfold dropCellIdx dropCell; keeps
theorem setLoc_ha (H : SlotMap HInfo) (A : Slab Arch) (id : Key) (s : String) (f : Loc → Loc) :
    Keeps (HA H A) (setLoc id s f) := by
  unfold setLoc
  keeps
  exact ubErr_ha H A _
theorem freshEpoch_ha (H : SlotMap HInfo) (A : Slab Arch) : Keeps (HA H A) freshEpoch := by
  unfold freshEpoch; keeps

theorem refreshLoop_ha (H : SlotMap HInfo) (A : Slab Arch) (a : Arch) (hne : a.ids ≠ []) {l : List Key}
    (hnd : l.Nodup) :
    HoareOk (HA H A)
      (forIn l PUnit.unit fun hk _ => do handlerRefresh hk a; pure (ForInStep.yield PUnit.unit))
      (fun _ w' => w'.archs = A ∧ HandlersMapped (fun p => p.refreshArch a) l H w'.handlers) := by
  refine ⟨fun w hw u w' hr => ?_⟩
  obtain ⟨H', rfl, hm⟩ := (refreshLoop_spec a hne l w hnd).run w rfl u w' hr
  exact ⟨hw.2, hw.1 ▸ hm⟩

theorem removeLoop_ha (H : SlotMap HInfo) (A : Slab Arch) (a : Arch) {l : List Key} (hnd : l.Nodup) :
    HoareOk (HA H A)
      (forIn l PUnit.unit fun hk _ => do handlerRemoveArch hk a; pure (ForInStep.yield PUnit.unit))
      (fun _ w' => w'.archs = A ∧ HandlersMapped (fun p => p.removeArch a) l H w'.handlers) := by
  refine ⟨fun w hw u w' hr => ?_⟩
  obtain ⟨H', rfl, hm⟩ := (removeLoop_spec a l w hnd).run w rfl u w' hr
  exact ⟨hw.2, hw.1 ▸ hm⟩

theorem set_bound {A : Slab Arch} {N : Nat} (hb : ∀ i a, A.get i = some a → i < N) (k : Nat) (x : Arch) :
    ∀ i a, (A.set k x).get i = some a → i < N := by
  intro i a hia
  rw [Slab.get_set] at hia
  split at hia
  · next h =>
    subst h
    cases hg : A.get i with
    | none => rw [hg] at hia; cases hia
    | some y => exact hb i y hg
  · exact hb i a hia

theorem covers_set {H : SlotMap HInfo} {A : Slab Arch} (hcov : ∀ i a, A.get i = some a → RefreshCovers H a)
    {i0 : Nat} {e e' : Arch} (he : A.get i0 = some e) (hc : e'.comps = e.comps) (hr : e'.refresh = e.refresh) :
    ∀ i a, (A.set i0 e').get i = some a → RefreshCovers H a := by
  intro i a hia
  rw [Slab.get_set, he] at hia
  split at hia
  · cases hia
    have := hcov i0 e he
    exact ⟨hr ▸ this.nodup, fun k h hk p hp hq hs => by
      rw [hr]; exact this.cover k h hk p hp hq (by rw [← S_congr hc]; exact hs)⟩
  · exact hcov i a hia

theorem covers_mapped {H H' : SlotMap HInfo} {A : Slab Arch} {f : Param → Param} {l : List Key}
    (hf : ∀ p, (f p).q = p.q ∧ (f p).hasQ = p.hasQ) (hm : HandlersMapped f l H H')
    (hcov : ∀ i a, A.get i = some a → RefreshCovers H a) : ∀ i a, A.get i = some a → RefreshCovers H' a :=
  fun i a hia => (hcov i a hia).mapped hf hm

theorem refreshArch_q_hasQ (a : Arch) : ∀ p : Param, (p.refreshArch a).q = p.q ∧ (p.refreshArch a).hasQ = p.hasQ :=
  fun p => ⟨refreshArch_q p a, refreshArch_hasQ p a⟩

theorem removeArch_q_hasQ (a : Arch) : ∀ p : Param, (p.removeArch a).q = p.q ∧ (p.removeArch a).hasQ = p.hasQ :=
  fun p => ⟨removeArch_q p a, removeArch_hasQ p a⟩

theorem indexOK_set_at {A : Slab Arch} (hidx : IndexOK A) {i0 : Nat} {e e' : Arch} (he : A.get i0 = some e)
    (hi : e'.index = e.index) : IndexOK (A.set i0 e') := by
  have : e'.index = i0 := hi.trans (hidx i0 e he)
  have h := hidx.set e'
  rw [this] at h
  exact h

theorem CacheInv.same {N : Nat} {H : SlotMap HInfo} {A : Slab Arch} (h : CacheInv N H A) {i0 : Nat} {e e' : Arch}
    (he : A.get i0 = some e) (hi : e'.index = e.index) (hc : e'.comps = e.comps) (hep : e'.epoch = e.epoch)
    (hr : e'.refresh = e.refresh) (hemp : e'.ids.isEmpty = e.ids.isEmpty) : CacheInv N H (A.set i0 e') :=
  ⟨indexOK_set_at h.idx he hi, set_bound h.bound _ _, caches_after_same h.caches he hi hc hep hemp,
   covers_set h.covers he hc hr⟩

theorem CacheInv.emptied {N : Nat} {H H' : SlotMap HInfo} {A : Slab Arch} (h : CacheInv N H A) {i0 : Nat}
    {e e' : Arch} (he : A.get i0 = some e) (hi : e'.index = e.index) (hc : e'.comps = e.comps)
    (hr : e'.refresh = e.refresh) (hemp : e'.ids = [])
    (hH : HandlersMapped (fun p => p.removeArch e') e.refresh H H') : CacheInv N H' (A.set i0 e') :=
  ⟨indexOK_set_at h.idx he hi, set_bound h.bound _ _,
   caches_after_emptied h.idx h.caches he (h.covers i0 e he) hi hc hemp hH,
   covers_mapped (removeArch_q_hasQ e') hH (covers_set h.covers he hc hr)⟩

theorem CacheInv.written {N : Nat} (hN : N < U32MAX) {H H' : SlotMap HInfo} {A : Slab Arch} (h : CacheInv N H A)
    {i0 : Nat} {e e' : Arch} (he : A.get i0 = some e) (hi : e'.index = e.index) (hc : e'.comps = e.comps)
    (hr : e'.refresh = e.refresh) (hne : e'.ids ≠ [])
    (hH : HandlersMapped (fun p => p.refreshArch e') e.refresh H H' ∨ (H' = H ∧ e'.epoch = e.epoch ∧ e.ids ≠ [])) :
    CacheInv N H' (A.set i0 e') := by
  refine ⟨indexOK_set_at h.idx he hi, set_bound h.bound _ _,
    caches_after_write hN h.bound h.idx h.caches he (h.covers i0 e he) hi hc hne hH, ?_⟩
  rcases hH with hH | ⟨rfl, -, -⟩
  · exact covers_mapped (refreshArch_q_hasQ e') hH (covers_set h.covers he hc hr)
  · exact covers_set h.covers he hc hr

/-- the three transitions in the form `setArch` produces (`A.set e'.index e'`) -/
theorem CacheInv.same' {N : Nat} {H : SlotMap HInfo} {A : Slab Arch} (h : CacheInv N H A) {i0 : Nat} {e e' : Arch}
    (he : A.get i0 = some e) (hi : e'.index = e.index) (hc : e'.comps = e.comps) (hep : e'.epoch = e.epoch)
    (hr : e'.refresh = e.refresh) (hemp : e'.ids.isEmpty = e.ids.isEmpty) : CacheInv N H (A.set e'.index e') := by
  have : e'.index = i0 := hi.trans (h.idx i0 e he)
  rw [this]; exact h.same he hi hc hep hr hemp

theorem CacheInv.emptied' {N : Nat} {H H' : SlotMap HInfo} {A : Slab Arch} (h : CacheInv N H A) {i0 : Nat}
    {e e' : Arch} (he : A.get i0 = some e) (hi : e'.index = e.index) (hc : e'.comps = e.comps)
    (hr : e'.refresh = e.refresh) (hemp : e'.ids = [])
    (hH : HandlersMapped (fun p => p.removeArch e') e.refresh H H') : CacheInv N H' (A.set e'.index e') := by
  have : e'.index = i0 := hi.trans (h.idx i0 e he)
  rw [this]; exact h.emptied he hi hc hr hemp hH

theorem CacheInv.written' {N : Nat} (hN : N < U32MAX) {H H' : SlotMap HInfo} {A : Slab Arch} (h : CacheInv N H A)
    {i0 : Nat} {e e' : Arch} (he : A.get i0 = some e) (hi : e'.index = e.index) (hc : e'.comps = e.comps)
    (hr : e'.refresh = e.refresh) (hne : e'.ids ≠ [])
    (hH : HandlersMapped (fun p => p.refreshArch e') e.refresh H H' ∨ (H' = H ∧ e'.epoch = e.epoch ∧ e.ids ≠ [])) :
    CacheInv N H' (A.set e'.index e') := by
  have : e'.index = i0 := hi.trans (h.idx i0 e he)
  rw [this]; exact h.written hN he hi hc hr hne hH

theorem isEmpty_false_of_getElem? {α : Type} {l : List α} {i : Nat} {x : α} (h : l[i]? = some x) :
    l.isEmpty = false := by
  cases l with
  | nil => simp at h
  | cons y ys => rfl

/-- **`remove_entity` keeps every fetcher cache exact**: the archetype loses a row (buffers are not reallocated,
    the epoch stays); when it becomes empty, all its refresh listeners drop it from their caches. -/
theorem removeEntity_keeps_caches {N : Nat} {H : SlotMap HInfo} {A : Slab Arch} (hI : CacheInv N H A) (loc : Loc) :
    HoareOk (HA H A) (removeEntity loc) (fun _ w' => CacheInv N w'.handlers w'.archs) := by
  unfold removeEntity
  refine HoareOk.bind (getArch_ha H A _ _) fun a => ?_
  refine hoare_and_const fun ha => ?_
  refine HoareOk.bind_inv (HoareOk.of_keeps ?_) fun cols => ?_
  · keeps
    · exact dbgAssert_ha H A _ _
    · exact ubErr_ha H A _
    · exact dropCellIdx_ha H A _ _
  dsimp only
  split
  · exact HoareOk.ubErr _
  · next id hid =>
    refine HoareOk.bind (setArch_ha H A _) fun _ => ?_
    dsimp only
    refine HoareOk.get_bind fun w hw => ?_
    split
    · exact HoareOk.ubErr _
    · refine HoareOk.bind_inv (HoareOk.of_keeps ?_) fun _ => ?_
      · keeps
      refine HoareOk.bind_inv (HoareOk.of_keeps (dbgAssert_ha H _ _ _)) fun _ => ?_
      have tail : HoareOk (HA H (A.set a.index
            { a with cols := cols, ids := SparseMap.swapRemove a.ids loc.row }))
          (if (SparseMap.swapRemove a.ids loc.row).isEmpty = true then do
            forIn a.refresh PUnit.unit fun hk _ => do
              handlerRemoveArch hk { a with cols := cols, ids := SparseMap.swapRemove a.ids loc.row }
              pure (ForInStep.yield PUnit.unit)
            pure ()
          else pure ())
          (fun _ w' => CacheInv N w'.handlers w'.archs) := by
        split
        · next hemp =>
          refine HoareOk.bind (removeLoop_ha H _ _ (hI.covers _ _ ha).nodup) fun _ => ?_
          refine HoareOk.pure fun w' hw' => ?_
          rw [hw'.1]
          exact hI.emptied' (e' := { a with cols := cols, ids := SparseMap.swapRemove a.ids loc.row }) ha rfl rfl rfl
            (List.isEmpty_iff.1 hemp) hw'.2
        · next hemp =>
          refine HoareOk.pure fun w' hw' => ?_
          rw [hw'.1, hw'.2]
          refine hI.same' (e' := { a with cols := cols, ids := SparseMap.swapRemove a.ids loc.row }) ha rfl rfl rfl rfl ?_
          rw [isEmpty_false_of_getElem? hid]
          simpa using hemp
      split
      · exact HoareOk.bind_inv (HoareOk.of_keeps (setLoc_ha H _ _ _ _)) fun _ => tail
      · exact tail

/-- the cache bookkeeping at the end of `move_entity`: the source lost a row (its listeners drop it if it became
    empty), the destination got one (its listeners are refreshed if it was reallocated or became non-empty) -/
theorem move_final {N : Nat} (hN : N < U32MAX) {H H1 H2 : SlotMap HInfo} {A : Slab Arch} (hI : CacheInv N H A)
    {s d : Nat} {sa da sa' da' : Arch} (hsa : A.get s = some sa) (hda : A.get d = some da) (hne : s ≠ d)
    (hsi : sa'.index = sa.index) (hsc : sa'.comps = sa.comps) (hse : sa'.epoch = sa.epoch)
    (hsr : sa'.refresh = sa.refresh)
    (hdi : da'.index = da.index) (hdc : da'.comps = da.comps) (hdr : da'.refresh = da.refresh) (hdne : da'.ids ≠ [])
    (hs : (sa'.ids = [] ∧ HandlersMapped (fun p => p.removeArch sa') sa.refresh H H1) ∨
          (sa'.ids.isEmpty = sa.ids.isEmpty ∧ H1 = H))
    (hd : HandlersMapped (fun p => p.refreshArch da') da.refresh H1 H2 ∨
          (H2 = H1 ∧ da'.epoch = da.epoch ∧ da.ids ≠ [])) :
    CacheInv N H2 ((A.set sa'.index sa').set da'.index da') := by
  have hsidx : sa'.index = s := hsi.trans (hI.idx s sa hsa)
  have I1 : CacheInv N H1 (A.set sa'.index sa') := by
    rcases hs with ⟨hemp, hm⟩ | ⟨hemp, rfl⟩
    · exact hI.emptied' hsa hsi hsc hsr hemp hm
    · exact hI.same' hsa hsi hsc hse hsr hemp
  have hda1 : (A.set sa'.index sa').get d = some da := by
    rw [Slab.get_set_other _ (by rw [hsidx]; exact Ne.symm hne)]; exact hda
  exact I1.written' hN hda1 hdi hdc hdr hdne hd

/-- the listener notifications at the end of `move_entity`, for arbitrary conditions -/
theorem move_tail (H : SlotMap HInfo) (A2 : Slab Arch) (sa' da' : Arch) (l1 l2 : List Key) (emp cond : Bool)
    (hnd1 : l1.Nodup) (hnd2 : l2.Nodup) (hne : da'.ids ≠ []) :
    HoareOk (HA H A2)
      (if emp = true then do
          forIn l1 PUnit.unit fun hk _ => do handlerRemoveArch hk sa'; pure (ForInStep.yield PUnit.unit)
          if cond = true then do
            forIn l2 PUnit.unit fun hk _ => do handlerRefresh hk da'; pure (ForInStep.yield PUnit.unit)
            pure ()
          else pure ()
        else
          if cond = true then do
            forIn l2 PUnit.unit fun hk _ => do handlerRefresh hk da'; pure (ForInStep.yield PUnit.unit)
            pure ()
          else pure () : M Unit)
      (fun _ w' => w'.archs = A2 ∧ ∃ H1,
        ((emp = true ∧ HandlersMapped (fun p => p.removeArch sa') l1 H H1) ∨ (emp = false ∧ H1 = H)) ∧
        ((cond = true ∧ HandlersMapped (fun p => p.refreshArch da') l2 H1 w'.handlers) ∨
          (cond = false ∧ w'.handlers = H1))) := by
  have t2 : ∀ H1, HoareOk (HA H1 A2)
      (if cond = true then do
          forIn l2 PUnit.unit fun hk _ => do handlerRefresh hk da'; pure (ForInStep.yield PUnit.unit)
          pure ()
        else pure () : M Unit)
      (fun _ w' => w'.archs = A2 ∧
        ((cond = true ∧ HandlersMapped (fun p => p.refreshArch da') l2 H1 w'.handlers) ∨
          (cond = false ∧ w'.handlers = H1))) := by
    intro H1
    split
    · next hc =>
      refine HoareOk.bind (refreshLoop_ha H1 A2 da' hne hnd2) fun _ => ?_
      exact HoareOk.pure fun w hw => ⟨hw.1, .inl ⟨hc, hw.2⟩⟩
    · next hc =>
      exact HoareOk.pure fun w hw => ⟨hw.2, .inr ⟨by simpa using hc, hw.1⟩⟩
  split
  · next he =>
    refine HoareOk.bind (R := fun _ w => ∃ H1, HA H1 A2 w ∧ HandlersMapped (fun p => p.removeArch sa') l1 H H1)
      (HoareOk.post (removeLoop_ha H A2 sa' hnd1) fun _ w hw => ⟨w.handlers, ⟨rfl, hw.1⟩, hw.2⟩) fun _ => ?_
    refine hoare_exists fun H1 => ?_
    refine hoare_and_const fun hm => ?_
    exact HoareOk.post (t2 H1) fun _ w hw => ⟨hw.1, H1, .inl ⟨he, hm⟩, hw.2⟩
  · next he =>
    exact HoareOk.post (t2 H) fun _ w hw => ⟨hw.1, H, .inr ⟨by simpa using he, rfl⟩, hw.2⟩

/-- **`move_entity` keeps every fetcher cache exact** — both branches: assigning components in place (no structural
    change) and moving the row to another archetype (the source shrinks, the destination grows, possibly
    reallocating). -/
theorem moveEntity_keeps_caches {N : Nat} (hN : N < U32MAX) {H : SlotMap HInfo} {A : Slab Arch} (hI : CacheInv N H A)
    (src : Loc) (dst : Nat) (new : List (Nat × Cell)) :
    HoareOk (HA H A) (moveEntity src dst new) (fun _ w' => CacheInv N w'.handlers w'.archs) := by
  unfold moveEntity
  split
  · -- same archetype: cells are assigned in place
    refine HoareOk.bind (getArch_ha H A _ _) fun a => ?_
    refine hoare_and_const fun ha => ?_
    dsimp only
    refine HoareOk.bind (R := fun (b : Arch) w => HA H A w ∧ (b.index = a.index ∧ b.comps = a.comps ∧
        b.epoch = a.epoch ∧ b.refresh = a.refresh ∧ b.ids = a.ids))
      (HoareOk.pre (HoareOk.forIn_list (fun (b : Arch) w => HA H A w ∧ (b.index = a.index ∧ b.comps = a.comps ∧
        b.epoch = a.epoch ∧ b.refresh = a.refresh ∧ b.ids = a.ids)) fun x b => ?_)
        (fun w hw => ⟨hw, rfl, rfl, rfl, rfl, rfl⟩)) fun b => ?_
    · refine hoare_and_const fun hb => ?_
      obtain ⟨c, v⟩ := x
      dsimp only
      split
      · exact HoareOk.bind (R := fun _ _ => False) (HoareOk.ubErr _) fun _ => ⟨fun _ h => h.elim⟩
      · split
        · exact HoareOk.bind (R := fun _ _ => False) (HoareOk.ubErr _) fun _ => ⟨fun _ h => h.elim⟩
        · refine HoareOk.bind_inv (HoareOk.of_keeps (dropCellIdx_ha H A _ _)) fun _ => ?_
          exact HoareOk.pure fun w hw => ⟨hw, hb⟩
    · refine hoare_and_const fun hb => ?_
      obtain ⟨h1, h2, h3, h4, h5⟩ := hb
      refine HoareOk.bind (setArch_ha H A _) fun _ => ?_
      refine HoareOk.pure fun w hw => ?_
      rw [hw.1, hw.2]
      exact hI.same' ha h1 h2 h3 h4 (by rw [h5])
  · -- two archetypes
    next hne =>
    have hne' : src.arch ≠ dst := by simpa using hne
    refine HoareOk.bind (getArch_ha H A _ _) fun sa => ?_
    refine hoare_and_const fun hsa => ?_
    refine HoareOk.bind (getArch_ha H A _ _) fun da => ?_
    refine hoare_and_const fun hda => ?_
    dsimp only
    refine HoareOk.bind_inv (HoareOk.of_keeps (freshEpoch_ha H A)) fun ep => ?_
    generalize hres : da.reserveOne ep = res
    obtain ⟨da1, realloc⟩ := res
    dsimp only
    -- facts about `reserve_one`
    have hd1 : da1.index = da.index ∧ da1.comps = da.comps ∧ da1.ids = da.ids ∧ da1.refresh = da.refresh ∧
        (realloc = false → da1.epoch = da.epoch) := by
      have hrep := reserveOne_reports da ep
      rw [hres] at hrep
      dsimp only at hrep
      cases realloc with
      | false => rw [hrep.1 rfl]; exact ⟨rfl, rfl, rfl, rfl, fun _ => rfl⟩
      | true =>
        have h2 := (reserveOneWith_reports growCap da ep).2
        rw [← reserveOne_eq_with, hres] at h2
        obtain ⟨-, -, h3, -, h5, h6, -, -, h9, -⟩ := h2 rfl
        exact ⟨h6, h5, h3, h9, fun h => by cases h⟩
    obtain ⟨h1i, h1c, h1ids, h1r, h1e⟩ := hd1
    split
    · exact HoareOk.ubErr _
    · next r hr =>
      refine HoareOk.bind_inv (HoareOk.of_keeps ?_) fun _ => ?_
      · keeps
        exact dropCellIdx_ha H A _ _
      split
      · exact HoareOk.throw _
      · next eid heid =>
        refine HoareOk.bind (setArch_ha H A _) fun _ => ?_
        refine HoareOk.bind (setArch_ha H _ _) fun _ => ?_
        refine HoareOk.bind_inv (HoareOk.of_keeps (setLoc_ha H _ _ _ _)) fun _ => ?_
        have hnd1 := (hI.covers _ _ hsa).nodup
        have hnd2 : da1.refresh.Nodup := h1r ▸ (hI.covers _ _ hda).nodup
        have tail := move_tail H
          ((A.set sa.index { sa with cols := r.src, ids := SparseMap.swapRemove sa.ids src.row }).set da1.index
            { da1 with cols := r.dst, ids := da1.ids ++ [eid] })
          { sa with cols := r.src, ids := SparseMap.swapRemove sa.ids src.row }
          { da1 with cols := r.dst, ids := da1.ids ++ [eid] } sa.refresh da1.refresh
          (SparseMap.swapRemove sa.ids src.row).isEmpty (realloc || (da1.ids ++ [eid]).length == 1) hnd1 hnd2
          (by simp)
        have fin : ∀ w' : World,
            (w'.archs = (A.set sa.index { sa with cols := r.src, ids := SparseMap.swapRemove sa.ids src.row }).set
              da1.index { da1 with cols := r.dst, ids := da1.ids ++ [eid] } ∧ ∃ H1,
              (((SparseMap.swapRemove sa.ids src.row).isEmpty = true ∧ HandlersMapped (fun p => p.removeArch
                  { sa with cols := r.src, ids := SparseMap.swapRemove sa.ids src.row }) sa.refresh H H1) ∨
                ((SparseMap.swapRemove sa.ids src.row).isEmpty = false ∧ H1 = H)) ∧
              (((realloc || (da1.ids ++ [eid]).length == 1) = true ∧ HandlersMapped (fun p => p.refreshArch
                  { da1 with cols := r.dst, ids := da1.ids ++ [eid] }) da1.refresh H1 w'.handlers) ∨
                ((realloc || (da1.ids ++ [eid]).length == 1) = false ∧ w'.handlers = H1))) →
            CacheInv N w'.handlers w'.archs := by
          rintro w' ⟨hA, H1, hs, hd⟩
          rw [hA]
          refine move_final hN hI (H1 := H1) (sa' := { sa with cols := r.src, ids := SparseMap.swapRemove sa.ids src.row })
            (da' := { da1 with cols := r.dst, ids := da1.ids ++ [eid] }) hsa hda hne' rfl rfl rfl rfl h1i h1c h1r
            (by simp) ?_ ?_
          · rcases hs with ⟨he, hm⟩ | ⟨he, rfl⟩
            · exact .inl ⟨List.isEmpty_iff.1 he, hm⟩
            · exact .inr ⟨by rw [he, isEmpty_false_of_getElem? heid], rfl⟩
          · rcases hd with ⟨-, hm⟩ | ⟨hc, hh⟩
            · exact .inl (h1r ▸ hm)
            · have hc2 : realloc = false ∧ ¬ (da1.ids ++ [eid]).length = 1 := by
                simpa [Bool.or_eq_false_iff] using hc
              refine .inr ⟨hh, h1e hc2.1, fun h => hc2.2 ?_⟩
              rw [h1ids, h]; rfl
        split
        · exact HoareOk.bind_inv (HoareOk.of_keeps (setLoc_ha H _ _ _ _)) fun _ => HoareOk.post tail fun _ w hw => fin w hw
        · exact HoareOk.post tail fun _ w hw => fin w hw

/-- **`Archetypes::spawn` keeps every fetcher cache exact.**  The empty archetype gets a new row; when this
    reallocates its buffers (the epoch changes — `reserve_one` reports it) or makes it non-empty, all its refresh
    listeners are refreshed; otherwise nobody is, and nobody needs to be.  Afterwards every query parameter of
    every live handler holds, for every live archetype, exactly the non-empty matching ones with their CURRENT
    buffer epoch — so no later read through a cache can hit a stale column pointer (`exact_cache_reads_current`). -/
theorem archSpawn_keeps_caches {N : Nat} (hN : N < U32MAX) {H : SlotMap HInfo} {A : Slab Arch} (hI : CacheInv N H A)
    (id : Key) :
    HoareOk (HA H A) (archSpawn id)
      (fun loc w' => CacheInv N w'.handlers w'.archs ∧
        ∃ e e', A.get 0 = some e ∧ w'.archs.get 0 = some e' ∧ e'.ids = e.ids ++ [id] ∧
          loc = ⟨0, e.ids.length⟩ ∧ e'.comps = e.comps ∧ e'.cols = e.cols) := by
  unfold archSpawn
  refine HoareOk.bind (getArch_ha H A _ _) fun e => ?_
  refine hoare_and_const fun he => ?_
  refine HoareOk.bind_inv (HoareOk.of_keeps (freshEpoch_ha H A)) fun ep => ?_
  generalize hres : e.reserveOne ep = res
  obtain ⟨e1, realloc⟩ := res
  dsimp only
  have he1 : e1.index = e.index ∧ e1.comps = e.comps ∧ e1.ids = e.ids ∧ e1.cols = e.cols ∧ e1.refresh = e.refresh ∧
      (realloc = false → e1.epoch = e.epoch) := by
    have hrep := reserveOne_reports e ep
    rw [hres] at hrep
    dsimp only at hrep
    cases realloc with
    | false => rw [hrep.1 rfl]; exact ⟨rfl, rfl, rfl, rfl, rfl, fun _ => rfl⟩
    | true =>
      have h2 := (reserveOneWith_reports growCap e ep).2
      rw [← reserveOne_eq_with, hres] at h2
      obtain ⟨-, -, h3, h4, h5, h6, -, -, h9, -⟩ := h2 rfl
      exact ⟨h6, h5, h3, h4, h9, fun h => by cases h⟩
  obtain ⟨h1i, h1c, h1ids, h1cols, h1r, h1e⟩ := he1
  have hei : e.index = 0 := hI.idx 0 e he
  refine HoareOk.bind (setArch_ha H A _) fun _ => ?_
  dsimp only
  have hres' : ∀ A', A' = A.set e1.index { e1 with ids := e1.ids ++ [id] } →
      ∃ e0 e', A.get 0 = some e0 ∧ A'.get 0 = some e' ∧ e'.ids = e0.ids ++ [id] ∧
        (⟨0, e1.ids.length⟩ : Loc) = ⟨0, e0.ids.length⟩ ∧ e'.comps = e0.comps ∧ e'.cols = e0.cols := by
    rintro A' rfl
    have key : ∀ k, k = 0 → (A.set k { e1 with ids := e1.ids ++ [id] }).get 0
        = some { e1 with ids := e1.ids ++ [id] } := by
      intro k hk; subst hk; exact Slab.get_set_same he _
    exact ⟨e, _, he, key e1.index (h1i.trans hei), by rw [h1ids], by rw [h1ids], h1c, h1cols⟩
  split
  · refine HoareOk.bind (refreshLoop_ha H _ { e1 with ids := e1.ids ++ [id] } (by simp)
      (h1r ▸ (hI.covers 0 e he).nodup)) fun _ => ?_
    refine HoareOk.pure fun w hw => ?_
    refine ⟨?_, hres' _ hw.1⟩
    rw [hw.1]
    exact hI.written' hN (e' := { e1 with ids := e1.ids ++ [id] }) he h1i h1c h1r (by simp) (.inl (h1r ▸ hw.2))
  · next hcond =>
    refine HoareOk.pure fun w hw => ?_
    refine ⟨?_, hres' _ hw.2⟩
    rw [hw.1, hw.2]
    have hc2 : (e1.ids ++ [id]).length ≠ 1 ∧ realloc = false := by
      simp only [Bool.or_eq_true, beq_iff_eq, not_or, Bool.not_eq_true] at hcond
      exact hcond
    have hne0 : e.ids ≠ [] := by
      intro h
      rw [h1ids, h] at hc2
      exact hc2.1 rfl
    exact hI.written' hN (e' := { e1 with ids := e1.ids ++ [id] }) he h1i h1c h1r (by simp)
      (.inr ⟨rfl, h1e hc2.2, hne0⟩)

/-- the `get`-level cache invariant gives what `exact_cache_reads_current` needs: reads through any cache of any
    live handler are never flagged stale -/
theorem CacheInv.reads_current {N : Nat} {w : World} (hI : CacheInv N w.handlers w.archs) {k : Key} {h : HInfo}
    (hk : w.handlers.get k = some h) {p : Param} (hp : p ∈ h.params) (hq : p.hasQ = true) {id : Key} {loc : Loc}
    {a : Arch} (he : w.entities.get id = some loc) (ha : w.archs.get loc.arch = some a) (hne : a.ids ≠ []) :
    (paramGet p id).run.run w =
      (match p.q.archState a.S with
       | some st => (itemAtPure st a loc.row).map Except.ok
       | none => .ok (.error "QueryDoesNotMatch"), w) :=
  exact_cache_reads_current (hI.caches.wf k h hk p hp).1 he ha (hI.idx _ _ ha) hne
    (hI.caches.exact k h hk p hp hq _ _ ha)

/-! ### non-vacuity -/

/-- a new world satisfies the cache invariant (with index bound 1) -/
theorem init_cacheInv : CacheInv 1 ({} : World).handlers ({} : World).archs := by
  have hget : ∀ k, ({} : World).handlers.get k = none := by
    intro k; simp [SlotMap.get]
  have harch : ∀ i a, ({} : World).archs.get i = some a → i = 0 ∧ a.refresh = [] := by
    intro i a h
    rw [Slab.get_eq_some_iff] at h
    cases i with
    | zero => simp at h; subst h; exact ⟨rfl, rfl⟩
    | succ i => simp at h
  refine ⟨fun i a h => ?_, fun i a h => ?_, ⟨fun k h hk => ?_, fun k h hk => ?_⟩, fun i a h => ?_⟩
  · rw [Slab.get_eq_some_iff] at h
    cases i with
    | zero => simp at h; subst h; rfl
    | succ i => simp at h
  · rw [(harch i a h).1]; exact Nat.lt_succ_self 0
  · rw [hget] at hk; cases hk
  · rw [hget] at hk; cases hk
  · refine ⟨by rw [(harch i a h).2]; exact List.nodup_nil, fun k h' hk => ?_⟩
    rw [hget] at hk; cases hk

/-- and the triples are not about an operation that never returns: spawning into a new world returns location
    `(0, 0)`, and spawning twice `(0, 1)` -/
example : (match ((archSpawn ⟨0, 1⟩).run.run {}).1 with | .ok loc => loc == ⟨0, 0⟩ | .error _ => false) = true := by
  decide
example : (match ((do let _ ← archSpawn ⟨0, 1⟩; archSpawn ⟨1, 1⟩ : M Loc).run.run {}).1 with
    | .ok loc => loc == ⟨0, 1⟩ | .error _ => false) = true := by
  decide

end C10

end Evenio

#print axioms Evenio.reserveOneWith_reports
#print axioms Evenio.reserveOne_is_instance
#print axioms Evenio.reserveOne_reports
#print axioms Evenio.reserveOneWith_has_room
#print axioms Evenio.reserveOne_keeps_len_le_cap
#print axioms Evenio.reserveOne_room_needs_len_le_cap
#print axioms Evenio.reserveOne_silent_keeps_epoch
#print axioms Evenio.refreshArch_get_same
#print axioms Evenio.refreshArch_get_same_none
#print axioms Evenio.refreshArch_get_other
#print axioms Evenio.removeArch_get_same
#print axioms Evenio.removeArch_get_other
#print axioms Evenio.refreshArch_wf
#print axioms Evenio.refreshArch_wf_of_bound
#print axioms Evenio.removeArch_wf
#print axioms Evenio.removeArch_below
#print axioms Evenio.refresh_makes_exact
#print axioms Evenio.refresh_nonmatching_exact
#print axioms Evenio.refresh_keeps_stale_entry
#print axioms Evenio.remove_makes_exact
#print axioms Evenio.refresh_frame
#print axioms Evenio.remove_frame
#print axioms Evenio.invCache_exact
#print axioms Evenio.archFilter_matches
#print axioms Evenio.refresh_listeners_cover
#print axioms Evenio.refresh_listeners_exact
#print axioms Evenio.exact_cache_reads_current
#print axioms Evenio.exact_cache_never_stale
#print axioms Evenio.exact_cache_get_total
#print axioms Evenio.stale_entry_is_flagged
#print axioms Evenio.C10.refreshLoop_spec
#print axioms Evenio.C10.removeLoop_spec
#print axioms Evenio.C10.caches_after_write
#print axioms Evenio.C10.caches_after_same
#print axioms Evenio.C10.caches_after_emptied
#print axioms Evenio.C10.archSpawn_keeps_caches
#print axioms Evenio.C10.removeEntity_keeps_caches
#print axioms Evenio.C10.moveEntity_keeps_caches
#print axioms Evenio.C10.CacheInv.reads_current
#print axioms Evenio.C10.init_cacheInv
