import Evenio.Proofs.Effect
import Evenio.Proofs.FlushPanic
/-!
# C09 — built-in effects: when, on what, how often

> Handlers listening for Insert, Remove or Despawn see the world as it was before the change; the change is applied
> once all of them have run and before any event they sent is delivered. It is applied exactly once if and only if no
> handler took the event and the target was alive; otherwise the world is unchanged and a value that was to be
> inserted is destroyed. Inserting a component the entity already has replaces its value, removing an absent component
> and acting on a dead entity are no-ops, and a spawned entity exists once its Spawn event has been delivered.

Formal reading. One delivery is `deliverOne it`, which is literally (`deliverOne_phases`, by `rfl`)
`lookupPhase` (registry entry, handler list, target location; only reads), `handlerPhase` (clear the ownership flag, run
the handlers in order until one takes the event), reversal of the segment the handlers pushed, and — unless the event
was taken — `effectPhase` (the built-in change, by `EvKind`).

* `effect_after_handlers`: on normal return the handler phase ran FROM THE INITIAL STATE `w` (the lookup changes
  nothing): handlers see the world before the change; the final state is `effectPhase` applied — once — to the state
  `wh` the handlers left (with the segment reversed).
* `effect_before_queued_events`: in the depth-first propagation (`Dfs`, C04) everything the handlers queued is
  propagated from the state the delivery ended in, i.e. after the effect.
* `taken_skips_effect`, `dead_target_noop`, `effect_iff`: the effect is applied iff the target was alive (or the event
  is global) and no handler took the event; otherwise the final state is the handlers' state (taken) or the initial
  state with only the event value dropped (dead target; for `Insert` the cell goes to `cdrops`:
  `dead_insert_value_destroyed`).
* `spawn_effect_is_spawnAll`, `despawn_effect`, `insert_effect`, `remove_effect`, `normal_effect`: the effect, kind
  by kind, in terms of `spawnAll`, `removeEntity`, `traverseInsert`/`traverseRemove` and `moveEntity` — the operations
  whose storage behaviour C02/C12 specify (`moveCols`, `assignCol`).
* `insert_existing_is_assign`: inserting a component the entity already has is `assignCol` in place (the old value
  is dropped, nothing else changes); `remove_absent_is_noop`: removing a component the entity lacks changes nothing.

NOT proved here: "a spawned entity exists once its Spawn event has been delivered" beyond
`spawn_effect_is_spawnAll`; see the comment at the end. -/
namespace Evenio

/-- **C09.** Handlers run on the pre-state; the built-in change is applied exactly once, after all of them, to the state
    they left. (`hs = none`: dead target, no handler and no effect at all.) -/
theorem effect_after_handlers {it : QItem} {w w' : World} (h : (deliverOne it).run.run w = (.ok (), w')) :
    ∃ info hs loc,
      (lookupPhase it w).run.run w = (.ok (info, hs, loc), w) ∧ w.evInfo it = some info ∧
      match hs with
      | none => w' = if info.needsDrop then dropEventW it w else w
      | some hs =>
        ∃ owned wh, (handlerPhase it info loc hs).run.run w = (.ok owned, wh) ∧
          if owned then w' = { wh with queue := wh.queue.reverse }
          else (effectPhase it info loc).run.run { wh with queue := wh.queue.reverse } = (.ok (), w') :=
  deliverOne_ok_cases h

/-- the lookup phase changes nothing, whatever it returns: the handler phase starts from the state the delivery
    started in -/
theorem lookup_reads_only (it : QItem) (w w0 : World) : ((lookupPhase it w).run.run w0).2 = w0 :=
  lookupPhase_state it w w0

/-- **C09.** In a propagation, the events queued during the delivery of `e` are propagated from the state in which
    `e`'s delivery ENDED — `w''`, which by `effect_after_handlers` already contains the built-in change — and the
    siblings `es` only after that. -/
theorem effect_before_queued_events {w w3 : World} {e : QItem} {es : List QItem}
    (h : Dfs deliverOne w (e :: es) w3) :
    ∃ w'' w2, (deliverOne e).run.run { w with queue := [] } = (.ok (), w'') ∧
      Dfs deliverOne { w'' with queue := [] } w''.queue.reverse w2 ∧ Dfs deliverOne w2 es w3 := by
  cases h with
  | cons hs hc hr =>
    obtain ⟨w'', hd, rfl, rfl⟩ := hs
    exact ⟨w'', _, hd, hc, hr⟩

/-- the same for a whole `flush`: it is a `Dfs`, so the above applies to every delivery in it -/
theorem flush_is_dfs {fuel : Nat} {w w' : World} (h : (flush fuel).run.run w = (.ok (), w')) :
    ∃ wd, Dfs deliverOne { w with queue := [] } w.queue.reverse wd ∧
      w' = { wd with arenaEpoch := wd.arenaEpoch + 1 } := by
  obtain ⟨wd, log, hd, rfl⟩ := flushWith_ok_log (w0 := w) (q := w.queue) h
  exact ⟨wd, hd.toDfs, rfl⟩

/-- **C09.** If a handler took the event, the built-in effect is not run: the final state is the state the handler
    phase left, with the pushed segment reversed; in particular entities and archetypes are as the handlers left
    them. -/
theorem taken_skips_effect {it : QItem} {w w' : World} (h : (deliverOne it).run.run w = (.ok (), w'))
    {info : EvInfo} {hs : List Key} {loc : Loc} {wh : World}
    (hl : (lookupPhase it w).run.run w = (.ok (info, some hs, loc), w))
    (hh : (handlerPhase it info loc hs).run.run w = (.ok true, wh)) :
    w' = { wh with queue := wh.queue.reverse } ∧ w'.entities = wh.entities ∧ w'.archs = wh.archs ∧
      w'.comps = wh.comps ∧ w'.cdrops = wh.cdrops := by
  obtain ⟨info', hs', loc', hl', _, hm⟩ := deliverOne_ok_cases h
  rw [hl] at hl'
  cases hl'
  obtain ⟨owned, wh', hh', hm⟩ := hm
  rw [hh] at hh'
  cases hh'
  simp only [if_true] at hm
  subst hm
  exact ⟨rfl, rfl, rfl, rfl, rfl⟩

/-- **C09, acting on a dead entity is a no-op** (equation form): a registered targeted event whose target is not a
    live entity runs no handler and no effect; only the event value is dropped, if it has a drop function. -/
theorem dead_target_run {it : QItem} {w : World} {k : Key} {info : EvInfo} (ht : it.ty.targeted = true)
    (hreg : w.tevs.getByIndex it.idx = some (k, info)) (hdead : w.entities.get it.target = none) :
    (deliverOne it).run.run w = (.ok (), if info.needsDrop then dropEventW it w else w) :=
  deliverOne_dead_run ht hreg hdead

/-- **C09, dead target.** On normal return of the delivery of a targeted event whose target is dead, the world is
    unchanged except for the two ledgers: `edrops`/`cdrops` receive the event's drop if its registry entry has a drop
    function (`w.dropsE`/`w.dropsC`, the same functions that describe `dropQueued`). No handler ran (the log `out` is
    unchanged), nothing was queued, no entity or archetype was touched. -/
theorem dead_target_noop {it : QItem} {w w' : World} (h : (deliverOne it).run.run w = (.ok (), w'))
    (ht : it.ty.targeted = true) (hdead : w.entities.get it.target = none) :
    w' = { w with edrops := (w.dropsE it).toList ++ w.edrops, cdrops := (w.dropsC it).toList ++ w.cdrops } := by
  obtain ⟨info, hs, loc, hl, hinfo, hm⟩ := deliverOne_ok_cases h
  have hnone : hs = none := (lookupPhase_cases hl).1.mpr ⟨ht, hdead⟩
  subst hnone
  simp only at hm
  rw [hm]
  exact dropOne_eq hinfo

/-- **C09, "a value that was to be inserted is destroyed".** For an `Insert` of a component with a destructor
    addressed to a dead entity, the cell's serial is added to `cdrops` — once — and nothing else changes. -/
theorem dead_insert_value_destroyed {it : QItem} {w w' : World} {k : Nat} {info : EvInfo}
    (h : (deliverOne it).run.run w = (.ok (), w')) (hty : it.ty = .ins k)
    (hdead : w.entities.get it.target = none) (hinfo : w.evInfo it = some info) (hn : info.needsDrop = true)
    (hk : compNeedsDrop k = true) :
    w' = { w with cdrops := (k, it.pay.cell.ser) :: w.cdrops } := by
  have ht : it.ty.targeted = true := by rw [hty]; rfl
  rw [dead_target_noop h ht hdead]
  have hE : w.dropsE it = none := by simp [World.dropsE, hinfo, hn, hty]
  have hC : w.dropsC it = some (k, it.pay.cell.ser) := by simp [World.dropsC, hinfo, hn, hty, hk]
  rw [hE, hC]
  rfl

/-- the event was taken by one of its handlers -/
def Taken (it : QItem) (w : World) : Prop :=
  ∃ info hs loc wh, (lookupPhase it w).run.run w = (.ok (info, some hs, loc), w) ∧
    (handlerPhase it info loc hs).run.run w = (.ok true, wh)

/-- the built-in effect was applied (to the state the handlers left), yielding `w'` -/
def EffectApplied (it : QItem) (w w' : World) : Prop :=
  ∃ info hs loc wh, (lookupPhase it w).run.run w = (.ok (info, some hs, loc), w) ∧
    (handlerPhase it info loc hs).run.run w = (.ok false, wh) ∧
    (effectPhase it info loc).run.run { wh with queue := wh.queue.reverse } = (.ok (), w')

/-- the target of a targeted event is not a live entity -/
def DeadTarget (it : QItem) (w : World) : Prop := it.ty.targeted = true ∧ w.entities.get it.target = none

/-- **C09.** On normal return of a delivery, the built-in effect has been applied — exactly once, by
    `effect_after_handlers` — if and only if the target was alive (or the event is global) and no handler took the
    event. -/
theorem effect_iff {it : QItem} {w w' : World} (h : (deliverOne it).run.run w = (.ok (), w')) :
    EffectApplied it w w' ↔ ¬ DeadTarget it w ∧ ¬ Taken it w := by
  obtain ⟨info, hs, loc, hl, _, hm⟩ := deliverOne_ok_cases h
  have hc := (lookupPhase_cases hl).1
  constructor
  · rintro ⟨info', hs', loc', wh, hl', hh, _⟩
    rw [hl] at hl'
    cases hl'
    refine ⟨fun hd => ?_, ?_⟩
    · have := hc.mpr hd
      cases this
    · rintro ⟨info2, hs2, loc2, wh2, hl2, hh2⟩
      rw [hl] at hl2
      cases hl2
      rw [hh] at hh2
      cases hh2
  · rintro ⟨hnd, hnt⟩
    cases hs with
    | none => exact absurd (hc.mp rfl) hnd
    | some hs =>
      obtain ⟨owned, wh, hh, hm⟩ := hm
      cases owned with
      | true => exact absurd ⟨info, hs, loc, wh, hl, hh⟩ hnt
      | false =>
        simp only [Bool.false_eq_true, if_false] at hm
        exact ⟨info, hs, loc, wh, hl, hh, hm⟩

/-- … and when it was not applied, the world is "unchanged" in the sense of the property: for a dead target only the
    event value is dropped; for a taken event the state is the one the handlers left -/
theorem no_effect_cases {it : QItem} {w w' : World} (h : (deliverOne it).run.run w = (.ok (), w'))
    (hn : ¬ EffectApplied it w w') :
    (DeadTarget it w ∧
      w' = { w with edrops := (w.dropsE it).toList ++ w.edrops, cdrops := (w.dropsC it).toList ++ w.cdrops }) ∨
    (∃ info hs loc wh, (lookupPhase it w).run.run w = (.ok (info, some hs, loc), w) ∧
      (handlerPhase it info loc hs).run.run w = (.ok true, wh) ∧ w' = { wh with queue := wh.queue.reverse }) := by
  by_cases hd : DeadTarget it w
  · exact .inl ⟨hd, dead_target_noop h hd.1 hd.2⟩
  · by_cases ht : Taken it w
    · obtain ⟨info, hs, loc, wh, hl, hh⟩ := ht
      exact .inr ⟨info, hs, loc, wh, hl, hh, (taken_skips_effect h hl hh).1⟩
    · exact absurd ((effect_iff h).mpr ⟨hd, ht⟩) hn

/-! ### the effect, kind by kind -/

/-- the effect of a `Spawn` event is `spawn_all`: every reserved entity is materialised -/
theorem spawn_effect_is_spawnAll {it : QItem} {info : EvInfo} {loc : Loc} (h : info.kind = .spawn) :
    effectPhase it info loc = spawnAll :=
  effectPhase_spawn h

/-- the effect of `Despawn`: materialise the reserved entities, remove the target (dropping its components), reset the
    key cursor -/
theorem despawn_effect {it : QItem} {info : EvInfo} {loc : Loc} (h : info.kind = .despawn) :
    effectPhase it info loc = (do spawnAll; removeEntity loc; resRefresh) :=
  effectPhase_despawn h

/-- the effect of `Insert<C>`: follow (or create) the insert edge, move the entity there with the new cell -/
theorem insert_effect {it : QItem} {info : EvInfo} {loc : Loc} {c : Nat} (h : info.kind = .insert c) :
    effectPhase it info loc = (do
      dbgAssert (loc != Loc.NULL) "world.rs:flush:insert:location"
      let dst ← traverseInsert loc.arch c
      moveEntity loc dst [(c, it.pay.cell)]) :=
  effectPhase_insert h

/-- the effect of `Remove<C>`: follow (or create) the remove edge, move the entity there -/
theorem remove_effect {it : QItem} {info : EvInfo} {loc : Loc} {c : Nat} (h : info.kind = .remove c) :
    effectPhase it info loc = (do
      let dst ← traverseRemove loc.arch c
      moveEntity loc dst []) :=
  effectPhase_remove h

/-- an ordinary event has no effect on the world: its value is dropped -/
theorem normal_effect {it : QItem} {info : EvInfo} {loc : Loc} (h : info.kind = .normal) :
    effectPhase it info loc = (if info.needsDrop then dropEvent it else pure ()) :=
  effectPhase_normal h

/-- `moveEntity` into the archetype the entity is already in is the assignment branch (`Column::assign` per new
    component, `assignCol` in the model) -/
theorem move_same_is_assign (src : Loc) (new : List (Nat × Cell)) : moveEntity src src.arch new = moveSame src new :=
  moveEntity_same src new

/-- **C09, inserting a component the entity already has replaces its value.** If the target's archetype `a` already
    has component `c` (column `i`) and has no cached insert edge for `c` (or the cached edge is the self-loop),
    `traverse_insert` returns the same archetype without changing anything, `move_entity` takes the same-archetype
    branch, and the whole effect is: `assignCol` puts the new cell at the entity's row of column `i`, the old cell is
    dropped (`dropCellW`: `cdrops` if the component type has a destructor), nothing else changes — the entity does
    not move. -/
theorem insert_existing_is_assign {it : QItem} {info : EvInfo} {loc : Loc} {c i : Nat} {w : World} {a : Arch}
    {col : List Cell} {old : Cell}
    (hkind : info.kind = .insert c) (hloc : w.debug = false ∨ (loc != Loc.NULL) = true)
    (hreg : w.debug = false ∨ (w.comps.getByIndex c).isSome = true)
    (ha : w.archs.get loc.arch = some a) (hhas : a.comps.contains c = true)
    (hedge : edgeGet a.insEdges c = none ∨ edgeGet a.insEdges c = some loc.arch)
    (hc : a.colIdx c = some i) (hcol : a.cols[i]? = some col) (hrow : col[loc.row]? = some old) :
    (effectPhase it info loc).run.run w =
      (.ok (), { dropCellW (w.compTy c) old w with
        archs := w.archs.set a.index { a with cols := a.cols.set i (col.set loc.row it.pay.cell) } }) := by
  rw [effectPhase_insert hkind, run_bind, run_dbgAssert_true _ hloc]
  dsimp only
  rw [run_bind, traverseInsert_existing ha hhas hedge hreg]
  dsimp only
  rw [moveEntity_same, moveSame_single ha hc hcol hrow]

/-- **C09, removing an absent component is a no-op.** If the target's archetype lacks `c` and has no cached remove
    edge for it (or the self-loop), `traverse_remove` returns the same archetype and `move_entity` with nothing to
    assign rewrites the archetype with itself: the world is unchanged. (`a.index = loc.arch`: archetypes are stored
    at their index.) -/
theorem remove_absent_is_noop {it : QItem} {info : EvInfo} {loc : Loc} {c : Nat} {w : World} {a : Arch}
    (hkind : info.kind = .remove c) (ha : w.archs.get loc.arch = some a) (hidx : a.index = loc.arch)
    (hlacks : a.comps.contains c = false)
    (hedge : edgeGet a.remEdges c = none ∨ edgeGet a.remEdges c = some loc.arch) :
    (effectPhase it info loc).run.run w = (.ok (), w) := by
  rw [effectPhase_remove hkind, run_bind, traverseRemove_absent ha hlacks hedge]
  dsimp only
  rw [moveEntity_same, moveSame_nil ha hidx]

/-! ### non-vacuity -/

/-- a world in which `Insert<K1>` is registered (targeted event index 0, component index 0), with no entity -/
def deadWorld : World :=
  { tevs := { slots := [⟨1, U32MAX, some { ty := .ins 1, id := ⟨0, 1⟩, kind := .insert 0, needsDrop := true }⟩],
              len := 1 } }

/-- an `Insert<K1>` (cell serial 42) addressed to an entity that does not exist -/
def deadInsert : QItem := { ty := .ins 1, idx := 0, target := ⟨0, 1⟩, pay := { cell := ⟨7, 42⟩ } }

/-- the delivery returns normally, destroys the cell (once) and changes nothing else -/
example : (deliverOne deadInsert).run.run deadWorld = (.ok (), { deadWorld with cdrops := [(1, 42)] }) := by
  rw [dead_target_run (k := ⟨0, 1⟩) (info := { ty := .ins 1, id := ⟨0, 1⟩, kind := .insert 0, needsDrop := true })
    rfl rfl rfl]
  rfl

/-- a world with one entity in an archetype that has component 0 (one column, one row, cell serial 5) -/
def oneWorld : World :=
  { debug := false
    archs := { entries := [.occ { index := 0, comps := [0], cols := [[⟨1, 5⟩]], ids := [⟨0, 1⟩] }], next := 1 } }

/-- inserting component 0 again assigns in place: the cell is replaced, the entity stays where it is -/
example :
    (effectPhase { ty := .ins 0, idx := 0, target := ⟨0, 1⟩, pay := { cell := ⟨9, 6⟩ } }
        { ty := .ins 0, id := ⟨0, 1⟩, kind := .insert 0, needsDrop := false } ⟨0, 0⟩).run.run oneWorld =
      (.ok (), { oneWorld with
        archs := { entries := [.occ { index := 0, comps := [0], cols := [[⟨9, 6⟩]], ids := [⟨0, 1⟩] }], next := 1 } }) := by
  rw [insert_existing_is_assign (c := 0) (i := 0) (a := { index := 0, comps := [0], cols := [[⟨1, 5⟩]], ids := [⟨0, 1⟩] })
    (col := [⟨1, 5⟩]) (old := ⟨1, 5⟩) rfl (.inl rfl) (.inl rfl) rfl rfl (.inl rfl) rfl rfl rfl]
  rfl

/-!
### Not proved: "a spawned entity exists once its Spawn event has been delivered"

`spawn_effect_is_spawnAll` pins the effect of a `Spawn` event to `spawnAll`, which performs `resCount` times
`entities.insertWith (fun _ => Loc.NULL)`, `archSpawn k`, `entities.set k loc`. That the keys chosen by these inserts
are exactly the ids handed out by `Sender::spawn` (`reserve`) is C03 (`spawn_all`, `nextKey_predicts`); that the entity
then has a location in the empty archetype is C02 (`spawn_get`, on the pure store). What is missing to state it on
`World` is the loop invariant of `spawnAll` ("the keys inserted so far are live and located") which needs
`SlotMap.WF` of `w.entities` as a world invariant and the frame of `archSpawn` (it does not touch `entities`). -/

#print axioms effect_after_handlers
#print axioms lookup_reads_only
#print axioms effect_before_queued_events
#print axioms flush_is_dfs
#print axioms taken_skips_effect
#print axioms dead_target_run
#print axioms dead_target_noop
#print axioms dead_insert_value_destroyed
#print axioms effect_iff
#print axioms no_effect_cases
#print axioms spawn_effect_is_spawnAll
#print axioms despawn_effect
#print axioms insert_effect
#print axioms remove_effect
#print axioms normal_effect
#print axioms move_same_is_assign
#print axioms insert_existing_is_assign
#print axioms remove_absent_is_noop

end Evenio
