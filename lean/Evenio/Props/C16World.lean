import Evenio.Proofs.Registry
import Evenio.Props.C16
import Evenio.Props.C11
/-!
# C16 — registries of components, events and handlers (world level)

> "Registering a component type, an event type, or a type-identified handler that is already registered returns the
> existing id, changes nothing and sends no notification; a first registration sends exactly one Add* notification,
> after the item is usable. Ids of removed components, events and handlers are never valid again and are never handed
> out again, even when their index is reused by a later registration."

`Evenio/Props/C16.lean` proves the property for the pure registry `regAdd` over a slot map. This file links it to the
monadic functions the driver executes (`Evenio/Model/World.lean`): every theorem is an equation or an implication about
`(f args).run.run w` for the model's own `addComponent`, `ensureAddG`, `addGlobalEvent`, `addTargetedEvent`,
`addHandler`, `sendGlobal`, `removeComponent`, `removeEvent`, `removeHandler`, `deliverOne`, `flush`, `execOp`, `step`.

1. already registered ⇒ `(.ok existing_id, w)`: the world is returned unchanged (no trace line, nothing queued, no flush):
   `addComponent_existing`, `ensureAddG_existing`, `addGlobalEvent_existing`, `addTargetedEvent_existing`,
   `addHandler_dup`.
2. first registration = `insertWith` into the registry, then exactly one `sendGlobal .add* { id := k }` run in the world
   that already contains the entry (`*_new_shape`, `*_new_usable`); `addComponent` IS `regAdd compReg` of
   `Props/C16.lean` followed by that notification (`addComponent_eq_regAdd`).
3. `sendGlobal` pushes exactly one queue item, then flushes (`sendGlobal_one_push`, `notification_is_one_push`); the
   item is delivered exactly once, first (`notification_delivered_once`, from C11).
4. deliveries and whole flushes never change `gevs`, `tevs`, and in `comps` only `memberOf` fields
   (`registries_stable_during_delivery`, `registries_stable_during_flush`).
5. a new component id was not valid before and is above every covered generation at its index (`comps_key_fresh`);
   `removeComponent k = true` ⇒ `k` is not valid in the final world (`removeComponent_invalidates`).
6. the registry invariant `RegInv` holds in every world the driver reaches (`reachable_regInv`): no recorded removed id
   is valid (`reachable_stale_nil`), it stays dead through every later operation (`removed_id_stays_dead`), no
   registration function ever returns it (`*_never_reissues`, `*_ne_removed`), and a valid id at its index has a
   strictly larger generation (`RegInv.removed_*_gen_lt`).

NOT covered: the "exactly one `AddHandler` notification, after the handler is usable" half for `addHandler`'s
first-registration path (only `addHandler_dup` and `addHandler_never_reissues` are proved for handlers).
-/
namespace Evenio
open SlotMap

/-! ## 1. registering what is registered already: same id, nothing changes -/

theorem addComponent_existing {w : World} {ty : Nat} {k : Key} {ci : CompInfo}
    (h : w.compIdxOfTy ty = some (k, ci)) : (addComponent ty).run.run w = (.ok k, w) := by
  unfold addComponent
  simp only [run_bind, run_get, h, run_pure]

theorem ensureAddG_existing {w : World} {k : Key} {ei : EvInfo}
    (h : w.gevOfTy .addG = some (k, ei)) : ensureAddG.run.run w = (.ok k, w) := by
  unfold ensureAddG
  simp only [run_bind, run_get, h, run_pure]

theorem addGlobalEvent_existing {w : World} {ty : EvTy} {k : Key} {ei : EvInfo}
    (h : w.gevOfTy ty = some (k, ei)) : (addGlobalEvent ty).run.run w = (.ok k, w) := by
  unfold addGlobalEvent
  by_cases hty : ty = .addG
  · subst hty
    simp only [beq_self_eq_true, if_true]
    exact ensureAddG_existing h
  · have : (ty == EvTy.addG) = false := by simpa using hty
    simp only [this, Bool.false_eq_true, if_false, run_bind, run_get, h, run_pure]

/-- the component type an event type's `init` registers first (`Insert<C>` / `Remove<C>`) -/
def EvTy.compDep : EvTy → Option Nat
  | .ins c => some c
  | .rem c => some c
  | _ => none

theorem addTargetedEvent_existing {w : World} {ty : EvTy} {k : Key} {ei : EvInfo}
    (h : w.tevOfTy ty = some (k, ei))
    (hc : ∀ c, ty.compDep = some c → ∃ ck ci, w.compIdxOfTy c = some (ck, ci)) :
    (addTargetedEvent ty).run.run w = (.ok k, w) := by
  unfold addTargetedEvent
  cases ty with
  | ins c =>
    obtain ⟨ck, ci, hci⟩ := hc c rfl
    simp only [run_bind, addComponent_existing hci, run_get, h, run_pure]
  | rem c =>
    obtain ⟨ck, ci, hci⟩ := hc c rfl
    simp only [run_bind, addComponent_existing hci, run_get, h, run_pure]
  | _ => simp only [run_bind, run_get, h, run_pure]

theorem addHandler_dup {w : World} {hs : HSpec} {t : Nat} {k : Key} {h : HInfo}
    (ht : hs.tid = some t)
    (hf : (w.handlers.toList.find? fun (_, h) => h.tid == some t) = some (k, h)) :
    (addHandler hs).run.run w = (.ok (.dup k), w) := by
  unfold addHandler
  simp only [ht, run_bind, run_get, hf, run_pure]


@[simp] theorem run_push (it : QItem) (w : World) :
    (push it).run.run w = (.ok (), { w with queue := w.queue ++ [it] }) := rfl

/-! ## 2. first registration: the item is inserted, then announced once -/

/-! ### components -/

/-- the registry of components as a `RegSpec` (`Evenio/Props/C16.lean`): the tag is the type number, a new entry is
    `{ ty, id := k }` (no events, member of no archetype) -/
def compReg : RegSpec CompInfo := ⟨(·.ty), fun ty k => { ty, id := k }, fun _ _ => rfl⟩

theorem compIdxOfTy_eq_regFind (w : World) (ty : Nat) : w.compIdxOfTy ty = regFind compReg w.comps ty := rfl

/-- **first registration of a component type.** The entry is inserted into `comps` under the key `k` the slot map
    chooses, and then — in the world that already contains it — exactly one `sendGlobal .addC { id := k }` runs; `k`
    is returned. -/
theorem addComponent_new_shape {w : World} {ty : Nat} {k : Key} {comps' : SlotMap CompInfo}
    (hn : w.compIdxOfTy ty = none)
    (hi : w.comps.insertWith (fun k => ({ ty, id := k } : CompInfo)) = some (k, comps')) :
    (addComponent ty).run.run w =
      (do sendGlobal .addC { id := k }; pure k : M Key).run.run { w with comps := comps' } := by
  unfold addComponent
  simp only [run_bind, run_get, hn, hi, run_set]

/-- the index space is exhausted: `panic "capacity"`, nothing changes -/
theorem addComponent_full {w : World} {ty : Nat} (hn : w.compIdxOfTy ty = none)
    (hi : w.comps.insertWith (fun k => ({ ty, id := k } : CompInfo)) = none) :
    (addComponent ty).run.run w = (.error (.panic "capacity"), w) := by
  unfold addComponent
  simp only [run_bind, run_get, hn, hi, run_throw]

/-- "after the item is usable": in the world handed to `sendGlobal .addC` the id is valid, denotes the new entry,
    the type is found under it, the registry is well formed — and the id was not valid before. -/
theorem addComponent_new_usable {w : World} {ty : Nat} {k : Key} {comps' : SlotMap CompInfo} (wf : w.comps.WF)
    (hn : w.compIdxOfTy ty = none)
    (hi : w.comps.insertWith (fun k => ({ ty, id := k } : CompInfo)) = some (k, comps')) :
    comps'.WF ∧ comps'.get k = some { ty, id := k } ∧
    ({ w with comps := comps' } : World).compIdxOfTy ty = some (k, { ty, id := k }) ∧
    comps'.getByIndex k.idx = some (k, { ty, id := k }) ∧
    (∀ k', k' ≠ k → comps'.get k' = w.comps.get k') ∧
    w.comps.contains k = false := by
  obtain ⟨wf', hk, hbi, hother, hfresh⟩ := insertWith_usable wf hi
  exact ⟨wf', hk, find?_insertWith_new wf hi _ hn (by simp), hbi, hother, hfresh⟩

/-- **`addComponent` is `regAdd`** (`Evenio/Props/C16.lean`) on `World.comps` for the `RegSpec` `compReg`, followed — for a
    new entry only — by the one `AddComponent` notification. Hence `regAdd_existing`, `regAdd_find`, `regAdd_idem`,
    `regAdd_new` and, for every history of registry operations, `removed_id_never_valid`, `removed_id_never_reissued`,
    `index_reuse_changes_generation`, `reg_tags_unique` speak about the ids `addComponent` returns. -/
theorem addComponent_eq_regAdd (w : World) (ty : Nat) :
    (addComponent ty).run.run w =
      match regAdd compReg w.comps ty with
      | none => (.error (.panic "capacity"), w)
      | some (k, _, false) => (.ok k, w)
      | some (k, comps', true) =>
        (do sendGlobal .addC { id := k }; pure k : M Key).run.run { w with comps := comps' } := by
  unfold regAdd
  rw [← compIdxOfTy_eq_regFind]
  cases hf : w.compIdxOfTy ty with
  | some r => obtain ⟨k, ci⟩ := r; exact addComponent_existing hf
  | none =>
    cases hi : w.comps.insertWith (compReg.make ty) with
    | none => exact addComponent_full hf hi
    | some r => obtain ⟨k, comps'⟩ := r; exact addComponent_new_shape hf hi

/-! ### global events -/

/-- the registry entry `addGlobalEvent` / `ensureAddG` build for a global event type -/
def gevInfo (ty : EvTy) (k : Key) : EvInfo := { ty, id := k, kind := gevKind ty, needsDrop := gevNeedsDrop ty }

/-- the world after a global event type has been entered under `k`: registry entry + its (empty) handler list -/
def World.withGev (w : World) (k : Key) (gevs' : SlotMap EvInfo) : World :=
  { w with gevs := gevs', byGlobal := listResize w.byGlobal (k.idx + 1) {} }

theorem listResize_length_ge {α : Type} (l : List α) (n : Nat) (d : α) : n ≤ (listResize l n d).length := by
  unfold listResize
  split
  · simp; omega
  · omega

/-- **first registration of `AddGlobalEvent` itself**: inserted, handler list created, then announced with itself,
    once: one push, one flush. -/
theorem ensureAddG_new_shape {w : World} {k : Key} {gevs' : SlotMap EvInfo}
    (hn : w.gevOfTy .addG = none) (hi : w.gevs.insertWith (gevInfo .addG) = some (k, gevs')) :
    ensureAddG.run.run w =
      (do push { ty := .addG, idx := k.idx, pay := { id := k } }; flush FUEL; pure k : M Key).run.run
        (w.withGev k gevs') := by
  unfold ensureAddG
  have hi' : w.gevs.insertWith (fun k => ({ ty := .addG, id := k, kind := .normal, needsDrop := false } : EvInfo)) =
      some (k, gevs') := hi
  simp only [run_bind, run_get, hn, hi', run_set]
  rfl

theorem ensureAddG_full {w : World} (hn : w.gevOfTy .addG = none) (hi : w.gevs.insertWith (gevInfo .addG) = none) :
    ensureAddG.run.run w = (.error (.panic "capacity"), w) := by
  unfold ensureAddG
  have hi' : w.gevs.insertWith (fun k => ({ ty := .addG, id := k, kind := .normal, needsDrop := false } : EvInfo)) =
      none := hi
  simp only [run_bind, run_get, hn, hi', run_throw]

/-- **first registration of a global event type** other than `AddGlobalEvent`: inserted, handler list created, then
    `AddGlobalEvent` is looked up / registered (`ensureAddG`), then ONE `AddGlobalEvent(k)` is pushed and the queue is
    flushed. -/
theorem addGlobalEvent_new_shape {w : World} {ty : EvTy} {k : Key} {gevs' : SlotMap EvInfo} (hty : ty ≠ .addG)
    (hn : w.gevOfTy ty = none) (hi : w.gevs.insertWith (gevInfo ty) = some (k, gevs')) :
    (addGlobalEvent ty).run.run w =
      (do let ak ← ensureAddG
          push { ty := .addG, idx := ak.idx, pay := { id := k } }
          flush FUEL
          pure k : M Key).run.run (w.withGev k gevs') := by
  unfold addGlobalEvent
  have hb : (ty == EvTy.addG) = false := by simpa using hty
  have hi' : w.gevs.insertWith (fun k => ({ ty, id := k, kind := gevKind ty, needsDrop := gevNeedsDrop ty } : EvInfo)) =
      some (k, gevs') := hi
  simp only [hb, Bool.false_eq_true, if_false, run_bind, run_get, hn, hi', run_set]
  rfl

theorem addGlobalEvent_full {w : World} {ty : EvTy} (hty : ty ≠ .addG) (hn : w.gevOfTy ty = none)
    (hi : w.gevs.insertWith (gevInfo ty) = none) :
    (addGlobalEvent ty).run.run w = (.error (.panic "capacity"), w) := by
  unfold addGlobalEvent
  have hb : (ty == EvTy.addG) = false := by simpa using hty
  have hi' : w.gevs.insertWith (fun k => ({ ty, id := k, kind := gevKind ty, needsDrop := gevNeedsDrop ty } : EvInfo)) =
      none := hi
  simp only [hb, Bool.false_eq_true, if_false, run_bind, run_get, hn, hi', run_throw]

theorem addGlobalEvent_addG (w : World) : (addGlobalEvent .addG).run.run w = ensureAddG.run.run w := by
  unfold addGlobalEvent
  simp

/-- "after the item is usable" for a global event type: valid id, entry found by type and by index, a handler list
    exists at its index, other entries untouched, the id was not valid before -/
theorem gev_new_usable {w : World} {ty : EvTy} {k : Key} {gevs' : SlotMap EvInfo} (wf : w.gevs.WF)
    (hn : w.gevOfTy ty = none) (hi : w.gevs.insertWith (gevInfo ty) = some (k, gevs')) :
    gevs'.WF ∧ gevs'.get k = some (gevInfo ty k) ∧ (w.withGev k gevs').gevOfTy ty = some (k, gevInfo ty k) ∧
    gevs'.getByIndex k.idx = some (k, gevInfo ty k) ∧ k.idx < (w.withGev k gevs').byGlobal.length ∧
    (∀ k', k' ≠ k → gevs'.get k' = w.gevs.get k') ∧ w.gevs.contains k = false := by
  obtain ⟨wf', hk, hbi, hother, hfresh⟩ := insertWith_usable wf hi
  refine ⟨wf', hk, find?_insertWith_new wf hi _ hn (by simp [gevInfo]), hbi, ?_, hother, hfresh⟩
  exact listResize_length_ge _ _ _

/-- registering another type does not disturb the lookup of a type -/
theorem gevOfTy_withGev_ne {w : World} {ty ty' : EvTy} {k : Key} {gevs' : SlotMap EvInfo} (wf : w.gevs.WF)
    (hi : w.gevs.insertWith (gevInfo ty) = some (k, gevs')) (hne : ty ≠ ty') :
    (w.withGev k gevs').gevOfTy ty' = w.gevOfTy ty' :=
  find?_insertWith_of_neg wf hi _ (by simpa [gevInfo] using hne)

/-- first registration of a global event type when `AddGlobalEvent` is registered already (under `ak`): exactly one
    push — `AddGlobalEvent(k)` at `ak`'s index — then the flush -/
theorem addGlobalEvent_new_shape_addG_registered {w : World} {ty : EvTy} {k ak : Key} {ai : EvInfo}
    {gevs' : SlotMap EvInfo} (wf : w.gevs.WF) (hty : ty ≠ .addG) (hn : w.gevOfTy ty = none)
    (hi : w.gevs.insertWith (gevInfo ty) = some (k, gevs')) (ha : w.gevOfTy .addG = some (ak, ai)) :
    (addGlobalEvent ty).run.run w =
      (do push { ty := .addG, idx := ak.idx, pay := { id := k } }; flush FUEL; pure k : M Key).run.run
        (w.withGev k gevs') := by
  rw [addGlobalEvent_new_shape hty hn hi, run_bind,
    ensureAddG_existing ((gevOfTy_withGev_ne wf hi hty).trans ha)]

/-- the very first global event type: `AddGlobalEvent` is registered on the way (after `ty`'s entry exists), and the
    exact sequence is: push `AddGlobalEvent(ak)` (its own registration), flush, push `AddGlobalEvent(k)`, flush.
    Each of the two first registrations is announced exactly once. -/
theorem addGlobalEvent_new_shape_addG_new {w : World} {ty : EvTy} {k ak : Key} {gevs' gevs'' : SlotMap EvInfo}
    (wf : w.gevs.WF) (hty : ty ≠ .addG) (hn : w.gevOfTy ty = none)
    (hi : w.gevs.insertWith (gevInfo ty) = some (k, gevs')) (ha : w.gevOfTy .addG = none)
    (hi2 : gevs'.insertWith (gevInfo .addG) = some (ak, gevs'')) :
    (addGlobalEvent ty).run.run w =
      (do push { ty := .addG, idx := ak.idx, pay := { id := ak } }
          flush FUEL
          push { ty := .addG, idx := ak.idx, pay := { id := k } }
          flush FUEL
          pure k : M Key).run.run ((w.withGev k gevs').withGev ak gevs'') := by
  rw [addGlobalEvent_new_shape hty hn hi, run_bind,
    ensureAddG_new_shape ((gevOfTy_withGev_ne wf hi hty).trans ha) hi2]
  simp only [run_bind, run_push]
  generalize (flush FUEL).run.run _ = r
  obtain ⟨(e|a), w'⟩ := r <;> rfl

/-! ### targeted events -/

def tevNeedsDrop : EvTy → Bool
  | .t _ => true
  | .ins k => compNeedsDrop k
  | _ => false

/-- the registry entry `addTargetedEvent` builds -/
def tevInfo (ty : EvTy) (kind : EvKind) (k : Key) : EvInfo := { ty, id := k, kind, needsDrop := tevNeedsDrop ty }

/-- first half of `addTargetedEvent`: `E::init` (`Insert<C>` / `Remove<C>` register `C`) -/
def tevInit (ty : EvTy) : M EvKind :=
  match ty with
  | .ins k => do let c ← addComponent k; pure (EvKind.insert c.idx)
  | .rem k => do let c ← addComponent k; pure (EvKind.remove c.idx)
  | .despawn => pure EvKind.despawn
  | _ => pure EvKind.normal

/-- the bookkeeping on the component of an `Insert<C>` / `Remove<C>` event (`insert_events` / `remove_events`) -/
def World.noteTev (w : World) (kind : EvKind) (k : Key) : World :=
  match kind with
  | .insert c =>
    match w.comps.getByIndex c with
    | some (ck, ci) => { w with comps := w.comps.set ck { ci with insEvents := ci.insEvents ++ [k] } }
    | none => w
  | .remove c =>
    match w.comps.getByIndex c with
    | some (ck, ci) => { w with comps := w.comps.set ck { ci with remEvents := ci.remEvents ++ [k] } }
    | none => w
  | _ => w

/-- second half of `addTargetedEvent`, with the kind `E::init` produced (the model's code, verbatim) -/
def registerTev (ty : EvTy) (kind : EvKind) : M Key := do
  let w ← get
  match w.tevOfTy ty with
  | some (k, _) => pure k
  | none =>
    let needsDrop := match ty with | .t _ => true | .ins k => compNeedsDrop k | _ => false
    match w.tevs.insertWith fun k => { ty, id := k, kind, needsDrop } with
    | none => throw (.panic "capacity")
    | some (k, tevs) =>
      set { w with tevs := tevs }
      match kind with
      | .insert c =>
        let w ← get
        match w.comps.getByIndex c with
        | some (ck, ci) => set { w with comps := w.comps.set ck { ci with insEvents := ci.insEvents ++ [k] } }
        | none => pure ()
      | .remove c =>
        let w ← get
        match w.comps.getByIndex c with
        | some (ck, ci) => set { w with comps := w.comps.set ck { ci with remEvents := ci.remEvents ++ [k] } }
        | none => pure ()
      | _ => pure ()
      sendGlobal .addT { id := k }
      pure k

/-- `addTargetedEvent` is `E::init` followed by `registerTev`: the model's definition, split in two -/
theorem addTargetedEvent_eq (ty : EvTy) : addTargetedEvent ty = tevInit ty >>= registerTev ty := rfl

theorem tevInfo_eq (ty : EvTy) (kind : EvKind) :
    tevInfo ty kind = fun k => { ty, id := k, kind, needsDrop := match ty with | .t _ => true | .ins k => compNeedsDrop k | _ => false } := rfl

theorem registerTev_existing {w : World} {ty : EvTy} {kind : EvKind} {k : Key} {ei : EvInfo}
    (h : w.tevOfTy ty = some (k, ei)) : (registerTev ty kind).run.run w = (.ok k, w) := by
  unfold registerTev
  simp only [run_bind, run_get, h, run_pure]

/-- **first registration of a targeted event type** (after `E::init`): the entry is inserted into `tevs`, the event is
    noted on its component (`Insert<C>`/`Remove<C>` only), and then — in that world — exactly one
    `sendGlobal .addT { id := k }` runs. -/
theorem registerTev_new_shape {w : World} {ty : EvTy} {kind : EvKind} {k : Key} {tevs' : SlotMap EvInfo}
    (hn : w.tevOfTy ty = none) (hi : w.tevs.insertWith (tevInfo ty kind) = some (k, tevs')) :
    (registerTev ty kind).run.run w =
      (do sendGlobal .addT { id := k }; pure k : M Key).run.run
        (({ w with tevs := tevs' } : World).noteTev kind k) := by
  unfold registerTev
  simp only [run_bind, run_get, hn]
  rw [tevInfo_eq] at hi
  simp only [hi, run_bind, run_set]
  cases kind with
  | insert c =>
    simp only [run_bind, run_get, World.noteTev]
    cases w.comps.getByIndex c with
    | none => simp only [run_bind, run_pure]
    | some r => obtain ⟨ck, ci⟩ := r; simp only [run_bind, run_set]
  | remove c =>
    simp only [run_bind, run_get, World.noteTev]
    cases w.comps.getByIndex c with
    | none => simp only [run_bind, run_pure]
    | some r => obtain ⟨ck, ci⟩ := r; simp only [run_bind, run_set]
  | _ => simp only [run_bind, run_pure, World.noteTev]

theorem registerTev_full {w : World} {ty : EvTy} {kind : EvKind}
    (hn : w.tevOfTy ty = none) (hi : w.tevs.insertWith (tevInfo ty kind) = none) :
    (registerTev ty kind).run.run w = (.error (.panic "capacity"), w) := by
  unfold registerTev
  simp only [run_bind, run_get, hn]
  rw [tevInfo_eq] at hi
  simp only [hi, run_throw]

/-- the kind of a targeted event type without component dependency -/
def plainKind : EvTy → EvKind
  | .despawn => .despawn
  | _ => .normal

/-- `E::init` of an event type without component dependency does nothing -/
theorem tevInit_plain {ty : EvTy} (hd : ty.compDep = none) (w : World) :
    (tevInit ty).run.run w = (.ok (plainKind ty), w) := by
  cases ty <;> first | rfl | cases hd

/-- `E::init` of `Insert<C>` with `C` registered: nothing happens, the kind refers to `C`'s index -/
theorem tevInit_ins_registered {w : World} {c : Nat} {ck : Key} {ci : CompInfo} (h : w.compIdxOfTy c = some (ck, ci)) :
    (tevInit (.ins c)).run.run w = (.ok (.insert ck.idx), w) := by
  simp only [tevInit, run_bind, addComponent_existing h, run_pure]

theorem tevInit_rem_registered {w : World} {c : Nat} {ck : Key} {ci : CompInfo} (h : w.compIdxOfTy c = some (ck, ci)) :
    (tevInit (.rem c)).run.run w = (.ok (.remove ck.idx), w) := by
  simp only [tevInit, run_bind, addComponent_existing h, run_pure]

/-- first registration of `T n` / `Despawn`: inserted, then one `AddTargetedEvent(k)` is sent -/
theorem addTargetedEvent_new_shape_plain {w : World} {ty : EvTy} {k : Key} {tevs' : SlotMap EvInfo}
    (hd : ty.compDep = none) (hn : w.tevOfTy ty = none)
    (hi : w.tevs.insertWith (tevInfo ty (plainKind ty)) = some (k, tevs')) :
    (addTargetedEvent ty).run.run w =
      (do sendGlobal .addT { id := k }; pure k : M Key).run.run { w with tevs := tevs' } := by
  rw [addTargetedEvent_eq, run_bind, tevInit_plain hd]
  simp only
  rw [registerTev_new_shape hn hi]
  cases ty <;> first | rfl | cases hd

/-- first registration of `Insert<C>`, `C` registered under `ck`: inserted with kind `insert ck.idx`, appended to
    `C`'s `insEvents`, then one `AddTargetedEvent(k)` is sent -/
theorem addTargetedEvent_new_shape_ins {w : World} {c : Nat} {ck k : Key} {ci : CompInfo} {tevs' : SlotMap EvInfo}
    (wfc : w.comps.WF) (hc : w.compIdxOfTy c = some (ck, ci)) (hn : w.tevOfTy (.ins c) = none)
    (hi : w.tevs.insertWith (tevInfo (.ins c) (.insert ck.idx)) = some (k, tevs')) :
    (addTargetedEvent (.ins c)).run.run w =
      (do sendGlobal .addT { id := k }; pure k : M Key).run.run
        { w with tevs := tevs', comps := w.comps.set ck { ci with insEvents := ci.insEvents ++ [k] } } := by
  rw [addTargetedEvent_eq, run_bind, tevInit_ins_registered hc]
  simp only
  rw [registerTev_new_shape hn hi]
  have hg : w.comps.getByIndex ck.idx = some (ck, ci) :=
    get_getByIndex wfc (regFind_some (R := compReg) wfc hc).1
  simp only [World.noteTev, hg]

theorem addTargetedEvent_new_shape_rem {w : World} {c : Nat} {ck k : Key} {ci : CompInfo} {tevs' : SlotMap EvInfo}
    (wfc : w.comps.WF) (hc : w.compIdxOfTy c = some (ck, ci)) (hn : w.tevOfTy (.rem c) = none)
    (hi : w.tevs.insertWith (tevInfo (.rem c) (.remove ck.idx)) = some (k, tevs')) :
    (addTargetedEvent (.rem c)).run.run w =
      (do sendGlobal .addT { id := k }; pure k : M Key).run.run
        { w with tevs := tevs', comps := w.comps.set ck { ci with remEvents := ci.remEvents ++ [k] } } := by
  rw [addTargetedEvent_eq, run_bind, tevInit_rem_registered hc]
  simp only
  rw [registerTev_new_shape hn hi]
  have hg : w.comps.getByIndex ck.idx = some (ck, ci) :=
    get_getByIndex wfc (regFind_some (R := compReg) wfc hc).1
  simp only [World.noteTev, hg]

/-- "after the item is usable" for a targeted event type: in the world handed to `sendGlobal .addT` the id is valid,
    the entry is found by type and by index, other entries are untouched, the id was not valid before -/
theorem tev_new_usable {w : World} {ty : EvTy} {kind : EvKind} {k : Key} {tevs' : SlotMap EvInfo} (wf : w.tevs.WF)
    (hn : w.tevOfTy ty = none) (hi : w.tevs.insertWith (tevInfo ty kind) = some (k, tevs')) :
    let w₁ := ({ w with tevs := tevs' } : World).noteTev kind k
    w₁.tevs = tevs' ∧ tevs'.WF ∧ tevs'.get k = some (tevInfo ty kind k) ∧ w₁.tevOfTy ty = some (k, tevInfo ty kind k) ∧
    tevs'.getByIndex k.idx = some (k, tevInfo ty kind k) ∧
    (∀ k', k' ≠ k → tevs'.get k' = w.tevs.get k') ∧ w.tevs.contains k = false := by
  obtain ⟨wf', hk, hbi, hother, hfresh⟩ := insertWith_usable wf hi
  have ht : (({ w with tevs := tevs' } : World).noteTev kind k).tevs = tevs' := by
    unfold World.noteTev
    cases kind with
    | insert c => simp only; cases w.comps.getByIndex c <;> rfl
    | remove c => simp only; cases w.comps.getByIndex c <;> rfl
    | _ => rfl
  refine ⟨ht, wf', hk, ?_, hbi, hother, hfresh⟩
  show List.find? _ (SlotMap.toList (World.tevs _)) = _
  rw [ht]
  exact find?_insertWith_new wf hi _ hn (by simp [tevInfo])

/-- the bookkeeping of `Insert<C>` on the component: in the world handed to `sendGlobal .addT`, `C`'s entry lists the
    new event id last in `insEvents`; every other component entry is unchanged -/
theorem tev_new_noted_ins {w : World} {ck k : Key} {ci : CompInfo} {tevs' : SlotMap EvInfo}
    (hc : w.comps.get ck = some ci) (k' : Key) :
    ({ w with tevs := tevs', comps := w.comps.set ck { ci with insEvents := ci.insEvents ++ [k] } } : World).comps.get k' =
      if k' = ck then some { ci with insEvents := ci.insEvents ++ [k] } else w.comps.get k' :=
  get_set hc _ k'

theorem tev_new_noted_rem {w : World} {ck k : Key} {ci : CompInfo} {tevs' : SlotMap EvInfo}
    (hc : w.comps.get ck = some ci) (k' : Key) :
    ({ w with tevs := tevs', comps := w.comps.set ck { ci with remEvents := ci.remEvents ++ [k] } } : World).comps.get k' =
      if k' = ck then some { ci with remEvents := ci.remEvents ++ [k] } else w.comps.get k' :=
  get_set hc _ k'

/-! ## 3. a notification is one push -/

/-- **`sendGlobal` unconditionally**: register the event type (`addGlobalEvent`; a failure drops the event value and
    is re-thrown), then push EXACTLY ONE queue item carrying `pay` at the registered index, then flush. -/
theorem sendGlobal_one_push (ty : EvTy) (pay : Payload) (w : World) :
    (sendGlobal ty pay).run.run w =
      match (addGlobalEvent ty).run.run w with
      | (.ok k, w') => (flush FUEL).run.run { w' with queue := w'.queue ++ [{ ty, idx := k.idx, pay }] }
      | (.error e, w') => (do dropEvent { ty, idx := 0, pay }; throw e : M Unit).run.run w' := by
  unfold sendGlobal
  rw [run_bind, run_tryCatch]
  generalize (addGlobalEvent ty).run.run w = r
  obtain ⟨(e|k), w'⟩ := r
  · simp only [run_bind]
    generalize (dropEvent _).run.run w' = r
    obtain ⟨(e'|_), w''⟩ := r <;> rfl
  · simp only [run_bind, run_push]

/-- **the notification is one push**: sending an event whose type is registered (under `k`) is: append exactly one
    `QItem` to the queue — nothing else changes —, then run the event loop. -/
theorem notification_is_one_push {w : World} {ty : EvTy} {k : Key} {ei : EvInfo} (pay : Payload)
    (h : w.gevOfTy ty = some (k, ei)) :
    (sendGlobal ty pay).run.run w =
      (flush FUEL).run.run { w with queue := w.queue ++ [{ ty, idx := k.idx, pay }] } := by
  rw [sendGlobal_one_push, addGlobalEvent_existing h]

/-- **a first component registration queues exactly one `AddComponent(k)`** (when the `AddComponent` event type is
    registered, under `ak`): the registration is the insertion followed by the event loop started on the old queue plus
    that one item; `k` is returned iff the loop returns. Nothing else is pushed by the registration itself. -/
theorem addComponent_new_one_push {w : World} {ty : Nat} {k ak : Key} {ai : EvInfo} {comps' : SlotMap CompInfo}
    (hn : w.compIdxOfTy ty = none)
    (hi : w.comps.insertWith (fun k => ({ ty, id := k } : CompInfo)) = some (k, comps'))
    (ha : w.gevOfTy .addC = some (ak, ai)) :
    (addComponent ty).run.run w =
      match (flush FUEL).run.run
          { w with comps := comps', queue := w.queue ++ [{ ty := .addC, idx := ak.idx, pay := { id := k } }] } with
      | (.ok _, w') => (.ok k, w')
      | (.error e, w') => (.error e, w') := by
  rw [addComponent_new_shape hn hi, run_bind,
    notification_is_one_push (w := { w with comps := comps' }) (k := ak) (ei := ai) _ ha]
  generalize (flush FUEL).run.run _ = r
  obtain ⟨(e|a), w'⟩ := r <;> rfl

/-- the same for a targeted event type (`AddTargetedEvent` registered under `ak`) -/
theorem registerTev_new_one_push {w : World} {ty : EvTy} {kind : EvKind} {k ak : Key} {ai : EvInfo}
    {tevs' : SlotMap EvInfo} (hn : w.tevOfTy ty = none)
    (hi : w.tevs.insertWith (tevInfo ty kind) = some (k, tevs')) (ha : w.gevOfTy .addT = some (ak, ai)) :
    (registerTev ty kind).run.run w =
      match (flush FUEL).run.run
          (let w₁ := ({ w with tevs := tevs' } : World).noteTev kind k
           { w₁ with queue := w₁.queue ++ [{ ty := .addT, idx := ak.idx, pay := { id := k } }] }) with
      | (.ok _, w') => (.ok k, w')
      | (.error e, w') => (.error e, w') := by
  have ha' : (({ w with tevs := tevs' } : World).noteTev kind k).gevOfTy .addT = some (ak, ai) := by
    rw [← ha]
    unfold World.noteTev
    cases kind with
    | insert c => simp only; cases w.comps.getByIndex c <;> rfl
    | remove c => simp only; cases w.comps.getByIndex c <;> rfl
    | _ => rfl
  rw [registerTev_new_shape hn hi, run_bind, notification_is_one_push _ ha']
  generalize (flush FUEL).run.run _ = r
  obtain ⟨(e|a), w'⟩ := r <;> rfl

/-- **delivered exactly once.** When the event loop started on an empty queue plus the one notification `x` returns,
    the deliveries form a depth-first log whose FIRST entry is the delivery of `x`, and everything delivered after it
    was left queued by a delivery (sent by a handler): `x` is delivered once as the root; the multiset of delivered
    events is `x` plus the events deliveries left queued (`flushWith_delivers_each_once`, C11). -/
theorem notification_delivered_once {w w' : World} {x : QItem} (hq : w.queue = [])
    (h : (flush FUEL).run.run { w with queue := w.queue ++ [x] } = (.ok (), w')) :
    ∃ wd w1 seg l1,
      DfsLog deliverOne { w with queue := [] } [x] wd (⟨{ w with queue := [] }, x, w1, seg⟩ :: l1) ∧
      Step deliverOne { w with queue := [] } x w1 seg ∧ DfsLog deliverOne w1 seg.reverse wd l1 ∧
      delivered (⟨{ w with queue := [] }, x, w1, seg⟩ :: l1) = x :: delivered l1 ∧
      (delivered l1).Perm (leftQueued (⟨{ w with queue := [] }, x, w1, seg⟩ :: l1)) ∧
      w'.queue = [] ∧ w' = { wd with arenaEpoch := wd.arenaEpoch + 1 } := by
  obtain ⟨wd, log, hd, hp, _, hq', hw'⟩ := flush_delivers_each_once h
  simp only [hq, List.nil_append, List.reverse_cons, List.reverse_nil] at hd hp
  obtain ⟨w1, seg, w2, l1, l2, hs, hc, hr, rfl⟩ := dfsLog_cons_iff.mp hd
  cases hr
  simp only [List.append_nil] at hd hp ⊢
  refine ⟨wd, w1, seg, l1, hd, hs, hc, rfl, ?_, hq', hw'⟩
  have : delivered (⟨{ w with queue := [] }, x, w1, seg⟩ :: l1) = x :: delivered l1 := rfl
  rw [this] at hp
  exact (List.perm_cons x).1 (by simpa using hp)

/-! ## 4. the registries are stable while events are delivered -/

/-- what equality of the component registries up to `memberOf` means: the same ids are valid, every id denotes an
    entry with the same type, id and event lists, every type is registered under the same id, and the slot skeleton
    (hence the next key to be handed out and what is `Covers`ed) is the same -/
theorem compsCore_eq_consequences {w w' : World} (h : w'.compsCore = w.compsCore) :
    (∀ k, w'.comps.contains k = w.comps.contains k) ∧
    (∀ k, (w'.comps.get k).map CompInfo.core = (w.comps.get k).map CompInfo.core) ∧
    (∀ ty, (w'.compIdxOfTy ty).map (·.1) = (w.compIdxOfTy ty).map (·.1)) ∧
    (∀ k, Covers w'.comps k ↔ Covers w.comps k) := by
  refine ⟨fun k => ?_, fun k => ?_, fun ty => ?_, fun k => ?_⟩
  · rw [← contains_mapVal CompInfo.core w'.comps, ← contains_mapVal CompInfo.core w.comps]
    exact congrArg (·.contains k) h
  · rw [← get_mapVal, ← get_mapVal]
    exact congrArg (·.get k) h
  · have e := congrArg (fun sm => (sm.toList.find? fun x => x.2.ty == ty).map (·.1)) h
    simp only [World.compsCore, find?_mapVal, Option.map_map] at e
    exact e
  · rw [← covers_mapVal CompInfo.core w'.comps, ← covers_mapVal CompInfo.core w.comps]
    exact iff_of_eq (congrArg (Covers · k) h)

/-- **one delivery**, however it ends (normally, with a panic, with a model error): the event registries are not
    touched at all; in the component registry only `memberOf` fields may change (`Archetype::new`) — no component id
    becomes valid or invalid, no type changes its id. -/
theorem registries_stable_during_delivery (it : QItem) (w : World) :
    ((deliverOne it).run.run w).2.gevs = w.gevs ∧ ((deliverOne it).run.run w).2.tevs = w.tevs ∧
    ((deliverOne it).run.run w).2.compsCore = w.compsCore ∧
    (∀ k, ((deliverOne it).run.run w).2.comps.contains k = w.comps.contains k) ∧
    (∀ ty, (((deliverOne it).run.run w).2.compIdxOfTy ty).map (·.1) = (w.compIdxOfTy ty).map (·.1)) := by
  have hf := deliverOne_frame it w
  have hc : ((deliverOne it).run.run w).2.compsCore = w.compsCore := (deliverOne_cc (c := w.compsCore) it).run w rfl
  obtain ⟨h1, _, h3, _⟩ := compsCore_eq_consequences hc
  exact ⟨congrArg Frame.gevs hf, congrArg Frame.tevs hf, hc, h1, h3⟩

/-- **a whole run of the event loop** (any fuel, any queue, any handlers), however it ends -/
theorem registries_stable_during_flush (fuel : Nat) (w : World) :
    ((flush fuel).run.run w).2.gevs = w.gevs ∧ ((flush fuel).run.run w).2.tevs = w.tevs ∧
    ((flush fuel).run.run w).2.compsCore = w.compsCore ∧
    (∀ k, ((flush fuel).run.run w).2.comps.contains k = w.comps.contains k) ∧
    (∀ ty, (((flush fuel).run.run w).2.compIdxOfTy ty).map (·.1) = (w.compIdxOfTy ty).map (·.1)) := by
  have he := (flush_ev (w.gevs, w.tevs) fuel).run w rfl
  have hc : ((flush fuel).run.run w).2.compsCore = w.compsCore := (flush_cc (c := w.compsCore) fuel).run w rfl
  obtain ⟨h1, _, h3, _⟩ := compsCore_eq_consequences hc
  exact ⟨congrArg Prod.fst he, congrArg Prod.snd he, hc, h1, h3⟩

/-! ## 5. ids: fresh when handed out, invalid once removed -/

/-- **freshness of a new component id** (local form, for any well-formed registry): the id `addComponent` hands out on
    a first registration was not valid before; it is a proper key (odd generation `< 2^32`, index `< u32::MAX`); its
    generation is strictly larger than that of EVERY key with the same index the registry has ever covered — in
    particular of every id valid now, and (since removal keeps coverage: `covers_remove`, `dead_comp_*` below) of every
    id that was removed earlier. Everything covered stays covered. -/
theorem comps_key_fresh {w : World} {ty : Nat} {k : Key} {comps' : SlotMap CompInfo} (wf : w.comps.WF)
    (hi : w.comps.insertWith (fun k => ({ ty, id := k } : CompInfo)) = some (k, comps')) :
    w.comps.contains k = false ∧
    (k.gen % 2 = 1 ∧ k.gen < GENMOD ∧ k.idx < U32MAX) ∧
    (∀ k', Covers w.comps k' → k'.idx = k.idx → k'.gen < k.gen) ∧
    (∀ k', w.comps.contains k' = true → k'.idx = k.idx → k'.gen < k.gen) ∧
    Covers comps' k ∧ (∀ k', Covers w.comps k' → Covers comps' k') := by
  obtain ⟨h1, h2, h3, h4, h5, h6⟩ := insertWith_key wf hi
  exact ⟨insertWith_not_contains wf hi, ⟨h1, h2, h3⟩, h6, fun k' hc => h6 k' (covers_of_contains hc), h4, h5⟩

theorem HoareOk.trivial {α : Type} {P : World → Prop} {m : M α} : HoareOk P m (fun _ _ => True) :=
  ⟨fun _ _ _ _ _ => True.intro⟩

theorem HoareOk.set_to {P : World → Prop} {w' : World} {Q : World → Prop} (h : Q w') :
    HoareOk P (MonadStateOf.set w' : M PUnit) (fun _ => Q) :=
  ⟨fun _ _ _ _ hr => by cases hr; exact h⟩

/-- **`removeComponent` invalidates the id.** If `removeComponent k` returns `true` — whatever the handlers of
    `RemoveComponent`, `Despawn`, `RemoveHandler`, `RemoveTargetedEvent` did on the way — then in the final world `k` is
    not a valid component id: `comps.remove k` made it invalid (`contains_remove_self`) and the two steps after it,
    `archsRemoveComponent` and `resRefresh`, only rewrite `memberOf` fields (`archsRemoveComponent_cc`). -/
theorem removeComponent_invalidates_triple (k : Key) :
    HoareOk (fun _ => True) (removeComponent k) (fun r w' => r = true → w'.comps.contains k = false) := by
  unfold removeComponent
  refine HoareOk.get_bind fun w0 _ => ?_
  split
  · exact HoareOk.pure fun _ _ h => nomatch h
  · refine HoareOk.bind (R := fun _ _ => True) HoareOk.trivial fun _ => ?_
    refine HoareOk.bind (R := fun _ _ => True) HoareOk.trivial fun dk => ?_
    refine HoareOk.get_bind fun _ _ => ?_
    refine HoareOk.bind (R := fun _ _ => True) HoareOk.trivial fun _ => ?_
    refine HoareOk.bind (R := fun _ _ => True) HoareOk.trivial fun _ => ?_
    refine HoareOk.get_bind fun w1 _ => ?_
    refine HoareOk.bind (R := fun _ _ => True) HoareOk.trivial fun _ => ?_
    refine HoareOk.get_bind fun w2 _ => ?_
    split
    · exact HoareOk.throw _
    · refine HoareOk.bind (R := fun _ _ => True) HoareOk.trivial fun _ => ?_
      refine HoareOk.get_bind fun w3 _ => ?_
      split
      · exact HoareOk.throw _
      · rename_i info comps hrem
        refine HoareOk.bind (R := fun _ w => w.comps.contains k = false)
          (HoareOk.set_to (Q := fun w => w.comps.contains k = false) (contains_remove_self hrem)) fun _ => ?_
        refine HoareOk.bind_inv
          (HoareOk.of_keeps (Keeps.contains_of_cc (fun _ => archsRemoveComponent_cc _) k false)) fun _ => ?_
        refine HoareOk.bind_inv (HoareOk.of_keeps (Keeps.contains_of_cc (fun _ => resRefresh_cc) k false)) fun _ => ?_
        exact HoareOk.pure fun _ h _ => h

theorem removeComponent_invalidates {k : Key} {w w' : World}
    (h : (removeComponent k).run.run w = (.ok true, w')) : w'.comps.contains k = false :=
  (removeComponent_invalidates_triple k).run w True.intro true w' h rfl

/-- removing an id that is not valid does nothing at all (and returns `false`) -/
theorem removeComponent_invalid_id {k : Key} {w : World} (h : w.comps.contains k = false) :
    (removeComponent k).run.run w = (.ok false, w) := by
  unfold removeComponent
  simp only [run_bind, run_get, h, Bool.not_false, if_true, run_pure]

/-! ## 6. the registry invariant along every run of the driver

`RegInv D w` (`Evenio/Proofs/Registry.lean`): the four registries of `w` are well-formed slot maps, every id recorded in
`w.removedIds` is dead in its registry (`DeadKey`: not valid, and its slot has moved past its generation or is
retired), and the ids `D` are among the recorded ones. Every model function up to `execOp` keeps it
(`execOp_ri`), so it holds in every world the driver reaches. -/

variable {D : List (Char × Key)}

/-- the initial world satisfies the registry invariant -/
theorem regInv_init : RegInv [] ({} : World) :=
  ⟨wf_empty, wf_empty, wf_empty, wf_empty, fun _ h => (nomatch h), fun _ h => (nomatch h)⟩

/-- one protocol step of the driver keeps it -/
theorem step_regInv {w : World} (op : Op) (snap : Bool) (h : RegInv D w) : RegInv D (step w op snap).1 := by
  have := (execOp_ri (D := D) op).run { w with out := #[], edrops := [], cdrops := [], budget := BUDGET } h
  unfold step
  exact this

/-- the worlds the driver can reach -/
def runOps (w : World) (ops : List Op) : World := ops.foldl (fun w op => (step w op).1) w

theorem runOps_regInv {w : World} (ops : List Op) (h : RegInv D w) : RegInv D (runOps w ops) := by
  induction ops generalizing w with
  | nil => exact h
  | cons op ops ih => exact ih (step_regInv op false h)

/-- weaken / strengthen the tracked ids -/
theorem RegInv.track {w : World} (h : RegInv [] w) {D : List (Char × Key)} (hD : ∀ p ∈ D, p ∈ w.removedIds) :
    RegInv D w :=
  ⟨h.wfc, h.wfg, h.wft, h.wfh, h.dead, hD⟩

theorem RegInv.not_valid {w : World} (h : RegInv D w) {p : Char × Key} (hp : p ∈ w.removedIds) :
    (match p.1 with
      | 'c' => w.comps.contains p.2
      | 'g' => w.gevs.contains p.2
      | 't' => w.tevs.contains p.2
      | _ => w.handlers.contains p.2) = false := by
  have hd := h.dead p hp
  unfold DeadIn at hd
  split
  · rename_i e; rw [if_pos e] at hd; exact hd.2
  · rename_i e; rw [if_neg (by rw [e]; decide), if_pos e] at hd; exact hd.2
  · rename_i e; rw [if_neg (by rw [e]; decide), if_neg (by rw [e]; decide), if_pos e] at hd; exact hd.2
  · rename_i e1 e2 e3; rw [if_neg e1, if_neg e2, if_neg e3] at hd; exact hd.2

/-- **no removed id is valid**: the `stale=` count of the `> reg` observation line (`World.renderReg`) is 0 in every
    world satisfying the invariant -/
theorem RegInv.stale_nil {w : World} (h : RegInv D w) :
    (w.removedIds.filter fun (c, k) =>
      match c with
      | 'c' => w.comps.contains k
      | 'g' => w.gevs.contains k
      | 't' => w.tevs.contains k
      | _ => w.handlers.contains k) = [] := by
  rw [List.filter_eq_nil_iff]
  intro p hp
  have := h.not_valid hp
  obtain ⟨c, k⟩ := p
  simpa using this

/-! ### removal kills the id, for good -/

variable {c c' : SlotMap CompInfo} {g g' t t' : SlotMap EvInfo} {h h' : SlotMap HInfo} {r : List (Char × Key)}

theorem RI.remove_comps_track (hi : RI D c g t h r) {k : Key} {v : CompInfo} (hrem : c.remove k = some (v, c')) :
    RI (('c', k) :: D) c' g t h (('c', k) :: r) :=
  let h1 := hi.remove_comps hrem
  ⟨h1.wfc, h1.wfg, h1.wft, h1.wfh, h1.dead, fun p hp => by
    rcases List.mem_cons.1 hp with rfl | hp
    · exact List.mem_cons_self
    · exact h1.sub p hp⟩

theorem RI.remove_gevs_track (hi : RI D c g t h r) {k : Key} {v : EvInfo} (hrem : g.remove k = some (v, g')) :
    RI (('g', k) :: D) c g' t h (('g', k) :: r) :=
  let h1 := hi.remove_gevs hrem
  ⟨h1.wfc, h1.wfg, h1.wft, h1.wfh, h1.dead, fun p hp => by
    rcases List.mem_cons.1 hp with rfl | hp
    · exact List.mem_cons_self
    · exact h1.sub p hp⟩

theorem RI.remove_tevs_track (hi : RI D c g t h r) {k : Key} {v : EvInfo} (hrem : t.remove k = some (v, t')) :
    RI (('t', k) :: D) c g t' h (('t', k) :: r) :=
  let h1 := hi.remove_tevs hrem
  ⟨h1.wfc, h1.wfg, h1.wft, h1.wfh, h1.dead, fun p hp => by
    rcases List.mem_cons.1 hp with rfl | hp
    · exact List.mem_cons_self
    · exact h1.sub p hp⟩

theorem RI.remove_handlers_track (hi : RI D c g t h r) {k : Key} {v : HInfo} (hrem : h.remove k = some (v, h')) :
    RI (('h', k) :: D) c g t h' (('h', k) :: r) :=
  let h1 := hi.remove_handlers hrem
  ⟨h1.wfc, h1.wfg, h1.wft, h1.wfh, h1.dead, fun p hp => by
    rcases List.mem_cons.1 hp with rfl | hp
    · exact List.mem_cons_self
    · exact h1.sub p hp⟩

/-- **`removeComponent k = true` kills `k`**: on return `k` is recorded as removed and is dead (not valid, slot moved
    on); the registry invariant holds with `k` added to the tracked ids — so by `runOps_regInv` it stays dead through
    every later operation of the driver. -/
theorem removeComponent_kills (k : Key) :
    HoareOk (RegInv D) (removeComponent k) (fun r w' => r = true → RegInv (('c', k) :: D) w') := by
  unfold removeComponent
  refine HoareOk.get_bind fun w0 _ => ?_
  split
  · exact HoareOk.pure fun _ _ h => nomatch h
  · refine HoareOk.bind_inv (HoareOk.of_keeps (sendGlobal_ri _ _)) fun _ => ?_
    refine HoareOk.bind_inv (HoareOk.of_keeps (addTargetedEvent_ri _)) fun dk => ?_
    refine HoareOk.get_bind fun _ _ => ?_
    refine HoareOk.bind_inv (HoareOk.of_keeps (by keeps)) fun _ => ?_
    refine HoareOk.bind_inv (HoareOk.of_keeps (flush_ri _)) fun _ => ?_
    refine HoareOk.get_bind fun w1 _ => ?_
    refine HoareOk.bind_inv (HoareOk.of_keeps (by keeps)) fun _ => ?_
    refine HoareOk.get_bind fun w2 _ => ?_
    split
    · exact HoareOk.throw _
    · refine HoareOk.bind_inv (HoareOk.of_keeps (by keeps)) fun _ => ?_
      refine HoareOk.get_bind fun w3 hw3 => ?_
      split
      · exact HoareOk.throw _
      · rename_i info comps hrem
        refine HoareOk.bind (R := fun _ => RegInv (('c', k) :: D))
          (HoareOk.set_to (Q := RegInv (('c', k) :: D)) (RI.remove_comps_track hw3 hrem)) fun _ => ?_
        exact HoareOk.post (HoareOk.of_keeps (by keeps)) fun _ _ h _ => h

/-- navigation for the `remove*` functions: every step before the removal keeps `RegInv D`; the `set` that performs
    the removal establishes `RegInv (p :: D)`; everything after it keeps that -/
syntax "kills_nav" : tactic
macro_rules | `(tactic| kills_nav) => `(tactic| repeat' first
  | ((with_reducible refine HoareOk.pure ?_); exact fun _ _ h => nomatch h)
  | with_reducible exact HoareOk.throw _
  | ((with_reducible refine HoareOk.bind (HoareOk.set_to (Q := RegInv (?p :: ?d)) ?s) (fun _ => ?r))
     (case s => first
        | exact RI.remove_comps_track ‹_› ‹_›
        | exact RI.remove_gevs_track ‹_› ‹_›
        | exact RI.remove_tevs_track ‹_› ‹_›
        | exact RI.remove_handlers_track ‹_› ‹_›)
     (case r => exact HoareOk.post (HoareOk.of_keeps (by keeps; all_goals regfix)) fun _ _ h _ => h))
  | (with_reducible refine HoareOk.get_bind fun _ _ => ?_)
  | ((with_reducible refine HoareOk.bind_inv (HoareOk.of_keeps ?k) fun _ => ?_); (case k => (keeps; done)))
  | dsimp only
  | split)

theorem removeHandler_kills (k : Key) :
    HoareOk (RegInv D) (removeHandler k) (fun r w' => r = true → RegInv (('h', k) :: D) w') := by
  unfold removeHandler
  kills_nav

/-- the tag under which a removed event id is recorded -/
def evTag (ty : EvTy) : Char := if ty.targeted then 't' else 'g'

theorem removeEvent_kills (ty : EvTy) (k : Key) :
    HoareOk (RegInv D) (removeEvent ty k) (fun r w' => r = true → RegInv ((evTag ty, k) :: D) w') := by
  unfold removeEvent
  refine HoareOk.bind_inv (HoareOk.of_keeps assertQueueEmpty_ri) fun _ => ?_
  refine HoareOk.get_bind fun _ _ => ?_
  split
  · rename_i ht
    simp only [evTag, ht, if_true]
    kills_nav
  · rename_i ht
    simp only [evTag, ht]
    kills_nav

/-! ### a removed id is never handed out again -/

theorem contains_of_find? {α : Type} {sm : SlotMap α} (wf : sm.WF) {p : Key × α → Bool} {k : Key} {v : α}
    (hf : sm.toList.find? p = some (k, v)) : sm.contains k = true := by
  have := (mem_toList_iff wf k v).1 (List.mem_of_find?_eq_some hf)
  simp [SlotMap.contains, this]

theorem contains_insertWith {α : Type} {sm sm' : SlotMap α} (wf : sm.WF) {f : Key → α} {k : Key}
    (h : sm.insertWith f = some (k, sm')) : sm'.contains k = true := by
  simp [SlotMap.contains, (insertWith_usable wf h).2.1]

theorem RI.live_comps (hi : RI D c g t h r) {k : Key} (hc : c.contains k = true) : ('c', k) ∉ D := fun hm => by
  have := (deadIn_c.1 (hi.dead _ (hi.sub _ hm))).2
  rw [hc] at this; cases this

theorem RI.live_gevs (hi : RI D c g t h r) {k : Key} (hc : g.contains k = true) : ('g', k) ∉ D := fun hm => by
  have := (deadIn_g.1 (hi.dead _ (hi.sub _ hm))).2
  rw [hc] at this; cases this

theorem RI.live_tevs (hi : RI D c g t h r) {k : Key} (hc : t.contains k = true) : ('t', k) ∉ D := fun hm => by
  have := (deadIn_t.1 (hi.dead _ (hi.sub _ hm))).2
  rw [hc] at this; cases this

theorem RI.live_handlers (hi : RI D c g t h r) {k : Key} (hc : h.contains k = true) : ('h', k) ∉ D := fun hm => by
  have := (deadIn_h.1 (hi.dead _ (hi.sub _ hm))).2
  rw [hc] at this; cases this

/-- every path of the rest of the computation returns a value for which the (state-independent) fact `h` holds -/
macro "const_nav " h:term : tactic => `(tactic| repeat' first
  | ((with_reducible refine HoareOk.pure ?_); exact fun _ _ => $h)
  | with_reducible exact HoareOk.throw _
  | (with_reducible refine HoareOk.get_bind fun _ _ => ?_)
  | (with_reducible refine HoareOk.bind (R := fun _ _ => True) HoareOk.trivial fun _ => ?_)
  | dsimp only
  | split)

/-- **`addComponent` never hands out a removed id**: whatever `addComponent` returns — the existing id or a new one,
    possibly at the index of a removed component — is none of the tracked removed ids `D`. -/
theorem addComponent_never_reissues (ty : Nat) :
    HoareOk (RegInv D) (addComponent ty) (fun k _ => ('c', k) ∉ D) := by
  unfold addComponent
  refine HoareOk.get_bind fun w hw => ?_
  split
  · rename_i k ci hf
    exact HoareOk.pure fun _ _ => RI.live_comps hw (contains_of_find? hw.wfc hf)
  · split
    · exact HoareOk.throw _
    · rename_i k comps hins
      have hk : ('c', k) ∉ D := RI.live_comps (RI.insert_comps hw hins) (contains_insertWith hw.wfc hins)
      refine HoareOk.bind (R := fun _ _ => True) HoareOk.trivial fun _ => ?_
      refine HoareOk.bind (R := fun _ _ => True) HoareOk.trivial fun _ => ?_
      exact HoareOk.pure fun _ _ => hk

theorem ensureAddG_never_reissues : HoareOk (RegInv D) ensureAddG (fun k _ => ('g', k) ∉ D) := by
  unfold ensureAddG
  refine HoareOk.get_bind fun w hw => ?_
  split
  · rename_i k ci hf
    exact HoareOk.pure fun _ _ => RI.live_gevs hw (contains_of_find? hw.wfg hf)
  · split
    · exact HoareOk.throw _
    · rename_i k gevs hins
      have hk : ('g', k) ∉ D := RI.live_gevs (RI.insert_gevs hw hins) (contains_insertWith hw.wfg hins)
      refine HoareOk.bind (R := fun _ _ => True) HoareOk.trivial fun _ => ?_
      refine HoareOk.bind (R := fun _ _ => True) HoareOk.trivial fun _ => ?_
      refine HoareOk.bind (R := fun _ _ => True) HoareOk.trivial fun _ => ?_
      exact HoareOk.pure fun _ _ => hk

theorem addGlobalEvent_never_reissues (ty : EvTy) :
    HoareOk (RegInv D) (addGlobalEvent ty) (fun k _ => ('g', k) ∉ D) := by
  unfold addGlobalEvent
  split
  · exact ensureAddG_never_reissues
  · refine HoareOk.get_bind fun w hw => ?_
    split
    · rename_i k ci hf
      exact HoareOk.pure fun _ _ => RI.live_gevs hw (contains_of_find? hw.wfg hf)
    · split
      · exact HoareOk.throw _
      · rename_i k gevs hins
        have hk : ('g', k) ∉ D := RI.live_gevs (RI.insert_gevs hw hins) (contains_insertWith hw.wfg hins)
        refine HoareOk.bind (R := fun _ _ => True) HoareOk.trivial fun _ => ?_
        refine HoareOk.bind (R := fun _ _ => True) HoareOk.trivial fun _ => ?_
        refine HoareOk.bind (R := fun _ _ => True) HoareOk.trivial fun _ => ?_
        refine HoareOk.bind (R := fun _ _ => True) HoareOk.trivial fun _ => ?_
        exact HoareOk.pure fun _ _ => hk

theorem tevInit_ri (ty : EvTy) : Keeps (RegInv D) (tevInit ty) := by unfold tevInit; keeps

theorem registerTev_never_reissues (ty : EvTy) (kind : EvKind) :
    HoareOk (RegInv D) (registerTev ty kind) (fun k _ => ('t', k) ∉ D) := by
  unfold registerTev
  refine HoareOk.get_bind fun w hw => ?_
  split
  · rename_i k ci hf
    exact HoareOk.pure fun _ _ => RI.live_tevs hw (contains_of_find? hw.wft hf)
  · dsimp only
    split
    · exact HoareOk.throw _
    · rename_i k tevs hins
      have hk : ('t', k) ∉ D := RI.live_tevs (RI.insert_tevs hw hins) (contains_insertWith hw.wft hins)
      const_nav hk

theorem addTargetedEvent_never_reissues (ty : EvTy) :
    HoareOk (RegInv D) (addTargetedEvent ty) (fun k _ => ('t', k) ∉ D) := by
  rw [addTargetedEvent_eq]
  exact HoareOk.bind_inv (HoareOk.of_keeps (tevInit_ri ty)) fun kind => registerTev_never_reissues ty kind

/-- the handler id an `addHandler` result carries -/
def AddResult.key? : AddResult → Option Key
  | .ok k => some k
  | .dup k => some k
  | .err _ => none

theorem live_handler_of_find {p : Key × HInfo → Bool} {k : Key} {v : HInfo}
    (hf : h.toList.find? p = some (k, v)) (hi : RI D c g t h r) : ('h', k) ∉ D :=
  RI.live_handlers hi (contains_of_find? hi.wfh hf)

theorem live_handler_of_insert {f : Key → HInfo} {k : Key} (hins : h.insertWith f = some (k, h'))
    (hi : RI D c g t h r) : ('h', k) ∉ D :=
  RI.live_handlers (RI.insert_handlers hi hins) (contains_insertWith hi.wfh hins)

syntax "handler_nav" : tactic
macro_rules | `(tactic| handler_nav) => `(tactic| repeat' first
  | ((with_reducible refine HoareOk.pure ?_); intro _ _ _ hk; cases hk <;> first
      | done
      | exact live_handler_of_find ‹_› ‹_›
      | exact live_handler_of_insert ‹_› ‹_›)
  | with_reducible exact HoareOk.throw _
  | with_reducible exact HoareOk.ubErr _
  | with_reducible exact HoareOk.bind_throw
  | (with_reducible refine HoareOk.get_bind fun _ _ => ?_)
  | ((with_reducible refine HoareOk.bind_inv (HoareOk.of_keeps ?k) fun _ => ?_); (case k => (keeps; all_goals regfix; done)))
  | (with_reducible refine HoareOk.forIn_list_inv (fun _ _ => ?_))
  | dsimp only
  | split)

/-- **`addHandler` never hands out a removed id**: neither as the id of an existing type-identified handler (`dup`) nor
    as the id of the new handler (`ok`) -/
theorem addHandler_never_reissues (hs : HSpec) :
    HoareOk (RegInv D) (addHandler hs) (fun res _ => ∀ k, res.key? = some k → ('h', k) ∉ D) := by
  unfold addHandler
  handler_nav

/-! ### the driver: every reachable world -/

/-- in a well-formed registry every valid id at the index of a dead id has a strictly larger generation -/
theorem dead_gen_lt_live {α : Type} {sm : SlotMap α} (wf : sm.WF) {k k' : Key} (hd : DeadKey sm k)
    (hl : sm.contains k' = true) (hidx : k'.idx = k.idx) : k.gen < k'.gen := by
  obtain ⟨⟨s, hs, hcov⟩, hnot⟩ := hd
  obtain ⟨v, hv⟩ := Option.isSome_iff_exists.1 hl
  unfold SlotMap.get at hv
  rw [hidx, hs] at hv
  simp only at hv
  by_cases hg : s.gen = k'.gen
  · simp only [hg, if_true] at hv
    have hodd : s.gen % 2 = 1 := (wf.valIff _ _ hs).1 (by simp [hv])
    have hle : k.gen ≤ k'.gen := by rcases hcov with h0 | h1 <;> omega
    rcases Nat.lt_or_eq_of_le hle with hlt | heq
    · exact hlt
    · have : k' = k := by cases k; cases k'; simp_all
      rw [this] at hl; rw [hl] at hnot; cases hnot
  · simp [hg] at hv

/-- every world the driver reaches from the initial world satisfies the registry invariant -/
theorem reachable_regInv (ops : List Op) : RegInv [] (runOps {} ops) := runOps_regInv ops regInv_init

/-- … hence the `stale=` count of its `> reg` line is 0: no removed id of any kind is valid -/
theorem reachable_stale_nil (ops : List Op) :
    ((runOps {} ops).removedIds.filter fun (c, k) =>
      match c with
      | 'c' => (runOps {} ops).comps.contains k
      | 'g' => (runOps {} ops).gevs.contains k
      | 't' => (runOps {} ops).tevs.contains k
      | _ => (runOps {} ops).handlers.contains k) = [] :=
  (reachable_regInv ops).stale_nil

/-- **never valid again.** An id recorded as removed stays recorded and dead through every further sequence of driver
    operations (registrations that reuse its index included). -/
theorem removed_id_stays_dead {w : World} (h : RegInv [] w) {p : Char × Key} (hp : p ∈ w.removedIds) (ops : List Op) :
    p ∈ (runOps w ops).removedIds ∧
    DeadIn (runOps w ops).comps (runOps w ops).gevs (runOps w ops).tevs (runOps w ops).handlers p := by
  have h1 : RegInv [p] w := h.track fun q hq => by rcases List.mem_singleton.1 hq with rfl; exact hp
  have h2 := runOps_regInv ops h1
  have hm := h2.sub p List.mem_cons_self
  exact ⟨hm, h2.dead p hm⟩

/-- **never handed out again** (components): in a world satisfying the invariant, `addComponent` never returns an id
    recorded as removed; and every valid id at the index of a removed id has a strictly larger generation -/
theorem addComponent_ne_removed {w w' : World} (h : RegInv [] w) {k k' : Key} (hk : ('c', k) ∈ w.removedIds) {ty : Nat}
    (hr : (addComponent ty).run.run w = (.ok k', w')) : k' ≠ k := by
  have h1 : RegInv [('c', k)] w := h.track fun q hq => by rcases List.mem_singleton.1 hq with rfl; exact hk
  have := (addComponent_never_reissues (D := [('c', k)]) ty).run w h1 k' w' hr
  intro e; rw [e] at this; exact this List.mem_cons_self

theorem addEvent_ne_removed {w w' : World} (h : RegInv [] w) {k k' : Key} {ty : EvTy}
    (hk : (evTag ty, k) ∈ w.removedIds) (hr : (addEvent ty).run.run w = (.ok k', w')) : k' ≠ k := by
  have h1 : RegInv [(evTag ty, k)] w := h.track fun q hq => by rcases List.mem_singleton.1 hq with rfl; exact hk
  unfold addEvent at hr
  unfold evTag at h1
  intro e
  split at hr
  · rename_i ht
    rw [if_pos ht] at h1
    have := (addTargetedEvent_never_reissues (D := [('t', k)]) ty).run w h1 k' w' hr
    rw [e] at this; exact this List.mem_cons_self
  · rename_i ht
    rw [if_neg ht] at h1
    have := (addGlobalEvent_never_reissues (D := [('g', k)]) ty).run w h1 k' w' hr
    rw [e] at this; exact this List.mem_cons_self

theorem addHandler_ne_removed {w w' : World} (h : RegInv [] w) {k k' : Key} (hk : ('h', k) ∈ w.removedIds) {hs : HSpec}
    {res : AddResult} (hr : (addHandler hs).run.run w = (.ok res, w')) (hres : res.key? = some k') : k' ≠ k := by
  have h1 : RegInv [('h', k)] w := h.track fun q hq => by rcases List.mem_singleton.1 hq with rfl; exact hk
  have := (addHandler_never_reissues (D := [('h', k)]) hs).run w h1 res w' hr k' hres
  intro e; rw [e] at this; exact this List.mem_cons_self

/-- index reuse: a valid component id at the index of a removed one has a strictly larger generation -/
theorem RegInv.removed_comp_gen_lt {w : World} (h : RegInv D w) {k k' : Key} (hk : ('c', k) ∈ w.removedIds)
    (hl : w.comps.contains k' = true) (hidx : k'.idx = k.idx) : k.gen < k'.gen :=
  dead_gen_lt_live h.wfc (deadIn_c.1 (h.dead _ hk)) hl hidx

theorem RegInv.removed_gev_gen_lt {w : World} (h : RegInv D w) {k k' : Key} (hk : ('g', k) ∈ w.removedIds)
    (hl : w.gevs.contains k' = true) (hidx : k'.idx = k.idx) : k.gen < k'.gen :=
  dead_gen_lt_live h.wfg (deadIn_g.1 (h.dead _ hk)) hl hidx

theorem RegInv.removed_tev_gen_lt {w : World} (h : RegInv D w) {k k' : Key} (hk : ('t', k) ∈ w.removedIds)
    (hl : w.tevs.contains k' = true) (hidx : k'.idx = k.idx) : k.gen < k'.gen :=
  dead_gen_lt_live h.wft (deadIn_t.1 (h.dead _ hk)) hl hidx

theorem RegInv.removed_handler_gen_lt {w : World} (h : RegInv D w) {k k' : Key} (hk : ('h', k) ∈ w.removedIds)
    (hl : w.handlers.contains k' = true) (hidx : k'.idx = k.idx) : k.gen < k'.gen :=
  dead_gen_lt_live h.wfh (deadIn_h.1 (h.dead _ hk)) hl hidx

/-- normal-return forms of the `*_kills` triples -/
theorem removeComponent_records {w w' : World} {k : Key} (h : RegInv D w)
    (hr : (removeComponent k).run.run w = (.ok true, w')) :
    RegInv (('c', k) :: D) w' ∧ ('c', k) ∈ w'.removedIds ∧ DeadKey w'.comps k := by
  have h1 := (removeComponent_kills (D := D) k).run w h true w' hr rfl
  have hm := h1.sub _ List.mem_cons_self
  exact ⟨h1, hm, deadIn_c.1 (h1.dead _ hm)⟩

theorem removeHandler_records {w w' : World} {k : Key} (h : RegInv D w)
    (hr : (removeHandler k).run.run w = (.ok true, w')) :
    RegInv (('h', k) :: D) w' ∧ ('h', k) ∈ w'.removedIds ∧ DeadKey w'.handlers k := by
  have h1 := (removeHandler_kills (D := D) k).run w h true w' hr rfl
  have hm := h1.sub _ List.mem_cons_self
  exact ⟨h1, hm, deadIn_h.1 (h1.dead _ hm)⟩

theorem removeEvent_records {w w' : World} {ty : EvTy} {k : Key} (h : RegInv D w)
    (hr : (removeEvent ty k).run.run w = (.ok true, w')) :
    RegInv ((evTag ty, k) :: D) w' ∧ (evTag ty, k) ∈ w'.removedIds ∧
    DeadKey (if ty.targeted then w'.tevs else w'.gevs) k := by
  have h1 := (removeEvent_kills (D := D) ty k).run w h true w' hr rfl
  have hm := h1.sub _ List.mem_cons_self
  refine ⟨h1, hm, ?_⟩
  have hd := h1.dead _ hm
  unfold evTag at hd
  split
  · rename_i ht; rw [if_pos ht] at hd; exact deadIn_t.1 hd
  · rename_i ht; rw [if_neg ht] at hd; exact deadIn_g.1 hd


/-! ## non-vacuity -/

/-- the hypotheses of the first-registration theorems hold in the initial world: component type 7 is not registered,
    the slot map hands out `⟨0, 1⟩`; afterwards the type is found under that id, and registering again is a no-op -/
example :
    ({} : World).compIdxOfTy 7 = none ∧
    ({} : World).comps.insertWith (fun k => ({ ty := 7, id := k } : CompInfo)) =
      some (⟨0, 1⟩, { slots := [⟨1, U32MAX, some { ty := 7, id := ⟨0, 1⟩ }⟩], nextFree := U32MAX, len := 1 }) :=
  ⟨rfl, rfl⟩

example :
    let w₁ : World := { comps := { slots := [⟨1, U32MAX, some { ty := 7, id := ⟨0, 1⟩ }⟩], nextFree := U32MAX, len := 1 } }
    (addComponent 7).run.run w₁ = (.ok ⟨0, 1⟩, w₁) :=
  addComponent_existing rfl

/-- a removed id is dead, the next registration reuses index 0 at generation 3 and is a different id -/
example :
    let sm : SlotMap CompInfo := { slots := [⟨1, U32MAX, some { ty := 7, id := ⟨0, 1⟩ }⟩], nextFree := U32MAX, len := 1 }
    ∃ v sm', sm.remove ⟨0, 1⟩ = some (v, sm') ∧ sm'.contains ⟨0, 1⟩ = false ∧
      (sm'.insertWith fun k => ({ ty := 8, id := k } : CompInfo)).map (·.1) = some ⟨0, 3⟩ :=
  ⟨_, _, rfl, rfl, rfl⟩

#print axioms SlotMap.toList_insertWith
#print axioms SlotMap.find?_insertWith_new
#print axioms SlotMap.find?_insertWith_of_neg
#print axioms SlotMap.mapVal_set
#print axioms SlotMap.WF.set
#print axioms deliverOne_cc
#print axioms flush_cc
#print axioms flush_ev
#print axioms archsRemoveComponent_cc
#print axioms execOp_ri
#print axioms addComponent_existing
#print axioms ensureAddG_existing
#print axioms addGlobalEvent_existing
#print axioms addTargetedEvent_existing
#print axioms addHandler_dup
#print axioms compIdxOfTy_eq_regFind
#print axioms addComponent_new_shape
#print axioms addComponent_full
#print axioms addComponent_new_usable
#print axioms addComponent_eq_regAdd
#print axioms listResize_length_ge
#print axioms ensureAddG_new_shape
#print axioms ensureAddG_full
#print axioms addGlobalEvent_new_shape
#print axioms addGlobalEvent_full
#print axioms addGlobalEvent_addG
#print axioms gev_new_usable
#print axioms gevOfTy_withGev_ne
#print axioms addGlobalEvent_new_shape_addG_registered
#print axioms addGlobalEvent_new_shape_addG_new
#print axioms addTargetedEvent_eq
#print axioms tevInfo_eq
#print axioms registerTev_existing
#print axioms registerTev_new_shape
#print axioms registerTev_full
#print axioms tevInit_plain
#print axioms tevInit_ins_registered
#print axioms tevInit_rem_registered
#print axioms addTargetedEvent_new_shape_plain
#print axioms addTargetedEvent_new_shape_ins
#print axioms addTargetedEvent_new_shape_rem
#print axioms tev_new_usable
#print axioms tev_new_noted_ins
#print axioms tev_new_noted_rem
#print axioms sendGlobal_one_push
#print axioms notification_is_one_push
#print axioms addComponent_new_one_push
#print axioms registerTev_new_one_push
#print axioms notification_delivered_once
#print axioms compsCore_eq_consequences
#print axioms registries_stable_during_delivery
#print axioms registries_stable_during_flush
#print axioms comps_key_fresh
#print axioms HoareOk.trivial
#print axioms HoareOk.set_to
#print axioms removeComponent_invalidates_triple
#print axioms removeComponent_invalidates
#print axioms removeComponent_invalid_id
#print axioms regInv_init
#print axioms step_regInv
#print axioms runOps_regInv
#print axioms RegInv.track
#print axioms RegInv.not_valid
#print axioms RegInv.stale_nil
#print axioms RI.remove_comps_track
#print axioms RI.remove_gevs_track
#print axioms RI.remove_tevs_track
#print axioms RI.remove_handlers_track
#print axioms removeComponent_kills
#print axioms removeHandler_kills
#print axioms removeEvent_kills
#print axioms contains_of_find?
#print axioms contains_insertWith
#print axioms RI.live_comps
#print axioms RI.live_gevs
#print axioms RI.live_tevs
#print axioms RI.live_handlers
#print axioms addComponent_never_reissues
#print axioms ensureAddG_never_reissues
#print axioms addGlobalEvent_never_reissues
#print axioms tevInit_ri
#print axioms registerTev_never_reissues
#print axioms addTargetedEvent_never_reissues
#print axioms live_handler_of_find
#print axioms live_handler_of_insert
#print axioms addHandler_never_reissues
#print axioms dead_gen_lt_live
#print axioms reachable_regInv
#print axioms reachable_stale_nil
#print axioms removed_id_stays_dead
#print axioms addComponent_ne_removed
#print axioms addEvent_ne_removed
#print axioms addHandler_ne_removed
#print axioms RegInv.removed_comp_gen_lt
#print axioms RegInv.removed_gev_gen_lt
#print axioms RegInv.removed_tev_gen_lt
#print axioms RegInv.removed_handler_gen_lt
#print axioms removeComponent_records
#print axioms removeHandler_records
#print axioms removeEvent_records

end Evenio
