import Evenio.Proofs.Safe.Final
/-!
# C01 — no `ub` / `assert` marker is reachable: the property-level statements

The model (`Evenio/Model/*.lean`) is total with explicit error markers: every `unwrap_unchecked` / `get_unchecked` /
`assume_unchecked` of the Rust code whose precondition depends on evenio's own bookkeeping is a lookup that raises
`Err.ub site` when it would fail, every `debug_assert!` raises `Err.assert site` (in debug mode), every documented panic
raises `Err.panic class`.  `Err.isPanic e = true` says that `e` is of the third kind.

This file states what `Evenio/Proofs/Safe/*` proves, with the obligation names (`SObl.*`) unfolded:

* `no_ub_reachable` — one operation from a world reachable in DEBUG mode (`ReachS`, starts from `{}` whose
  `debug` flag is `true`);
* `no_ub_from_invariant` — one operation from ANY world satisfying the invariants (which do not read `debug`:
  `invariants_ignore_debug`), hence both build profiles;
* `ReachSD d` (reachability from the driver's initial world `{ debug := d }`), `reachSD_inv`, and
  `no_ub_reachable_both` — the reachability statement for the debug (`d = true`) AND the release (`d = false`) driver;
  `reachSD_true_iff` — `ReachSD true` is `ReachS`;
* `output_has_no_marker`, `output_has_no_marker_both`, `output_head` — the corollaries about the driver's observable
  output: the result `r` that `step` turns into the head line(s) of its output is never `.error (.ub _)` /
  `.error (.assert _)`, so the head of the output is the operation's own lines or the single line `panic <class>`;
* non-vacuity: `exW_reachS`, `exW_reachSD` — a concrete world (a handler whose FIRST parameter is a targeted receiver
  with a query, followed by a fetcher; an entity with a component; the targeted event sent to it, so the handler ran,
  read the receiver's query and iterated) is reachable in both profiles (kernel evaluation: `decide +kernel`), and the
  theorems apply to it.

Hypotheses common to all statements:
* `op.SValid` — `op.Valid` (not `drop`; `setgen` with a generation `< 2^32`; no handler with a `ReceiverMut<Spawn>`),
  and for `addh hs` additionally `hs.RecvFirst`: the first parameter is not `Fetcher` / `Single` / `TrySingle`.  Without
  it the MODEL's scripted action `recv` (which reads `params[0]`) runs into `ub fetch.rs:get_by_location_mut`
  (finding N1, `Safe/Plan.md`; an artefact of the scripted action, not of evenio);
* `Small (step w op).1` — the resource bound: fewer than `u32::MAX` archetype slots and targeted-event slots in the
  world AFTER the operation (the Rust code panics at the bound, the model has no such check);
* reachability follows operations that return normally (`StepOk`) or end in a panic other than the model's own fuel
  marker that leaves no entity reservation pending (`StepPanic`, `resCount = 0`; the excluded case is finding F8).
-/
namespace Evenio.C01
open Evenio InvV7

/-! ## from a reachable world (debug profile) -/

/-- **C01 for worlds reachable by the debug driver.**  `w` is reachable from the empty world by valid operations, `op`
    is a valid operation, the world after it is within the resource bound: if running `op` (exactly as the driver's
    `step` runs it: `execOp op` from `stepInit w`) ends in an error at all, that error is a panic — never a `ub` marker
    (an unchecked access whose precondition failed) and never an `assert` marker (a failed `debug_assert!`). -/
theorem no_ub_reachable :
    ∀ w op, ReachS w → op.SValid → Small (step w op).1 →
      ∀ e, ((execOp op).run.run (stepInit w)).1 = .error e → e.isPanic = true :=
  SafeFinal.reachable_no_ub

/-! ## from any world satisfying the invariants (both profiles) -/

/-- **C01, one operation from ANY world satisfying the invariants** — the logical world invariant `WInv`, quiescence
    (empty queue, no reservation pending), the two auxiliary registry facts `AuxInv` and the receiver-first invariant
    `RecvInv`.  None of the four reads the `debug` flag (`invariants_ignore_debug`), so this covers the debug AND the
    release profile: in a release world `dbgAssert` never throws, in a debug world its condition is shown to hold. -/
theorem no_ub_from_invariant :
    ∀ w op, WInv w → Quiescent w → AuxInv w → RecvInv w → op.SValid → Small (step w op).1 →
      ∀ e, ((execOp op).run.run (stepInit w)).1 = .error e → e.isPanic = true :=
  SafeFinal.step_no_ub

/-- the four invariants do not read the `debug` flag -/
theorem invariants_ignore_debug {w : World} (hW : WInv w) (hQ : Quiescent w) (hA : AuxInv w) (hR : RecvInv w)
    (d : Bool) :
    WInv { w with debug := d } ∧ Quiescent { w with debug := d } ∧ AuxInv { w with debug := d } ∧
      RecvInv { w with debug := d } :=
  ⟨hW.frame (by releq), Quiescent.of_res hQ rfl, auxInv.frame w _ rfl rfl hA, hR⟩

/-- … so C01 holds from a world satisfying the invariants with the flag set either way -/
theorem no_ub_from_invariant_any_profile :
    ∀ w op (d : Bool), WInv w → Quiescent w → AuxInv w → RecvInv w → op.SValid →
      Small (step { w with debug := d } op).1 →
      ∀ e, ((execOp op).run.run (stepInit { w with debug := d })).1 = .error e → e.isPanic = true := by
  intro w op d hW hQ hA hR hv hs e he
  obtain ⟨h1, h2, h3, h4⟩ := invariants_ignore_debug hW hQ hA hR d
  exact no_ub_from_invariant _ op h1 h2 h3 h4 hv hs e he

/-! ## reachability in both build profiles -/

/-- the worlds the driver reaches when started with `debug := d` (`Main.lean`: `{ debug := !release }`) — literally
    `ReachS` (Safe/Obligations.lean) with the other initial world: valid operations that return normally, or end in a
    panic (other than the fuel marker) that leaves no reservation pending -/
inductive ReachSD (d : Bool) : World → Prop
  | init : ReachSD d { debug := d }
  | step {w : World} (op : Op) : ReachSD d w → op.SValid → StepOk w op → ReachSD d (step w op).1
  | panic {w : World} (op : Op) : ReachSD d w → op.SValid → StepPanic w op → (step w op).1.resCount = 0 →
      ReachSD d (step w op).1

/-- the initial world of the debug driver is the empty world `{}` (the default of `World.debug` is `true`) -/
theorem init_debug : ({ debug := true } : World) = {} := rfl

/-- debug-mode reachability is `ReachS` -/
theorem reachSD_true_iff {w : World} : ReachSD true w ↔ ReachS w := by
  constructor
  · intro h
    induction h with
    | init => exact .init
    | step op _ hv hok ih => exact .step op ih hv hok
    | panic op _ hv hp hc ih => exact .panic op ih hv hp hc
  · intro h
    induction h with
    | init => exact .init
    | step op _ hv hok ih => exact .step op ih hv hok
    | panic op _ hv hp hc ih => exact .panic op ih hv hp hc

/-- the induction: every world reachable in either profile satisfies the invariants (the first two under the resource
    bound, like everything about `WInv`) -/
theorem reachSD_all {d : Bool} {w : World} (h : ReachSD d w) :
    (Small w → WInv w ∧ Quiescent w) ∧ AuxInv w ∧ RecvInv w := by
  induction h with
  | init =>
    refine ⟨fun _ => ⟨winv_init.frame (by releq), Quiescent.of_res quiescent_init rfl⟩,
      auxInv.frame {} _ rfl rfl auxInv.init, fun k h hk => ?_⟩
    rw [show ({ debug := d } : World).handlers.get k = none from slotMap_empty_get k] at hk
    cases hk
  | @step w op _ hv hok ih =>
    refine ⟨fun hs => ?_, step_auxInv w op ih.2.1, ?_⟩
    · obtain ⟨hW, hQ⟩ := ih.1 (small_of_step' w op hv.1 hs)
      obtain ⟨h1, h2, -⟩ := step_keeps pieces auxInv w op hW hQ ih.2.1 hv.1 hok hs
      exact ⟨h1, h2⟩
    · rw [step_fst]; exact (recvInv_execOp op hv).run (stepInit w) ih.2.2
  | @panic w op _ hv hp hc ih =>
    refine ⟨fun hs => ?_, step_auxInv w op ih.2.1, ?_⟩
    · obtain ⟨hW, hQ⟩ := ih.1 (small_of_step' w op hv.1 hs)
      obtain ⟨h1, h2, -⟩ := step_panic_keeps_quiescent w op hW hQ ih.2.1 hv.1 hp hc hs
      exact ⟨h1, h2⟩
    · rw [step_fst]; exact (recvInv_execOp op hv).run (stepInit w) ih.2.2

/-- **every world the debug or the release driver reaches satisfies the four invariants** -/
theorem reachSD_inv {d : Bool} {w : World} (h : ReachSD d w) (hs : Small w) :
    WInv w ∧ Quiescent w ∧ AuxInv w ∧ RecvInv w :=
  ⟨((reachSD_all h).1 hs).1, ((reachSD_all h).1 hs).2, (reachSD_all h).2.1, (reachSD_all h).2.2⟩

/-- **C01 for worlds reachable by the debug driver (`d = true`) and by the release driver (`d = false`).** -/
theorem no_ub_reachable_both :
    ∀ (d : Bool) w op, ReachSD d w → op.SValid → Small (step w op).1 →
      ∀ e, ((execOp op).run.run (stepInit w)).1 = .error e → e.isPanic = true := by
  intro d w op hr hv hs e he
  obtain ⟨hW, hQ, hA, hR⟩ := reachSD_inv hr (small_of_step' w op hv.1 hs)
  exact no_ub_from_invariant w op hW hQ hA hR hv hs e he

/-! ## the driver's observable output -/

/-- `stepInit w` is the reset world `step` runs the operation in -/
theorem stepInit_eq (w : World) :
    stepInit w = { w with out := #[], edrops := [], cdrops := [], budget := BUDGET } := rfl

/-- **the result that `step` renders is never a marker** (debug profile).  `step w op` runs `execOp op` in
    `{ w with out := #[], edrops := [], cdrops := [], budget := BUDGET }` and prints, as the head of its output,
    `match r with | .ok lines => lines | .error (.panic cls) => ["panic …"] | .error (.ub site) => ["ub …"] |
    .error (.assert site) => ["assert …"]`.  For a reachable `w` and a valid `op` the last two cases do not occur. -/
theorem output_has_no_marker (w : World) (op : Op) (hr : ReachS w) (hv : op.SValid) (hs : Small (step w op).1) :
    ∀ site,
      ((execOp op).run.run { w with out := #[], edrops := [], cdrops := [], budget := BUDGET }).1 ≠ .error (.ub site) ∧
      ((execOp op).run.run { w with out := #[], edrops := [], cdrops := [], budget := BUDGET }).1 ≠
        .error (.assert site) := by
  intro site
  exact ⟨fun h => (by cases no_ub_reachable w op hr hv hs _ h), fun h => (by cases no_ub_reachable w op hr hv hs _ h)⟩

/-- … in both profiles -/
theorem output_has_no_marker_both (d : Bool) (w : World) (op : Op) (hr : ReachSD d w) (hv : op.SValid)
    (hs : Small (step w op).1) :
    ∀ site,
      ((execOp op).run.run { w with out := #[], edrops := [], cdrops := [], budget := BUDGET }).1 ≠ .error (.ub site) ∧
      ((execOp op).run.run { w with out := #[], edrops := [], cdrops := [], budget := BUDGET }).1 ≠
        .error (.assert site) := by
  intro site
  exact ⟨fun h => (by cases no_ub_reachable_both d w op hr hv hs _ h),
    fun h => (by cases no_ub_reachable_both d w op hr hv hs _ h)⟩

/-- **the head of the observable output**: the list of lines `step` returns starts with the operation's own result
    lines (normal return) or with the single line `panic <class>`; the lines `ub <site>` / `assert <site>` that `step`
    would print for a marker are never produced (both profiles; also with the `snap` option) -/
theorem output_head (d : Bool) (w : World) (op : Op) (snap : Bool) (hr : ReachSD d w) (hv : op.SValid)
    (hs : Small (step w op).1) :
    ∃ head rest, (step w op snap).2 = head ++ rest ∧
      ((((execOp op).run.run (stepInit w)).1 = .ok head) ∨
       ∃ cls, ((execOp op).run.run (stepInit w)).1 = .error (.panic cls) ∧ head = [s!"panic {cls}"]) := by
  have hno := output_has_no_marker_both d w op hr hv hs
  rw [← stepInit_eq] at hno
  unfold step
  dsimp only
  rw [← stepInit_eq]
  generalize (execOp op).run.run (stepInit w) = res at hno
  obtain ⟨r, w'⟩ := res
  dsimp only
  cases r with
  | ok lines => exact ⟨_, _, List.append_assoc .. |>.trans (List.append_assoc ..), .inl rfl⟩
  | error e =>
    cases e with
    | panic cls => exact ⟨_, _, List.append_assoc .. |>.trans (List.append_assoc ..), .inr ⟨cls, rfl, rfl⟩⟩
    | ub s => exact absurd rfl (hno s).1
    | «assert» s => exact absurd rfl (hno s).2

/-! ## non-vacuity: a concrete reachable world, in both profiles

Kernel evaluation (`ReachStore.eval_world`: `decide +kernel` after replacing the two functions compiled by well-founded
recursion, `moveCols` and `mergeCase`, by their fuel versions; nothing beyond the three standard axioms). -/

/-- the world after the operations `ops`, started from `w0` -/
def runFrom (w0 : World) (ops : List Op) : World := ops.foldl (fun w op => (step w op).1) w0

/-- every operation of `ops`, started from `w0`, returned normally -/
def okFrom (w0 : World) (ops : List Op) : Bool :=
  (ops.foldl (fun (acc : Bool × World) op =>
    (acc.1 && ReachStore.okB ((execOp op).run.run (stepInit acc.2)).1, (step acc.2 op).1)) (true, w0)).1

theorem okFrom_aux (R : World → Prop)
    (hstep : ∀ w op, R w → op.SValid → StepOk w op → R (step w op).1) (ops : List Op) : ∀ (b : Bool) (w : World),
    (ops.foldl (fun (acc : Bool × World) op =>
      (acc.1 && ReachStore.okB ((execOp op).run.run (stepInit acc.2)).1, (step acc.2 op).1)) (b, w)).1 = true →
    b = true ∧ (R w → (∀ op ∈ ops, op.SValid) → R (ops.foldl (fun w op => (step w op).1) w)) := by
  induction ops with
  | nil => exact fun b w h => ⟨h, fun hr _ => hr⟩
  | cons op ops ih =>
    intro b w h
    rw [List.foldl_cons] at h
    obtain ⟨h1, h2⟩ := ih _ _ h
    simp only [Bool.and_eq_true] at h1
    refine ⟨h1.1, fun hr hv => ?_⟩
    rw [List.foldl_cons]
    exact h2 (hstep w op hr (hv op (List.mem_cons_self ..)) (ReachStore.stepOk_of_okB h1.2))
      fun op' hm => hv op' (List.mem_cons_of_mem _ hm)

/-- a sequence of `SValid` operations each of which returns normally leads to a reachable world (profile `d`) -/
theorem reachSD_runFrom {d : Bool} {ops : List Op} (hv : ∀ op ∈ ops, op.SValid)
    (hok : okFrom { debug := d } ops = true) : ReachSD d (runFrom { debug := d } ops) :=
  (okFrom_aux (ReachSD d) (fun _ op hr hv hok => .step op hr hv hok) ops true _ hok).2 .init hv

/-- a handler of the targeted event `T0` whose FIRST parameter is the receiver, with the query `&K0`; the second
    parameter is a fetcher over `&K0`; the body reads the receiver's query item and iterates the fetcher -/
def exH : HSpec :=
  { name := "r", params := [.recv (.t 0) false (some (.ref 0)), .fetch (.ref 0)], body := [.recv, .iter 1] }

/-- add the handler; spawn `#0`; `#0.K0 := 7` (moves `#0` to the archetype `{K0}`, refreshes both caches); send `T0` to
    `#0` (the handler runs: `recv r0=7`, `it1 [r0=7] len=1`) -/
def exOps : List Op := [.addh exH, .spawn, .insert 0 0 7, .sendto 0 0]

theorem exOps_svalid : ∀ op ∈ exOps, op.SValid := by
  intro op hm
  simp only [exOps, List.mem_cons, List.not_mem_nil, or_false] at hm
  rcases hm with rfl | rfl | rfl | rfl
  · -- `addh exH`: no `ReceiverMut<Spawn>`; the first parameter is the receiver
    refine ⟨fun ps hps q => ?_, trivial⟩
    simp only [exH, List.mem_cons, List.not_mem_nil, or_false] at hps
    rcases hps with rfl | rfl <;> intro hc <;> cases hc
  · exact ⟨trivial, trivial⟩
  · exact ⟨trivial, trivial⟩
  · exact ⟨trivial, trivial⟩

/-- the example world of the debug driver … -/
def exW : World := runFrom {} exOps
/-- … and of the release driver -/
def exWr : World := runFrom { debug := false } exOps

set_option maxRecDepth 1000000 in
theorem exOps_ok_debug : okFrom { debug := true } exOps = true := by
  delta okFrom exOps exH
  eval_world

set_option maxRecDepth 1000000 in
theorem exOps_ok_release : okFrom { debug := false } exOps = true := by
  delta okFrom exOps exH
  eval_world

/-- **the example world is reachable in the release profile** -/
theorem exWr_reachSD : ReachSD false exWr := reachSD_runFrom exOps_svalid exOps_ok_release

/-- **the example world is reachable in the debug profile** … -/
theorem exW_reachSD : ReachSD true exW := reachSD_runFrom exOps_svalid exOps_ok_debug

/-- … i.e. `ReachS exW` -/
theorem exW_reachS : ReachS exW := reachSD_true_iff.1 exW_reachSD

/-- what the two worlds look like: the handler is registered, entity `0v1` lives in row 0 of archetype 1 with
    `K0 = 7`; the release world has `debug = false` -/
def exCheck (w : World) : Bool :=
  w.handlers.len == 1 && w.entities.get ⟨0, 1⟩ == some ⟨1, 0⟩ && (w.getCell ⟨0, 1⟩ 0).map (·.v) == some 7
  && w.queue.length == 0 && w.resCount == 0

set_option maxRecDepth 1000000 in
theorem exW_check : exCheck exW = true ∧ exW.debug = true := by
  delta exCheck exW runFrom exOps exH
  eval_world

set_option maxRecDepth 1000000 in
theorem exWr_check : exCheck exWr = true ∧ exWr.debug = false := by
  delta exCheck exWr runFrom exOps exH
  eval_world

set_option maxRecDepth 1000000 in
/-- the resource hypothesis is satisfiable, too: e.g. for the next operation `despawn #0` (debug and release) -/
theorem ex_next_small : Small (step exW (.despawn 0)).1 ∧ Small (step exWr (.despawn 0)).1 := by
  unfold Small
  delta exW exWr runFrom exOps exH
  eval_world

/-- the theorems apply: whatever valid operation comes next (within the resource bound), no marker — debug … -/
example (op : Op) (hv : op.SValid) (hs : Small (step exW op).1) (e : Err)
    (he : ((execOp op).run.run (stepInit exW)).1 = .error e) : e.isPanic = true :=
  no_ub_reachable exW op exW_reachS hv hs e he

/-- … and release (that `exWr` still has `debug = false` is `exWr_check`; that NO operation writes the flag is not
    proved in general — it is not needed: the theorems hold for either value of the flag) -/
example (op : Op) (hv : op.SValid) (hs : Small (step exWr op).1) (e : Err)
    (he : ((execOp op).run.run (stepInit exWr)).1 = .error e) : e.isPanic = true :=
  no_ub_reachable_both false exWr op exWr_reachSD hv hs e he

/-- a fully concrete instance: `despawn #0` from the release world does not end in a marker -/
example (e : Err) (he : ((execOp (.despawn 0)).run.run (stepInit exWr)).1 = .error e) : e.isPanic = true :=
  no_ub_reachable_both false exWr (.despawn 0) exWr_reachSD ⟨trivial, trivial⟩ ex_next_small.2 e he

end Evenio.C01

#print axioms Evenio.C01.no_ub_reachable
#print axioms Evenio.C01.no_ub_from_invariant
#print axioms Evenio.C01.invariants_ignore_debug
#print axioms Evenio.C01.no_ub_from_invariant_any_profile
#print axioms Evenio.C01.reachSD_true_iff
#print axioms Evenio.C01.reachSD_inv
#print axioms Evenio.C01.no_ub_reachable_both
#print axioms Evenio.C01.output_has_no_marker
#print axioms Evenio.C01.output_has_no_marker_both
#print axioms Evenio.C01.output_head
#print axioms Evenio.C01.exW_reachS
#print axioms Evenio.C01.exW_reachSD
#print axioms Evenio.C01.exWr_reachSD
#print axioms Evenio.C01.exW_check
#print axioms Evenio.C01.exWr_check
#print axioms Evenio.C01.ex_next_small
