import Evenio.Proofs.Inv.Instance
import Evenio.Props.C07
import Evenio.Props.C08
import Evenio.Props.C13
import Evenio.Props.C14
import Evenio.Props.C15
import Evenio.Props.C16World
/-!
# Unconditional property theorems for reachable worlds: handler lists, registries, removal, panics

`Evenio/Proofs/Inv/Instance.lean` proves that every world the driver reaches by valid operations that return normally
(`Reach w`) and that respects the resource bound (`Small w`: fewer than `u32::MAX` archetype slots and targeted-event
slots) satisfies the logical world invariant `WInv w ∧ Quiescent w`.  This file uses it to discharge the invariant
hypotheses of the property theorems C07, C08, C13, C14, C15, C16.  Every theorem below is about an arbitrary
reachable world (and, where the property is about one operation, an arbitrary operation from it).
-/
namespace Evenio
namespace ReachLists

/-! ## 0. what a reachable world satisfies -/

theorem winv {w : World} (h : Reach w) (hs : Small w) : WInv w := (reachable_WInv w h hs).1
theorem quiescent {w : World} (h : Reach w) (hs : Small w) : Quiescent w := (reachable_WInv w h hs).2
theorem auxInv {w : World} (h : Reach w) : AuxInv w := (reachable_all pieces Evenio.auxInv w h).2

/-- `StepOk` through the Boolean `Except.isOk` (which the kernel evaluates without looking at the output lines) -/
theorem stepOk_of_isOk {w : World} {op : Op} (h : ((execOp op).run.run (stepInit w)).1.isOk = true) : StepOk w op := by
  unfold StepOk
  cases hr : ((execOp op).run.run (stepInit w)).1 with
  | ok lines => exact ⟨lines, rfl⟩
  | error e => rw [hr] at h; cases h

/-! ## C07 — "handlers run by priority, then by the order they were added — always"

`World::send` / `flush` walk a handler list front to back (`deliverOne`: `for hk in hs do runHandler hk …`), so the order
in which the receiving handlers run IS the order of the list.  For a reachable world the lists are exact. -/

/-- `x` runs before `y`: both are live handlers and `x` has the higher priority class (High before Medium before Low), or
    they have the same class and `x` was added earlier (`order` is the value the world's insertion counter had when the
    handler was added; see `insertion_order`) -/
def RunsBefore (w : World) (x y : Key) : Prop :=
  ∃ hx hy, w.handlers.get x = some hx ∧ w.handlers.get y = some hy ∧
    (HandlerList.prioRank hx.prio < HandlerList.prioRank hy.prio ∨ (hx.prio = hy.prio ∧ hx.order < hy.order))

/-- the handler list `l` is EXACTLY the list of live handlers selected by `p`, sorted by (priority class, insertion
    order) -/
structure ExactList (w : World) (p : HInfo → Bool) (l : HandlerList Key) : Prop where
  /-- the two cursors are in range: `before ≤ after ≤ entries.len()` -/
  inv : l.Inv
  /-- the list, explicitly: the selected live handlers of priority High in insertion order, then Medium, then Low
      (`handlersWhere` filters the insertion-order index `byInsertOrder` three times) -/
  entries : l.entries = w.handlersWhere p
  /-- the cursor segments are the priority classes -/
  hi : l.hi = w.sel p .high
  me : l.me = w.sel p .medium
  lo : l.lo = w.sel p .low
  nodup : l.entries.Nodup
  /-- membership: exactly the live handlers selected by `p` -/
  mem : ∀ hk, hk ∈ l.entries ↔ ∃ h, w.handlers.get hk = some h ∧ p h = true
  /-- order: by priority class, then by insertion order -/
  order : l.entries.Pairwise (RunsBefore w)

theorem ord_pairwise {ord : List Key} {H : SlotMap HInfo}
    (h : (ord.filterMap fun k => (H.get k).map (·.order)).Pairwise (· < ·)) :
    ord.Pairwise fun x y => ∀ hx hy, H.get x = some hx → H.get y = some hy → hx.order < hy.order := by
  induction ord with
  | nil => exact List.Pairwise.nil
  | cons k l ih =>
    cases hg : H.get k with
    | none =>
      rw [List.filterMap_cons_none (by simp [hg])] at h
      exact List.Pairwise.cons (fun y _ hx _ hgx => by rw [hg] at hgx; cases hgx) (ih h)
    | some hk =>
      rw [List.filterMap_cons_some (b := hk.order) (by simp [hg])] at h
      obtain ⟨h1, h2⟩ := List.pairwise_cons.1 h
      refine List.Pairwise.cons (fun y hy hx hy' hgx hgy => ?_) (ih h2)
      rw [hg] at hgx; cases hgx
      exact h1 _ (List.mem_filterMap.2 ⟨y, hy, by simp [hgy]⟩)

theorem exactList_of_tableExact {w : World} (hw : WInv w) {p : HInfo → Bool} {l : HandlerList Key}
    (h : TableExact w.byInsertOrder w.handlers p l) : ExactList w p l := by
  have hL := hw.lists
  have hord := ord_pairwise hL.ordSorted
  have hsel : ∀ pr, (selOf w.byInsertOrder w.handlers p pr).Pairwise
      (fun x y => ∀ hx hy, w.handlers.get x = some hx → w.handlers.get y = some hy → hx.order < hy.order) :=
    fun pr => by rw [InvV3.selOf_eq_filter]; exact hord.sublist List.filter_sublist
  have same : ∀ pr, (selOf w.byInsertOrder w.handlers p pr).Pairwise (RunsBefore w) := fun pr => by
    refine List.Pairwise.imp_of_mem ?_ (hsel pr)
    intro x y hx hy hxy
    obtain ⟨-, h1, g1, p1, -⟩ := mem_selOf.1 hx
    obtain ⟨-, h2, g2, p2, -⟩ := mem_selOf.1 hy
    exact ⟨h1, h2, g1, g2, .inr ⟨p1.trans p2.symm, hxy h1 h2 g1 g2⟩⟩
  have cross : ∀ pr pr', HandlerList.prioRank pr < HandlerList.prioRank pr' →
      ∀ x ∈ selOf w.byInsertOrder w.handlers p pr, ∀ y ∈ selOf w.byInsertOrder w.handlers p pr',
        RunsBefore w x y := fun pr pr' hlt x hx y hy => by
    obtain ⟨-, h1, g1, p1, -⟩ := mem_selOf.1 hx
    obtain ⟨-, h2, g2, p2, -⟩ := mem_selOf.1 hy
    exact ⟨h1, h2, g1, g2, .inl (by rw [p1, p2]; exact hlt)⟩
  have hmem := h.mem
  refine ⟨h.inv, h.entries_eq, h.hi, h.me, h.lo, ?_, fun hk => ?_, ?_⟩
  · rw [h.entries_eq]; exact handlersWhere_nodup w p hL.ordNodup
  · rw [hmem]
    constructor
    · rintro ⟨-, hh⟩; exact hh
    · rintro ⟨hi, hg, hp⟩
      exact ⟨(hL.ordMem hk).2 (by simp [SlotMap.contains, hg]), hi, hg, hp⟩
  · rw [HandlerList.entries_eq_segments h.inv, h.hi, h.me, h.lo, List.pairwise_append, List.pairwise_append]
    refine ⟨same _, ⟨same _, same _, cross _ _ (by decide)⟩, fun x hx y hy => ?_⟩
    rcases List.mem_append.1 hy with hy | hy
    · exact cross _ _ (by decide) x hx y hy
    · exact cross _ _ (by decide) x hx y hy

/-- **C07, the insertion-order index.**  In every reachable world `byInsertOrder` lists exactly the live handlers, each
    once, in the order they were added: `order` (the value of the insertion counter at `add_handler`) is strictly
    increasing along it and below the current counter. -/
theorem insertion_order {w : World} (hr : Reach w) (hs : Small w) :
    w.byInsertOrder.Nodup ∧ (∀ k, k ∈ w.byInsertOrder ↔ w.handlers.contains k = true) ∧
    w.byInsertOrder.length = w.handlers.len ∧
    (w.byInsertOrder.Pairwise fun x y =>
      ∀ hx hy, w.handlers.get x = some hx → w.handlers.get y = some hy → hx.order < hy.order) ∧
    (∀ k h, w.handlers.get k = some h → h.order < w.insertCounter ∧ h.key = k) := by
  have hL := (winv hr hs).lists
  exact ⟨hL.ordNodup, hL.ordMem, hL.ordLen, ord_pairwise hL.ordSorted,
    fun k h hg => ⟨(hL.handler k h hg).order, (hL.handler k h hg).key⟩⟩

/-! The statements are proved for every world satisfying the logical invariant `WInv` (suffix `_of_winv`) — every
reachable world (`winv`), and every world in which a delivery starts inside a flush (`delivery_starts_in_winv` below) — and
then restated for reachable worlds. -/

theorem global_list_exact_of_winv {w : World} (hw : WInv w) {gk : Key} {info : EvInfo}
    (hg : w.gevs.get gk = some info) :
    ∃ l, w.byGlobal[gk.idx]? = some l ∧ ExactList w (fun h => !h.recv.targeted && h.recvKey == gk) l := by
  obtain ⟨l, hl, hex⟩ := hw.lists.gExact gk info hg
  exact ⟨l, hl, exactList_of_tableExact hw hex⟩

/-- **C07 for global events.**  In every reachable world, for every registered global event `gk` the global handler list
    of `gk` exists and is EXACTLY the list of live handlers that receive `gk`, sorted by (priority class, insertion
    order). -/
theorem global_list_exact {w : World} (hr : Reach w) (hs : Small w) {gk : Key} {info : EvInfo}
    (hg : w.gevs.get gk = some info) :
    ∃ l, w.byGlobal[gk.idx]? = some l ∧ ExactList w (fun h => !h.recv.targeted && h.recvKey == gk) l :=
  global_list_exact_of_winv (winv hr hs) hg

/-- … in plain terms: the list has no duplicates, holds exactly the live handlers receiving `gk`, and is sorted by
    (priority class, insertion order) -/
theorem global_list_mem {w : World} (hr : Reach w) (hs : Small w) {gk : Key} {info : EvInfo}
    (hg : w.gevs.get gk = some info) :
    ∃ l, w.byGlobal[gk.idx]? = some l ∧ l.entries.Nodup ∧
      (∀ hk, hk ∈ l.entries ↔ ∃ h, w.handlers.get hk = some h ∧ h.recv.targeted = false ∧ h.recvKey = gk) ∧
      l.entries.Pairwise (RunsBefore w) := by
  obtain ⟨l, hl, hex⟩ := global_list_exact hr hs hg
  refine ⟨l, hl, hex.nodup, fun hk => ?_, hex.order⟩
  rw [hex.mem]
  simp only [Bool.and_eq_true, Bool.not_eq_true', beq_iff_eq]

/-- … and every other global list (at an index no registered global event uses) is empty -/
theorem global_list_dead {w : World} (hr : Reach w) (hs : Small w) {i : Nat} {l : HandlerList Key}
    (hl : w.byGlobal[i]? = some l) (hi : w.gevs.getByIndex i = none) : l.entries = [] := by
  rcases (winv hr hs).lists.gDead i l hl with h | h
  · rw [hi] at h; cases h
  · exact h

theorem listener_list_exact_of_winv {w : World} (hw : WInv w) {i : Nat} {a : Arch}
    (ha : w.archs.get i = some a) {tk : Key} {info : EvInfo} (ht : w.tevs.get tk = some info) :
    ExactList w (fun h => h.recv.targeted && h.recvKey == tk && h.filter.matches a.S)
      ((a.listeners.get tk.idx).getD {}) :=
  exactList_of_tableExact hw ((hw.lists.arch i a ha).exact tk info ht)

/-- **C07 for targeted events.**  In every reachable world, for every live archetype `a` and every registered targeted
    event `tk`, the listener list of `a` for `tk` (the empty list if the table has no entry) is EXACTLY the list of live
    handlers that receive `tk` and whose listener filter matches the component set of `a`, sorted by (priority class,
    insertion order). -/
theorem listener_list_exact {w : World} (hr : Reach w) (hs : Small w) {i : Nat} {a : Arch}
    (ha : w.archs.get i = some a) {tk : Key} {info : EvInfo} (ht : w.tevs.get tk = some info) :
    ExactList w (fun h => h.recv.targeted && h.recvKey == tk && h.filter.matches a.S)
      ((a.listeners.get tk.idx).getD {}) :=
  listener_list_exact_of_winv (winv hr hs) ha ht

theorem listenersFor_eq (a : Arch) (t : Nat) : a.listenersFor t = ((a.listeners.get t).getD {}).entries := by
  unfold Arch.listenersFor
  cases a.listeners.get t <;> rfl

theorem filter_is_conjunction_of_winv {w : World} (hw : WInv w) {hk : Key} {h : HInfo}
    (hg : w.handlers.get hk = some h) (ht : h.recv.targeted = true) (S : Nat → Bool) :
    h.filter.matches S = (h.params.filter Param.isTRecv).all (·.q.sem S) := by
  have hf := (hw.lists.handler hk h hg).filter
  rw [hf.matches ht S]
  unfold recvInits
  rw [List.all_map]
  congr 1
  funext p
  exact matches_init_eq_sem p.q S

/-- **C08, the listener filter.**  In every reachable world the listener filter of a live handler that receives a
    targeted event matches a component set iff EVERY one of the handler's targeted-receiver queries (documented meaning
    `Query.sem`, C06) selects it (F7 repair). -/
theorem filter_is_conjunction {w : World} (hr : Reach w) (hs : Small w) {hk : Key} {h : HInfo}
    (hg : w.handlers.get hk = some h) (ht : h.recv.targeted = true) (S : Nat → Bool) :
    h.filter.matches S = (h.params.filter Param.isTRecv).all (·.q.sem S) :=
  filter_is_conjunction_of_winv (winv hr hs) hg ht S

theorem listener_list_mem_of_winv {w : World} (hw : WInv w) {i : Nat} {a : Arch}
    (ha : w.archs.get i = some a) {tk : Key} {info : EvInfo} (ht : w.tevs.get tk = some info) :
    (a.listenersFor tk.idx).Nodup ∧
    (∀ hk, hk ∈ a.listenersFor tk.idx ↔ ∃ h, w.handlers.get hk = some h ∧ h.recv.targeted = true ∧ h.recvKey = tk ∧
      (h.params.filter Param.isTRecv).all (·.q.sem a.S) = true) ∧
    (a.listenersFor tk.idx).Pairwise (RunsBefore w) := by
  have hex := listener_list_exact_of_winv hw ha ht
  rw [listenersFor_eq]
  refine ⟨hex.nodup, fun hk => ?_, hex.order⟩
  rw [hex.mem]
  simp only [Bool.and_eq_true, beq_iff_eq]
  constructor
  · rintro ⟨h, hg, ⟨h1, h2⟩, h3⟩
    exact ⟨h, hg, h1, h2, by rw [← filter_is_conjunction_of_winv hw hg h1]; exact h3⟩
  · rintro ⟨h, hg, h1, h2, h3⟩
    exact ⟨h, hg, ⟨h1, h2⟩, by rw [filter_is_conjunction_of_winv hw hg h1]; exact h3⟩

/-- **C07 / C08 for targeted events, in plain terms.**  In every reachable world the list `deliverOne` walks for a target
    in the live archetype `a` and the registered targeted event `tk` (`listenersFor`) has no duplicates, holds exactly the
    live handlers that receive `tk` and ALL of whose receiver queries match the component set of `a`, and is sorted by
    (priority class, insertion order). -/
theorem listener_list_mem {w : World} (hr : Reach w) (hs : Small w) {i : Nat} {a : Arch}
    (ha : w.archs.get i = some a) {tk : Key} {info : EvInfo} (ht : w.tevs.get tk = some info) :
    (a.listenersFor tk.idx).Nodup ∧
    (∀ hk, hk ∈ a.listenersFor tk.idx ↔ ∃ h, w.handlers.get hk = some h ∧ h.recv.targeted = true ∧ h.recvKey = tk ∧
      (h.params.filter Param.isTRecv).all (·.q.sem a.S) = true) ∧
    (a.listenersFor tk.idx).Pairwise (RunsBefore w) :=
  listener_list_mem_of_winv (winv hr hs) ha ht

/-- … and a listener table entry at an index no registered targeted event uses is empty -/
theorem listener_list_dead {w : World} (hr : Reach w) (hs : Small w) {i : Nat} {a : Arch}
    (ha : w.archs.get i = some a) {t : Nat} (ht : w.tevs.getByIndex t = none) : a.listenersFor t = [] := by
  rw [listenersFor_eq]
  cases hl : a.listeners.get t with
  | none => rfl
  | some l =>
    rcases ((winv hr hs).lists.arch i a ha).dead t l hl with h | h
    · rw [ht] at h; cases h
    · exact h

/-! ## C08 — "targeted events reach exactly the handlers whose query matches the target now"

`deliverOne` looks the target up when the event is POPPED (`targeted_lookup_is_at_pop_time`, unconditional), a missing
target runs no handler (`missing_target_discards`, unconditional); the list it then walks is exact. -/

theorem targeted_delivery_of_winv {w : World} (hw : WInv w) (it : QItem) {tk : Key} {info : EvInfo} {loc : Loc}
    {a : Arch} (ht : it.ty.targeted = true) (hev : w.tevs.getByIndex it.idx = some (tk, info))
    (hloc : w.entities.get it.target = some loc) (ha : w.archs.get loc.arch = some a) :
    ∃ hs, (deliverOne it).run.run w = (deliverBody it info hs loc).run.run w ∧
      hs = w.handlersWhere (fun h => h.recv.targeted && h.recvKey == tk && h.filter.matches a.S) ∧
      hs.Nodup ∧
      (∀ hk, hk ∈ hs ↔ ∃ h, w.handlers.get hk = some h ∧ h.recv.targeted = true ∧ h.recvKey = tk ∧
        (h.params.filter Param.isTRecv).all (·.q.sem a.S) = true) ∧
      hs.Pairwise (RunsBefore w) := by
  obtain ⟨hget, hidx⟩ := SlotMap.getByIndex_get hev
  obtain ⟨h1, h2, h3⟩ := listener_list_mem_of_winv hw ha hget
  have hex := listener_list_exact_of_winv hw ha hget
  rw [hidx] at h1 h2 h3 hex
  refine ⟨a.listenersFor it.idx, deliverOne_target_live it w tk info loc a ht hev hloc ha, ?_, h1, h2, h3⟩
  rw [listenersFor_eq]
  exact hex.entries

/-- **C08.**  From every reachable world, the delivery of a targeted event whose target exists (at `loc`, in archetype
    `a`, NOW) runs — in list order, until one takes the event — exactly the handlers `hs`: the live handlers that receive
    this event and ALL of whose receiver queries match the target's current component set, without duplicates, sorted by
    (priority class, insertion order). -/
theorem targeted_delivery {w : World} (hr : Reach w) (hs : Small w) (it : QItem) {tk : Key} {info : EvInfo} {loc : Loc}
    {a : Arch} (ht : it.ty.targeted = true) (hev : w.tevs.getByIndex it.idx = some (tk, info))
    (hloc : w.entities.get it.target = some loc) (ha : w.archs.get loc.arch = some a) :
    ∃ hs, (deliverOne it).run.run w = (deliverBody it info hs loc).run.run w ∧
      hs = w.handlersWhere (fun h => h.recv.targeted && h.recvKey == tk && h.filter.matches a.S) ∧
      hs.Nodup ∧
      (∀ hk, hk ∈ hs ↔ ∃ h, w.handlers.get hk = some h ∧ h.recv.targeted = true ∧ h.recvKey = tk ∧
        (h.params.filter Param.isTRecv).all (·.q.sem a.S) = true) ∧
      hs.Pairwise (RunsBefore w) :=
  targeted_delivery_of_winv (winv hr hs) it ht hev hloc ha

theorem global_delivery_of_winv {w : World} (hw : WInv w) (it : QItem) {gk : Key} {info : EvInfo}
    (ht : it.ty.targeted = false) (hev : w.gevs.getByIndex it.idx = some (gk, info)) :
    ∃ l, w.byGlobal[it.idx]? = some l ∧
      (deliverOne it).run.run w = (deliverBody it info l.entries Loc.NULL).run.run w ∧
      ExactList w (fun h => !h.recv.targeted && h.recvKey == gk) l := by
  obtain ⟨hget, hidx⟩ := SlotMap.getByIndex_get hev
  obtain ⟨l, hl, hex⟩ := global_list_exact_of_winv hw hget
  rw [hidx] at hl
  exact ⟨l, hl, deliverOne_global it w gk info l ht hev hl, hex⟩

/-- **C07, delivery form.**  From every reachable world, the delivery of a registered global event runs — in list order,
    until one takes the event — the entries of its global list, which is exactly the list of live handlers receiving the
    event sorted by (priority class, insertion order). -/
theorem global_delivery {w : World} (hr : Reach w) (hs : Small w) (it : QItem) {gk : Key} {info : EvInfo}
    (ht : it.ty.targeted = false) (hev : w.gevs.getByIndex it.idx = some (gk, info)) :
    ∃ l, w.byGlobal[it.idx]? = some l ∧
      (deliverOne it).run.run w = (deliverBody it info l.entries Loc.NULL).run.run w ∧
      ExactList w (fun h => !h.recv.targeted && h.recvKey == gk) l :=
  global_delivery_of_winv (winv hr hs) it ht hev

theorem never_invoked_for_unmatched_of_winv {w : World} (hw : WInv w) (it : QItem) (tk : Key) (info : EvInfo)
    (loc : Loc) (a : Arch) (ht : it.ty.targeted = true) (hev : w.tevs.getByIndex it.idx = some (tk, info))
    (hloc : w.entities.get it.target = some loc) (ha : w.archs.get loc.arch = some a)
    (k : Key) (hk : ∀ h, w.handlers.get k = some h →
      ¬ (h.recv.targeted = true ∧ h.recvKey = tk ∧ (h.params.filter Param.isTRecv).all (·.q.sem a.S) = true))
    (bad : QItem → Loc → M Bool) :
    (deliverOne it).run.run w =
      (deliverBodyWith (fun hk => if hk = k then bad else runHandler hk) it info (a.listenersFor it.idx) loc).run.run w :=
  never_invoked_for_unmatched it w tk info loc a (winv_implies_invListeners hw) ht hev hloc ha k
    (fun h hg hp => hk h hg ⟨hp.1, hp.2.1, by rw [← filter_is_conjunction_of_winv hw hg hp.1]; exact hp.2.2⟩) bad

/-- **C08, "a handler is never invoked for a target that one of its receiver queries does not match".**  From every
    reachable world: if handler `k` is not live, or does not receive this event, or ONE of its receiver queries does not
    match the target's current component set, then the delivery is the same whatever invoking `k` would do (`bad` is an
    arbitrary replacement of its code). -/
theorem never_invoked_for_unmatched_reach {w : World} (hr : Reach w) (hs : Small w) (it : QItem) (tk : Key)
    (info : EvInfo) (loc : Loc) (a : Arch) (ht : it.ty.targeted = true)
    (hev : w.tevs.getByIndex it.idx = some (tk, info))
    (hloc : w.entities.get it.target = some loc) (ha : w.archs.get loc.arch = some a)
    (k : Key) (hk : ∀ h, w.handlers.get k = some h →
      ¬ (h.recv.targeted = true ∧ h.recvKey = tk ∧ (h.params.filter Param.isTRecv).all (·.q.sem a.S) = true))
    (bad : QItem → Loc → M Bool) :
    (deliverOne it).run.run w =
      (deliverBodyWith (fun hk => if hk = k then bad else runHandler hk) it info (a.listenersFor it.idx) loc).run.run w :=
  never_invoked_for_unmatched_of_winv (winv hr hs) it tk info loc a ht hev hloc ha k hk bad

theorem recv_fetch_defined_of_winv {w : World} (hw : WInv w) {hk : Key} {h : HInfo}
    (hg : w.handlers.get hk = some h) (ht : h.recv.targeted = true) {i : Nat} {a : Arch}
    (ha : w.archs.get i = some a) (hne : a.ids ≠ []) (hm : h.filter.matches a.S = true) {pm : Param}
    (hpm : pm ∈ h.params) (hrecv : pm.isTRecv = true) :
    ∃ st, pm.q.archState a.S = some st ∧ pm.cache.get i = some (st, a.epoch) :=
  recv_fetch_defined (winv_implies_invCache hw) hw.handlersWF hg (hw.lists.handler hk h hg).filter ht ha hne hm hpm
    hrecv

/-- **C08, the receiver fetch is defined** (defect F7).  In every reachable world a live handler whose listener filter
    matches a non-empty live archetype `a` finds, for EVERY one of its targeted-receiver parameters, a cached arch state
    for `a` with the current column epoch. -/
theorem recv_fetch_defined_reach {w : World} (hr : Reach w) (hs : Small w) {hk : Key} {h : HInfo}
    (hg : w.handlers.get hk = some h) (ht : h.recv.targeted = true) {i : Nat} {a : Arch}
    (ha : w.archs.get i = some a) (hne : a.ids ≠ []) (hm : h.filter.matches a.S = true) {pm : Param}
    (hpm : pm ∈ h.params) (hrecv : pm.isTRecv = true) :
    ∃ st, pm.q.archState a.S = some st ∧ pm.cache.get i = some (st, a.epoch) :=
  recv_fetch_defined_of_winv (winv hr hs) hg ht ha hne hm hpm hrecv

/-! ### deliveries inside a flush

Deliveries do not start in reachable worlds but in the worlds earlier deliveries of the same flush left.  Those satisfy
the world invariant too, so the `_of_winv` forms of the C07 / C08 theorems apply to EVERY delivery of every flush started
from a reachable world ("… whose query matches the target NOW"). -/

/-- along a depth-first propagation started in a world satisfying the (guarded) invariant, every delivery starts in such
    a world, and so does whatever follows -/
theorem dfsLog_gw {w wd : World} {es : List QItem} {log : List Delivery} (h : DfsLog deliverOne w es wd log)
    (hw : GW w) : (∀ d ∈ log, GW d.pre) ∧ GW wd := by
  have hq := guarded_winvMid_queueBlind
  induction h with
  | nil w => exact ⟨fun d hd => (nomatch hd), hw⟩
  | @cons w e w1 seg w2 es w3 l1 l2 hstep _ _ ih1 ih2 =>
    obtain ⟨w'', hrun, -, rfl⟩ := hstep
    have h0 : GW { w with queue := [] } := hq w [] w.arenaEpoch hw
    have h1 := (pieces.glue_deliverOne e).run _ h0
    rw [hrun] at h1
    have h1' : GW { w'' with queue := [] } := hq w'' [] w''.arenaEpoch h1
    obtain ⟨a1, b1⟩ := ih1 h1'
    obtain ⟨a2, b2⟩ := ih2 b1
    refine ⟨fun d hd => ?_, b2⟩
    rcases List.mem_cons.1 hd with rfl | hd
    · exact hw
    · rcases List.mem_append.1 hd with hd | hd
      · exact a1 d hd
      · exact a2 d hd

/-- **C07 / C08 at every delivery.**  When a flush started from a world `w0` satisfying the (guarded) invariant — e.g. a
    reachable world with events pushed (`gw_of_reach`) — returns, it was a depth-first propagation `log`, and EVERY
    delivery `d` in it ran `deliverOne d.ev` in the world `{ d.pre with queue := [] }`, which satisfies `WInv` (within
    the resource bound): the handler list walked by that delivery is exact for the world AT THAT MOMENT
    (`targeted_delivery_of_winv`, `global_delivery_of_winv`, `never_invoked_for_unmatched_of_winv`). -/
theorem delivery_starts_in_winv {w0 w' : World} {q : List QItem} {fuel : Nat} (hw : GW w0)
    (h : (flush fuel).run.run { w0 with queue := q } = (.ok (), w')) :
    ∃ wd log, DfsLog deliverOne { w0 with queue := [] } q.reverse wd log ∧
      w' = { wd with arenaEpoch := wd.arenaEpoch + 1 } ∧
      ∀ d ∈ log, Small d.pre → WInv { d.pre with queue := [] } := by
  obtain ⟨wd, log, hlog, rfl⟩ := flushWith_ok_log (deliver := deliverOne) h
  have hq := guarded_winvMid_queueBlind
  have h0 : GW { w0 with queue := [] } := hq w0 [] w0.arenaEpoch hw
  refine ⟨wd, log, hlog, rfl, fun d hd hs => ?_⟩
  have := (dfsLog_gw hlog h0).1 d hd
  exact (hq d.pre [] d.pre.arenaEpoch this hs).1

/-! ## C15 — "a removed handler never runs again; removing an event removes its users" -/

/-- every list only holds live handlers -/
theorem lists_hold_only_live_handlers_of_winv {w : World} (hw : WInv w) :
    (∀ k ∈ w.byInsertOrder, w.handlers.contains k = true) ∧
    (∀ l ∈ w.byGlobal, ∀ k ∈ l.entries, w.handlers.contains k = true) ∧
    (∀ i a, w.archs.get i = some a →
      (∀ k ∈ a.refresh, w.handlers.contains k = true) ∧
      (∀ t l, a.listeners.get t = some l → ∀ k ∈ l.entries, w.handlers.contains k = true) ∧
      (∀ t, ∀ k ∈ a.listenersFor t, w.handlers.contains k = true)) := by
  have hL := hw.lists
  have live_of : ∀ {p : HInfo → Bool} {l : HandlerList Key}, TableExact w.byInsertOrder w.handlers p l →
      ∀ k ∈ l.entries, w.handlers.contains k = true := fun hex k hk => by
    obtain ⟨-, h, hg, -⟩ := (hex.mem k).1 hk
    simp [SlotMap.contains, hg]
  have hlist : ∀ i a, w.archs.get i = some a → ∀ t l, a.listeners.get t = some l →
      ∀ k ∈ l.entries, w.handlers.contains k = true := by
    intro i a ha t l hl k hk
    have hA := hL.arch i a ha
    rcases hA.dead t l hl with hlive | hempty
    · obtain ⟨⟨tk, info⟩, hti⟩ := Option.isSome_iff_exists.1 hlive
      obtain ⟨hget, hidx⟩ := SlotMap.getByIndex_get hti
      have hex := hA.exact tk info hget
      rw [hidx, hl] at hex
      exact live_of hex k hk
    · rw [hempty] at hk; cases hk
  refine ⟨fun k hk => (hL.ordMem k).1 hk, fun l hl k hk => ?_, fun i a ha => ⟨fun k hk => ?_, hlist i a ha, fun t k hk => ?_⟩⟩
  · obtain ⟨i, hi⟩ := List.mem_iff_getElem?.1 hl
    rcases hL.gDead i l hi with hlive | hempty
    · obtain ⟨⟨gk, info⟩, hgi⟩ := Option.isSome_iff_exists.1 hlive
      obtain ⟨hget, hidx⟩ := SlotMap.getByIndex_get hgi
      obtain ⟨l', hl', hex⟩ := hL.gExact gk info hget
      rw [hidx, hi] at hl'
      cases hl'
      exact live_of hex k hk
    · rw [hempty] at hk; cases hk
  · obtain ⟨-, h, hg, -⟩ := ((hL.arch i a ha).refresh k).1 hk
    simp [SlotMap.contains, hg]
  · unfold Arch.listenersFor at hk
    cases hl : a.listeners.get t with
    | none => rw [hl] at hk; cases hk
    | some l => rw [hl] at hk; exact hlist i a ha t l hl k hk

/-- **C15, "a removed handler never runs again", state form.**  In every reachable world every entry of every list a
    delivery can look up (global lists, listener tables), of every refresh set and of the insertion-order index (from which
    a new archetype registers its listeners) is a LIVE handler.  A removed handler's id is never valid again (C16:
    `removed_handler_stays_dead`), so it is in no list of any later reachable world, and by
    `absent_handler_never_invoked` (C15, unconditional) no delivery invokes it. -/
theorem lists_hold_only_live_handlers {w : World} (hr : Reach w) (hs : Small w) :
    (∀ k ∈ w.byInsertOrder, w.handlers.contains k = true) ∧
    (∀ l ∈ w.byGlobal, ∀ k ∈ l.entries, w.handlers.contains k = true) ∧
    (∀ i a, w.archs.get i = some a →
      (∀ k ∈ a.refresh, w.handlers.contains k = true) ∧
      (∀ t l, a.listeners.get t = some l → ∀ k ∈ l.entries, w.handlers.contains k = true) ∧
      (∀ t, ∀ k ∈ a.listenersFor t, w.handlers.contains k = true)) :=
  lists_hold_only_live_handlers_of_winv (winv hr hs)

/-- **C15.**  In every reachable world a handler id recorded as removed is not valid and is in no global list, no refresh
    set, no listener table and not in the insertion-order index. -/
theorem removed_handler_in_no_list_reach {w : World} (hr : Reach w) (hs : Small w) {k : Key}
    (hk : ('h', k) ∈ w.removedIds) :
    w.handlers.contains k = false ∧ k ∉ w.byInsertOrder ∧ (∀ l ∈ w.byGlobal, k ∉ l.entries) ∧
    (∀ i a, w.archs.get i = some a →
      k ∉ a.refresh ∧ (∀ t l, a.listeners.get t = some l → k ∉ l.entries) ∧ ∀ t, k ∉ a.listenersFor t) := by
  have hdead : w.handlers.contains k = false := (winv hr hs).regInv.not_valid hk
  obtain ⟨h1, h2, h3⟩ := lists_hold_only_live_handlers hr hs
  have no : ∀ {P : Prop}, (P → w.handlers.contains k = true) → ¬ P := fun f hp => by
    rw [f hp] at hdead; cases hdead
  exact ⟨hdead, no (h1 k), fun l hl => no (h2 l hl k), fun i a ha =>
    ⟨no ((h3 i a ha).1 k), fun t l hl => no ((h3 i a ha).2.1 t l hl k), fun t => no ((h3 i a ha).2.2 t k)⟩⟩

/-- the guarded invariant of a reachable world -/
theorem gw_of_reach {w : World} (hr : Reach w) : GW w := fun hs => ⟨winv hr hs, (quiescent hr hs).reservedSome⟩

/-- `remove_handler` from a world satisfying the (guarded) invariant: the shape of the run and `RemovalPre` for the
    world the announcement left -/
theorem removeHandler_pre_of_gw {w w' : World} {k : Key} (hw : GW w)
    (hr : (removeHandler k).run.run w = (.ok true, w')) (hs : Small w') :
    ∃ w1 h, (sendGlobal .remH { id := k }).run.run w = (.ok (), w1) ∧ w1.handlers.get k = some h ∧
      w' = removeHandlerPure w1 k h ∧ WInvMid w1 ∧ RemovalPre w1 k h ∧ WInvMid w' := by
  rcases removeHandler_ok hr with ⟨hb, -, -⟩ | ⟨-, -, w1, h, hs', hsend, -, hg, rfl⟩
  · cases hb
  · have h1 := (pieces.glue_sendGlobal .remH { id := k }).run w hw
    rw [hsend] at h1
    replace h1 : GW w1 := h1
    obtain ⟨-, -, -, -, -, -, e7, -⟩ := removeHandlerPure_frame w1 k h
    have hs1 : Small w1 := by
      refine ⟨?_, ?_⟩
      · have := hs.1; rw [Pieces.removeHandlerPure_archs_length] at this; exact this
      · have := hs.2; rw [e7] at this; exact this
    exact ⟨w1, h, hsend, hg, rfl, h1 hs1, InvV3.removalPre_of_winv (h1 hs1).1 hg, pieces.gw_removeHandlerPure h1 hg hs⟩

/-- **C15, operation form: `RemovalPre` is discharged.**  If `remove_handler(k)` returns `true` from a reachable world
    `w`, ending in `w'` (within the resource bound): the announcement `RemoveHandler(k)` ran from `w` itself and left a
    world `w1` in which `k` was still registered (entry `h`); `w'` is the pure update of `w1`; the preconditions
    `RemovalPre w1 k h` of the C15 theorems (`removed_handler_in_no_list`, `other_handlers_keep_order`,
    `other_handlers_keep_segments`, `removed_handler_never_invoked`) hold; and `w'` satisfies the world invariant again. -/
theorem removeHandler_pre {w w' : World} {k : Key} (hreach : Reach w)
    (hr : (removeHandler k).run.run w = (.ok true, w')) (hs : Small w') :
    ∃ w1 h, (sendGlobal .remH { id := k }).run.run w = (.ok (), w1) ∧ w1.handlers.get k = some h ∧
      w' = removeHandlerPure w1 k h ∧ WInvMid w1 ∧ RemovalPre w1 k h ∧ WInvMid w' :=
  removeHandler_pre_of_gw (gw_of_reach hreach) hr hs

/-- **C15, operation form, spelt out.**  If `remove_handler(k)` returns `true` from a reachable world, then afterwards
    `k` is in no global list, no refresh set, no listener table, not in the insertion-order index, and its id is invalid;
    every list of the world `w1` the announcement left keeps its other entries in unchanged order, no archetype appears or
    disappears, and every other handler id maps to the same registry entry. -/
theorem removeHandler_effect {w w' : World} {k : Key} (hreach : Reach w)
    (hr : (removeHandler k).run.run w = (.ok true, w')) (hs : Small w') :
    ∃ w1, (sendGlobal .remH { id := k }).run.run w = (.ok (), w1) ∧
      -- the removed handler is gone from every list
      ((∀ l ∈ w'.byGlobal, k ∉ l.entries) ∧
       (∀ i a', w'.archs.get i = some a' →
         k ∉ a'.refresh ∧ (∀ t l, a'.listeners.get t = some l → k ∉ l.entries) ∧ ∀ t, k ∉ a'.listenersFor t) ∧
       k ∉ w'.byInsertOrder ∧ w'.handlers.get k = none ∧ w'.handlers.contains k = false) ∧
      -- all other handlers keep their relative order
      (w'.byGlobal.map (·.entries) = w1.byGlobal.map (fun l => l.entries.filter (· != k)) ∧
       (∀ i a, w1.archs.get i = some a → ∃ a', w'.archs.get i = some a' ∧
         a'.refresh = a.refresh.filter (· != k) ∧
         (∀ t, (a'.listeners.get t).map (·.entries) = (a.listeners.get t).map (fun l => l.entries.filter (· != k))) ∧
         (∀ t, a'.listenersFor t = (a.listenersFor t).filter (· != k))) ∧
       (∀ i, w1.archs.get i = none → w'.archs.get i = none) ∧
       w'.byInsertOrder = w1.byInsertOrder.filter (· != k) ∧
       (∀ k', k' ≠ k → w'.handlers.get k' = w1.handlers.get k')) := by
  obtain ⟨w1, h, hsend, -, rfl, -, pre, -⟩ := removeHandler_pre hreach hr hs
  exact ⟨w1, hsend, removed_handler_in_no_list pre, other_handlers_keep_order pre⟩

/-! ## C16 — "registration is idempotent; ids of removed items never come back" -/

/-- **C16, the registry invariant.**  Every reachable world satisfies `RegInv []`: the four registries are well-formed slot
    maps and every id recorded as removed is dead in its registry.  (No resource bound is needed.) -/
theorem regInv_reach {w : World} (hr : Reach w) : RegInv [] w := by
  induction hr with
  | init => exact regInv_init
  | step op _ _ _ ih => exact step_regInv op false ih

/-- **C16, "ids of removed items are never valid".**  In every reachable world no id recorded as removed — component
    (`'c'`), global event (`'g'`), targeted event (`'t'`) or handler — is valid: the `stale=` count of the `> reg`
    observation line is 0. -/
theorem no_removed_id_valid {w : World} (hr : Reach w) {p : Char × Key} (hp : p ∈ w.removedIds) :
    (match p.1 with
      | 'c' => w.comps.contains p.2
      | 'g' => w.gevs.contains p.2
      | 't' => w.tevs.contains p.2
      | _ => w.handlers.contains p.2) = false :=
  (regInv_reach hr).not_valid hp

/-- **C15, "removing an event removes its users", state form.**  In every reachable world every live handler receives a
    REGISTERED event of the type it was added for, every event it is able to send is registered, and every component it
    references is registered. -/
theorem handlers_use_only_live_items {w : World} (hr : Reach w) (hs : Small w) {hk : Key} {h : HInfo}
    (hg : w.handlers.get hk = some h) :
    (h.recv.targeted = false → ∃ info, w.gevs.get h.recvKey = some info ∧ info.ty = h.recv) ∧
    (h.recv.targeted = true → ∃ info, w.tevs.get h.recvKey = some info ∧ info.ty = h.recv) ∧
    (∀ i ∈ h.sentG, (w.gevs.getByIndex i).isSome = true) ∧ (∀ i ∈ h.sentT, (w.tevs.getByIndex i).isSome = true) ∧
    (∀ c ∈ h.referenced, (w.comps.getByIndex c).isSome = true) :=
  have r := (winv hr hs).registry.handlerRefs hk h hg
  ⟨r.recvG, r.recvT, r.sentG, r.sentT, r.referenced⟩

/-- … hence no live handler of a reachable world receives an event id recorded as removed -/
theorem no_handler_receives_removed_event {w : World} (hr : Reach w) (hs : Small w) {ty : EvTy} {k : Key}
    (hk : (evTag ty, k) ∈ w.removedIds) {hk' : Key} {h : HInfo} (hg : w.handlers.get hk' = some h) :
    ¬ (h.recv.targeted = ty.targeted ∧ h.recvKey = k) := by
  rintro ⟨ht, rfl⟩
  have hdead := no_removed_id_valid hr hk
  obtain ⟨r1, r2, -⟩ := handlers_use_only_live_items hr hs hg
  unfold evTag at hdead
  cases htt : ty.targeted with
  | true =>
    rw [htt] at ht hdead
    obtain ⟨info, hi, -⟩ := r2 ht
    simp [SlotMap.contains, hi] at hdead
  | false =>
    rw [htt] at ht hdead
    obtain ⟨info, hi, -⟩ := r1 ht
    simp [SlotMap.contains, hi] at hdead

/-- **C16, "never valid again".**  An id recorded as removed in a reachable world stays recorded and dead through EVERY
    further sequence of driver operations (valid or not, returning normally or not; registrations that reuse its index
    included). -/
theorem removed_id_stays_dead_reach {w : World} (hr : Reach w) {p : Char × Key} (hp : p ∈ w.removedIds)
    (ops : List Op) :
    p ∈ (runOps w ops).removedIds ∧
    DeadIn (runOps w ops).comps (runOps w ops).gevs (runOps w ops).tevs (runOps w ops).handlers p :=
  removed_id_stays_dead (regInv_reach hr) hp ops

/-- **C16, "never handed out again".**  From every reachable world, no registration function returns an id recorded as
    removed: `add_component`, … -/
theorem addComponent_ne_removed_reach {w w' : World} (hr : Reach w) {k k' : Key} (hk : ('c', k) ∈ w.removedIds)
    {ty : Nat} (h : (addComponent ty).run.run w = (.ok k', w')) : k' ≠ k :=
  addComponent_ne_removed (regInv_reach hr) hk h

/-- … `add_global_event` / `add_targeted_event`, … -/
theorem addEvent_ne_removed_reach {w w' : World} (hr : Reach w) {k k' : Key} {ty : EvTy}
    (hk : (evTag ty, k) ∈ w.removedIds) (h : (addEvent ty).run.run w = (.ok k', w')) : k' ≠ k :=
  addEvent_ne_removed (regInv_reach hr) hk h

/-- … `add_handler` (neither as the id of a new handler nor as the id of an existing type-identified one). -/
theorem addHandler_ne_removed_reach {w w' : World} (hr : Reach w) {k k' : Key} (hk : ('h', k) ∈ w.removedIds)
    {hs : HSpec} {res : AddResult} (h : (addHandler hs).run.run w = (.ok res, w')) (hres : res.key? = some k') :
    k' ≠ k :=
  addHandler_ne_removed (regInv_reach hr) hk h hres

/-- **C16, index reuse.**  In every reachable world a valid id at the index of a removed id has a strictly larger
    generation (components, global events, targeted events, handlers). -/
theorem removed_gen_lt_reach {w : World} (hr : Reach w) {k k' : Key} (hidx : k'.idx = k.idx) :
    (('c', k) ∈ w.removedIds → w.comps.contains k' = true → k.gen < k'.gen) ∧
    (('g', k) ∈ w.removedIds → w.gevs.contains k' = true → k.gen < k'.gen) ∧
    (('t', k) ∈ w.removedIds → w.tevs.contains k' = true → k.gen < k'.gen) ∧
    (('h', k) ∈ w.removedIds → w.handlers.contains k' = true → k.gen < k'.gen) :=
  have h := regInv_reach hr
  ⟨fun hk hl => h.removed_comp_gen_lt hk hl hidx, fun hk hl => h.removed_gev_gen_lt hk hl hidx,
    fun hk hl => h.removed_tev_gen_lt hk hl hidx, fun hk hl => h.removed_handler_gen_lt hk hl hidx⟩

/-- **C16, removal records the id.**  From every reachable world, a removal that returns `true` records the id as removed
    and leaves it dead (so, by `removed_id_stays_dead`, dead for ever). -/
theorem removal_records_reach {w w' : World} (hr : Reach w) {k : Key} :
    ((removeComponent k).run.run w = (.ok true, w') → ('c', k) ∈ w'.removedIds ∧ SlotMap.DeadKey w'.comps k) ∧
    ((removeHandler k).run.run w = (.ok true, w') → ('h', k) ∈ w'.removedIds ∧ SlotMap.DeadKey w'.handlers k) ∧
    (∀ ty, (removeEvent ty k).run.run w = (.ok true, w') →
      (evTag ty, k) ∈ w'.removedIds ∧ SlotMap.DeadKey (if ty.targeted then w'.tevs else w'.gevs) k) :=
  have h := regInv_reach hr
  ⟨fun hrun => (removeComponent_records h hrun).2, fun hrun => (removeHandler_records h hrun).2,
    fun _ hrun => (removeEvent_records h hrun).2⟩

/-- **C16, "registration is idempotent" (components).**  From every reachable world: whatever id `add_component` returns
    (existing or new — whatever the handlers of the `AddComponent` notification did), registering the same type again
    returns the SAME id and changes nothing (no notification, nothing queued). -/
theorem addComponent_idempotent {w w1 : World} {ty : Nat} {k : Key} (hr : Reach w)
    (h1 : (addComponent ty).run.run w = (.ok k, w1)) : (addComponent ty).run.run w1 = (.ok k, w1) := by
  have wf := (regInv_reach hr).wfc
  cases hf : w.compIdxOfTy ty with
  | some p =>
    obtain ⟨k0, ci⟩ := p
    rw [addComponent_existing hf] at h1
    cases h1
    exact addComponent_existing hf
  | none =>
    cases hi : w.comps.insertWith (fun k => ({ ty, id := k } : CompInfo)) with
    | none => rw [addComponent_full hf hi] at h1; cases h1
    | some p =>
      obtain ⟨k0, comps'⟩ := p
      rw [addComponent_new_shape hf hi] at h1
      obtain ⟨u, w2, hsend, hpure⟩ := run_bind_ok h1
      cases hpure
      have hc := (InvV7.sendGlobal_cc (c := ({ w with comps := comps' } : World).compsCore) .addC { id := k }).run _ rfl
      rw [hsend] at hc
      have h3 := (compsCore_eq_consequences hc).2.2.1 ty
      rw [(addComponent_new_usable wf hf hi).2.2.1] at h3
      cases hf1 : w1.compIdxOfTy ty with
      | none => rw [hf1] at h3; cases h3
      | some p =>
        obtain ⟨k1, ci1⟩ := p
        rw [hf1] at h3
        cases h3
        exact addComponent_existing hf1

/-! ## C14 — "removing a component type cascades completely" -/

theorem getByIndex_remove_self {α : Type} {sm sm' : SlotMap α} (wf : sm.WF) {k : Key} {v : α}
    (h : sm.remove k = some (v, sm')) : sm'.getByIndex k.idx = none := by
  obtain ⟨s, -, -, -, -, hlt, hcase⟩ := wf.remove_cases h
  rcases hcase with ⟨-, rfl⟩ | ⟨-, rfl⟩ <;>
  · unfold SlotMap.getByIndex
    simp only [List.getElem?_set_self hlt]
    split <;> rfl

theorem keeps_vacant {α : Type} {m : M α} (h : ∀ c, Keeps (CC c) m) (i : Nat) :
    Keeps (fun w => w.comps.getByIndex i = none) m := by
  have := Keeps.of_cc h (fun sm => sm.getByIndex i = none)
  simpa only [World.compsCore, SlotMap.getByIndex_mapVal, Option.map_eq_none_iff] using this

/-- if `remove_component(k)` returns `true`, the slot of `k` is vacant afterwards: no component has index `k.idx` -/
theorem removeComponent_vacates (k : Key) :
    HoareOk (RegInv []) (removeComponent k) (fun r w' => r = true → w'.comps.getByIndex k.idx = none) := by
  unfold removeComponent
  refine HoareOk.get_bind fun w0 _ => ?_
  split
  · exact HoareOk.pure fun _ _ h => nomatch h
  · refine HoareOk.bind_inv (HoareOk.of_keeps (sendGlobal_ri _ _)) fun _ => ?_
    refine HoareOk.bind_inv (HoareOk.of_keeps (addTargetedEvent_ri _)) fun dk => ?_
    refine HoareOk.get_bind fun _ _ => ?_
    refine HoareOk.bind_inv (HoareOk.of_keeps (by keeps)) fun _ => ?_
    refine HoareOk.bind_inv (HoareOk.of_keeps (flush_ri _)) fun _ => ?_
    refine HoareOk.get_bind fun w1 _ => ?_
    refine HoareOk.bind_inv (HoareOk.of_keeps (by keeps)) fun _ => ?_
    refine HoareOk.get_bind fun w2 _ => ?_
    split
    · exact HoareOk.throw _
    · refine HoareOk.bind_inv (HoareOk.of_keeps (by keeps)) fun _ => ?_
      refine HoareOk.get_bind fun w3 hw3 => ?_
      split
      · exact HoareOk.throw _
      · rename_i info comps hrem
        refine HoareOk.bind (R := fun _ w => w.comps.getByIndex k.idx = none)
          (HoareOk.set_to (Q := fun w => w.comps.getByIndex k.idx = none)
            (getByIndex_remove_self hw3.wfc hrem)) fun _ => ?_
        refine HoareOk.bind_inv
          (HoareOk.of_keeps (keeps_vacant (fun _ => archsRemoveComponent_cc _) k.idx)) fun _ => ?_
        refine HoareOk.bind_inv (HoareOk.of_keeps (keeps_vacant (fun _ => resRefresh_cc) k.idx)) fun _ => ?_
        exact HoareOk.pure fun _ h _ => h

/-- in a world satisfying the invariant, nothing mentions a component index whose slot is vacant -/
theorem nothing_mentions_vacant_of_winv {w : World} (hw : WInv w) {c : Nat} (hc : w.comps.getByIndex c = none) :
    (∀ i a, w.archs.get i = some a → c ∉ a.comps) ∧
    (∀ e loc, w.entities.get e = some loc → ∃ a, w.archs.get loc.arch = some a ∧ c ∉ a.comps) ∧
    (∀ hk h, w.handlers.get hk = some h → c ∉ h.referenced) ∧
    (∀ ek ei, w.tevs.get ek = some ei → ei.kind ≠ .insert c ∧ ei.kind ≠ .remove c) := by
  have harch : ∀ i a, w.archs.get i = some a → c ∉ a.comps := fun i a ha hm => by
    have := hw.graph.compsLive i a ha c hm
    rw [hc] at this; cases this
  refine ⟨harch, fun e loc he => ?_, fun hk h hg hm => ?_, fun ek ei hg => ⟨fun hk => ?_, fun hk => ?_⟩⟩
  · obtain ⟨a, ha, -⟩ := (winv_implies_invStore_rows hw).1 e loc ((SlotMap.mem_toList_iff hw.entsWF e loc).2 he)
    exact ⟨a, ha, harch _ a ha⟩
  · have := (hw.registry.handlerRefs hk h hg).referenced c hm
    rw [hc] at this; cases this
  · obtain ⟨ck, ci, h1, -⟩ := (hw.registry.tevComp ek ei hg c).1 hk
    rw [hc] at h1; cases h1
  · obtain ⟨ck, ci, h1, -⟩ := (hw.registry.tevComp ek ei hg c).2 hk
    rw [hc] at h1; cases h1

/-- the strengthened top-level invariant of a reachable world -/
theorem gqa_of_reach {w : World} (hr : Reach w) : GQA AuxInv w :=
  fun hs => ⟨winv hr hs, quiescent hr hs, auxInv hr⟩

theorem removeComponent_cascades_of {w w' : World} {k : Key} (hq0 : GQA AuxInv w) (hri : RegInv [] w)
    (hr : (removeComponent k).run.run w = (.ok true, w')) (hs : Small w') :
    w'.comps.contains k = false ∧ ('c', k) ∈ w'.removedIds ∧ w'.comps.getByIndex k.idx = none ∧
    (∀ i a, w'.archs.get i = some a → k.idx ∉ a.comps) ∧
    (∀ e loc, w'.entities.get e = some loc → ∃ a, w'.archs.get loc.arch = some a ∧ k.idx ∉ a.comps) ∧
    (∀ hk h, w'.handlers.get hk = some h → k.idx ∉ h.referenced) ∧
    (∀ ek ei, w'.tevs.get ek = some ei → ei.kind ≠ .insert k.idx ∧ ei.kind ≠ .remove k.idx) ∧
    WInv w' ∧ Quiescent w' := by
  have hvac := (removeComponent_vacates k).run w hri true w' hr rfl
  have hq := (glue_removeComponent_partial pieces Evenio.auxInv k).run w hq0
  rw [hr] at hq
  obtain ⟨hW, hQ⟩ : WInv w' ∧ Quiescent w' := hq hs
  obtain ⟨h1, h2, h3, h4⟩ := nothing_mentions_vacant_of_winv hW hvac
  exact ⟨removeComponent_invalidates hr, (removeComponent_records hri hr).2.1, hvac, h1, h2, h3, h4, hW, hQ⟩

/-- **C14.**  If `remove_component(k)` returns `true` from a reachable world (ending in `w'`, within the resource bound),
    then afterwards: the id `k` is invalid and recorded as removed, no component has its index, NO live archetype has the
    component in its component set, NO live entity is stored in an archetype with the component, NO live handler
    references it, NO registered targeted event is its `Insert` / `Remove` event — and the world satisfies the whole
    world invariant again and is quiescent (so every theorem of this file applies to it: "the world keeps working"). -/
theorem removeComponent_cascades {w w' : World} {k : Key} (hreach : Reach w)
    (hr : (removeComponent k).run.run w = (.ok true, w')) (hs : Small w') :
    w'.comps.contains k = false ∧ ('c', k) ∈ w'.removedIds ∧ w'.comps.getByIndex k.idx = none ∧
    (∀ i a, w'.archs.get i = some a → k.idx ∉ a.comps) ∧
    (∀ e loc, w'.entities.get e = some loc → ∃ a, w'.archs.get loc.arch = some a ∧ k.idx ∉ a.comps) ∧
    (∀ hk h, w'.handlers.get hk = some h → k.idx ∉ h.referenced) ∧
    (∀ ek ei, w'.tevs.get ek = some ei → ei.kind ≠ .insert k.idx ∧ ei.kind ≠ .remove k.idx) ∧
    WInv w' ∧ Quiescent w' :=
  removeComponent_cascades_of (gqa_of_reach hreach) (regInv_reach hreach) hr hs

theorem gqa_stepInit {w : World} (hreach : Reach w) : GQA AuxInv (stepInit w) := fun hs0 =>
  have hs1 : Small w := hs0
  ⟨(winv hreach hs1).frame (stepInit_relEq w), InvV7.Quiescent.of_res (quiescent hreach hs1) rfl,
    Evenio.auxInv.frame w _ rfl rfl (auxInv hreach)⟩

/-- the run of the driver operation `rmc ty` when the type is registered under `k` -/
theorem execOp_rmc_run {w : World} {ty : Nat} {k : Key} {ci : CompInfo} (hty : w.compIdxOfTy ty = some (k, ci)) :
    (execOp (.rmc ty)).run.run w =
      match (removeComponent k).run.run w with
      | (.ok b, w') => (.ok [renderResult b], w')
      | (.error e, w') => (.error e, w') := by
  unfold execOp
  simp only [run_bind, run_get, hty, run_pure]
  generalize (removeComponent k).run.run w = res
  obtain ⟨(e|b), w'⟩ := res <;> rfl

/-- `remove_component` of a valid id returns `true` whenever it returns -/
theorem removeComponent_true_of_live (k : Key) :
    HoareOk (fun w => w.comps.contains k = true) (removeComponent k) (fun r _ => r = true) := by
  unfold removeComponent
  refine HoareOk.get_bind fun w0 hw0 => ?_
  split
  · rename_i hc
    simp [hw0] at hc
  · const_nav rfl

/-- **C14, operation form.**  The driver operation `rmc ty` from a reachable world in which the type is registered (under
    `k`), when it returns normally (within the resource bound): in the world afterwards — which is reachable again —
    nothing mentions the component. -/
theorem rmc_cascades {w : World} {ty : Nat} {k : Key} {ci : CompInfo} (hreach : Reach w)
    (hty : w.compIdxOfTy ty = some (k, ci)) (hok : StepOk w (.rmc ty)) (hs : Small (step w (.rmc ty)).1) :
    Reach (step w (.rmc ty)).1 ∧
    (step w (.rmc ty)).1.comps.contains k = false ∧ ('c', k) ∈ (step w (.rmc ty)).1.removedIds ∧
    (∀ i a, (step w (.rmc ty)).1.archs.get i = some a → k.idx ∉ a.comps) ∧
    (∀ e loc, (step w (.rmc ty)).1.entities.get e = some loc →
      ∃ a, (step w (.rmc ty)).1.archs.get loc.arch = some a ∧ k.idx ∉ a.comps) ∧
    (∀ hk h, (step w (.rmc ty)).1.handlers.get hk = some h → k.idx ∉ h.referenced) ∧
    (∀ ek ei, (step w (.rmc ty)).1.tevs.get ek = some ei → ei.kind ≠ .insert k.idx ∧ ei.kind ≠ .remove k.idx) := by
  have hr' : Reach (step w (.rmc ty)).1 := Reach.step (.rmc ty) hreach trivial hok
  refine ⟨hr', ?_⟩
  obtain ⟨lines, hl⟩ := hok
  rw [step_fst] at hs ⊢
  have hty' : (stepInit w).compIdxOfTy ty = some (k, ci) := hty
  have hri0 : RegInv [] w := regInv_reach hreach
  have hri : RegInv [] (stepInit w) := hri0
  have hlive : (stepInit w).comps.contains k = true := contains_of_find? (regInv_reach hreach).wfc hty
  rw [execOp_rmc_run hty'] at hl hs ⊢
  generalize hrun : (removeComponent k).run.run (stepInit w) = res at hl hs ⊢
  obtain ⟨(e|b), w'⟩ := res
  · cases hl
  · dsimp only at hs ⊢
    cases b with
    | false =>
      exact nomatch (removeComponent_true_of_live k).run (stepInit w) hlive false w' hrun
    | true =>
      obtain ⟨h1, h2, -, h4, h5, h6, h7, -⟩ :=
        removeComponent_cascades_of (gqa_stepInit hreach) hri hrun hs
      exact ⟨h1, h2, h4, h5, h6, h7⟩

/-! ## C13 — "a panicking handler loses no event and destroys none twice; the world stays usable"

The accounting half ("loses no event, destroys none twice") is unconditional already (`flushWith_panic_drops_all`,
`pending_is_everything_undelivered`, `flush_panic_inflight_once` in Props/C13.lean).  Here: the world the caller gets
back satisfies the world invariant. -/

/-- **C13, "the world stays usable".**  If a valid operation from a reachable world ends in a panic (a handler's panic
    that unwound out of the top-level call, or `panic "capacity"` …), leaving `w'` (within the resource bound), then `w'`
    satisfies `WInvMid` — ALL structural groups of the world invariant (archetype graph, storage, handler lists and
    listener tables, fetcher caches, registries) and a consistent reservation state — and, unless the panic is the
    model's own fuel exhaustion `"model:fuel"`, the event queue is empty (the unwinding guard dropped every pending
    event).  What need NOT hold is `Quiescent`: a handler that reserved an entity id and then panicked leaves the
    reservation pending (finding F8). -/
theorem panic_leaves_world_usable {w w' : World} {op : Op} {c : String} (hreach : Reach w) (hv : op.Valid)
    (hr : (execOp op).run.run (stepInit w) = (.error (.panic c), w')) (hs : Small w') :
    WInvMid w' ∧ (c ≠ "model:fuel" → w'.queue = []) := by
  have h0 : GQA AuxInv (stepInit w) := gqa_stepInit hreach
  have h := (execOp_keeps_WInv_of_pieces pieces op hv).run (stepInit w) h0
  rw [hr] at h
  obtain ⟨h1, -, h3⟩ := h rfl hs
  exact ⟨h1, fun hc => h3 fun he => hc (by cases he; rfl)⟩

/-- … in terms of the driver's `step`: the world `step` returns after a panicking operation -/
theorem step_panic_leaves_world_usable {w : World} {op : Op} {c : String} (hreach : Reach w) (hv : op.Valid)
    (hr : ((execOp op).run.run (stepInit w)).1 = .error (.panic c)) (hs : Small (step w op).1) :
    WInvMid (step w op).1 ∧ (c ≠ "model:fuel" → (step w op).1.queue = []) := by
  rw [step_fst] at hs ⊢
  exact panic_leaves_world_usable hreach hv (Prod.ext hr rfl) hs

/-- **C13, and it stays usable.**  From a world satisfying `WInvMid` (e.g. the world a panic left), every registration /
    send / handler-removal function keeps `WInvMid` on normal return AND on a further panic. -/
theorem usable_world_keeps_invariant :
    (∀ ty pay, KeepsW (sendGlobal ty pay)) ∧ (∀ ty tg pay, ty.targeted = true → KeepsW (sendTargeted ty tg pay)) ∧
    (∀ ty, KeepsW (addComponent ty)) ∧ (∀ ty, KeepsW (addEvent ty)) ∧
    (∀ hs : HSpec, hs.Valid → KeepsW (addHandler hs)) ∧ (∀ k, KeepsW (removeHandler k)) :=
  ⟨pieces.glue_sendGlobal, pieces.glue_sendTargeted, pieces.glue_addComponent, pieces.glue_addEvent,
    pieces.glue_addHandler, pieces.glue_removeHandler⟩

/-! ## non-vacuity -/

/-- a Boolean test for `Op.Valid` -/
def validB : Op → Bool
  | .addh hs => hs.params.all fun ps => match ps with | .recv .spawn true _ => false | _ => true
  | .setgen _ g => decide (g < GENMOD)
  | .drop => false
  | _ => true

theorem valid_of_validB {op : Op} (h : validB op = true) : op.Valid := by
  cases op with
  | addh hs =>
    intro ps hps q he
    have := List.all_eq_true.1 h ps hps
    subst he
    cases this
  | setgen n g => exact of_decide_eq_true (p := g < GENMOD) h
  | drop => cases h
  | _ => trivial

/-- every operation of the script is valid and returns normally -/
def allOk : World → List Op → Bool
  | _, [] => true
  | w, op :: ops => validB op && ((execOp op).run.run (stepInit w)).1.isOk && allOk (step w op).1 ops

theorem reach_runOps {w : World} (h : Reach w) : ∀ {ops : List Op}, allOk w ops = true → Reach (runOps w ops) := by
  intro ops
  induction ops generalizing w with
  | nil => exact fun _ => h
  | cons op ops ih =>
    intro hok
    simp only [allOk, Bool.and_eq_true] at hok
    exact ih (Reach.step op h (valid_of_validB hok.1.1) (stepOk_of_isOk hok.1.2)) hok.2

def script : List Op :=
  [.addc 0, .addev (.t 0), .addev (.g 0),
   .addh { name := "lo", prio := .low, params := [.recv (.g 0) false none] },
   .addh { name := "hi", prio := .high, params := [.recv (.g 0) false none] },
   .addh { name := "gone", params := [.recv (.g 0) false none] },
   .addh { name := "me", params := [.recv (.g 0) false none] },
   .addh { name := "hi2", prio := .high, params := [.recv (.g 0) false none] },
   .addh { name := "other", prio := .high, params := [.recv (.g 1) false none] },
   .spawn, .sendto 0 0, .send 0, .rmh "gone", .spawn, .despawn 0, .addc 1, .rmc 0]

/-- the world after the script: component K0 registered and removed again, K1 registered; the user events T0, G0, G1;
    six handlers added (five on G0 with three different priorities, one on G1), "gone" removed; events T0 and G0 sent; two
    entities spawned, one despawned.  (Handlers with a query parameter — all targeted receivers — cannot be added by
    kernel evaluation: `mergeCase` of Model/Access.lean is defined by well-founded recursion, which the kernel does not
    unfold; likewise `insert`.) -/
def nvWorld : World := runOps {} script

/-- **non-vacuity: `nvWorld` is reachable** — all 17 operations are valid and return normally (checked by kernel
    evaluation of the model) -/
theorem reach_nv : Reach nvWorld := reach_runOps Reach.init (by decide +kernel)

theorem small_nv : Small nvWorld := by unfold Small; decide +kernel

attribute [irreducible] nvWorld

/-! what the concrete world looks like (kernel evaluation) … -/

/-- the live handlers: key, priority, insertion serial — "lo" 0v1, "hi" 1v1, "me" 3v1, "hi2" 4v1 receive G0 (`3v1`), "other"
    5v1 receives G1; "gone" 2v1 was removed -/
example : nvWorld.handlers.toList.map (fun (k, h) => (k, h.prio, h.order, h.recvKey)) =
    [(⟨0, 1⟩, .low, 0, ⟨3, 1⟩), (⟨1, 1⟩, .high, 1, ⟨3, 1⟩), (⟨3, 1⟩, .medium, 3, ⟨3, 1⟩), (⟨4, 1⟩, .high, 4, ⟨3, 1⟩),
     (⟨5, 1⟩, .high, 5, ⟨5, 1⟩)] := by decide +kernel

/-- the global list of G0: High ("hi", "hi2" in insertion order), Medium ("me"), Low ("lo" — added FIRST, runs last);
    cursors 2 and 3; the removed "gone" is not in it -/
example : (nvWorld.byGlobal[3]?).map (fun l => (l.before, l.after, l.entries)) =
    some (2, 3, [⟨1, 1⟩, ⟨4, 1⟩, ⟨3, 1⟩, ⟨0, 1⟩]) := by decide +kernel

example : nvWorld.byInsertOrder = [⟨0, 1⟩, ⟨1, 1⟩, ⟨3, 1⟩, ⟨4, 1⟩, ⟨5, 1⟩] := by decide +kernel
example : nvWorld.removedIds.map (·.2) = [⟨0, 1⟩, ⟨2, 1⟩] := by decide +kernel
example : nvWorld.comps.toList.map (fun (k, c) => (k, c.ty)) = [(⟨1, 1⟩, 1)] := by decide +kernel
example : nvWorld.entities.toList.map (·.1) = [⟨1, 1⟩] := by decide +kernel
example : nvWorld.tevs.toList.map (fun (k, i) => (k, i.ty)) = [(⟨0, 1⟩, .t 0), (⟨1, 1⟩, .despawn)] := by
  decide +kernel

/-! … and the general theorems applied to it: their hypotheses are satisfiable -/

theorem nv_g0_live : ∃ info, nvWorld.gevs.get ⟨3, 1⟩ = some info :=
  Option.isSome_iff_exists.1 (by decide +kernel)

example : ∃ l, nvWorld.byGlobal[3]? = some l ∧ l.entries.Nodup ∧
    (∀ hk, hk ∈ l.entries ↔
      ∃ h, nvWorld.handlers.get hk = some h ∧ h.recv.targeted = false ∧ h.recvKey = ⟨3, 1⟩) ∧
    l.entries.Pairwise (RunsBefore nvWorld) :=
  nv_g0_live.elim fun _ hi => global_list_mem reach_nv small_nv hi

/-- "hi2" (added last but one) runs before "lo" (added first) -/
example : RunsBefore nvWorld ⟨4, 1⟩ ⟨0, 1⟩ := by
  obtain ⟨info, hi⟩ := nv_g0_live
  obtain ⟨l, hl, -, -, hord⟩ := global_list_mem reach_nv small_nv hi
  have hl' : nvWorld.byGlobal[3]? = some l := hl
  have he : l.entries = [⟨1, 1⟩, ⟨4, 1⟩, ⟨3, 1⟩, ⟨0, 1⟩] := by
    have h0 : (nvWorld.byGlobal[3]?).map (·.entries) = some [⟨1, 1⟩, ⟨4, 1⟩, ⟨3, 1⟩, ⟨0, 1⟩] := by decide +kernel
    rw [hl'] at h0
    exact Option.some.inj h0
  rw [he] at hord
  simp only [List.pairwise_cons] at hord
  exact hord.2.1 _ (by simp)

theorem nv_gone_removed : ('h', (⟨2, 1⟩ : Key)) ∈ nvWorld.removedIds := by
  have h : nvWorld.removedIds.map (·.2) = [⟨0, 1⟩, ⟨2, 1⟩] ∧ nvWorld.removedIds.map (·.1.toNat) = [99, 104] := by
    decide +kernel
  cases hr : nvWorld.removedIds with
  | nil => rw [hr] at h; exact absurd h.1 (by simp)
  | cons a l =>
    cases l with
    | nil => rw [hr] at h; exact absurd h.1 (by simp)
    | cons b l =>
      rw [hr] at h
      simp only [List.map_cons, List.cons.injEq] at h
      obtain ⟨c, k⟩ := b
      have hk : k = ⟨2, 1⟩ := h.1.2.1
      have hc : c = 'h' := Char.toNat_inj.1 (by simpa using h.2.2.1)
      subst hk hc
      simp

/-- the removed handler "gone" is invalid and in no list of `nvWorld` -/
example : nvWorld.handlers.contains ⟨2, 1⟩ = false ∧ (⟨2, 1⟩ : Key) ∉ nvWorld.byInsertOrder ∧
    (∀ l ∈ nvWorld.byGlobal, (⟨2, 1⟩ : Key) ∉ l.entries) ∧
    (∀ i a, nvWorld.archs.get i = some a →
      (⟨2, 1⟩ : Key) ∉ a.refresh ∧ (∀ t l, a.listeners.get t = some l → (⟨2, 1⟩ : Key) ∉ l.entries) ∧
        ∀ t, (⟨2, 1⟩ : Key) ∉ a.listenersFor t) :=
  removed_handler_in_no_list_reach reach_nv small_nv nv_gone_removed

/-- a further operation from `nvWorld`: a panic-free valid step stays reachable; the invariant holds in `nvWorld` -/
example : WInv nvWorld ∧ Quiescent nvWorld ∧ nvWorld.InvPlus = true :=
  ⟨winv reach_nv small_nv, quiescent reach_nv small_nv, reachable_InvPlus nvWorld reach_nv small_nv⟩

end ReachLists
end Evenio

#print axioms Evenio.ReachLists.winv
#print axioms Evenio.ReachLists.quiescent
#print axioms Evenio.ReachLists.auxInv
#print axioms Evenio.ReachLists.stepOk_of_isOk
#print axioms Evenio.ReachLists.ord_pairwise
#print axioms Evenio.ReachLists.exactList_of_tableExact
#print axioms Evenio.ReachLists.insertion_order
#print axioms Evenio.ReachLists.global_list_exact_of_winv
#print axioms Evenio.ReachLists.global_list_exact
#print axioms Evenio.ReachLists.global_list_mem
#print axioms Evenio.ReachLists.global_list_dead
#print axioms Evenio.ReachLists.listener_list_exact_of_winv
#print axioms Evenio.ReachLists.listener_list_exact
#print axioms Evenio.ReachLists.listenersFor_eq
#print axioms Evenio.ReachLists.filter_is_conjunction_of_winv
#print axioms Evenio.ReachLists.filter_is_conjunction
#print axioms Evenio.ReachLists.listener_list_mem_of_winv
#print axioms Evenio.ReachLists.listener_list_mem
#print axioms Evenio.ReachLists.listener_list_dead
#print axioms Evenio.ReachLists.targeted_delivery_of_winv
#print axioms Evenio.ReachLists.targeted_delivery
#print axioms Evenio.ReachLists.global_delivery_of_winv
#print axioms Evenio.ReachLists.global_delivery
#print axioms Evenio.ReachLists.never_invoked_for_unmatched_of_winv
#print axioms Evenio.ReachLists.never_invoked_for_unmatched_reach
#print axioms Evenio.ReachLists.recv_fetch_defined_of_winv
#print axioms Evenio.ReachLists.recv_fetch_defined_reach
#print axioms Evenio.ReachLists.dfsLog_gw
#print axioms Evenio.ReachLists.delivery_starts_in_winv
#print axioms Evenio.ReachLists.lists_hold_only_live_handlers_of_winv
#print axioms Evenio.ReachLists.lists_hold_only_live_handlers
#print axioms Evenio.ReachLists.removed_handler_in_no_list_reach
#print axioms Evenio.ReachLists.gw_of_reach
#print axioms Evenio.ReachLists.removeHandler_pre_of_gw
#print axioms Evenio.ReachLists.removeHandler_pre
#print axioms Evenio.ReachLists.removeHandler_effect
#print axioms Evenio.ReachLists.regInv_reach
#print axioms Evenio.ReachLists.no_removed_id_valid
#print axioms Evenio.ReachLists.removed_id_stays_dead_reach
#print axioms Evenio.ReachLists.addComponent_ne_removed_reach
#print axioms Evenio.ReachLists.addEvent_ne_removed_reach
#print axioms Evenio.ReachLists.addHandler_ne_removed_reach
#print axioms Evenio.ReachLists.removed_gen_lt_reach
#print axioms Evenio.ReachLists.removal_records_reach
#print axioms Evenio.ReachLists.addComponent_idempotent
#print axioms Evenio.ReachLists.getByIndex_remove_self
#print axioms Evenio.ReachLists.keeps_vacant
#print axioms Evenio.ReachLists.removeComponent_vacates
#print axioms Evenio.ReachLists.nothing_mentions_vacant_of_winv
#print axioms Evenio.ReachLists.gqa_of_reach
#print axioms Evenio.ReachLists.removeComponent_cascades_of
#print axioms Evenio.ReachLists.removeComponent_cascades
#print axioms Evenio.ReachLists.gqa_stepInit
#print axioms Evenio.ReachLists.execOp_rmc_run
#print axioms Evenio.ReachLists.removeComponent_true_of_live
#print axioms Evenio.ReachLists.rmc_cascades
#print axioms Evenio.ReachLists.panic_leaves_world_usable
#print axioms Evenio.ReachLists.step_panic_leaves_world_usable
#print axioms Evenio.ReachLists.usable_world_keeps_invariant
#print axioms Evenio.ReachLists.valid_of_validB
#print axioms Evenio.ReachLists.reach_runOps
#print axioms Evenio.ReachLists.reach_nv
#print axioms Evenio.ReachLists.small_nv
#print axioms Evenio.ReachLists.nv_g0_live
#print axioms Evenio.ReachLists.nv_gone_removed
#print axioms Evenio.ReachLists.handlers_use_only_live_items
#print axioms Evenio.ReachLists.no_handler_receives_removed_event
