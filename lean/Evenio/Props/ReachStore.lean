import Evenio.Proofs.Inv.Instance
import Evenio.Props.C02World
import Evenio.Props.C03World
import Evenio.Props.C10
import Evenio.Props.C12
import Evenio.Props.C17
/-!
# Storage, ids, caches, archetype bookkeeping: UNCONDITIONAL theorems about reachable worlds

The theorems of `Props/C02World.lean`, `Props/C03World.lean`, `Props/C10.lean`, `Props/C12.lean` (via `C02World`),
`Props/C17.lean` are conditional on invariants of the world they start from (`StoreOk`, `(absStore w).HasEmpty`, `ArchOK`,
`Reserved`, `C10.CacheInv`, `World.inv…`).  `Evenio/Proofs/Inv/Instance.lean` proves that the logical world invariant is
inductive:

    reachable_WInv : ∀ w, Reach w → Small w → WInv w ∧ Quiescent w

Here the two are put together.  Every theorem below starts

    (hr : Reach w) (hs : Small w)

* `Reach w` — `w` is the world the driver is in after a finite sequence of top-level operations (`step`), each of which
  is valid (`Op.Valid`: no `drop`, no `Receiver<Spawn>` taken mutably — which Rust does not type — and generations given
  to the test hook fit in a `u32`) and returned normally (`StepOk`);
* `Small w` — fewer than `u32::MAX` archetype slots and targeted-event slots were ever allocated: the resource bound the
  Rust code asserts (`archetype.rs:244/319`) and the model's `newArch` does not.

No other hypothesis about the WORLD is left, except where the doc comment says so and says why.  Hypotheses that remain
are about the CALL (where the entity lives, which component is inserted, that the call returned normally).

For the storage primitives (`moveEntity`, `removeEntity`, `spawnStep`, `spawnAll`, `reserve`, the `Despawn` effect) the
statements are also given for every world satisfying `WInv` (resp. `WInv` and `Reserved w ks`) — names ending in `_winv` —,
because inside a flush these primitives run from worlds that are not quiescent, hence not `Reach`able in the sense above,
but do satisfy `WInvMid = WInv ∧ ReservedSome` (that is what `KeepsW` of `Proofs/WInv.lean` says of every closed piece of the
model).  The `Reach` versions are their instances.

Sections: 0 basics · C17 · C02 (reads; the primitives; the built-in effects `Insert` / `Remove` / `Despawn` as a whole) ·
C12 · C03 (`reserve`, `spawn_all`, `Despawn`, delivery of `Spawn`, `World::spawn`, the driver's `spawn` step) · C10 ·
non-vacuity (a concrete reachable world: ten explicit operations, kernel-evaluated).
All helper lemmas live in the namespace `Evenio.ReachStore`.
-/
namespace Evenio
namespace ReachStore

variable {w w' : World}

/-! ## 0. basics -/

/-- a reachable world satisfies the logical world invariant -/
theorem winv (hr : Reach w) (hs : Small w) : WInv w := (reachable_WInv w hr hs).1

/-- a reachable world is quiescent: empty queue, nothing reserved -/
theorem quiescent (hr : Reach w) (hs : Small w) : Quiescent w := (reachable_WInv w hr hs).2

/-- the hypothesis bundle of `Props/C02World.lean` holds in every reachable world -/
theorem storeOk (hr : Reach w) (hs : Small w) : StoreOk w := (winv hr hs).storeOk

/-- … and so does "the component-less archetype is stored at index 0" -/
theorem hasEmpty (hr : Reach w) (hs : Small w) : (absStore w).HasEmpty := (winv hr hs).hasEmpty

/-- the next world of a valid step that returns normally is reachable again -/
theorem next (hr : Reach w) {op : Op} (hv : op.Valid) (hok : StepOk w op) : Reach (step w op).1 :=
  Reach.step op hr hv hok

/-! ## C17 — archetype bookkeeping is consistent at every quiescent point

"Whenever control is back with the caller, each live entity is stored in exactly one archetype at exactly the row its
recorded location says … Archetypes have pairwise distinct, sorted component sets … retrievable by component set, the
component-less archetype always exists, cached transitions lead to live archetypes that differ by exactly the labelled
component, per-archetype listener tables name only live handlers whose filter matches, and no entity reservation or
queued event is left pending."

`reachable_InvPlus`, conjunct by conjunct, in plain terms. -/

/-- **C17 (executable form).**  Each of the twelve Boolean conjuncts of the executable invariant `World.InvPlus` — the
    ones the driver evaluates with `--inv` — is `true` in every reachable world. -/
theorem C17_conjuncts (hr : Reach w) (hs : Small w) :
    w.invStore = true ∧ w.invArch = true ∧ w.invEdges = true ∧ w.invMembers = true ∧ w.invListeners = true ∧
    w.invGlobal = true ∧ w.invRefresh = true ∧ w.invCache = true ∧ w.invPending = true ∧ w.invRegistry = true ∧
    w.invWF = true ∧ w.invHandlers = true := by
  have h := winv hr hs
  exact ⟨winv_implies_invStore h (winv_implies_count h), winv_implies_invArch h, winv_implies_invEdges h,
    winv_implies_invMembers h, winv_implies_invListeners h, winv_implies_invGlobal h, winv_implies_invRefresh h,
    winv_implies_invCache h, winv_implies_invPending (quiescent hr hs), winv_implies_invRegistry h,
    winv_implies_invWF h execLeft_slabCheck execLeft_slotCheck, winv_implies_invHandlers h⟩

/-- … hence the ten-conjunct `World.Inv` of `Model/Inv.lean` (the statement of C17 as an executable predicate) -/
theorem C17_Inv (hr : Reach w) (hs : Small w) : w.Inv = true := by
  obtain ⟨h1, h2, h3, h4, h5, h6, h7, h8, h9, h10, -, -⟩ := C17_conjuncts hr hs
  exact (Inv_iff w).2 ⟨h1, h2, h3, h4, h5, h6, h7, h8, h9, h10⟩

/-- **C17, entities ↔ rows.**  "Each live entity is stored in exactly one archetype at exactly the row its recorded
    location says": in a reachable world
    * the location `Entities::get` returns for a live entity `e` names a live archetype whose id list holds `e` at that
      row;
    * conversely every row of every live archetype holds a live entity whose recorded location is exactly that row —
      so an entity occurs in exactly one row of one archetype;
    * every live archetype has one column per component, each as long as its id list;
    * `Entities::len` is the total number of rows. -/
theorem C17_entities_rows (hr : Reach w) (hs : Small w) :
    (∀ e loc, w.entities.get e = some loc → ∃ a, w.archs.get loc.arch = some a ∧ a.ids[loc.row]? = some e) ∧
    (∀ i a, w.archs.get i = some a → ∀ row e, a.ids[row]? = some e → w.entities.get e = some ⟨i, row⟩) ∧
    (∀ i a, w.archs.get i = some a → a.cols.length = a.comps.length ∧ ∀ col ∈ a.cols, col.length = a.ids.length) ∧
    w.entities.len = (w.archs.toList.map fun (_, a) => a.ids.length).sum := by
  have h := winv hr hs
  obtain ⟨h1, h2⟩ := winv_implies_invStore_rows h
  exact ⟨fun e loc he => h1 e loc ((SlotMap.mem_toList_iff h.entsWF e loc).2 he),
    fun i a ha => (h2 i a ha).2.2, fun i a ha => ⟨(h2 i a ha).1, (h2 i a ha).2.1⟩, winv_implies_count h⟩

/-- **C17, one row per entity.**  Two rows holding the same entity id are the same row of the same archetype. -/
theorem C17_entity_in_one_row (hr : Reach w) (hs : Small w) {i j : Nat} {a b : Arch} {r s : Nat} {e : Key}
    (ha : w.archs.get i = some a) (hb : w.archs.get j = some b) (hra : a.ids[r]? = some e)
    (hsb : b.ids[s]? = some e) : i = j ∧ r = s := by
  obtain ⟨-, h2, -, -⟩ := C17_entities_rows hr hs
  have e1 := h2 i a ha r e hra
  have e2 := h2 j b hb s e hsb
  rw [e1] at e2
  cases e2
  exact ⟨rfl, rfl⟩

/-- **C17, archetypes.**  "Archetypes have pairwise distinct, sorted component sets …, retrievable by component set,
    the component-less archetype always exists": in a reachable world the archetype at index 0 has no components, and
    every live archetype is stored under its own index, has a strictly sorted component list over live component
    indices, is what `archByComps` (`Archetypes::by_components`) returns for its component list, and shares its
    component list with no other live archetype. -/
theorem C17_archetypes (hr : Reach w) (hs : Small w) :
    (∃ a, w.archs.get 0 = some a ∧ a.comps = []) ∧
    (∀ i a, w.archs.get i = some a →
      a.index = i ∧ a.comps.Pairwise (· < ·) ∧ (∀ c ∈ a.comps, (w.comps.getByIndex c).isSome = true) ∧
      w.archByComps a.comps = some i ∧
      ∀ j b, w.archs.get j = some b → i = j ∨ a.comps ≠ b.comps) :=
  (invArch_iff w).1 (winv_implies_invArch (winv hr hs))

/-- **C17, the archetype graph.**  "Cached transitions lead to live archetypes that differ by exactly the labelled
    component": every insert edge `c ↦ d` of a live archetype `a` leads to a LIVE archetype whose component list is
    `a`'s with `c` inserted (and `a` lacks `c`); every remove edge `c ↦ d` to a live archetype whose component list is
    `a`'s without `c` (and `a` has `c`).  The edge tables are sorted by component (they are `BTreeMap`s). -/
theorem C17_edges (hr : Reach w) (hs : Small w) {i : Nat} {a : Arch} (ha : w.archs.get i = some a) :
    (∀ c d, (c, d) ∈ a.insEdges →
      ∃ b, w.archs.get d = some b ∧ c ∉ a.comps ∧ b.comps = insertSorted a.comps c) ∧
    (∀ c d, (c, d) ∈ a.remEdges →
      ∃ b, w.archs.get d = some b ∧ c ∈ a.comps ∧ b.comps = a.comps.filter (· != c)) ∧
    (a.insEdges.map (·.1)).Pairwise (· < ·) ∧ (a.remEdges.map (·.1)).Pairwise (· < ·) := by
  have h := winv hr hs
  obtain ⟨e1, e2⟩ := (C17_invEdges_iff w).1 (winv_implies_invEdges h) i a ha
  exact ⟨e1, e2, h.graph.edgeKeys i a ha⟩

/-- **C17, `member_of` is exact.**  For every live component `k`, the list `member_of` of its registry entry is
    duplicate free and lists exactly the indices of the live archetypes whose component set contains `k`. -/
theorem C17_member_of (hr : Reach w) (hs : Small w) {k : Key} {ci : CompInfo} (hk : w.comps.get k = some ci) :
    ci.memberOf.Nodup ∧ ∀ i, i ∈ ci.memberOf ↔ ∃ a, w.archs.get i = some a ∧ k.idx ∈ a.comps :=
  (winv hr hs).graph.members k ci hk

/-- **C17, nothing pending.**  "No entity reservation or queued event is left pending": the queue is empty, the
    reservation count is 0 and the reservation cursor is where the entity map will allocate next. -/
theorem C17_nothing_pending (hr : Reach w) (hs : Small w) :
    w.queue = [] ∧ w.resCount = 0 ∧ w.resIndex = w.entities.nextKeyIndex := by
  obtain ⟨hq, hres⟩ := quiescent hr hs
  obtain ⟨-, h2, h3⟩ := (reserved_nil_iff w).1 hres
  exact ⟨hq, h2, h3⟩

/-- **C17, global handler lists.**  For every registered global event `gk` the list `byGlobal[gk.idx]` exists and
    holds exactly the live handlers that receive `gk`: the high-priority ones, then the medium ones, then the low ones,
    each class in insertion order (`World.handlersWhere`); its two cursors delimit the three classes.  A list at the
    index of a removed event is empty. -/
theorem C17_global_lists (hr : Reach w) (hs : Small w) :
    (∀ gk info, w.gevs.get gk = some info → ∃ l, w.byGlobal[gk.idx]? = some l ∧
      l.entries = w.handlersWhere (globalSel gk) ∧
      l.hi = w.sel (globalSel gk) .high ∧ l.me = w.sel (globalSel gk) .medium ∧ l.lo = w.sel (globalSel gk) .low) ∧
    (∀ i l, w.byGlobal[i]? = some l → (w.gevs.getByIndex i).isSome = true ∨ l.entries = []) := by
  have h := winv hr hs
  refine ⟨fun gk info hg => ?_, h.lists.gDead⟩
  obtain ⟨l, hl, hex⟩ := h.lists.gExact gk info hg
  exact ⟨l, hl, hex.entries_eq, hex.hi, hex.me, hex.lo⟩

/-- **C17, per-archetype listener tables and refresh sets.**  "Per-archetype listener tables name only live handlers
    whose filter matches": for a live archetype `a` and a registered targeted event `tk`, the table entry of `tk`
    (an absent entry counts as the empty list) holds exactly the live handlers that receive `tk` and whose listener
    filter matches `a`'s component set, by priority class then insertion order; an entry at the index of a removed
    event is empty.  The refresh set of `a` is duplicate free and consists of exactly the live handlers whose archetype
    filter matches `a`. -/
theorem C17_listeners (hr : Reach w) (hs : Small w) {i : Nat} {a : Arch} (ha : w.archs.get i = some a) :
    (∀ tk info, w.tevs.get tk = some info →
      ((a.listeners.get tk.idx).getD {}).entries = w.handlersWhere (listenSel tk a)) ∧
    (∀ t l, a.listeners.get t = some l → (w.tevs.getByIndex t).isSome = true ∨ l.entries = []) ∧
    a.refresh.Nodup ∧
    (∀ k, k ∈ a.refresh ↔ ∃ h, w.handlers.get k = some h ∧ h.archFilter.matches a.S = true) := by
  have h := winv hr hs
  have hl := h.lists.arch i a ha
  refine ⟨fun tk info ht => (hl.exact tk info ht).entries_eq, hl.dead, hl.refreshNodup, fun k => ?_⟩
  rw [hl.refresh]
  constructor
  · exact fun hk => hk.2
  · rintro ⟨hi, hg, hm⟩
    exact ⟨(h.lists.ordMem k).2 (by simp [SlotMap.contains, hg]), hi, hg, hm⟩

/-- **C17, registries.**  Everything a registry entry refers to is live: a component's `Insert`/`Remove` events are
    registered targeted events of exactly that component; every live handler refers to live components only, receives a
    registered event of the type it was built for, and may send registered events only. -/
theorem C17_registry (hr : Reach w) (hs : Small w) :
    (∀ k ci, w.comps.get k = some ci →
      (∀ e ∈ ci.insEvents, ∃ ei, w.tevs.get e = some ei ∧ ei.kind = .insert k.idx) ∧
      (∀ e ∈ ci.remEvents, ∃ ei, w.tevs.get e = some ei ∧ ei.kind = .remove k.idx)) ∧
    (∀ k h, w.handlers.get k = some h →
      (∀ c ∈ h.referenced, (w.comps.getByIndex c).isSome = true) ∧
      (if h.recv.targeted then ∃ info, w.tevs.get h.recvKey = some info ∧ info.ty = h.recv
       else ∃ info, w.gevs.get h.recvKey = some info ∧ info.ty = h.recv) ∧
      (∀ i ∈ h.sentG, (w.gevs.getByIndex i).isSome = true) ∧
      (∀ i ∈ h.sentT, (w.tevs.getByIndex i).isSome = true)) := by
  have h := winv hr hs
  refine ⟨h.registry.compEvents, fun k hi hk => ?_⟩
  have rf := h.registry.handlerRefs k hi hk
  refine ⟨rf.referenced, ?_, rf.sentG, rf.sentT⟩
  cases ht : hi.recv.targeted with
  | true => simpa using rf.recvT ht
  | false => simpa using rf.recvG ht

/-! ## C02 — component storage behaves as a map (entity, component) ↦ last value

"Reading component C of entity e yields exactly the value most recently inserted for (e, C) if e is alive and still has
C, and nothing otherwise.  An operation on one entity never changes the presence or value of any component of another
entity."

`w.getCell e c` is `World::get` (what the `> st` observation line prints), `w.compsOf e` the component set of `e`'s
archetype.  First what a read is in a reachable world, then the effect of each storage primitive. -/

/-- what a read is, for every world satisfying the invariant -/
theorem read_winv (h : WInv w) {e : Key} {loc : Loc} (he : w.entities.get e = some loc) :
    ∃ a, w.archs.get loc.arch = some a ∧ a.ids[loc.row]? = some e ∧ w.compsOf e = some a.comps ∧
      (∀ c, w.getCell e c = a.readCell c loc.row) ∧
      (∀ c, (w.getCell e c).isSome = true ↔ c ∈ a.comps) := by
  obtain ⟨h1, h2⟩ := winv_implies_invStore_rows h
  obtain ⟨a, ha, hrow⟩ := h1 e loc ((SlotMap.mem_toList_iff h.entsWF e loc).2 he)
  have hget : ∀ c, w.getCell e c = a.readCell c loc.row := fun c => by
    rw [world_getCell_eq h.entsWF, he]; dsimp only; rw [ha]
  refine ⟨a, ha, hrow, world_compsOf_eq h.entsWF he ha, hget, fun c => ?_⟩
  rw [hget]
  obtain ⟨hcols, hlen, -⟩ := h2 loc.arch a ha
  constructor
  · intro hsome
    apply Classical.byContradiction
    intro hc
    rw [readCell_eq, cellAt_not_mem _ _ _ _ hc] at hsome
    cases hsome
  · intro hc
    exact readCell_isSome hcols hlen (List.getElem?_eq_some_iff.1 hrow).1
      (by unfold Arch.S; simpa using hc)

/-- **C02, what a read is.**  In a reachable world, `World::get` of component `c` of entity `e` is the lookup
    "location of `e` in the entity map, archetype at that location, cell of `c`'s column at that row" — the archetype
    exists and holds `e` at that row.  For an id that is not alive the read yields nothing. -/
theorem C02_read (hr : Reach w) (hs : Small w) (e : Key) (c : Nat) :
    w.getCell e c =
      match w.entities.get e with
      | none => none
      | some loc =>
        match w.archs.get loc.arch with
        | none => none
        | some a => a.readCell c loc.row :=
  world_getCell_eq (winv hr hs).entsWF e c

/-- **C02, "if e is alive and still has C, and nothing otherwise".**  In a reachable world a read of `(e, c)` yields a
    value exactly when `e` is alive and `c` belongs to the component set of `e`'s archetype. -/
theorem C02_read_isSome_iff (hr : Reach w) (hs : Small w) (e : Key) (c : Nat) :
    (w.getCell e c).isSome = true ↔ ∃ cs, w.compsOf e = some cs ∧ c ∈ cs := by
  have h := winv hr hs
  cases he : w.entities.get e with
  | none =>
    have h1 : w.getCell e c = none := by rw [world_getCell_eq h.entsWF, he]
    have h2 : w.compsOf e = none := by
      unfold World.compsOf Store.comps
      rw [absStore_loc h.entsWF, he]
    rw [h1, h2]
    constructor
    · intro hc; cases hc
    · rintro ⟨cs, hcs, -⟩; cases hcs
  | some loc =>
    obtain ⟨a, -, -, hcs, -, hiff⟩ := read_winv h he
    rw [hiff c, hcs]
    constructor
    · exact fun hc => ⟨a.comps, rfl, hc⟩
    · rintro ⟨cs, hcs', hc⟩; cases hcs'; exact hc

/-- **C02, a dead id reads nothing.** -/
theorem C02_dead_reads_nothing (hr : Reach w) (hs : Small w) {e : Key} (he : w.entities.get e = none) :
    (∀ c, w.getCell e c = none) ∧ w.compsOf e = none := by
  have h := winv hr hs
  refine ⟨fun c => by rw [world_getCell_eq h.entsWF, he], ?_⟩
  unfold World.compsOf Store.comps
  rw [absStore_loc h.entsWF, he]

/-- **C02, a live entity has exactly the components of its archetype, each with a value.** -/
theorem C02_live_reads (hr : Reach w) (hs : Small w) {e : Key} {loc : Loc} (he : w.entities.get e = some loc) :
    ∃ a, w.archs.get loc.arch = some a ∧ a.ids[loc.row]? = some e ∧ w.compsOf e = some a.comps ∧
      (∀ c, w.getCell e c = a.readCell c loc.row) ∧
      (∀ c, (w.getCell e c).isSome = true ↔ c ∈ a.comps) :=
  read_winv (winv hr hs) he

/-! ### the storage primitives, from a world satisfying the invariant (`_winv`) and from a reachable world

`moveEntity src dst new` is the storage half of the `Insert` / `Remove` effects (after `traverse_insert` /
`traverse_remove` determined `dst`), `removeEntity loc` that of `Despawn`, `spawnStep` one iteration of `spawn_all`.
Hypotheses left: where the entity lives (`hsrc`), which archetypes `src.arch` and `dst` are (`hsa`, `hda` — they NAME the
archetypes, they are not assumptions: the archetypes exist by `C02_live_reads` resp. `C17.traverseInsert_spec`), what the
call's arguments are, and that the call returned normally. -/

section ops
variable {e : Key} {src : Loc} {dst : Nat} {new : List (Nat × Cell)} {sa da : Arch} {c : Nat} {x : Cell}

theorem move_get_self_winv (hw : WInv w) (hsrc : w.entities.get e = some src) (hne : src.arch ≠ dst)
    (hsa : w.archs.get src.arch = some sa) (hda : w.archs.get dst = some da)
    (hnew : new.map (·.1) = da.comps.filter (fun c => !sa.comps.contains c))
    (h : (moveEntity src dst new).run.run w = (.ok (), w')) :
    w'.entities.get e = some ⟨dst, da.ids.length⟩ ∧ w'.compsOf e = some da.comps ∧
    (∀ c, w'.getCell e c = if c ∈ da.comps then (if c ∈ sa.comps then w.getCell e c else new.lookup c) else none) ∧
    ∃ dropped, dropped.map some = (sa.comps.filter fun c => !da.comps.contains c).map (w.getCell e) ∧
      w'.cdrops = dropLog w ((sa.comps.filter fun c => !da.comps.contains c).zip dropped) ++ w.cdrops :=
  world_move_get_self hw.storeOk hsrc hne hsa hda hnew h

/-- **C02, moving an entity between two archetypes (general form).**  From a reachable world, after a normal return
    of `moveEntity src dst new` — `src` the location of the live entity `e`, `new` the values of the components of
    `dst` the source lacks —: `e` lives in the last row of `dst` and has exactly the components of `dst`; a component
    the source had keeps its value, one it lacked has the supplied value, every other read yields nothing; the
    destroyed cells are exactly the values of the source-only components, and `cdrops` logs exactly them. -/
theorem C02_move_get_self (hr : Reach w) (hs : Small w) (hsrc : w.entities.get e = some src) (hne : src.arch ≠ dst)
    (hsa : w.archs.get src.arch = some sa) (hda : w.archs.get dst = some da)
    (hnew : new.map (·.1) = da.comps.filter (fun c => !sa.comps.contains c))
    (h : (moveEntity src dst new).run.run w = (.ok (), w')) :
    w'.entities.get e = some ⟨dst, da.ids.length⟩ ∧ w'.compsOf e = some da.comps ∧
    (∀ c, w'.getCell e c = if c ∈ da.comps then (if c ∈ sa.comps then w.getCell e c else new.lookup c) else none) ∧
    ∃ dropped, dropped.map some = (sa.comps.filter fun c => !da.comps.contains c).map (w.getCell e) ∧
      w'.cdrops = dropLog w ((sa.comps.filter fun c => !da.comps.contains c).zip dropped) ++ w.cdrops :=
  move_get_self_winv (winv hr hs) hsrc hne hsa hda hnew h

theorem insert_new_winv (hw : WInv w) (hsrc : w.entities.get e = some src)
    (hsa : w.archs.get src.arch = some sa) (hda : w.archs.get dst = some da)
    (hc : c ∉ sa.comps) (hcomps : da.comps = insertSorted sa.comps c)
    (h : (moveEntity src dst [(c, x)]).run.run w = (.ok (), w')) :
    w'.compsOf e = some (insertSorted sa.comps c) ∧ w'.getCell e c = some x ∧
    (∀ c', c' ≠ c → w'.getCell e c' = w.getCell e c') ∧ w'.cdrops = w.cdrops :=
  world_insert_get_self hw.storeOk hsrc hsa hda hc hcomps h

/-- **C02, `Insert` of a component the entity lacks.**  From a reachable world: afterwards reading `c` of `e` yields
    the inserted value, `e` has gained exactly `c`, every other component of `e` reads as before, nothing is
    destroyed. -/
theorem C02_insert_new (hr : Reach w) (hs : Small w) (hsrc : w.entities.get e = some src)
    (hsa : w.archs.get src.arch = some sa) (hda : w.archs.get dst = some da)
    (hc : c ∉ sa.comps) (hcomps : da.comps = insertSorted sa.comps c)
    (h : (moveEntity src dst [(c, x)]).run.run w = (.ok (), w')) :
    w'.compsOf e = some (insertSorted sa.comps c) ∧ w'.getCell e c = some x ∧
    (∀ c', c' ≠ c → w'.getCell e c' = w.getCell e c') ∧ w'.cdrops = w.cdrops :=
  insert_new_winv (winv hr hs) hsrc hsa hda hc hcomps h

theorem insert_existing_winv (hw : WInv w) (hsrc : w.entities.get e = some src)
    (hsa : w.archs.get src.arch = some sa) (hc : c ∈ sa.comps)
    (h : (moveEntity src src.arch [(c, x)]).run.run w = (.ok (), w')) :
    ∃ old, w.getCell e c = some old ∧ w'.compsOf e = w.compsOf e ∧ w'.getCell e c = some x ∧
      (∀ c', c' ≠ c → w'.getCell e c' = w.getCell e c') ∧ w'.cdrops = dropLog w [(c, old)] ++ w.cdrops :=
  world_insert_get_self_same hw.storeOk hsrc hsa hc h

/-- **C02, `Insert` of a component the entity has ("the value most recently inserted").**  From a reachable world:
    reading `c` yields the new value; the old value — and nothing else — is destroyed; `e` keeps its component set
    and every other value. -/
theorem C02_insert_existing (hr : Reach w) (hs : Small w) (hsrc : w.entities.get e = some src)
    (hsa : w.archs.get src.arch = some sa) (hc : c ∈ sa.comps)
    (h : (moveEntity src src.arch [(c, x)]).run.run w = (.ok (), w')) :
    ∃ old, w.getCell e c = some old ∧ w'.compsOf e = w.compsOf e ∧ w'.getCell e c = some x ∧
      (∀ c', c' ≠ c → w'.getCell e c' = w.getCell e c') ∧ w'.cdrops = dropLog w [(c, old)] ++ w.cdrops :=
  insert_existing_winv (winv hr hs) hsrc hsa hc h

theorem remove_present_winv (hw : WInv w) (hsrc : w.entities.get e = some src)
    (hsa : w.archs.get src.arch = some sa) (hda : w.archs.get dst = some da)
    (hc : c ∈ sa.comps) (hcomps : da.comps = sa.comps.filter (· != c))
    (h : (moveEntity src dst []).run.run w = (.ok (), w')) :
    ∃ old, w.getCell e c = some old ∧ w'.compsOf e = some (sa.comps.filter (· != c)) ∧ w'.getCell e c = none ∧
      (∀ c', c' ≠ c → w'.getCell e c' = w.getCell e c') ∧ w'.cdrops = dropLog w [(c, old)] ++ w.cdrops :=
  world_remove_get_self hw.storeOk hsrc hsa hda hc hcomps h

/-- **C02, `Remove` of a component the entity has.**  From a reachable world: afterwards reading `c` yields nothing,
    `e` has lost exactly `c`, every other component reads as before, exactly the old value of `c` is destroyed. -/
theorem C02_remove_present (hr : Reach w) (hs : Small w) (hsrc : w.entities.get e = some src)
    (hsa : w.archs.get src.arch = some sa) (hda : w.archs.get dst = some da)
    (hc : c ∈ sa.comps) (hcomps : da.comps = sa.comps.filter (· != c))
    (h : (moveEntity src dst []).run.run w = (.ok (), w')) :
    ∃ old, w.getCell e c = some old ∧ w'.compsOf e = some (sa.comps.filter (· != c)) ∧ w'.getCell e c = none ∧
      (∀ c', c' ≠ c → w'.getCell e c' = w.getCell e c') ∧ w'.cdrops = dropLog w [(c, old)] ++ w.cdrops :=
  remove_present_winv (winv hr hs) hsrc hsa hda hc hcomps h

theorem remove_absent_winv (hw : WInv w) (h : (moveEntity src src.arch []).run.run w = (.ok (), w')) : w' = w :=
  world_remove_absent hw.storeOk.idx h

/-- **C02, `Remove` of a component the entity lacks is a no-op.**  (`traverse_remove` returns the source archetype.)
    From a reachable world the world is literally unchanged. -/
theorem C02_remove_absent (hr : Reach w) (hs : Small w)
    (h : (moveEntity src src.arch []).run.run w = (.ok (), w')) : w' = w :=
  remove_absent_winv (winv hr hs) h

theorem move_other_winv (hw : WInv w) (hsrc : w.entities.get e = some src)
    (h : (moveEntity src dst new).run.run w = (.ok (), w')) (e' : Key) (hne : e' ≠ e) :
    (∀ c', w'.getCell e' c' = w.getCell e' c') ∧ w'.compsOf e' = w.compsOf e' :=
  world_move_get_other hw.storeOk hsrc h e' hne

/-- **C02, "never changes … any component of another entity" (`Insert` / `Remove`).**  From a reachable world, a move
    of the live entity `e` — any `dst`, any `new` — changes neither the value nor the presence of any component of any
    other id `e'`, nor its component set. -/
theorem C02_move_other (hr : Reach w) (hs : Small w) (hsrc : w.entities.get e = some src)
    (h : (moveEntity src dst new).run.run w = (.ok (), w')) (e' : Key) (hne : e' ≠ e) :
    (∀ c', w'.getCell e' c' = w.getCell e' c') ∧ w'.compsOf e' = w.compsOf e' :=
  move_other_winv (winv hr hs) hsrc h e' hne

theorem despawn_winv {loc : Loc} (hw : WInv w) (hloc : w.entities.get e = some loc)
    (h : (removeEntity loc).run.run w = (.ok (), w')) :
    w'.entities.get e = none ∧ (∀ c, w'.getCell e c = none) ∧ w'.compsOf e = none ∧
    ∀ e', e' ≠ e → (∀ c', w'.getCell e' c' = w.getCell e' c') ∧ w'.compsOf e' = w.compsOf e' :=
  world_remove_get hw.storeOk hloc h

/-- **C02, `Despawn`.**  From a reachable world, after a normal return of `removeEntity` at the location of the live
    entity `e`: `e` is not alive, every read of `e` yields nothing; every other id reads exactly as before and has the
    same component set. -/
theorem C02_despawn {loc : Loc} (hr : Reach w) (hs : Small w) (hloc : w.entities.get e = some loc)
    (h : (removeEntity loc).run.run w = (.ok (), w')) :
    w'.entities.get e = none ∧ (∀ c, w'.getCell e c = none) ∧ w'.compsOf e = none ∧
    ∀ e', e' ≠ e → (∀ c', w'.getCell e' c' = w.getCell e' c') ∧ w'.compsOf e' = w.compsOf e' :=
  despawn_winv (winv hr hs) hloc h

theorem spawnStep_winv (hw : WInv w) (h : spawnStep.run.run w = (.ok (), w')) :
    ∃ k a0, w.entities.get k = none ∧ w.archs.get 0 = some a0 ∧
      (∀ k', w'.entities.get k' = if k' = k then some ⟨0, a0.ids.length⟩ else w.entities.get k') ∧
      w'.compsOf k = some [] ∧ (∀ c, w'.getCell k c = none) ∧
      ∀ e', e' ≠ k → (∀ c', w'.getCell e' c' = w.getCell e' c') ∧ w'.compsOf e' = w.compsOf e' :=
  world_spawn_get hw.storeOk hw.hasEmpty h

/-- **C02, one spawn.**  From a reachable world, one step of `spawn_all` makes exactly one id `k` — not alive before —
    alive, in the last row of archetype 0, with no components; every other id is unchanged. -/
theorem C02_spawnStep (hr : Reach w) (hs : Small w) (h : spawnStep.run.run w = (.ok (), w')) :
    ∃ k a0, w.entities.get k = none ∧ w.archs.get 0 = some a0 ∧
      (∀ k', w'.entities.get k' = if k' = k then some ⟨0, a0.ids.length⟩ else w.entities.get k') ∧
      w'.compsOf k = some [] ∧ (∀ c, w'.getCell k c = none) ∧
      ∀ e', e' ≠ k → (∀ c', w'.getCell e' c' = w.getCell e' c') ∧ w'.compsOf e' = w.compsOf e' :=
  spawnStep_winv (winv hr hs) h

theorem spawnAll_winv (hw : WInv w) (h : spawnAll.run.run w = (.ok (), w')) :
    ∀ e l, w.entities.get e = some l →
      w'.entities.get e = some l ∧ (∀ c, w'.getCell e c = w.getCell e c) ∧ w'.compsOf e = w.compsOf e :=
  (world_spawnAll hw.storeOk hw.hasEmpty h).2

/-- **C02, `spawn_all` (the `Spawn` effect) does not touch existing entities.**  No entity that was alive is moved,
    changed, or loses or gains a component.  (From a reachable world nothing is reserved, so `spawn_all` spawns
    nothing; the `_winv` form `spawnAll_winv` covers the worlds inside a flush, where reservations are pending.) -/
theorem C02_spawnAll (hr : Reach w) (hs : Small w) (h : spawnAll.run.run w = (.ok (), w')) :
    ∀ e l, w.entities.get e = some l →
      w'.entities.get e = some l ∧ (∀ c, w'.getCell e c = w.getCell e c) ∧ w'.compsOf e = w.compsOf e :=
  spawnAll_winv (winv hr hs) h

end ops

/-! ### the built-in effects `Insert`, `Remove`, `Despawn` as a whole

`effectPhase it info loc` is, verbatim, the built-in effect `deliverOne` runs after the handlers of a delivery
(`deliverOne_phases`): for an `Insert` event `traverse_insert` followed by `move_entity`, for `Remove` `traverse_remove`
followed by `move_entity`, for `Despawn` `spawn_all; remove_entity; refresh`.  These theorems compose the primitives:
no archetype has to be named, `dst` and `new` are what the model computes. -/

section effects
variable {w1 : World}

section ents
variable {E : SlotMap Loc}
local macro_rules | `(tactic| keeps_leaf) => `(tactic| exact InvV2.ubErr_en _)
local macro_rules | `(tactic| keeps_leaf) => `(tactic| exact InvV2.dbgAssert_en _ _)
local macro_rules | `(tactic| keeps_leaf) => `(tactic| exact InvV2.newArch_en _ _ _)
theorem traverseInsert_en (src c : Nat) : Keeps (InvV2.EN E) (traverseInsert src c) := by
  unfold traverseInsert getArch setArch; keeps
theorem traverseRemove_en (src c : Nat) : Keeps (InvV2.EN E) (traverseRemove src c) := by
  unfold traverseRemove getArch setArch; keeps
end ents

/-- a slab extension (same rows, columns and component sets for every old archetype) with the same entity map reads
    the same -/
theorem reads_of_extends (hw : WInv w) (hwf1 : w1.entities.WF) (hents : w1.entities = w.entities)
    (hext : Graph.Extends w.archs w1.archs) (e : Key) :
    (∀ c, w1.getCell e c = w.getCell e c) ∧ w1.compsOf e = w.compsOf e := by
  cases he : w.entities.get e with
  | none =>
    have he1 : w1.entities.get e = none := by rw [hents]; exact he
    refine ⟨fun c => by rw [world_getCell_eq hwf1, world_getCell_eq hw.entsWF, he, he1], ?_⟩
    unfold World.compsOf Store.comps
    rw [absStore_loc hwf1, absStore_loc hw.entsWF, he, he1]
  | some loc =>
    have he1 : w1.entities.get e = some loc := by rw [hents]; exact he
    obtain ⟨a, ha, -, hcs, hget, -⟩ := read_winv hw he
    obtain ⟨a1, ha1, sb⟩ := hext _ _ ha
    refine ⟨fun c => ?_, ?_⟩
    · rw [hget, world_getCell_eq hwf1, he1]
      dsimp only
      rw [ha1]
      dsimp only
      unfold Arch.readCell Arch.colIdx
      rw [sb.comps, sb.cols]
    · rw [hcs, world_compsOf_eq hwf1 he1 ha1, sb.comps]

/-- **`traverse_insert` does not touch storage**: it may create an (empty) archetype and cache edges; afterwards the
    hypotheses of the storage theorems hold again, the entity map is the same, every read of every id is the same, the
    source archetype is still there with the same component set, and the returned archetype is live with the source's
    component set plus `c` — the source itself if it has `c` already -/
theorem traverseInsert_store_winv (hw : WInv w) {src c d : Nat} {sa : Arch} (hsa : w.archs.get src = some sa)
    (h : (traverseInsert src c).run.run w = (.ok d, w1)) :
    StoreOk w1 ∧ w1.entities = w.entities ∧
    (∀ e, (∀ c', w1.getCell e c' = w.getCell e c') ∧ w1.compsOf e = w.compsOf e) ∧
    (∃ sa1, w1.archs.get src = some sa1 ∧ sa1.comps = sa.comps) ∧
    ∃ b, w1.archs.get d = some b ∧ (b.comps = if c ∈ sa.comps then sa.comps else insertSorted sa.comps c) ∧
      (c ∈ sa.comps → d = src) := by
  have ht := (InvV2.traverseInsert_travI src c).run w ⟨hw.store, hw.slabWF⟩ d w1 h
  have ok1 : StoreOk w1 := ht.1.storeOk rfl rfl
  obtain ⟨hG1, hext, b, hb, hbc⟩ := (C17.traverseInsert_spec hw.graph.graph hsa c).run w rfl d w1 h
  have hents : w1.entities = w.entities := by
    have := (traverseInsert_en (E := w.entities) src c).run w rfl
    rw [h] at this; exact this
  obtain ⟨sa1, hsa1, sb⟩ := hext _ _ hsa
  refine ⟨ok1, hents, reads_of_extends hw ok1.ents hents hext, ⟨sa1, hsa1, sb.comps⟩, b, hb, hbc, fun hc => ?_⟩
  rw [if_pos hc] at hbc
  exact hG1.distinct d src b sa1 hb hsa1 (hbc.trans sb.comps.symm)

/-- the same for `traverse_remove`: the returned archetype has the source's component set minus `c` — it is the source
    itself if the source lacks `c` -/
theorem traverseRemove_store_winv (hw : WInv w) {src c d : Nat} {sa : Arch} (hsa : w.archs.get src = some sa)
    (h : (traverseRemove src c).run.run w = (.ok d, w1)) :
    StoreOk w1 ∧ w1.entities = w.entities ∧
    (∀ e, (∀ c', w1.getCell e c' = w.getCell e c') ∧ w1.compsOf e = w.compsOf e) ∧
    (∃ sa1, w1.archs.get src = some sa1 ∧ sa1.comps = sa.comps) ∧
    ∃ b, w1.archs.get d = some b ∧ b.comps = sa.comps.filter (· != c) ∧ (c ∉ sa.comps → d = src) := by
  have ht := (InvV2.traverseRemove_travI src c).run w ⟨hw.store, hw.slabWF⟩ d w1 h
  have ok1 : StoreOk w1 := ht.1.storeOk rfl rfl
  obtain ⟨hG1, hext, b, hb, hbc⟩ := (C17.traverseRemove_spec hw.graph.graph hsa c).run w rfl d w1 h
  have hents : w1.entities = w.entities := by
    have := (traverseRemove_en (E := w.entities) src c).run w rfl
    rw [h] at this; exact this
  obtain ⟨sa1, hsa1, sb⟩ := hext _ _ hsa
  refine ⟨ok1, hents, reads_of_extends hw ok1.ents hents hext, ⟨sa1, hsa1, sb.comps⟩, b, hb, hbc, fun hc => ?_⟩
  have hfil : sa.comps.filter (· != c) = sa.comps := by
    refine List.filter_eq_self.2 fun y hy => ?_
    have : y ≠ c := fun he => hc (he ▸ hy)
    simpa using this
  exact hG1.distinct d src b sa1 hb hsa1 ((hbc.trans hfil).trans sb.comps.symm)

/-- unfold a two-step run -/
theorem run_bind_ok {α β : Type} {m : M α} {f : α → M β} {b : β} (h : (m >>= f).run.run w = (.ok b, w')) :
    ∃ a w1, m.run.run w = (.ok a, w1) ∧ (f a).run.run w1 = (.ok b, w') := by
  rw [run_bind] at h
  generalize hm : m.run.run w = r at h
  obtain ⟨(e | a), w1⟩ := r
  · cases h
  · exact ⟨a, w1, rfl, h⟩

/-- the `Insert` effect from a world satisfying the invariant (the form that applies inside a flush, where the effect runs
    on the state the handlers of the delivery left: that state satisfies `WInvMid`, `Obl.glue_runHandler`) -/
theorem insert_effect_winv (hw : WInv w) {it : QItem} {info : EvInfo} {loc : Loc} {c : Nat} {e : Key}
    (hkind : info.kind = .insert c) (hloc : w.entities.get e = some loc)
    (h : (effectPhase it info loc).run.run w = (.ok (), w')) :
    w'.getCell e c = some it.pay.cell ∧
    (∀ c', c' ≠ c → w'.getCell e c' = w.getCell e c') ∧
    (∀ cs, w.compsOf e = some cs → w'.compsOf e = some (if c ∈ cs then cs else insertSorted cs c)) ∧
    (∀ e', e' ≠ e → (∀ c', w'.getCell e' c' = w.getCell e' c') ∧ w'.compsOf e' = w.compsOf e') := by
  rw [effectPhase_insert hkind] at h
  obtain ⟨⟨⟩, w0, h0, h⟩ := run_bind_ok h
  cases dbgAssert_ok h0
  obtain ⟨d, w1, h1, h2⟩ := run_bind_ok h
  obtain ⟨sa, hsa, -, hcs, -, -⟩ := read_winv hw hloc
  obtain ⟨ok1, hents, hreads, ⟨sa1, hsa1, hsac⟩, b, hb, hbc, hsame⟩ := traverseInsert_store_winv hw hsa h1
  have hloc1 : w1.entities.get e = some loc := by rw [hents]; exact hloc
  have hothers : ∀ e', e' ≠ e → (∀ c', w'.getCell e' c' = w.getCell e' c') ∧ w'.compsOf e' = w.compsOf e' := by
    intro e' hne
    obtain ⟨g1, g2⟩ := world_move_get_other ok1 hloc1 h2 e' hne
    exact ⟨fun c' => (g1 c').trans ((hreads e').1 c'), g2.trans (hreads e').2⟩
  by_cases hc : c ∈ sa.comps
  · cases hsame hc
    obtain ⟨old, -, g2, g3, g4, -⟩ := world_insert_get_self_same ok1 hloc1 hsa1 (hsac ▸ hc) h2
    refine ⟨g3, fun c' hne => (g4 c' hne).trans ((hreads e).1 c'), fun cs hcs' => ?_, hothers⟩
    rw [hcs] at hcs'; cases hcs'
    rw [if_pos hc, g2, (hreads e).2, hcs]
  · rw [if_neg hc, ← hsac] at hbc
    obtain ⟨g1, g2, g3, -⟩ := world_insert_get_self ok1 hloc1 hsa1 hb (hsac ▸ hc) hbc h2
    refine ⟨g2, fun c' hne => (g3 c' hne).trans ((hreads e).1 c'), fun cs hcs' => ?_, hothers⟩
    rw [hcs] at hcs'; cases hcs'
    rw [if_neg hc, g1, hsac]

/-- the `Remove` effect from a world satisfying the invariant -/
theorem remove_effect_winv (hw : WInv w) {it : QItem} {info : EvInfo} {loc : Loc} {c : Nat} {e : Key}
    (hkind : info.kind = .remove c) (hloc : w.entities.get e = some loc)
    (h : (effectPhase it info loc).run.run w = (.ok (), w')) :
    w'.getCell e c = none ∧
    (∀ c', c' ≠ c → w'.getCell e c' = w.getCell e c') ∧
    (∀ cs, w.compsOf e = some cs → w'.compsOf e = some (cs.filter (· != c))) ∧
    (∀ e', e' ≠ e → (∀ c', w'.getCell e' c' = w.getCell e' c') ∧ w'.compsOf e' = w.compsOf e') := by
  rw [effectPhase_remove hkind] at h
  obtain ⟨d, w1, h1, h2⟩ := run_bind_ok h
  obtain ⟨sa, hsa, -, hcs, -, hiff⟩ := read_winv hw hloc
  obtain ⟨ok1, hents, hreads, ⟨sa1, hsa1, hsac⟩, b, hb, hbc, hsame⟩ := traverseRemove_store_winv hw hsa h1
  have hloc1 : w1.entities.get e = some loc := by rw [hents]; exact hloc
  by_cases hc : c ∈ sa.comps
  · have hothers : ∀ e', e' ≠ e → (∀ c', w'.getCell e' c' = w.getCell e' c') ∧ w'.compsOf e' = w.compsOf e' := by
      intro e' hne
      obtain ⟨g1, g2⟩ := world_move_get_other ok1 hloc1 h2 e' hne
      exact ⟨fun c' => (g1 c').trans ((hreads e').1 c'), g2.trans (hreads e').2⟩
    rw [← hsac] at hbc
    obtain ⟨old, -, g2, g3, g4, -⟩ := world_remove_get_self ok1 hloc1 hsa1 hb (hsac ▸ hc) hbc h2
    refine ⟨g3, fun c' hne => (g4 c' hne).trans ((hreads e).1 c'), fun cs hcs' => ?_, hothers⟩
    rw [hcs] at hcs'; cases hcs'
    rw [g2, hsac]
  · cases hsame hc
    cases world_remove_absent ok1.idx h2
    have hnone : w.getCell e c = none := by
      cases hg : w.getCell e c with
      | none => rfl
      | some y => exact absurd ((hiff c).1 (by rw [hg]; rfl)) hc
    refine ⟨((hreads e).1 c).trans hnone, fun c' _ => (hreads e).1 c', fun cs hcs' => ?_, fun e' _ => hreads e'⟩
    rw [hcs] at hcs'; cases hcs'
    have hfil : sa.comps.filter (· != c) = sa.comps := by
      refine List.filter_eq_self.2 fun y hy => ?_
      have : y ≠ c := fun he => hc (he ▸ hy)
      simpa using this
    rw [hfil, (hreads e).2, hcs]

/-- the `Despawn` effect from a world satisfying the invariant (reservations may be pending: `spawn_all` runs first and
    leaves every entity that was alive untouched) -/
theorem despawn_effect_reads_winv (hw : WInv w) {it : QItem} {info : EvInfo} {loc : Loc} {e : Key}
    (hkind : info.kind = .despawn) (hloc : w.entities.get e = some loc)
    (h : (effectPhase it info loc).run.run w = (.ok (), w')) :
    w'.entities.get e = none ∧ (∀ c, w'.getCell e c = none) ∧ w'.compsOf e = none ∧
    (∀ e' l, e' ≠ e → w.entities.get e' = some l →
      (∀ c', w'.getCell e' c' = w.getCell e' c') ∧ w'.compsOf e' = w.compsOf e') := by
  rw [effectPhase_despawn hkind] at h
  obtain ⟨w1, w2, h1, h2, h3⟩ := despawn_run_ok h
  rw [despawn_refresh_cannot_fail h1 h2] at h3
  cases h3
  obtain ⟨⟨ok1, -⟩, hkeep⟩ := world_spawnAll hw.storeOk hw.hasEmpty h1
  obtain ⟨hloc1, -, -⟩ := hkeep e loc hloc
  obtain ⟨g1, g2, g3, g4⟩ := world_remove_get ok1 hloc1 h2
  refine ⟨g1, g2, g3, fun e' l hne hl => ?_⟩
  obtain ⟨-, k2, k3⟩ := hkeep e' l hl
  obtain ⟨m1, m2⟩ := g4 e' hne
  exact ⟨fun c' => (m1 c').trans (k2 c'), m2.trans k3⟩

variable {it : QItem} {info : EvInfo} {loc : Loc} {c : Nat} {e : Key}

/-- **C02, the `Insert` effect: "reading component C of entity e yields exactly the value most recently inserted for
    (e, C)".**  From a reachable world, after a normal return of the built-in effect of an `Insert` event for component
    `c` carrying the value `it.pay.cell`, applied to the live entity `e`:
    * reading `c` of `e` yields exactly the inserted value — whether or not `e` had `c` before;
    * every other component of `e` reads as before; `e`'s component set is the old one with `c` added;
    * every other id reads exactly as before and has the same component set. -/
theorem C02_insert_effect (hr : Reach w) (hs : Small w) (hkind : info.kind = .insert c)
    (hloc : w.entities.get e = some loc) (h : (effectPhase it info loc).run.run w = (.ok (), w')) :
    w'.getCell e c = some it.pay.cell ∧
    (∀ c', c' ≠ c → w'.getCell e c' = w.getCell e c') ∧
    (∀ cs, w.compsOf e = some cs → w'.compsOf e = some (if c ∈ cs then cs else insertSorted cs c)) ∧
    (∀ e', e' ≠ e → (∀ c', w'.getCell e' c' = w.getCell e' c') ∧ w'.compsOf e' = w.compsOf e') :=
  insert_effect_winv (winv hr hs) hkind hloc h

/-- **C02, the `Remove` effect: "… if e is alive and still has C, and nothing otherwise".**  From a reachable world,
    after a normal return of the built-in effect of a `Remove` event for component `c` applied to the live entity `e`:
    reading `c` of `e` yields nothing — whether or not `e` had `c` —; every other component of `e` reads as before; `e`'s
    component set is the old one without `c`; every other id reads exactly as before and has the same component set. -/
theorem C02_remove_effect (hr : Reach w) (hs : Small w) (hkind : info.kind = .remove c)
    (hloc : w.entities.get e = some loc) (h : (effectPhase it info loc).run.run w = (.ok (), w')) :
    w'.getCell e c = none ∧
    (∀ c', c' ≠ c → w'.getCell e c' = w.getCell e c') ∧
    (∀ cs, w.compsOf e = some cs → w'.compsOf e = some (cs.filter (· != c))) ∧
    (∀ e', e' ≠ e → (∀ c', w'.getCell e' c' = w.getCell e' c') ∧ w'.compsOf e' = w.compsOf e') :=
  remove_effect_winv (winv hr hs) hkind hloc h

/-- **C02, the `Despawn` effect.**  From a reachable world, after a normal return of the built-in effect of a `Despawn`
    event applied to the live entity `e`: `e` is not alive and every read of `e` yields nothing; every other entity
    that was alive reads exactly as before and has the same component set (its LOCATION may have changed: the
    swap-remove fix-up). -/
theorem C02_despawn_effect (hr : Reach w) (hs : Small w) (hkind : info.kind = .despawn)
    (hloc : w.entities.get e = some loc) (h : (effectPhase it info loc).run.run w = (.ok (), w')) :
    w'.entities.get e = none ∧ (∀ c, w'.getCell e c = none) ∧ w'.compsOf e = none ∧
    (∀ e' l, e' ≠ e → w.entities.get e' = some l →
      (∀ c', w'.getCell e' c' = w.getCell e' c') ∧ w'.compsOf e' = w.compsOf e') :=
  despawn_effect_reads_winv (winv hr hs) hkind hloc h

end effects

/-! ## C12 — every stored component value is destroyed exactly once and never seen afterwards

"Every component value that entered storage is destroyed exactly once — when it is overwritten, removed, its entity
despawned … — and it is never destroyed while still reachable through the API nor reachable after being destroyed."

`w.cells` are all cells in storage, `w.cdrops` the ledger of destructor calls (`(component type, serial)` of every
dropped cell whose type has a destructor).  The theorems of `Props/C12.lean` are about the pure store and need only
`Store.WF`; their world-level forms in `Props/C02World.lean` §4 need `StoreOk w`, discharged here.  Hypotheses left:

* `NewOk w src dst new` — the CONTRACT of the call: `new` lists exactly the components of the destination the source
  lacks.  It is about the arguments, not about the world; the model's callers (`deliverOne`: `[(c, cell)]` after
  `traverse_insert`, `[]` after `traverse_remove`) satisfy it by `C17.traverseInsert_spec` / `traverseRemove_spec`.
  Without it a supplied cell the merge loop never consumes would be neither stored nor destroyed.
* `hnd` — the serials of the stored (and supplied) cells are pairwise distinct.  This is NOT a consequence of
  `WInv ∧ Quiescent`: serials are test instrumentation handed out by the counter `nextCSerial`, which no field of `WInv`
  reads (a world with two equal serials in storage satisfies `WInv`), so it stays an explicit hypothesis of the two
  "destroyed ⇒ unreachable" theorems. -/

section ledger
variable {e : Key} {src : Loc} {dst : Nat} {new : List (Nat × Cell)} {loc : Loc}

theorem move_ledger_winv (hw : WInv w) (hnew : NewOk w src dst new)
    (h : (moveEntity src dst new).run.run w = (.ok (), w')) :
    ∃ dropped, (w.cells ++ new.map (·.2)).Perm (w'.cells ++ dropped) ∧
      w'.cdrops = dropLog w ((moveDropComps w src dst new).zip dropped) ++ w.cdrops ∧
      ((moveDropComps w src dst new).zip dropped).map (·.2) = dropped :=
  world_move_ledger hw.storeOk hnew h

/-- **C12, conservation for `Insert` / `Remove` (`moveEntity`).**  From a reachable world: every stored or newly
    supplied cell is afterwards either still stored or was passed to its destructor (`dropped`), exactly once
    (multiset equality); the ledger `cdrops` gained exactly the log of `dropped`, and no dropped cell is lost by the
    pairing with component indices. -/
theorem C12_move_ledger (hr : Reach w) (hs : Small w) (hnew : NewOk w src dst new)
    (h : (moveEntity src dst new).run.run w = (.ok (), w')) :
    ∃ dropped, (w.cells ++ new.map (·.2)).Perm (w'.cells ++ dropped) ∧
      w'.cdrops = dropLog w ((moveDropComps w src dst new).zip dropped) ++ w.cdrops ∧
      ((moveDropComps w src dst new).zip dropped).map (·.2) = dropped :=
  move_ledger_winv (winv hr hs) hnew h

theorem despawn_ledger_winv (hw : WInv w) (hloc : w.entities.get e = some loc)
    (h : (removeEntity loc).run.run w = (.ok (), w')) :
    ∃ dropped cs, w.cells.Perm (w'.cells ++ dropped) ∧ w.compsOf e = some cs ∧
      dropped.map some = cs.map (w.getCell e) ∧
      w'.cdrops = dropLog w (cs.zip dropped) ++ w.cdrops ∧ (cs.zip dropped).map (·.2) = dropped :=
  world_remove_ledger hw.storeOk hloc h

/-- **C12, conservation for `Despawn` (`removeEntity`).**  From a reachable world: the stored cells are afterwards
    still stored or destroyed, exactly once; the destroyed cells are exactly the despawned entity's component values,
    one per component of its archetype, in component order; `cdrops` gained exactly their log. -/
theorem C12_despawn_ledger (hr : Reach w) (hs : Small w) (hloc : w.entities.get e = some loc)
    (h : (removeEntity loc).run.run w = (.ok (), w')) :
    ∃ dropped cs, w.cells.Perm (w'.cells ++ dropped) ∧ w.compsOf e = some cs ∧
      dropped.map some = cs.map (w.getCell e) ∧
      w'.cdrops = dropLog w (cs.zip dropped) ++ w.cdrops ∧ (cs.zip dropped).map (·.2) = dropped :=
  despawn_ledger_winv (winv hr hs) hloc h

theorem move_destroyed_unreachable_winv (hw : WInv w) (hnew : NewOk w src dst new)
    (h : (moveEntity src dst new).run.run w = (.ok (), w'))
    (hnd : ((w.cells ++ new.map (·.2)).map (·.ser)).Nodup) :
    ∃ dropped, w'.cdrops = dropLog w ((moveDropComps w src dst new).zip dropped) ++ w.cdrops ∧
      ((moveDropComps w src dst new).zip dropped).map (·.2) = dropped ∧
      (dropped.map (·.ser)).Nodup ∧
      (∀ d ∈ dropped, ∀ e' c' y, w'.getCell e' c' = some y → y.ser ≠ d.ser) ∧
      (∀ e' c' y, w'.getCell e' c' = some y → y ∉ dropped) :=
  world_dropped_not_reachable hw.storeOk hnew h hnd

/-- **C12, destroyed ⇒ unreachable, reachable ⇒ not destroyed (`Insert` / `Remove`).**  From a reachable world in which
    the serials of the stored and the supplied cells are pairwise distinct (`hnd`, see the section header for why it
    stays): no serial is destroyed twice, no destroyed serial is readable afterwards from ANY entity, and no readable
    cell was destroyed. -/
theorem C12_move_destroyed_unreachable (hr : Reach w) (hs : Small w) (hnew : NewOk w src dst new)
    (h : (moveEntity src dst new).run.run w = (.ok (), w'))
    (hnd : ((w.cells ++ new.map (·.2)).map (·.ser)).Nodup) :
    ∃ dropped, w'.cdrops = dropLog w ((moveDropComps w src dst new).zip dropped) ++ w.cdrops ∧
      ((moveDropComps w src dst new).zip dropped).map (·.2) = dropped ∧
      (dropped.map (·.ser)).Nodup ∧
      (∀ d ∈ dropped, ∀ e' c' y, w'.getCell e' c' = some y → y.ser ≠ d.ser) ∧
      (∀ e' c' y, w'.getCell e' c' = some y → y ∉ dropped) :=
  move_destroyed_unreachable_winv (winv hr hs) hnew h hnd

theorem despawn_destroyed_unreachable_winv (hw : WInv w) (hloc : w.entities.get e = some loc)
    (h : (removeEntity loc).run.run w = (.ok (), w')) (hnd : (w.cells.map (·.ser)).Nodup) :
    ∃ dropped, w'.cdrops = dropLog w ((removeDropComps w loc).zip dropped) ++ w.cdrops ∧
      ((removeDropComps w loc).zip dropped).map (·.2) = dropped ∧
      (dropped.map (·.ser)).Nodup ∧
      (∀ d ∈ dropped, ∀ e' c' y, w'.getCell e' c' = some y → y.ser ≠ d.ser) ∧
      (∀ e' c' y, w'.getCell e' c' = some y → y ∉ dropped) :=
  world_remove_dropped_not_reachable hw.storeOk hloc h hnd

/-- **C12, destroyed ⇒ unreachable (`Despawn`).**  The same for `removeEntity` at the location of a live entity. -/
theorem C12_despawn_destroyed_unreachable (hr : Reach w) (hs : Small w) (hloc : w.entities.get e = some loc)
    (h : (removeEntity loc).run.run w = (.ok (), w')) (hnd : (w.cells.map (·.ser)).Nodup) :
    ∃ dropped, w'.cdrops = dropLog w ((removeDropComps w loc).zip dropped) ++ w.cdrops ∧
      ((removeDropComps w loc).zip dropped).map (·.2) = dropped ∧
      (dropped.map (·.ser)).Nodup ∧
      (∀ d ∈ dropped, ∀ e' c' y, w'.getCell e' c' = some y → y.ser ≠ d.ser) ∧
      (∀ e' c' y, w'.getCell e' c' = some y → y ∉ dropped) :=
  despawn_destroyed_unreachable_winv (winv hr hs) hloc h hnd

theorem move_dropped_was_stored_winv (hw : WInv w) (hnew : NewOk w src dst new)
    (h : (moveEntity src dst new).run.run w = (.ok (), w')) :
    ∃ dropped, Store.moveEntity (absStore w) src dst new = some (absStore w', dropped) ∧
      ∀ d ∈ dropped, d ∈ w.cells ∨ d ∈ new.map (·.2) :=
  world_move_dropped_was_stored hw.storeOk hnew h

/-- **C12, nothing is destroyed that was not there.**  From a reachable world every cell `moveEntity` destroys was
    stored before the call or is one of the supplied cells. -/
theorem C12_move_dropped_was_stored (hr : Reach w) (hs : Small w) (hnew : NewOk w src dst new)
    (h : (moveEntity src dst new).run.run w = (.ok (), w')) :
    ∃ dropped, Store.moveEntity (absStore w) src dst new = some (absStore w', dropped) ∧
      ∀ d ∈ dropped, d ∈ w.cells ∨ d ∈ new.map (·.2) :=
  move_dropped_was_stored_winv (winv hr hs) hnew h

theorem spawn_ledger_winv (hw : WInv w) (h : spawnStep.run.run w = (.ok (), w')) :
    w'.cells = w.cells ∧ w'.cdrops = w.cdrops :=
  world_spawn_ledger hw.storeOk hw.hasEmpty h

/-- **C12, spawning neither stores nor destroys a value.** -/
theorem C12_spawn_ledger (hr : Reach w) (hs : Small w) (h : spawnStep.run.run w = (.ok (), w')) :
    w'.cells = w.cells ∧ w'.cdrops = w.cdrops :=
  spawn_ledger_winv (winv hr hs) h

/-- **C12, every readable value is a stored cell** (so the conservation statements above do speak about everything
    the API can reach) -/
theorem C12_read_is_stored (e : Key) (c : Nat) (y : Cell) (h : w.getCell e c = some y) : y ∈ w.cells :=
  Store.get_mem_cells h

end ledger

/-! ## C03 — entity ids are unique, become valid as promised, never reused

"Every id returned by spawning — from the world or from a handler's Sender — differs from every id returned earlier in
that world, identifies exactly one new component-less entity from the moment its Spawn event has been delivered
(immediately on return for the world-level call), and stays valid until that entity is despawned.  The id of a despawned
entity never becomes valid again …"

`Props/C03World.lean` is conditional on `Reserved w ks` (the pending reservations are exactly the keys the entity map
hands out next), `ArchOK w.archs`, "the row holds a live id", `¬ Taken` (nobody takes a `Spawn` event).  In a reachable
world `Reserved w []` holds (`Quiescent`), `ArchOK` and the row fact follow from `WInv`, and `¬ Taken` follows from
`WInv` as well (`not_taken_spawn`: the receivers of a `Spawn` event receive it immutably, `HandlerOK.spawnImm`) — this
hypothesis of `spawn_delivered_all_alive` / `world_spawn_returns_live`, which `C03World` had to leave open, is discharged
here.  The `_winv` forms take `WInv w` and `Reserved w ks` (the state inside a flush: `WInvMid`). -/

/-- **C03, no reservation is pending in a reachable world**, and the entity map is a well-formed slot map (occupied ⇔
    odd generation, free list sound, `len` = number of live ids …: `SlotMap.WF`, the hypothesis of `Props/C03.lean`). -/
theorem C03_nothing_reserved (hr : Reach w) (hs : Small w) : Reserved w [] ∧ w.entities.WF :=
  ⟨(quiescent hr hs).2, (winv hr hs).entsWF⟩

/-- **C03, `reserve` from a reachable world** (the id `World::spawn` returns).  On normal return with `k`: exactly `[k]` is
    pending afterwards; nothing was created (entity map and archetypes unchanged); `k` is not valid and was never
    valid: its slot was never allocated, or is not retired and has a generation strictly below `k`'s. -/
theorem C03_reserve (hr : Reach w) (hs : Small w) {k : Key} (h : reserve.run.run w = (.ok k, w')) :
    Reserved w' [k] ∧ w'.entities = w.entities ∧ w'.archs = w.archs ∧
    w.entities.contains k = false ∧ ¬ w.entities.Covers k ∧
    (∀ s, w.entities.slots[k.idx]? = some s → s.gen ≠ 0 ∧ s.gen < k.gen) := by
  obtain ⟨h1, -, h3, h4, h5, h6, h7⟩ := reserve_spec (quiescent hr hs).2 h
  exact ⟨by simpa using h1, h3, h4, h5, h6, h7⟩

/-- **C03, `reserve` from a reachable world never hits `panic!("incorrect state for next key iter")`**: it returns an
    id or panics for lack of capacity, and in the latter case the world is unchanged. -/
theorem C03_reserve_total (hr : Reach w) (hs : Small w) :
    (∃ k w', reserve.run.run w = (.ok k, w')) ∨ reserve.run.run w = (.error (.panic "capacity"), w) := by
  have hb := reserve_never_badState (quiescent hr hs).2
  rw [reserve_run]
  cases hk : w.entities.nextKey w.resIndex with
  | key k i' => exact .inl ⟨k, _, rfl⟩
  | exhausted => exact .inr rfl
  | badState => exact absurd hk hb

/-- every live id is "covered" (was issued at some time): with `spawnAll_dead_stays_dead` / `C03_despawn_effect`, an id
    that is covered and not alive is never handed out again -/
theorem C03_live_covered {e : Key} {loc : Loc} (he : w.entities.get e = some loc) : w.entities.Covers e :=
  SlotMap.covers_of_get he

theorem spawnAll_ids_winv (hw : WInv w) {ks : List Key} (hres : Reserved w ks)
    (h : spawnAll.run.run w = (.ok (), w')) :
    ∃ a0, w.archs.get 0 = some a0 ∧ a0.comps = [] ∧
    Reserved w' [] ∧
    (∀ i k, ks[i]? = some k → w'.entities.get k = some ⟨0, a0.ids.length + i⟩) ∧
    (∃ a', w'.archs.get 0 = some a' ∧ a'.ids = a0.ids ++ ks ∧ a'.comps = [] ∧ a'.cols = a0.cols ∧ a'.index = 0 ∧
      ∀ i k, ks[i]? = some k → a'.ids[a0.ids.length + i]? = some k) ∧
    (∀ i, i ≠ 0 → w'.archs.get i = w.archs.get i) ∧
    (∀ k, k ∉ ks → w'.entities.get k = w.entities.get k) ∧
    (∀ k l, w.entities.get k = some l → w'.entities.get k = some l) ∧
    w'.entities.len = w.entities.len + ks.length ∧
    (∀ k, w.entities.Covers k → w'.entities.Covers k) := by
  obtain ⟨hidx, a0, ha0, hc0⟩ := hw.archOK
  exact ⟨a0, ha0, hc0, spawnAll_spec hres ha0 (hidx 0 a0 ha0) hc0 h⟩

/-- **C03, `spawn_all` from a reachable world** creates nothing (nothing is reserved): every id is exactly as valid as
    before, at the same location.  The form for the worlds inside a flush, where ids ARE pending, is
    `spawnAll_ids_winv` (every reserved id becomes a component-less entity in archetype 0, in reservation order;
    nothing else changes). -/
theorem C03_spawnAll (hr : Reach w) (hs : Small w) (h : spawnAll.run.run w = (.ok (), w')) :
    Reserved w' [] ∧ (∀ k, w'.entities.get k = w.entities.get k) ∧ w'.entities.len = w.entities.len := by
  obtain ⟨a0, -, -, h1, -, -, -, h5, -, h7, -⟩ := spawnAll_ids_winv (winv hr hs) (quiescent hr hs).2 h
  exact ⟨h1, fun k => h5 k (by simp), by simpa using h7⟩

theorem despawn_effect_winv (hw : WInv w) {ks : List Key} (hres : Reserved w ks) {id : Key} {loc : Loc}
    (hloc : w.entities.get id = some loc) (h : (fixedDespawn loc).run.run w = (.ok (), w')) :
    Reserved w' [] ∧ id ∉ ks ∧ (∀ k ∈ ks, w'.entities.contains k = true) ∧
    w'.entities.contains id = false ∧ w'.entities.Covers id ∧
    (∀ k, k ≠ id → k ∉ ks → w'.entities.contains k = w.entities.contains k) ∧
    w'.entities.len + 1 = w.entities.len + ks.length ∧
    (∀ k, w.entities.Covers k → w'.entities.Covers k) := by
  obtain ⟨hidx, a0, ha0, hc0⟩ := hw.archOK
  obtain ⟨a, ha, hid, -⟩ := read_winv hw hloc
  have hlive : w.entities.contains id = true := by simp [SlotMap.contains, hloc]
  obtain ⟨h1, h2, h3, h4, h5, h6, h7⟩ :=
    despawn_effect_keeps_reserved hres ha0 (hidx 0 a0 ha0) hc0 ha hid hlive h
  exact ⟨h1, h2, h3, h4, h7 id (SlotMap.covers_of_get hloc), h5, h6, h7⟩

/-- **C03, the `Despawn` effect from a reachable world** (`spawn_all; remove_entity; refresh`, for the live entity `id`
    at `loc`).  On normal return: nothing is reserved, `id` is not valid any more but stays covered (so no later
    `spawn_all` can hand it out again: `dead_stays_dead_winv`), every other id is exactly as valid as before, `len`
    dropped by one, coverage only grows.  `despawn_effect_winv` is the form with reservations pending (F2: they are
    materialised BEFORE the slot is freed, and the target is none of them). -/
theorem C03_despawn_effect (hr : Reach w) (hs : Small w) {id : Key} {loc : Loc}
    (hloc : w.entities.get id = some loc) (h : (fixedDespawn loc).run.run w = (.ok (), w')) :
    Reserved w' [] ∧ w'.entities.contains id = false ∧ w'.entities.Covers id ∧
    (∀ k, k ≠ id → w'.entities.contains k = w.entities.contains k) ∧
    w'.entities.len + 1 = w.entities.len ∧
    (∀ k, w.entities.Covers k → w'.entities.Covers k) := by
  obtain ⟨h1, -, -, h4, h5, h6, h7, h8⟩ := despawn_effect_winv (winv hr hs) (quiescent hr hs).2 hloc h
  exact ⟨h1, h4, h5, fun k hk => h6 k hk (by simp), by simpa using h7, h8⟩

theorem dead_stays_dead_winv (hw : WInv w) {ks : List Key} (hres : Reserved w ks) {d : Key}
    (h : spawnAll.run.run w = (.ok (), w')) (hcov : w.entities.Covers d) (hdead : w.entities.contains d = false) :
    w'.entities.contains d = false ∧ w'.entities.Covers d := by
  obtain ⟨hidx, a0, ha0, hc0⟩ := hw.archOK
  exact spawnAll_dead_stays_dead hres ha0 (hidx 0 a0 ha0) hc0 h hcov hdead

/-- **C03, "the id of a despawned entity never becomes valid again" (one `spawn_all` at a time).**  An id that is not
    valid but was valid at some time (`Covers`) is still invalid — and still covered — after `spawn_all`. -/
theorem C03_dead_stays_dead (hr : Reach w) (hs : Small w) {d : Key} (h : spawnAll.run.run w = (.ok (), w'))
    (hcov : w.entities.Covers d) (hdead : w.entities.contains d = false) :
    w'.entities.contains d = false ∧ w'.entities.Covers d :=
  dead_stays_dead_winv (winv hr hs) (quiescent hr hs).2 h hcov hdead

/-- **C03, `Insert` / `Remove` / ordinary events do not disturb ids.**  From a reachable world the built-in effect of
    an event of kind `insert`, `remove` or `normal` — however it ends — leaves nothing reserved and the set of valid
    ids unchanged.  (General form: `relocating_effect_keeps_ids`, from any `Reserved w ks`.) -/
theorem C03_relocating_effect (hr : Reach w) (hs : Small w) {it : QItem} {info : EvInfo} {loc : Loc}
    (hkind : info.kind ≠ .spawn ∧ info.kind ≠ .despawn) :
    Reserved ((effectPhase it info loc).run.run w).2 [] ∧
    ∀ k, ((effectPhase it info loc).run.run w).2.entities.contains k = w.entities.contains k :=
  relocating_effect_keeps_ids hkind (quiescent hr hs).2

theorem handlerPhase_reserved_winv (hw : WInv w) {ks : List Key} (hres : Reserved w ks) {it : QItem} {info : EvInfo}
    {loc : Loc} {hl : List Key} :
    let wh := ((handlerPhase it info loc hl).run.run w).2
    wh.entities = w.entities ∧ ArchOK wh.archs ∧ (∀ i, (wh.archs.get i).map (·.ids) = (w.archs.get i).map (·.ids)) ∧
      ∃ ks', Reserved wh (ks ++ ks') :=
  handlerPhase_extends_reserved hres hw.archOK

/-- **C03, handlers can only reserve more.**  Whatever the handlers of one delivery do, started from a reachable world
    (and however the handler phase ends), they leave the entity map exactly as it was — no id becomes valid or invalid
    while handlers run — and what is pending afterwards are exactly the ids they reserved. -/
theorem C03_handlerPhase (hr : Reach w) (hs : Small w) {it : QItem} {info : EvInfo} {loc : Loc} {hl : List Key} :
    let wh := ((handlerPhase it info loc hl).run.run w).2
    wh.entities = w.entities ∧ (∀ i, (wh.archs.get i).map (·.ids) = (w.archs.get i).map (·.ids)) ∧
      ∃ ks', Reserved wh ks' := by
  obtain ⟨h1, -, h3, ks', h4⟩ := handlerPhase_reserved_winv (winv hr hs) (quiescent hr hs).2 (it := it) (info := info)
    (loc := loc) (hl := hl)
  exact ⟨h1, h3, ks', by simpa using h4⟩

/-- **nobody can take a `Spawn` event** (discharges the hypothesis `¬ Taken` of `spawn_delivered_all_alive` and
    `world_spawn_returns_live`): in a world satisfying the invariant, every handler on the global list of an event whose
    registry entry has kind `spawn` receives `Spawn`, hence immutably (`Spawn: Mutability = Immutable`; `Op.Valid`
    excludes the handler specifications Rust would not type), and a handler that receives immutably returns "not
    taken". -/
theorem not_taken_spawn (hw : WInv w) {it : QItem} (hsp : it.spawns w.gevs = true) : ¬ Taken it w := by
  rintro ⟨info, hl, loc, wh, hlook, hh⟩
  have ht : it.ty.targeted = false := by
    cases hb : it.ty.targeted
    · rfl
    · rw [InvV5.spawns_false_of_targeted hb] at hsp; cases hsp
  obtain ⟨gk, l, -, hbl, hhs⟩ := InvV5.lookupPhase_global ht hlook
  cases hhs
  have hnt : InvV5.NTs l.entries { w with inflightOwned := false } := InvV5.spawn_receivers_immutable hw hsp hbl
  rw [handlerPhase_run] at hh
  have := (InvV5.handlerLoop_false it info loc l.entries).run _ hnt true wh hh
  cases this

theorem spawns_of_evInfo {it : QItem} {info : EvInfo} (hinfo : w.evInfo it = some info) (hkind : info.kind = .spawn)
    (hglob : it.ty.targeted = false) : it.spawns w.gevs = true := by
  unfold World.evInfo at hinfo
  rw [hglob] at hinfo
  simp only [Bool.false_eq_true, if_false] at hinfo
  unfold QItem.spawns
  rw [hglob]
  cases hg : w.gevs.getByIndex it.idx with
  | none => rw [hg] at hinfo; cases hinfo
  | some p =>
    obtain ⟨k, i⟩ := p
    rw [hg] at hinfo
    cases hinfo
    have hk : i.kind = .spawn := hkind
    simp [hk]

theorem spawn_delivered_winv (hw : WInv w) {ks : List Key} (hres : Reserved w ks) {it : QItem} {info : EvInfo}
    (hinfo : w.evInfo it = some info) (hkind : info.kind = .spawn) (hglob : it.ty.targeted = false)
    (h : (deliverOne it).run.run w = (.ok (), w')) :
    ∃ ks' a0 a', w.archs.get 0 = some a0 ∧
      Reserved w' [] ∧
      (∀ i k, (ks ++ ks')[i]? = some k → w'.entities.get k = some ⟨0, a0.ids.length + i⟩) ∧
      (∀ k ∈ ks ++ ks', w'.entities.contains k = true) ∧
      w'.archs.get 0 = some a' ∧ a'.ids = a0.ids ++ (ks ++ ks') ∧ a'.comps = [] ∧
      (∀ k l, w.entities.get k = some l → w'.entities.get k = some l) ∧
      (∀ k, k ∉ ks ++ ks' → w'.entities.get k = w.entities.get k) ∧
      w'.entities.len = w.entities.len + (ks ++ ks').length :=
  spawn_delivered_all_alive hres hw.archOK hinfo hkind hglob
    (not_taken_spawn hw (spawns_of_evInfo hinfo hkind hglob)) h

/-- **C03, "a spawned entity exists once its `Spawn` event has been delivered" — with NO hypothesis on the handlers.**
    Deliver a global event whose registry entry has kind `spawn` from a reachable world (general form, with
    reservations `ks` pending as inside a flush: `spawn_delivered_winv`).  On normal return every id `ks'` the handlers
    of this delivery reserved is a valid component-less entity in archetype 0, in reservation order after the rows
    archetype 0 had; nothing is left reserved; every entity that was valid is valid at the same location; no other id
    changed. -/
theorem C03_spawn_delivered (hr : Reach w) (hs : Small w) {it : QItem} {info : EvInfo}
    (hinfo : w.evInfo it = some info) (hkind : info.kind = .spawn) (hglob : it.ty.targeted = false)
    (h : (deliverOne it).run.run w = (.ok (), w')) :
    ∃ ks' a0 a', w.archs.get 0 = some a0 ∧
      Reserved w' [] ∧
      (∀ i k, ks'[i]? = some k → w'.entities.get k = some ⟨0, a0.ids.length + i⟩) ∧
      (∀ k ∈ ks', w'.entities.contains k = true) ∧
      w'.archs.get 0 = some a' ∧ a'.ids = a0.ids ++ ks' ∧ a'.comps = [] ∧
      (∀ k l, w.entities.get k = some l → w'.entities.get k = some l) ∧
      (∀ k, k ∉ ks' → w'.entities.get k = w.entities.get k) ∧
      w'.entities.len = w.entities.len + ks'.length := by
  obtain ⟨ks', a0, a', h⟩ := spawn_delivered_winv (winv hr hs) (quiescent hr hs).2 hinfo hkind hglob h
  simp only [List.nil_append] at h
  exact ⟨ks', a0, a', h⟩

/-! ### `World::spawn` -/

/-- `world_spawn_delivers_first` (Props/C03World.lean) with the intermediate world related to the start world on
    every field the invariant reads (`RelEq`), so that the invariant can be transported to it -/
theorem opSpawn_first_delivery {id gk : Key} {gi : EvInfo}
    (hres : Reserved w []) (hq : w.queue = []) (hreg : w.gevOfTy .spawn = some (gk, gi))
    (h : opSpawn.run.run w = (.ok id, w')) :
    ∃ w1 w'' wd, Reserved w1 [id] ∧ RelEq w w1 ∧ w1.queue = [] ∧
      (deliverOne (spawnItem gk id)).run.run w1 = (.ok (), w'') ∧
      Dfs deliverOne { w'' with queue := [] } w''.queue.reverse wd ∧
      w' = { wd with arenaEpoch := wd.arenaEpoch + 1, ords := wd.ords.push id } := by
  unfold opSpawn at h
  rw [run_bind] at h
  generalize hrs : reserve.run.run w = r at h
  obtain ⟨(e|k), w0⟩ := r
  · cases h
  · obtain ⟨hr0, -⟩ := reserve_spec hres hrs
    simp only at h
    rw [run_bind] at h
    generalize hsend : (sendGlobal .spawn { ent := k }).run.run w0 = r at h
    obtain ⟨(e|u), w3⟩ := r
    · cases h
    · simp only [run_bind, run_modify, run_pure] at h
      cases h
      have hw0 : RelEq w w0 ∧ w0.queue = w.queue := by
        rw [reserve_run] at hrs
        cases hk : w.entities.nextKey w.resIndex with
        | key k0 i' => rw [hk] at hrs; cases hrs; exact ⟨by releq, rfl⟩
        | exhausted => rw [hk] at hrs; cases hrs
        | badState => rw [hk] at hrs; cases hrs
      have hreg0 : w0.gevOfTy .spawn = some (gk, gi) := by
        unfold World.gevOfTy at hreg ⊢; rw [hw0.1.gevs]; exact hreg
      unfold sendGlobal at hsend
      rw [run_bind, run_tryCatch, addGlobalEvent_registered (by decide) hreg0] at hsend
      simp only at hsend
      rw [run_bind] at hsend
      unfold push at hsend
      rw [run_modify] at hsend
      simp only at hsend
      obtain ⟨wd, hdfs, rfl⟩ := flush_is_dfs hsend
      have hqueue : w0.queue ++ [spawnItem gk id] = [spawnItem gk id] := by rw [hw0.2, hq]; rfl
      have hdfs' : Dfs deliverOne { w0 with queue := [] } [spawnItem gk id] wd := by
        have := hdfs
        simp only at this
        rw [show ({ ty := EvTy.spawn, idx := gk.idx, pay := { ent := id } } : QItem) = spawnItem gk id from rfl,
          hqueue] at this
        exact this
      obtain ⟨w'', w2, hd, hrest, hnil⟩ := effect_before_queued_events hdfs'
      cases hnil
      have hrel : RelEq w { w0 with queue := [] } :=
        ⟨hw0.1.entities, hw0.1.comps, hw0.1.gevs, hw0.1.tevs, hw0.1.handlers, hw0.1.byGlobal, hw0.1.insertCounter,
          hw0.1.byInsertOrder, hw0.1.archs, hw0.1.removedIds⟩
      exact ⟨{ w0 with queue := [] }, w'', _, hr0, hrel, rfl, hd, hrest, rfl⟩

/-- the id `World::spawn` returns is new, from any world in which nothing is reserved; the id is what the call appends to
    `ords` (the ids handed to the caller so far) -/
theorem world_spawn_fresh_res (hres : Reserved w []) {id : Key} (h : opSpawn.run.run w = (.ok id, w')) :
    w.entities.contains id = false ∧ ¬ w.entities.Covers id ∧
    (∀ s, w.entities.slots[id.idx]? = some s → s.gen ≠ 0 ∧ s.gen < id.gen) ∧
    ∃ w3 : World, w' = { w3 with ords := w3.ords.push id } := by
  unfold opSpawn at h
  rw [run_bind] at h
  generalize hrs : reserve.run.run w = r at h
  obtain ⟨(e|k), w0⟩ := r
  · cases h
  · obtain ⟨-, -, -, -, h5, h6, h7⟩ := reserve_spec hres hrs
    simp only at h
    rw [run_bind] at h
    generalize (sendGlobal .spawn { ent := k }).run.run w0 = r at h
    obtain ⟨(e|u), w3⟩ := r
    · cases h
    · simp only [run_bind, run_modify, run_pure] at h
      cases h
      exact ⟨h5, h6, h7, w3, rfl⟩

/-- **C03, the id `World::spawn` returns is new.**  From a reachable world, the id returned by `World::spawn` is not
    valid at the time of the call and was never valid before (its slot was never allocated, or is not retired and has a
    strictly smaller generation): it "differs from every id returned earlier in that world" that was ever an entity.
    No hypothesis on registered events or handlers. -/
theorem C03_world_spawn_fresh (hr : Reach w) (hs : Small w) {id : Key} (h : opSpawn.run.run w = (.ok id, w')) :
    w.entities.contains id = false ∧ ¬ w.entities.Covers id ∧
    (∀ s, w.entities.slots[id.idx]? = some s → s.gen ≠ 0 ∧ s.gen < id.gen) := by
  obtain ⟨h1, h2, h3, -⟩ := world_spawn_fresh_res (quiescent hr hs).2 h
  exact ⟨h1, h2, h3⟩

/-- **C03 at the level of the driver: a top-level `spawn` step returns a new id.**  If the operation `spawn` returns
    normally from a reachable world `w`, then the id it returned — the last entry of `ords` in the next world
    `(step w .spawn).1`, the one the harness prints as `id e …` — was not valid in `w` and had never been valid; and the
    next world is reachable again, so this holds for every later `spawn` as well. -/
theorem C03_step_spawn_fresh (hr : Reach w) (hs : Small w) (hok : StepOk w .spawn) :
    Reach (step w .spawn).1 ∧
    ∃ id, (step w .spawn).1.ords.back? = some id ∧ w.entities.contains id = false ∧ ¬ w.entities.Covers id := by
  refine ⟨Reach.step .spawn hr trivial hok, ?_⟩
  obtain ⟨lines, hl⟩ := hok
  rw [step_fst]
  generalize hrun : (execOp .spawn).run.run (stepInit w) = r at hl
  obtain ⟨(e | a), w2⟩ := r
  · cases hl
  · unfold execOp at hrun
    dsimp only at hrun
    obtain ⟨id, w1, h1, h2⟩ := run_bind_ok hrun
    simp only [run_bind, run_get, run_pure] at h2
    cases h2
    have hres : Reserved (stepInit w) [] := (quiescent hr hs).2
    obtain ⟨g1, g2, -, w3, rfl⟩ := world_spawn_fresh_res hres h1
    exact ⟨id, by simp, g1, g2⟩

/-- `World::spawn` from any quiescent world satisfying the invariant (e.g. the world `stepInit w` in which `step` runs the
    operation) -/
theorem world_spawn_winv (hw : WInv w) (hq0 : Quiescent w) {id gk : Key} {gi : EvInfo}
    (hreg : w.gevOfTy .spawn = some (gk, gi)) (h : opSpawn.run.run w = (.ok id, w')) :
    w.entities.contains id = false ∧ ¬ w.entities.Covers id ∧
    ∃ w1 w'' wd a0, w.archs.get 0 = some a0 ∧ w1.entities = w.entities ∧
      (deliverOne (spawnItem gk id)).run.run w1 = (.ok (), w'') ∧
      Dfs deliverOne { w'' with queue := [] } w''.queue.reverse wd ∧
      w' = { wd with arenaEpoch := wd.arenaEpoch + 1, ords := wd.ords.push id } ∧
      w''.entities.get id = some ⟨0, a0.ids.length⟩ ∧ Reserved w'' [] ∧
      (∃ a', w''.archs.get 0 = some a' ∧ a'.comps = [] ∧ a'.ids[a0.ids.length]? = some id) ∧
      ∀ k l, w.entities.get k = some l → w''.entities.get k = some l := by
  obtain ⟨hq, hres⟩ := hq0
  obtain ⟨w1, w'', wd, hr1, hrel, -, hd, hdfs, hw'⟩ := opSpawn_first_delivery hres hq hreg h
  have hw1 : WInv w1 := hw.frame hrel
  have hfresh := (reserved_fresh_local hr1).2 id (by simp)
  rw [hrel.entities] at hfresh
  -- the registry entry of `Spawn`
  have hgi := gevOfTy_getByIndex hreg
  have hget : w.gevs.get gk = some gi := (SlotMap.getByIndex_get hgi).1
  have hty : gi.ty = .spawn := by
    have := List.find?_some hreg
    simpa using this
  have hkind : gi.kind = .spawn := by
    rw [hw.registry.gevKind gk gi hget, hty]; rfl
  have hinfo : w1.evInfo (spawnItem gk id) = some gi := by
    unfold World.evInfo
    rw [show (spawnItem gk id).ty.targeted = false from rfl]
    simp only [Bool.false_eq_true, if_false]
    rw [show (spawnItem gk id).idx = gk.idx from rfl, hrel.gevs, hgi]
    rfl
  obtain ⟨ks', a0, a', ha0, hres'', hnew, -, ha', hids', hcomps', hkeep, -, -⟩ :=
    spawn_delivered_winv hw1 hr1 hinfo hkind rfl hd
  rw [hrel.archs] at ha0
  have h0 := hnew 0 id (by simp)
  refine ⟨hfresh.1, hfresh.2.1, w1, w'', wd, a0, ha0, hrel.entities, hd, hdfs, hw', by simpa using h0, hres'',
    ⟨a', ha', hcomps', ?_⟩, fun k l hl => hkeep k l (by rw [hrel.entities]; exact hl)⟩
  rw [hids']; simp

/-- **C03, `World::spawn`: the returned id "identifies exactly one new component-less entity from the moment its Spawn
    event has been delivered".**  From a reachable world in which the event type `Spawn` is registered (`hreg`), on
    normal return of `World::spawn` with `id`:
    * `id` was not valid and never had been;
    * the call's flush starts with the delivery of the `Spawn` event carrying `id` (from `w1`, which has the entity map
      of `w`); in the state `w''` right after that delivery `id` is a valid entity in the last row of the component-less
      archetype 0, nothing is reserved, and every entity that was valid in `w` is valid at the same location;
    * the rest of the call is the depth-first propagation (`Dfs`) of what that delivery queued, from `w''` — it may of
      course contain a `Despawn` of the new entity: "stays valid until that entity is despawned".

    Compared with `world_spawn_returns_live`: `Reserved`, `ArchOK`, the empty queue, "the registry entry has kind `spawn`"
    and "no handler takes the event" are all discharged.  `hreg` stays: the existing analysis of the call covers the
    case where `Spawn` is already registered (every world after the first successful `spawn`); when it is not,
    `sendGlobal` first registers it, which runs a flush of its own (`AddGlobalEvent` handlers) before the `Spawn` event is
    pushed, and the statement would have to start from the world that flush ends in. -/
theorem C03_world_spawn (hr : Reach w) (hs : Small w) {id gk : Key} {gi : EvInfo}
    (hreg : w.gevOfTy .spawn = some (gk, gi)) (h : opSpawn.run.run w = (.ok id, w')) :
    w.entities.contains id = false ∧ ¬ w.entities.Covers id ∧
    ∃ w1 w'' wd a0, w.archs.get 0 = some a0 ∧ w1.entities = w.entities ∧
      (deliverOne (spawnItem gk id)).run.run w1 = (.ok (), w'') ∧
      Dfs deliverOne { w'' with queue := [] } w''.queue.reverse wd ∧
      w' = { wd with arenaEpoch := wd.arenaEpoch + 1, ords := wd.ords.push id } ∧
      w''.entities.get id = some ⟨0, a0.ids.length⟩ ∧ Reserved w'' [] ∧
      (∃ a', w''.archs.get 0 = some a' ∧ a'.comps = [] ∧ a'.ids[a0.ids.length]? = some id) ∧
      ∀ k l, w.entities.get k = some l → w''.entities.get k = some l :=
  world_spawn_winv (winv hr hs) (quiescent hr hs) hreg h

/-! ## C10 — what a handler's queries see reflects the current world

"Whatever a handler's fetcher, Single/TrySingle parameter or targeted receiver query observes is the state of the world
at that invocation, no matter which structural changes happened since …"  The mechanism: every query-carrying parameter
`p` of a live handler caches, per archetype index, the arch state (column pointers) it computed, paired with the buffer
epoch the pointers were taken at (`p.cache : SparseMap (AS × Nat)`).

`Props/C10.lean` is conditional on `C10.CacheInv N w.handlers w.archs` (and on `SparseMap.WF`, `a.index = loc.arch`, the
shape conjunct of `invStore` …).  In a reachable world all of it follows from `WInv` (`WInv.cacheInv`, `WInv.cache`,
`C17_entities_rows`). -/

section cache
variable {k : Key} {h : HInfo} {p : Param}

theorem cache_entry_winv (hw : WInv w) (hk : w.handlers.get k = some h) (hp : p ∈ h.params)
    (hq : p.hasQ = true) (i : Nat) :
    p.cache.get i =
      match w.archs.get i with
      | none => none
      | some a => if a.ids.isEmpty then none else (p.q.archState a.S).map (·, a.epoch) := by
  cases ha : w.archs.get i with
  | none =>
    refine (SparseMap.get_eq_none_iff (hw.cache.caches.wf k h hk p hp).1 i).2 fun hmem => ?_
    have := hw.cache.live k h hk p hp hq i hmem
    rw [ha] at this
    cases this
  | some a =>
    have := hw.cache.caches.exact k h hk p hp hq i a ha
    unfold CacheExact at this
    rw [hw.indexOK i a ha] at this
    exact this

/-- **C10, what a fetcher cache contains.**  In a reachable world, for every query-carrying parameter `p` of every live
    handler and EVERY index `i`: the cache has an entry for `i` exactly if `i` is a live, non-empty archetype whose
    component set the query matches, and then the entry is the arch state computed from that component set paired with
    the archetype's CURRENT buffer epoch ("the current column buffers").  For a dead index, an empty archetype or a
    non-matching one there is no entry. -/
theorem C10_cache_entry (hr : Reach w) (hs : Small w) (hk : w.handlers.get k = some h) (hp : p ∈ h.params)
    (hq : p.hasQ = true) (i : Nat) :
    p.cache.get i =
      match w.archs.get i with
      | none => none
      | some a => if a.ids.isEmpty then none else (p.q.archState a.S).map (·, a.epoch) :=
  cache_entry_winv (winv hr hs) hk hp hq i

/-- **C10, "cached archetype entries are exactly the non-empty matching archetypes".**  The keys of the cache are
    exactly the indices of the live archetypes that have at least one row and that the query selects (`Query.sem`, the
    documented meaning of the query on a component set); the cache is a well-formed sparse map with keys below the slab
    length. -/
theorem C10_cache_keys (hr : Reach w) (hs : Small w) (hk : w.handlers.get k = some h) (hp : p ∈ h.params)
    (hq : p.hasQ = true) :
    SparseMap.WF p.cache ∧ (∀ i ∈ p.cache.keys, i < w.archs.entries.length) ∧
    ∀ i, i ∈ p.cache.keys ↔ ∃ a, w.archs.get i = some a ∧ a.ids ≠ [] ∧ p.q.sem a.S = true := by
  have hw := winv hr hs
  obtain ⟨hwf, hbelow⟩ := hw.cache.caches.wf k h hk p hp
  refine ⟨hwf, hbelow, fun i => ?_⟩
  have hentry := cache_entry_winv hw hk hp hq i
  have hmem : i ∈ p.cache.keys ↔ p.cache.get i ≠ none := by
    rw [Ne, SparseMap.get_eq_none_iff hwf]; exact Classical.not_not.symm
  rw [hmem, hentry]
  cases ha : w.archs.get i with
  | none =>
    constructor
    · intro hc; exact absurd rfl hc
    · rintro ⟨a, ha', -⟩; cases ha'
  | some a =>
    dsimp only
    have hsem := archState_isSome_eq_sem p.q a.S
    cases hids : a.ids with
    | nil =>
      constructor
      · intro hc; exact absurd rfl hc
      · rintro ⟨a', ha', hne, -⟩; cases ha'; exact absurd hids hne
    | cons x xs =>
      rw [show (x :: xs).isEmpty = false from rfl, if_neg Bool.false_ne_true]
      cases hst : p.q.archState a.S with
      | none =>
        rw [hst] at hsem
        constructor
        · intro hc; exact absurd rfl hc
        · rintro ⟨a', ha', -, hs'⟩
          cases ha'
          rw [← hsem] at hs'; cases hs'
      | some st =>
        rw [hst] at hsem
        constructor
        · intro _; exact ⟨a, rfl, by rw [hids]; exact List.cons_ne_nil _ _, hsem.symm⟩
        · intro _ hc; cases hc

/-- **C10, refresh listeners cover every parameter.**  In a reachable world, if a query parameter of a live handler `k`
    selects the live archetype `a`, then `k` is among `a`'s refresh listeners — so it is told (`refresh_archetype` /
    `remove_archetype`) whenever `a`'s buffers are reallocated or `a` becomes empty / non-empty. -/
theorem C10_refresh_covers (hr : Reach w) (hs : Small w) (hk : w.handlers.get k = some h) (hp : p ∈ h.params)
    (hq : p.hasQ = true) {i : Nat} {a : Arch} (ha : w.archs.get i = some a) (hsel : p.q.sem a.S = true) :
    k ∈ a.refresh :=
  ((winv hr hs).refreshCovers ha).cover k h hk p hp hq hsel

theorem paramGet_winv (hw : WInv w) (hk : w.handlers.get k = some h) (hp : p ∈ h.params)
    (hq : p.hasQ = true) {id : Key} {loc : Loc} (he : w.entities.get id = some loc) :
    ∃ a, w.archs.get loc.arch = some a ∧ w.compsOf id = some a.comps ∧
      (p.q.sem a.S = false → (paramGet p id).run.run w = (.ok (.error "QueryDoesNotMatch"), w)) ∧
      (p.q.sem a.S = true → ∃ st it, p.q.archState a.S = some st ∧
          st.item (fun c => (w.getCell id c).map (·.v)) (id.idx, id.gen) = some it ∧
          (paramGet p id).run.run w = (.ok (.ok it), w)) := by
  obtain ⟨a, ha, hrow, hcs, hget, -⟩ := read_winv hw he
  obtain ⟨hcols, hlen, -⟩ := (winv_implies_invStore_rows hw).2 loc.arch a ha
  have hfun : (fun c => (w.getCell id c).map (·.v)) = fun c => (a.readCell c loc.row).map (·.v) := by
    funext c; rw [hget]
  rw [hfun]
  exact ⟨a, ha, hcs,
    exact_cache_get_total (hw.cache.caches.wf k h hk p hp).1 he ha (hw.indexOK _ _ ha)
      (hw.cache.caches.exact k h hk p hp hq _ _ ha) hcols hlen hrow⟩

/-- **C10, a read through a cache sees the current world.**  In a reachable world, `FetcherState::get` (`paramGet`) of
    a query parameter `p` of a live handler, for a live entity `id`, never goes wrong and does not change the world:
    * no stale column pointer (`fetch.rs:stale-column-pointer`), no out-of-bounds `dense` access, no missing row or
      column — none of the `ub` markers can occur;
    * the answer is `QueryDoesNotMatch` exactly when the documented meaning of the query rejects the component set the
      entity has NOW (`w.compsOf id`);
    * otherwise it is the item `Query::get` computes from the values `World::get` returns NOW for that entity
      (`w.getCell id c`, the map of C02). -/
theorem C10_paramGet (hr : Reach w) (hs : Small w) (hk : w.handlers.get k = some h) (hp : p ∈ h.params)
    (hq : p.hasQ = true) {id : Key} {loc : Loc} (he : w.entities.get id = some loc) :
    ∃ a, w.archs.get loc.arch = some a ∧ w.compsOf id = some a.comps ∧
      (p.q.sem a.S = false → (paramGet p id).run.run w = (.ok (.error "QueryDoesNotMatch"), w)) ∧
      (p.q.sem a.S = true → ∃ st it, p.q.archState a.S = some st ∧
          st.item (fun c => (w.getCell id c).map (·.v)) (id.idx, id.gen) = some it ∧
          (paramGet p id).run.run w = (.ok (.ok it), w)) :=
  paramGet_winv (winv hr hs) hk hp hq he

/-- **C10, the cache invariant of `Props/C10.lean`** (index consistency, bound, exact well-formed caches, refresh
    coverage) holds in every reachable world, with the slab length as the bound on archetype indices — the hypothesis of
    `C10.CacheInv.reads_current`, `C10.moveEntity_keeps_caches`, … -/
theorem C10_cacheInv (hr : Reach w) (hs : Small w) : C10.CacheInv w.archs.entries.length w.handlers w.archs :=
  (winv hr hs).cacheInv

variable {src : Loc} {dst : Nat} {new : List (Nat × Cell)} {loc : Loc}

theorem moveEntity_keeps_caches_winv (hw : WInv w) (h : (moveEntity src dst new).run.run w = (.ok (), w')) :
    C10.CacheInv w.archs.entries.length w'.handlers w'.archs :=
  (C10.moveEntity_keeps_caches hw.small.1 hw.cacheInv src dst new).run w ⟨rfl, rfl⟩ () w' h

/-- **C10, `move_entity` keeps every cache exact** — from a reachable world, both branches (assigning in place; moving
    the row to another archetype: the source shrinks and may become empty, the destination grows and may reallocate):
    afterwards every cache of every live handler is exact again for every live archetype, so every later read is
    current (`C10.CacheInv.reads_current`). -/
theorem C10_moveEntity_keeps_caches (hr : Reach w) (hs : Small w)
    (h : (moveEntity src dst new).run.run w = (.ok (), w')) :
    C10.CacheInv w.archs.entries.length w'.handlers w'.archs :=
  moveEntity_keeps_caches_winv (winv hr hs) h

theorem removeEntity_keeps_caches_winv (hw : WInv w) (h : (removeEntity loc).run.run w = (.ok (), w')) :
    C10.CacheInv w.archs.entries.length w'.handlers w'.archs :=
  (C10.removeEntity_keeps_caches hw.cacheInv loc).run w ⟨rfl, rfl⟩ () w' h

/-- **C10, `remove_entity` keeps every cache exact** (when the archetype becomes empty all its refresh listeners drop
    it). -/
theorem C10_removeEntity_keeps_caches (hr : Reach w) (hs : Small w)
    (h : (removeEntity loc).run.run w = (.ok (), w')) :
    C10.CacheInv w.archs.entries.length w'.handlers w'.archs :=
  removeEntity_keeps_caches_winv (winv hr hs) h

theorem archSpawn_keeps_caches_winv (hw : WInv w) {id : Key} {l : Loc}
    (h : (archSpawn id).run.run w = (.ok l, w')) :
    C10.CacheInv w.archs.entries.length w'.handlers w'.archs ∧
      ∃ e e', w.archs.get 0 = some e ∧ w'.archs.get 0 = some e' ∧ e'.ids = e.ids ++ [id] ∧
        l = ⟨0, e.ids.length⟩ ∧ e'.comps = e.comps ∧ e'.cols = e.cols :=
  (C10.archSpawn_keeps_caches hw.small.1 hw.cacheInv id).run w ⟨rfl, rfl⟩ l w' h

/-- **C10, `Archetypes::spawn` keeps every cache exact** (the empty archetype gets a row; its listeners are refreshed
    when this reallocates its buffers or makes it non-empty). -/
theorem C10_archSpawn_keeps_caches (hr : Reach w) (hs : Small w) {id : Key} {l : Loc}
    (h : (archSpawn id).run.run w = (.ok l, w')) :
    C10.CacheInv w.archs.entries.length w'.handlers w'.archs ∧
      ∃ e e', w.archs.get 0 = some e ∧ w'.archs.get 0 = some e' ∧ e'.ids = e.ids ++ [id] ∧
        l = ⟨0, e.ids.length⟩ ∧ e'.comps = e.comps ∧ e'.cols = e.cols :=
  archSpawn_keeps_caches_winv (winv hr hs) h

/-- **C10, "… no matter which structural changes happened since": reads after `move_entity` / `remove_entity` are
    current.**  From a reachable world, after a normal return of `moveEntity` (an `Insert` / `Remove` that moved a row,
    possibly reallocating the destination's buffers, emptying the source, making the destination non-empty) resp. of
    `removeEntity`, a read through any cache of any live handler, for any live entity in a non-empty archetype, is not
    flagged stale and computes its item from the archetype's columns as they are AFTER the operation. -/
theorem C10_reads_after_change (hr : Reach w) (hs : Small w)
    (h : (moveEntity src dst new).run.run w = (.ok (), w') ∨ (removeEntity loc).run.run w = (.ok (), w'))
    {k' : Key} {h' : HInfo} (hk : w'.handlers.get k' = some h') {p' : Param} (hp : p' ∈ h'.params)
    (hq : p'.hasQ = true) {id : Key} {l : Loc} {a : Arch} (he : w'.entities.get id = some l)
    (ha : w'.archs.get l.arch = some a) (hne : a.ids ≠ []) :
    (paramGet p' id).run.run w' =
      (match p'.q.archState a.S with
       | some st => (itemAtPure st a l.row).map Except.ok
       | none => .ok (.error "QueryDoesNotMatch"), w') := by
  have hI : C10.CacheInv w.archs.entries.length w'.handlers w'.archs := by
    rcases h with h | h
    · exact C10_moveEntity_keeps_caches hr hs h
    · exact C10_removeEntity_keeps_caches hr hs h
  exact hI.reads_current hk hp hq he ha hne

end cache

/-! ## Non-vacuity: a concrete reachable world

`exOps` is a sequence of ten top-level operations given as explicit `Op` values; `exW` is the world the driver is in after
them.  `exW_reach : Reach exW` and `exW_small : Small exW` are proved by evaluating, in the kernel, that every operation
returns normally (`StepOk`) — so the hypotheses `Reach w`, `Small w` of all theorems above are jointly satisfiable by a
world with live and dead entities, component values, archetypes, a handler with a non-empty fetcher cache, and the
theorems are instantiated on it below.

Technical note.  `moveCols` (the merge loop of `move_entity`) and `mergeCase` (the inner loop of `ComponentAccess::and`, run
by the conflict check of `add_handler`) are compiled by well-founded recursion and do not reduce in the kernel;
`moveCols_eq_fuel` (Props/C02World.lean) and `mergeCase_eq_fuel` (below) rewrite them to structurally recursive copies.
The tactic `eval_world` exposes the two constants (`delta` through `step` → `execOp` → `sendTargeted` → `flush` →
`deliverOne` → `moveEntity`, resp. `addHandler` → `acceptAccess` → `CA.and`), rewrites, and lets the kernel evaluate
(`decide +kernel`: no `native_decide`, no extra axiom).  The rendered observation lines are never forced. -/

/-- the operation returned normally, as a Boolean the kernel can evaluate without forcing the rendered lines -/
def okB (r : Except Err (List String)) : Bool :=
  match r with
  | .ok _ => true
  | .error _ => false

/-- the world after the operations `ops`, started from the empty world -/
def runOps (ops : List Op) : World := ops.foldl (fun w op => (step w op).1) {}

/-- every operation of `ops` returned normally -/
def okOps (ops : List Op) : Bool :=
  (ops.foldl (fun (acc : Bool × World) op =>
    (acc.1 && okB ((execOp op).run.run (stepInit acc.2)).1, (step acc.2 op).1)) (true, {})).1

theorem stepOk_of_okB {op : Op} (h : okB ((execOp op).run.run (stepInit w)).1 = true) : StepOk w op := by
  unfold StepOk
  generalize ((execOp op).run.run (stepInit w)).1 = r at h
  cases r with
  | ok l => exact ⟨l, rfl⟩
  | error e => cases h

theorem okOps_aux (ops : List Op) : ∀ (b : Bool) (w : World),
    (ops.foldl (fun (acc : Bool × World) op =>
      (acc.1 && okB ((execOp op).run.run (stepInit acc.2)).1, (step acc.2 op).1)) (b, w)).1 = true →
    b = true ∧ (Reach w → (∀ op ∈ ops, op.Valid) → Reach (ops.foldl (fun w op => (step w op).1) w)) := by
  induction ops with
  | nil => exact fun b w h => ⟨h, fun hr _ => hr⟩
  | cons op ops ih =>
    intro b w h
    rw [List.foldl_cons] at h
    obtain ⟨h1, h2⟩ := ih _ _ h
    simp only [Bool.and_eq_true] at h1
    refine ⟨h1.1, fun hr hv => ?_⟩
    rw [List.foldl_cons]
    exact h2 (Reach.step op hr (hv op (List.mem_cons_self ..)) (stepOk_of_okB h1.2))
      fun op' hm => hv op' (List.mem_cons_of_mem _ hm)

/-- **a sequence of valid operations each of which returns normally leads to a reachable world** -/
theorem reach_runOps {ops : List Op} (hv : ∀ op ∈ ops, op.Valid) (hok : okOps ops = true) : Reach (runOps ops) :=
  (okOps_aux ops true {} hok).2 Reach.init hv

/-- `mergeCase` (the inner loop of `ComponentAccess::and`) with structural recursion on a fuel argument, so that the
    kernel can evaluate it (`mergeCase` itself is compiled by well-founded recursion) -/
def mergeCaseF : Nat → Case → Case → Option Case
  | 0, _, _ => none
  | f + 1, l, r =>
    match l, r with
    | [], r => some r
    | l, [] => some l
    | (li, la) :: l, (ri, ra) :: r =>
      if li < ri then (mergeCaseF f l ((ri, ra) :: r)).map ((li, la) :: ·)
      else if li = ri then
        match combine la ra with
        | none => none
        | some a => (mergeCaseF f l r).map ((li, a) :: ·)
      else (mergeCaseF f ((li, la) :: l) r).map ((ri, ra) :: ·)

theorem mergeCaseF_eq (f : Nat) (l r : Case) (hf : l.length + r.length < f) : mergeCaseF f l r = mergeCase l r := by
  fun_induction mergeCase l r generalizing f <;>
    (cases f with
     | zero => omega
     | succ f => simp_all [mergeCaseF] <;> grind)

theorem mergeCase_eq_fuel : mergeCase = fun l r => mergeCaseF (l.length + r.length + 1) l r := by
  funext l r
  exact (mergeCaseF_eq _ _ _ (by omega)).symm

/-- evaluate a closed statement about `step` / `execOp` in the kernel: expose the two constants compiled by
    well-founded recursion that the evaluation runs through, replace them by their fuel versions, evaluate -/
macro "eval_world" : tactic =>
  `(tactic| (delta step execOp sendTargeted flush deliverOne moveEntity addHandler acceptAccess CA.and;
             rw [moveCols_eq_fuel, mergeCase_eq_fuel]; decide +kernel))

/-- a handler `h` (medium priority) that receives the global event `G0` and iterates a fetcher over `&K0` -/
def exH : HSpec := { name := "h", params := [.recv (.g 0) false none, .fetch (.ref 0)], body := [.iter 1] }

/-- spawn `#0`, `#1`; `#0.K0 := 7`; `#1.K1 := 9`; add the handler; send `G0` (the handler runs and iterates);
    `#1.K0 := 8` (moves `#1` to a new archetype `{K0,K1}`); remove `K1` from `#1`; despawn `#1`; spawn `#2` (which reuses
    the slot of `#1` with a new generation) -/
def exOps : List Op :=
  [.spawn, .spawn, .insert 0 0 7, .insert 1 1 9, .addh exH, .send 0, .insert 1 0 8, .remove 1 1, .despawn 1, .spawn]

/-- the world after `exOps` -/
def exW : World := runOps exOps

theorem exOps_valid : ∀ op ∈ exOps, op.Valid := by
  intro op hm
  simp only [exOps, List.mem_cons, List.not_mem_nil, or_false] at hm
  rcases hm with rfl | rfl | rfl | rfl | rfl | rfl | rfl | rfl | rfl | rfl <;> try trivial
  -- `addh exH`: the receiver is `Receiver<G0>`, not `ReceiverMut<Spawn>`
  intro ps hps q
  simp only [exH, List.mem_cons, List.not_mem_nil, or_false] at hps
  rcases hps with rfl | rfl <;> intro hc <;> cases hc

set_option maxRecDepth 1000000 in
theorem exOps_ok : okOps exOps = true := by
  delta okOps exOps
  eval_world

/-- **the example world is reachable** -/
theorem exW_reach : Reach exW := reach_runOps exOps_valid exOps_ok

set_option maxRecDepth 1000000 in
/-- … and small -/
theorem exW_small : Small exW := by
  unfold Small
  delta exW runOps exOps
  eval_world

/-! ### what the example world looks like (evaluated by the kernel) -/

/-- everything observed about `exW` below, as one Boolean:
    * entity `#0 = 0v1` is alive at row 0 of archetype 1 and `World::get` gives `K0 = 7` (serial 1), nothing for `K1`;
    * `#1 = 1v1` was despawned: not alive; `#2 = 1v3` reuses its slot with a NEW generation and is alive, component-less;
    * archetypes: 0 `{}` (one row), 1 `{K0}` (one row), 2 `{K1}` and 3 `{K0,K1}` (both empty again);
    * the handler `0v1` is registered; its second parameter carries a query whose cache holds exactly archetype 1;
    * `Spawn` is registered as the global event `0v1`. -/
def exCheck : Bool :=
  exW.entities.get ⟨0, 1⟩ == some ⟨1, 0⟩ && exW.getCell ⟨0, 1⟩ 0 == some ⟨7, 1⟩ && exW.getCell ⟨0, 1⟩ 1 == none
  && exW.entities.get ⟨1, 1⟩ == none && exW.entities.get ⟨1, 3⟩ == some ⟨0, 0⟩ && exW.compsOf ⟨1, 3⟩ == some []
  && (exW.archs.toList.map fun (i, a) => (i, a.comps, a.ids.length)) == [(0, [], 1), (1, [0], 1), (2, [1], 0), (3, [0, 1], 0)]
  && (match exW.handlers.get ⟨0, 1⟩ with
      | some h => h.params.map (fun p => (p.hasQ, p.cache.keys)) == [(false, []), (true, [1])]
      | none => false)
  && (exW.gevOfTy .spawn).map (·.1) == some ⟨0, 1⟩
  && exW.ords == #[⟨0, 1⟩, ⟨1, 1⟩, ⟨1, 3⟩]

set_option maxRecDepth 1000000 in
theorem exCheck_true : exCheck = true := by
  delta exCheck exW runOps exOps
  eval_world

/-! ### the theorems instantiated on the example world -/

/-- C17 on the example: the executable invariant holds (by the theorem, not by evaluation) -/
example : exW.InvPlus = true := reachable_InvPlus exW exW_reach exW_small
example : exW.Inv = true := C17_Inv exW_reach exW_small

/-- C02 on the example: entity `0v1` is alive, so it reads a value exactly for the components of its archetype -/
example : ∃ a, exW.archs.get 1 = some a ∧ exW.compsOf ⟨0, 1⟩ = some a.comps ∧
    ∀ c, (exW.getCell ⟨0, 1⟩ c).isSome = true ↔ c ∈ a.comps := by
  have hc := exCheck_true
  simp only [exCheck, Bool.and_eq_true, beq_iff_eq] at hc
  obtain ⟨a, ha, -, hcs, -, hiff⟩ := C02_live_reads exW_reach exW_small hc.1.1.1.1.1.1.1.1.1
  exact ⟨a, ha, hcs, hiff⟩

/-- a normal return, as a Boolean -/
def okU {α : Type} (r : Except Err α × World) : Bool :=
  match r.1 with
  | .ok _ => true
  | .error _ => false

theorem run_of_okU {α : Type} {m : M α} {w : World} (h : okU (m.run.run w) = true) :
    ∃ a w', m.run.run w = (.ok a, w') := by
  unfold okU at h
  generalize m.run.run w = r at h
  obtain ⟨(e | a), w'⟩ := r
  · cases h
  · exact ⟨a, w', rfl⟩

set_option maxRecDepth 1000000 in
/-- overwriting `K0` of entity `0v1` (at `⟨1, 0⟩`) in the example world returns normally -/
theorem exAssign_ok : okU ((moveEntity ⟨1, 0⟩ 1 [(0, ⟨99, 50⟩)]).run.run exW) = true := by
  delta exW runOps exOps
  eval_world

/-- C02 / C12 on the example, with an operation: the hypotheses of `C02_insert_existing`, `C02_move_other`,
    `C12_move_ledger` are jointly satisfiable, and they yield: the new value is read, the old value `7` (serial 1) was
    destroyed, the other live entity `1v3` is untouched, storage is conserved. -/
example : ∃ w', (moveEntity ⟨1, 0⟩ 1 [(0, ⟨99, 50⟩)]).run.run exW = (.ok (), w') ∧
    w'.getCell ⟨0, 1⟩ 0 = some ⟨99, 50⟩ ∧ w'.compsOf ⟨0, 1⟩ = exW.compsOf ⟨0, 1⟩ ∧
    (∀ c, w'.getCell ⟨1, 3⟩ c = exW.getCell ⟨1, 3⟩ c) ∧
    ∃ dropped, (exW.cells ++ [(⟨99, 50⟩ : Cell)]).Perm (w'.cells ++ dropped) := by
  obtain ⟨⟨⟩, w', h⟩ := run_of_okU exAssign_ok
  have hc := exCheck_true
  simp only [exCheck, Bool.and_eq_true, beq_iff_eq] at hc
  have hloc : exW.entities.get ⟨0, 1⟩ = some ⟨1, 0⟩ := hc.1.1.1.1.1.1.1.1.1
  obtain ⟨a, ha, -, -, -, hiff⟩ := C02_live_reads exW_reach exW_small hloc
  have hmem : 0 ∈ a.comps := (hiff 0).1 (by rw [hc.1.1.1.1.1.1.1.1.2]; rfl)
  obtain ⟨old, -, h2, h3, -, -⟩ := C02_insert_existing exW_reach exW_small hloc ha hmem h
  obtain ⟨dropped, hperm, -, -⟩ :=
    C12_move_ledger (src := ⟨1, 0⟩) (dst := 1) exW_reach exW_small (fun hne => absurd rfl hne) h
  exact ⟨w', h, h3, h2, (C02_move_other exW_reach exW_small hloc h ⟨1, 3⟩ (by intro hc; cases hc)).1, dropped, hperm⟩

/-- C10 on the example: the handler's fetcher cache holds exactly the non-empty archetypes matching `&K0` — archetype 1 —
    and this is what the theorem says it must hold -/
example : ∃ h p, exW.handlers.get ⟨0, 1⟩ = some h ∧ p ∈ h.params ∧ p.hasQ = true ∧ p.cache.keys = [1] ∧
    ∀ i, i ∈ p.cache.keys ↔ ∃ a, exW.archs.get i = some a ∧ a.ids ≠ [] ∧ p.q.sem a.S = true := by
  have hc := exCheck_true
  simp only [exCheck, Bool.and_eq_true, beq_iff_eq] at hc
  have hh := hc.1.1.2
  cases hk : exW.handlers.get ⟨0, 1⟩ with
  | none => rw [hk] at hh; cases hh
  | some h =>
    rw [hk] at hh
    dsimp only at hh
    rw [beq_iff_eq] at hh
    obtain ⟨p0, l1, hps, -, hl1⟩ := List.map_eq_cons_iff.1 hh
    obtain ⟨p, l2, hps2, hp2, -⟩ := List.map_eq_cons_iff.1 hl1
    simp only [Prod.mk.injEq] at hp2
    have hp : p ∈ h.params := by rw [hps, hps2]; simp
    exact ⟨h, p, rfl, hp, hp2.1, hp2.2, (C10_cache_keys exW_reach exW_small hk hp hp2.1).2.2⟩

set_option maxRecDepth 1000000 in
/-- `World::spawn` from the example world returns normally -/
theorem exSpawn_ok : okU (opSpawn.run.run exW) = true := by
  delta exW runOps exOps opSpawn sendGlobal
  eval_world

/-- C03 on the example: `World::spawn` returns an id that was never valid, and it is a live component-less entity right
    after the delivery of its `Spawn` event -/
example : ∃ id w', opSpawn.run.run exW = (.ok id, w') ∧ exW.entities.contains id = false ∧ ¬ exW.entities.Covers id ∧
    ∃ w'' a0, exW.archs.get 0 = some a0 ∧ w''.entities.get id = some ⟨0, a0.ids.length⟩ ∧ Reserved w'' [] := by
  obtain ⟨id, w', h⟩ := run_of_okU exSpawn_ok
  have hc := exCheck_true
  simp only [exCheck, Bool.and_eq_true, beq_iff_eq] at hc
  have hreg := hc.1.2
  cases hg : exW.gevOfTy .spawn with
  | none => rw [hg] at hreg; cases hreg
  | some x =>
    obtain ⟨gk, gi⟩ := x
    obtain ⟨h1, h2, w1, w'', wd, a0, ha0, -, -, -, -, h3, h4, -⟩ := C03_world_spawn exW_reach exW_small hg h
    exact ⟨id, w', h, h1, h2, w'', a0, ha0, h3, h4⟩

end ReachStore
end Evenio

/-! ## axioms -/
#print axioms Evenio.ReachStore.winv
#print axioms Evenio.ReachStore.quiescent
#print axioms Evenio.ReachStore.storeOk
#print axioms Evenio.ReachStore.hasEmpty
#print axioms Evenio.ReachStore.next
#print axioms Evenio.ReachStore.C17_conjuncts
#print axioms Evenio.ReachStore.C17_Inv
#print axioms Evenio.ReachStore.C17_entities_rows
#print axioms Evenio.ReachStore.C17_entity_in_one_row
#print axioms Evenio.ReachStore.C17_archetypes
#print axioms Evenio.ReachStore.C17_edges
#print axioms Evenio.ReachStore.C17_member_of
#print axioms Evenio.ReachStore.C17_nothing_pending
#print axioms Evenio.ReachStore.C17_global_lists
#print axioms Evenio.ReachStore.C17_listeners
#print axioms Evenio.ReachStore.C17_registry
#print axioms Evenio.ReachStore.read_winv
#print axioms Evenio.ReachStore.C02_read
#print axioms Evenio.ReachStore.C02_read_isSome_iff
#print axioms Evenio.ReachStore.C02_dead_reads_nothing
#print axioms Evenio.ReachStore.C02_live_reads
#print axioms Evenio.ReachStore.move_get_self_winv
#print axioms Evenio.ReachStore.C02_move_get_self
#print axioms Evenio.ReachStore.insert_new_winv
#print axioms Evenio.ReachStore.C02_insert_new
#print axioms Evenio.ReachStore.insert_existing_winv
#print axioms Evenio.ReachStore.C02_insert_existing
#print axioms Evenio.ReachStore.remove_present_winv
#print axioms Evenio.ReachStore.C02_remove_present
#print axioms Evenio.ReachStore.remove_absent_winv
#print axioms Evenio.ReachStore.C02_remove_absent
#print axioms Evenio.ReachStore.move_other_winv
#print axioms Evenio.ReachStore.C02_move_other
#print axioms Evenio.ReachStore.despawn_winv
#print axioms Evenio.ReachStore.C02_despawn
#print axioms Evenio.ReachStore.spawnStep_winv
#print axioms Evenio.ReachStore.C02_spawnStep
#print axioms Evenio.ReachStore.spawnAll_winv
#print axioms Evenio.ReachStore.C02_spawnAll
#print axioms Evenio.ReachStore.traverseInsert_en
#print axioms Evenio.ReachStore.traverseRemove_en
#print axioms Evenio.ReachStore.reads_of_extends
#print axioms Evenio.ReachStore.traverseInsert_store_winv
#print axioms Evenio.ReachStore.traverseRemove_store_winv
#print axioms Evenio.ReachStore.run_bind_ok
#print axioms Evenio.ReachStore.insert_effect_winv
#print axioms Evenio.ReachStore.remove_effect_winv
#print axioms Evenio.ReachStore.despawn_effect_reads_winv
#print axioms Evenio.ReachStore.C02_insert_effect
#print axioms Evenio.ReachStore.C02_remove_effect
#print axioms Evenio.ReachStore.C02_despawn_effect
#print axioms Evenio.ReachStore.move_ledger_winv
#print axioms Evenio.ReachStore.C12_move_ledger
#print axioms Evenio.ReachStore.despawn_ledger_winv
#print axioms Evenio.ReachStore.C12_despawn_ledger
#print axioms Evenio.ReachStore.move_destroyed_unreachable_winv
#print axioms Evenio.ReachStore.C12_move_destroyed_unreachable
#print axioms Evenio.ReachStore.despawn_destroyed_unreachable_winv
#print axioms Evenio.ReachStore.C12_despawn_destroyed_unreachable
#print axioms Evenio.ReachStore.move_dropped_was_stored_winv
#print axioms Evenio.ReachStore.C12_move_dropped_was_stored
#print axioms Evenio.ReachStore.spawn_ledger_winv
#print axioms Evenio.ReachStore.C12_spawn_ledger
#print axioms Evenio.ReachStore.C12_read_is_stored
#print axioms Evenio.ReachStore.C03_nothing_reserved
#print axioms Evenio.ReachStore.C03_reserve
#print axioms Evenio.ReachStore.C03_reserve_total
#print axioms Evenio.ReachStore.C03_live_covered
#print axioms Evenio.ReachStore.spawnAll_ids_winv
#print axioms Evenio.ReachStore.C03_spawnAll
#print axioms Evenio.ReachStore.despawn_effect_winv
#print axioms Evenio.ReachStore.C03_despawn_effect
#print axioms Evenio.ReachStore.dead_stays_dead_winv
#print axioms Evenio.ReachStore.C03_dead_stays_dead
#print axioms Evenio.ReachStore.C03_relocating_effect
#print axioms Evenio.ReachStore.handlerPhase_reserved_winv
#print axioms Evenio.ReachStore.C03_handlerPhase
#print axioms Evenio.ReachStore.not_taken_spawn
#print axioms Evenio.ReachStore.spawns_of_evInfo
#print axioms Evenio.ReachStore.spawn_delivered_winv
#print axioms Evenio.ReachStore.C03_spawn_delivered
#print axioms Evenio.ReachStore.opSpawn_first_delivery
#print axioms Evenio.ReachStore.world_spawn_fresh_res
#print axioms Evenio.ReachStore.C03_world_spawn_fresh
#print axioms Evenio.ReachStore.C03_step_spawn_fresh
#print axioms Evenio.ReachStore.world_spawn_winv
#print axioms Evenio.ReachStore.C03_world_spawn
#print axioms Evenio.ReachStore.cache_entry_winv
#print axioms Evenio.ReachStore.C10_cache_entry
#print axioms Evenio.ReachStore.C10_cache_keys
#print axioms Evenio.ReachStore.C10_refresh_covers
#print axioms Evenio.ReachStore.paramGet_winv
#print axioms Evenio.ReachStore.C10_paramGet
#print axioms Evenio.ReachStore.C10_cacheInv
#print axioms Evenio.ReachStore.moveEntity_keeps_caches_winv
#print axioms Evenio.ReachStore.C10_moveEntity_keeps_caches
#print axioms Evenio.ReachStore.removeEntity_keeps_caches_winv
#print axioms Evenio.ReachStore.C10_removeEntity_keeps_caches
#print axioms Evenio.ReachStore.archSpawn_keeps_caches_winv
#print axioms Evenio.ReachStore.C10_archSpawn_keeps_caches
#print axioms Evenio.ReachStore.C10_reads_after_change
#print axioms Evenio.ReachStore.stepOk_of_okB
#print axioms Evenio.ReachStore.okOps_aux
#print axioms Evenio.ReachStore.reach_runOps
#print axioms Evenio.ReachStore.mergeCaseF_eq
#print axioms Evenio.ReachStore.mergeCase_eq_fuel
#print axioms Evenio.ReachStore.exOps_valid
#print axioms Evenio.ReachStore.exOps_ok
#print axioms Evenio.ReachStore.exW_reach
#print axioms Evenio.ReachStore.exW_small
#print axioms Evenio.ReachStore.exCheck_true
#print axioms Evenio.ReachStore.run_of_okU
#print axioms Evenio.ReachStore.exAssign_ok
#print axioms Evenio.ReachStore.exSpawn_ok
