import Evenio.Props.C03
/-!
# C16 — registries of components, events and handlers (slot-map level)

> "Registering … that is already registered returns the existing id … Ids of removed components,
> events and handlers are never valid again and are never handed out again, even when their index is
> reused by a later registration."

The registries (`World.comps`, `gevs`, `tevs`, `handlers`) are `SlotMap`s whose entries carry a type
tag; registration is "look the tag up with `toList.find?`, otherwise `insertWith`" (`addComponent`,
`addGlobalEvent`, `addTargetedEvent` in `Evenio/Model/World.lean`). This file restates the C03
slot-map theorems in that vocabulary, for every finite registry history, and proves idempotence of
registration on a pure mirror `regAdd` of `addComponent`.
-/
namespace Evenio
open SlotMap
variable {α : Type}

/-! ## A pure registry over a slot map -/

/-- What a registry stores: the type tag of an entry, and how the entry for a new registration is
    built from the tag and the freshly allocated key (`fun k => { ty, id := k }` in the world model). -/
structure RegSpec (α : Type) where
  tag : α → Nat
  make : Nat → Key → α
  tag_make : ∀ ty k, tag (make ty k) = ty

/-- Entries are bare tags (`SlotMap Nat`). -/
def natReg : RegSpec Nat := ⟨id, fun ty _ => ty, fun _ _ => rfl⟩

/-- Entries as in the world model: `{ ty, id := k }`. -/
structure RegInfo where
  ty : Nat
  id : Key
deriving Repr, DecidableEq

def infoReg : RegSpec RegInfo := ⟨(·.ty), fun ty k => ⟨ty, k⟩, fun _ _ => rfl⟩

/-- `World.compIdxOfTy`: first live entry (in index order) with the given tag. -/
def regFind (R : RegSpec α) (sm : SlotMap α) (ty : Nat) : Option (Key × α) :=
  sm.toList.find? fun p => R.tag p.2 == ty

/-- Pure mirror of `addComponent`: returns the id, the new map and whether a new entry was created;
    `none` is the `panic "capacity"` branch. -/
def regAdd (R : RegSpec α) (sm : SlotMap α) (ty : Nat) : Option (Key × SlotMap α × Bool) :=
  match regFind R sm ty with
  | some (k, _) => some (k, sm, false)
  | none =>
    match sm.insertWith (R.make ty) with
    | none => none
    | some (k, sm') => some (k, sm', true)

theorem regFind_some {R : RegSpec α} {sm : SlotMap α} (wf : sm.WF) {ty : Nat} {k : Key} {v : α}
    (h : regFind R sm ty = some (k, v)) : sm.get k = some v ∧ R.tag v = ty := by
  have hm := List.mem_of_find?_eq_some h
  have hp := List.find?_some h
  exact ⟨(mem_toList_iff wf k v).1 hm, by simpa using hp⟩

theorem regFind_none {R : RegSpec α} {sm : SlotMap α} (wf : sm.WF) {ty : Nat}
    (h : regFind R sm ty = none) : ∀ k v, sm.get k = some v → R.tag v ≠ ty := by
  intro k v hg
  have := List.find?_eq_none.1 h (k, v) ((mem_toList_iff wf k v).2 hg)
  simpa using this

/-- Registering a tag that is already registered returns the existing id and changes nothing; the
    returned id is valid and denotes an entry with that tag. -/
theorem regAdd_existing {R : RegSpec α} {sm : SlotMap α} (wf : sm.WF) {ty : Nat} {k : Key} {v : α}
    (h : regFind R sm ty = some (k, v)) :
    regAdd R sm ty = some (k, sm, false) ∧ sm.get k = some v ∧ R.tag v = ty := by
  refine ⟨by simp [regAdd, h], regFind_some wf h⟩

/-- After any successful registration the tag is found under the returned id. -/
theorem regAdd_find {R : RegSpec α} {sm sm' : SlotMap α} (wf : sm.WF) {ty : Nat} {k : Key} {b : Bool}
    (h : regAdd R sm ty = some (k, sm', b)) :
    sm'.WF ∧ ∃ v, regFind R sm' ty = some (k, v) ∧ sm'.get k = some v ∧ R.tag v = ty := by
  unfold regAdd at h
  cases hf : regFind R sm ty with
  | some r =>
    obtain ⟨k0, v0⟩ := r
    simp [hf] at h
    obtain ⟨rfl, rfl, _⟩ := h
    exact ⟨wf, v0, hf, regFind_some wf hf⟩
  | none =>
    simp only [hf] at h
    cases hi : sm.insertWith (R.make ty) with
    | none => simp [hi] at h
    | some r =>
      obtain ⟨k1, sm1⟩ := r
      simp [hi] at h
      obtain ⟨rfl, rfl, _⟩ := h
      have wf1 := wf.insertWith hi
      have hget := get_insertWith wf hi
      have hnew : sm1.get k1 = some (R.make ty k1) := by simp [hget]
      refine ⟨wf1, R.make ty k1, ?_, hnew, R.tag_make _ _⟩
      cases hf1 : regFind R sm1 ty with
      | none => exact absurd (R.tag_make ty k1) (regFind_none wf1 hf1 _ _ hnew)
      | some r1 =>
        obtain ⟨k2, v2⟩ := r1
        obtain ⟨hg2, ht2⟩ := regFind_some wf1 hf1
        rw [hget] at hg2
        by_cases hk : k2 = k1
        · subst hk; simp at hg2; rw [hg2]
        · simp [hk] at hg2
          exact absurd ht2 (regFind_none wf hf _ _ hg2)

/-- Registration is idempotent: registering the same tag again returns the same id and leaves the
    map unchanged. -/
theorem regAdd_idem {R : RegSpec α} {sm sm' : SlotMap α} (wf : sm.WF) {ty : Nat} {k : Key} {b : Bool}
    (h : regAdd R sm ty = some (k, sm', b)) : regAdd R sm' ty = some (k, sm', false) := by
  obtain ⟨_, v, hf, _⟩ := regAdd_find wf h
  simp [regAdd, hf]

/-- A newly created id was not valid before (and by C03 was never issued before). -/
theorem regAdd_new {R : RegSpec α} {sm sm' : SlotMap α} {ty : Nat} {k : Key}
    (h : regAdd R sm ty = some (k, sm', true)) :
    sm.insertWith (R.make ty) = some (k, sm') ∧ regFind R sm ty = none := by
  unfold regAdd at h
  cases hf : regFind R sm ty with
  | some r => simp [hf] at h
  | none =>
    simp only [hf] at h
    cases hi : sm.insertWith (R.make ty) with
    | none => simp [hi] at h
    | some r =>
      obtain ⟨k1, sm1⟩ := r
      simp [hi] at h
      obtain ⟨rfl, rfl⟩ := h
      exact ⟨rfl, rfl⟩

/-! ## Registry histories -/

inductive RegOp
  | add (ty : Nat)      -- `add_component`, `add_global_event`, `add_targeted_event`, `add_handler`
  | remove (k : Key)    -- `remove_component`, `remove_*_event`, `remove_handler`

/-- One registry operation on a recorded trace (issued = ids handed out, removed = ids removed). -/
def regStep (R : RegSpec α) (t : Trace α) : RegOp → Trace α
  | .add ty =>
    match regFind R t.sm ty with
    | some _ => t
    | none => t.insStep (R.make ty)
  | .remove k => t.remStep k

def regRunFrom (R : RegSpec α) (t : Trace α) (ops : List RegOp) : Trace α := ops.foldl (regStep R) t

/-- Run a registry history from the empty registry. -/
def regRun (R : RegSpec α) (ops : List RegOp) : Trace α := regRunFrom R {} ops

theorem regStep_add_found {R : RegSpec α} {t : Trace α} {ty : Nat} {r : Key × α}
    (h : regFind R t.sm ty = some r) : regStep R t (.add ty) = t := by
  simp [regStep, h]

theorem regStep_add_new {R : RegSpec α} {t : Trace α} {ty : Nat}
    (h : regFind R t.sm ty = none) : regStep R t (.add ty) = t.insStep (R.make ty) := by
  simp [regStep, h]

theorem regStep_remove (R : RegSpec α) (t : Trace α) (k : Key) :
    regStep R t (.remove k) = t.remStep k := rfl

/-- `regStep` on `add` is `regAdd` on the map. -/
theorem regStep_add_sm (R : RegSpec α) (t : Trace α) (ty : Nat) :
    (regStep R t (.add ty)).sm = ((regAdd R t.sm ty).map (·.2.1)).getD t.sm := by
  cases hf : regFind R t.sm ty with
  | some r => rw [regStep_add_found hf]; simp [regAdd, hf]
  | none =>
    rw [regStep_add_new hf]
    cases hi : t.sm.insertWith (R.make ty) with
    | none => simp [Trace.insStep_none hi, regAdd, hf, hi]
    | some r => obtain ⟨k, sm'⟩ := r; simp [Trace.insStep_some hi, regAdd, hf, hi]

/-- Every registry history is a slot-map history. -/
theorem regRunFrom_eq_runFrom (R : RegSpec α) (t : Trace α) (ops : List RegOp) :
    ∃ ops', regRunFrom R t ops = t.runFrom ops' := by
  induction ops generalizing t with
  | nil => exact ⟨[], rfl⟩
  | cons op ops ih =>
    have h1 : ∃ o, regStep R t op = t.runFrom o := by
      cases op with
      | add ty =>
        cases hf : regFind R t.sm ty with
        | some r => exact ⟨[], by rw [regStep_add_found hf]; rfl⟩
        | none => exact ⟨[.insWith (R.make ty)], by rw [regStep_add_new hf]; rfl⟩
      | remove k => exact ⟨[.rem k], rfl⟩
    obtain ⟨o, ho⟩ := h1
    obtain ⟨os, hos⟩ := ih (regStep R t op)
    refine ⟨o ++ os, ?_⟩
    rw [Trace.runFrom_append, ← ho, ← hos]; rfl

theorem regRun_eq_run (R : RegSpec α) (ops : List RegOp) : ∃ ops', regRun R ops = run ops' :=
  regRunFrom_eq_runFrom R {} ops

theorem regRun_append (R : RegSpec α) (ops more : List RegOp) :
    regRun R (ops ++ more) = regRunFrom R (regRun R ops) more := by
  simp [regRun, regRunFrom, List.foldl_append]

/-- A continuation of a registry history is a continuation of the corresponding slot-map history. -/
theorem regRun_append_eq_run (R : RegSpec α) (ops more : List RegOp) :
    ∃ a b, regRun R ops = run a ∧ regRun R (ops ++ more) = run (a ++ b) := by
  obtain ⟨a, ha⟩ := regRun_eq_run R ops
  obtain ⟨b, hb⟩ := regRunFrom_eq_runFrom R (regRun R ops) more
  exact ⟨a, b, ha, by rw [regRun_append, hb, ha, run_append]⟩

/-! ## The slot-map corollaries in registry vocabulary -/

/-- The registry stays well-formed. -/
theorem reg_wf (R : RegSpec α) (ops : List RegOp) : (regRun R ops).sm.WF := by
  obtain ⟨a, ha⟩ := regRun_eq_run R ops; rw [ha]; exact wf_reachable a

/-- An id is valid exactly when it was handed out and not removed. -/
theorem id_valid_iff (R : RegSpec α) (ops : List RegOp) (k : Key) :
    (regRun R ops).sm.contains k = true ↔
      (k ∈ (regRun R ops).issued ∧ k ∉ (regRun R ops).removed) := by
  obtain ⟨a, ha⟩ := regRun_eq_run R ops; rw [ha]; exact contains_iff_live a k

/-- The id of a removed component / event / handler is never valid again. -/
theorem removed_id_never_valid (R : RegSpec α) (ops more : List RegOp) {k : Key}
    (h : k ∈ (regRun R ops).removed) : (regRun R (ops ++ more)).sm.contains k = false := by
  obtain ⟨a, b, ha, hb⟩ := regRun_append_eq_run R ops more
  rw [hb]; rw [ha] at h
  exact removed_never_valid a b h

/-- The id of a removed component / event / handler is never handed out again. -/
theorem removed_id_never_reissued (R : RegSpec α) (ops more : List RegOp) {k : Key}
    (h : k ∈ (regRun R ops).removed) :
    ∃ ext, (regRun R (ops ++ more)).issued = (regRun R ops).issued ++ ext ∧ k ∉ ext := by
  obtain ⟨a, b, ha, hb⟩ := regRun_append_eq_run R ops more
  rw [hb, ha]; rw [ha] at h
  exact removed_never_reissued a b h

/-- No id is handed out twice. -/
theorem ids_nodup (R : RegSpec α) (ops : List RegOp) : (regRun R ops).issued.Nodup := by
  obtain ⟨a, ha⟩ := regRun_eq_run R ops; rw [ha]; exact issued_nodup a

/-- If a later registration reuses an index, its generation is strictly greater than that of every
    earlier id with this index (ids listed oldest first). -/
theorem index_reuse_changes_generation (R : RegSpec α) (ops : List RegOp) :
    (regRun R ops).issued.Pairwise (fun a b => a.idx = b.idx → a.gen < b.gen) := by
  obtain ⟨a, ha⟩ := regRun_eq_run R ops; rw [ha]; exact issued_gen_increasing a

/-- Pointwise form: for positions `i < j` in the list of handed-out ids with the same index, the
    generation at `j` is strictly greater. -/
theorem index_reuse_changes_generation' (R : RegSpec α) (ops : List RegOp) {i j : Nat}
    (hij : i < j) (hj : j < (regRun R ops).issued.length)
    (hidx : ((regRun R ops).issued[i]'(Nat.lt_trans hij hj)).idx = ((regRun R ops).issued[j]).idx) :
    ((regRun R ops).issued[i]'(Nat.lt_trans hij hj)).gen < ((regRun R ops).issued[j]).gen :=
  List.pairwise_iff_getElem.1 (index_reuse_changes_generation R ops) i j _ hj hij hidx

/-- The number of registered entries is registrations minus removals. -/
theorem reg_len_eq (R : RegSpec α) (ops : List RegOp) :
    (regRun R ops).sm.len = (regRun R ops).issued.length - (regRun R ops).removed.length := by
  obtain ⟨a, ha⟩ := regRun_eq_run R ops; rw [ha]; exact len_eq a

/-! ## At most one live entry per tag -/

/-- No two live entries carry the same tag. -/
def TagsUnique (R : RegSpec α) (sm : SlotMap α) : Prop :=
  ∀ k1 v1 k2 v2, sm.get k1 = some v1 → sm.get k2 = some v2 → R.tag v1 = R.tag v2 → k1 = k2

theorem tagsUnique_regStep (R : RegSpec α) {t : Trace α} (wf : t.sm.WF) (hu : TagsUnique R t.sm)
    (op : RegOp) : TagsUnique R (regStep R t op).sm := by
  cases op with
  | add ty =>
    cases hf : regFind R t.sm ty with
    | some r => rw [regStep_add_found hf]; exact hu
    | none =>
      rw [regStep_add_new hf]
      cases hi : t.sm.insertWith (R.make ty) with
      | none => rw [Trace.insStep_none hi]; exact hu
      | some r =>
        obtain ⟨k, sm'⟩ := r
        rw [Trace.insStep_some hi]
        have hget := get_insertWith wf hi
        have hno := regFind_none wf hf
        intro k1 v1 k2 v2 h1 h2 ht
        simp only [hget] at h1 h2
        by_cases e1 : k1 = k <;> by_cases e2 : k2 = k
        · rw [e1, e2]
        · simp [e1] at h1; simp [e2] at h2
          rw [← h1, R.tag_make] at ht
          exact absurd ht.symm (hno _ _ h2)
        · simp [e1] at h1; simp [e2] at h2
          rw [← h2, R.tag_make] at ht
          exact absurd ht (hno _ _ h1)
        · simp [e1] at h1; simp [e2] at h2
          exact hu _ _ _ _ h1 h2 ht
  | remove k =>
    show TagsUnique R (t.remStep k).sm
    cases hr : t.sm.remove k with
    | none => rw [Trace.remStep_none hr]; exact hu
    | some r =>
      obtain ⟨v, sm'⟩ := r
      rw [Trace.remStep_some hr]
      have hget := get_remove wf hr
      intro k1 v1 k2 v2 h1 h2 ht
      simp only [hget] at h1 h2
      by_cases e1 : k1 = k
      · simp [e1] at h1
      · by_cases e2 : k2 = k
        · simp [e2] at h2
        · simp [e1] at h1; simp [e2] at h2
          exact hu _ _ _ _ h1 h2 ht

/-- In every registry history a tag is registered at most once at a time, so "the existing id" is
    unambiguous. -/
theorem reg_tags_unique (R : RegSpec α) (ops : List RegOp) : TagsUnique R (regRun R ops).sm := by
  suffices h : ∀ (t : Trace α), t.Inv → TagsUnique R t.sm →
      TagsUnique R (regRunFrom R t ops).sm by
    refine h {} Trace.inv_init ?_
    intro k1 v1 k2 v2 h1; simp [SlotMap.get] at h1
  induction ops with
  | nil => intro t _ hu; exact hu
  | cons op ops ih =>
    intro t inv hu
    have inv' : (regStep R t op).Inv := by
      cases op with
      | add ty =>
        cases hf : regFind R t.sm ty with
        | some r => rw [regStep_add_found hf]; exact inv
        | none => rw [regStep_add_new hf]; exact inv.insStep _
      | remove k => exact inv.remStep k
    exact ih _ inv' (tagsUnique_regStep R inv.wf hu op)

/-- Registering twice in a row within a history hands out nothing new the second time. -/
theorem lookup_idempotent (R : RegSpec α) (ops : List RegOp) (ty : Nat) :
    regRun R (ops ++ [.add ty, .add ty]) = regRun R (ops ++ [.add ty]) := by
  have h : ∀ t : Trace α, t.sm.WF → regStep R (regStep R t (.add ty)) (.add ty) = regStep R t (.add ty) := by
    intro t wf
    cases hf : regFind R t.sm ty with
    | some r =>
      have : regStep R t (.add ty) = t := regStep_add_found hf
      rw [this, this]
    | none =>
      have h1 : regStep R t (.add ty) = t.insStep (R.make ty) := regStep_add_new hf
      rw [h1]
      cases hi : t.sm.insertWith (R.make ty) with
      | none => rw [Trace.insStep_none hi, h1, Trace.insStep_none hi]
      | some r =>
        obtain ⟨k, sm'⟩ := r
        rw [Trace.insStep_some hi]
        have hadd : regAdd R t.sm ty = some (k, sm', true) := by simp [regAdd, hf, hi]
        obtain ⟨_, v, hf', _⟩ := regAdd_find wf hadd
        exact regStep_add_found (t := { sm := sm', issued := t.issued ++ [k], removed := t.removed }) hf'
  have e1 : regRun R (ops ++ [.add ty, .add ty]) =
      regStep R (regStep R (regRun R ops) (.add ty)) (.add ty) := by
    simp [regRun, regRunFrom, List.foldl_append]
  have e2 : regRun R (ops ++ [.add ty]) = regStep R (regRun R ops) (.add ty) := by
    simp [regRun, regRunFrom, List.foldl_append]
  rw [e1, e2, h _ (reg_wf R ops)]

/-! ## Non-vacuity -/

/-- Re-registration returns the existing id; a removed id is dead; its index is reused at a higher
    generation; re-registering the removed tag yields a different id. -/
example :
    let t : Trace RegInfo :=
      regRun infoReg [.add 7, .add 8, .add 7, .remove ⟨0, 1⟩, .add 9, .add 7, .remove ⟨0, 1⟩]
    t.issued = [⟨0, 1⟩, ⟨1, 1⟩, ⟨0, 3⟩, ⟨2, 1⟩] ∧ t.removed = [⟨0, 1⟩] ∧
    t.sm.toList = [(⟨0, 3⟩, ⟨9, ⟨0, 3⟩⟩), (⟨1, 1⟩, ⟨8, ⟨1, 1⟩⟩), (⟨2, 1⟩, ⟨7, ⟨2, 1⟩⟩)] ∧
    t.sm.contains ⟨0, 1⟩ = false ∧
    (regAdd infoReg t.sm 8).map (fun r => (r.1, r.2.2)) = some (⟨1, 1⟩, false) ∧
    (regAdd infoReg t.sm 5).map (fun r => (r.1, r.2.2)) = some (⟨3, 1⟩, true) := by
  decide

example :
    ((regAdd natReg SlotMap.empty 4).bind fun r => (regAdd natReg r.2.1 4).map fun r' => (r.1, r'.1, r'.2.2))
      = some (⟨0, 1⟩, ⟨0, 1⟩, false) := by
  decide

#print axioms regAdd_existing
#print axioms regAdd_find
#print axioms regAdd_idem
#print axioms regAdd_new
#print axioms regRun_eq_run
#print axioms reg_wf
#print axioms id_valid_iff
#print axioms removed_id_never_valid
#print axioms removed_id_never_reissued
#print axioms ids_nodup
#print axioms index_reuse_changes_generation
#print axioms index_reuse_changes_generation'
#print axioms reg_len_eq
#print axioms reg_tags_unique
#print axioms lookup_idempotent

end Evenio
