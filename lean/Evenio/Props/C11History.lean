import Evenio.Proofs.EvLedgerConsTop
import Evenio.Proofs.EntHistory
import Evenio.Proofs.Inv.QueueEmpty
import Evenio.Props.C01Safe
/-!
# C11 / C13 along whole WORLD histories

> C11 "Every event value is destroyed exactly once unless ownership moved."
> C13 "A panicking handler loses no event and destroys none twice."

`Props/C11.lean` and `Props/C13.lean` prove these per flush and per delivery.  Both properties quantify over EVERY
history.  This file states them for arbitrary sequences of top-level operations (`send`, `sendto`, `spawn`, `despawn`,
`insert`, `remove`, `add_handler` / `remove_handler`, `add_component` / `remove_component`, `add_event` / `remove_event`,
the generation hook, `drop`) with arbitrary handler programs (`take`, `panic`, sends inside handlers, …), every operation
returning normally OR ending in a panic.

## How the model accounts for event values

* A serial is drawn from `nextESerial` (`freshE`) exactly when a user event value (`G n` / `T n`) is created: by the
  top-level `send` / `sendto` and by the handler actions `send`, `sendto`, `alloc`, `fwd`.  Events of the built-in types
  (`Spawn`, `Insert`, `AddHandler`, …) carry no serial and never touch the event ledger (`ledgerOf x = []`).
* `dropEvent x` — the destructor — writes the serial of a user event `x` to `edrops`.
* **`take`**: the model's `take` action moves the event value into the handler, which lets it go at once: the serial is
  written to `edrops` by the `take` itself and the ownership flag `inflightOwned` is set (one step; the harness does the
  same).  So "unless ownership moved" reads, in the model: *a taken event is destroyed exactly once too — by its new
  owner*; there is no separate set of taken serials, and the strongest true statement is the uniform one: every user
  event value ever created is in the ledger exactly once or still pending.
* `step` (one protocol step of the driver) clears `edrops` before the operation: `edrops` is the ledger of ONE operation
  (the `ed` observation line).  The ledger of a history is the concatenation `histDrops`.

## What is proved

With `pending w` the serials of the user events in `w.queue` and `D` the serials destroyed by earlier operations:

* **the ledger invariant** `LedgerOK D w`: `pending w ++ w.edrops ++ D` has no duplicates and only allocated serials
  (`< w.nextESerial`).  `execOp_ledger`, `step_ledger`: EVERY top-level operation, from ANY world satisfying it (no other
  invariant of the world is needed — no `WInv`, no quiescence, no validity of the operation), keeps it on normal return
  and after a panic.  Per function (`Proofs/EvLedger.lean`, `Proofs/EvLedgerTop.lean`): `runAct`, `runHandler`,
  `deliverOne` on every exit; `dropQueued`, `flushWith`, `sendGlobal`, `sendTargeted`, `addHandler`, `removeHandler`,
  `removeEvent`, `removeComponent`, … `execOp` on return and after a panic.
* **(A) no double destruction**: `history_no_double_drop` — along every history without a `ub` / `assert` marker the
  concatenated ledger has no duplicates; `reachE_edrops_nodup` — `w.edrops.Nodup` in every world reached from the empty
  world through operations that return or panic (`ReachE`, which contains `Reach`, `ReachP` and the `ReachSD` of C01).
* **(D) C13**: `panic_step_ledger`, `panic_history_disjoint` — an operation that ends in a panic leaves nothing
  pending and the invariant intact, so nothing a later operation destroys was destroyed by the panicking one.
* The one exit on which the invariant can break is a MARKER exit (`dropQueued_marker_breaks_ledger`, a kernel-checked
  counterexample); C01 (`Props/C01Safe.lean`) shows that no marker is reachable (`reachSD_noMarker`).
* **(B) second half / (C) conservation — none lost**: `Conserved a D w` (every serial from `a` up to the next one is
  pending, in the ledger, or in `D`) together with the registry invariant `TW` is kept by EVERY top-level operation from
  any world satisfying `TW` (`execOp_conserves`, `step_conserves`, `history_conserves`; per function `flush_conserves`,
  `deliverOne_conserves`).  **Quiescent corollaries**: `op_destroys_what_it_creates` — whenever an operation has returned
  or panicked, nothing is queued and the operation's ledger holds exactly the serials the operation allocated, each once;
  `history_quiescent` — after every history from the empty world the ledger of the history holds every serial ever
  allocated, each once (`history_destroys_what_it_creates` from any world).  What `TW` says, and why it is needed: see the
  section below.  On taken events: the model records no set of taken serials because its `take` destroys the value on
  the spot; "destroyed exactly once OR taken" is therefore the uniform statement "in the ledger exactly once", and the
  per-delivery theorems of `Props/C11.lean` (`deliverOne_disposition`, `runHandler_drops_iff_taken`) say which of the
  ledger entries are takes.
* **(E)** `demo_eval`, `demo_forever`, `demo_conserved`, `demo_panicking_op`: a kernel-evaluated history with a taking
  handler, a handler that panics with two events still queued, a dead-target send; the theorems instantiated.

Exits: "on every exit" (normal, panic, marker) holds for `runAct`, `runHandler`, `deliverOne` in the no-double-destruction
half; everything from `dropQueued` / `flushWith` upwards, and all of conservation, is for normal returns and panics.  The
model's own fuel marker (`panic "model:fuel"`) is a panic for this purpose: the ledger invariant and conservation hold
after it (the events stay pending: the guard has not run), only the statements "nothing is queued" exclude it. -/
namespace Evenio
namespace C11History
open EvLedger

/-! ## vocabulary -/

/-- serials of the user events pending in the queue -/
def pending (w : World) : List Nat := pend w.queue

/-- **the ledger invariant**, spelled out: the serials pending, destroyed by the current operation, and destroyed
    earlier (`D`) are pairwise distinct and have all been allocated -/
def LedgerOK (D : List Nat) (w : World) : Prop :=
  0 < w.nextESerial ∧ (pending w ++ w.edrops ++ D).Nodup ∧
  ∀ s ∈ pending w ++ w.edrops ++ D, 0 < s ∧ s < w.nextESerial

theorem ledgerOK_iff {D : List Nat} {w : World} : LedgerOK D w ↔ Led D w := by
  have p : (pending w ++ w.edrops ++ D).Perm (D ++ (pend w.queue ++ w.edrops)) := by
    unfold pending; perm_app
  exact ⟨fun h => Acct.perm h p, fun h => Acct.perm h p.symm⟩

/-- the empty world satisfies it -/
theorem ledgerOK_init : LedgerOK [] {} := ⟨Nat.one_pos, List.nodup_nil, (fun _ h => nomatch h)⟩

/-- in particular the ledger of the current operation has no duplicates, and is disjoint from what is pending -/
theorem LedgerOK.edrops_nodup {D : List Nat} {w : World} (h : LedgerOK D w) : w.edrops.Nodup :=
  (List.nodup_append.1 (List.nodup_append.1 h.2.1).1).2.1

theorem LedgerOK.pending_not_dropped {D : List Nat} {w : World} (h : LedgerOK D w) {s : Nat} (hp : s ∈ pending w) :
    s ∉ w.edrops ∧ s ∉ D := by
  have h1 := List.nodup_append.1 h.2.1
  have h2 := List.nodup_append.1 h1.1
  exact ⟨fun he => h2.2.2 s hp s he rfl, fun hd => h1.2.2 s (List.mem_append_left _ hp) s hd rfl⟩

/-- the operation `op`, run by `step` from `w`, did not end in a `ub` / `assert` marker (it returned or panicked) -/
def NoMarker (w : World) (op : Op) : Prop :=
  ∀ e, ((execOp op).run.run (stepInit w)).1 = .error e → e.isPanic = true

/-- … along a history -/
def NoMarkerHist : World → List Op → Prop
  | _, [] => True
  | w, op :: ops => NoMarker w op ∧ NoMarkerHist (step w op).1 ops

/-- **the ledger of a history**: everything destroyed by its operations (the concatenated `ed` lines), newest first -/
def histDrops : World → List Op → List Nat
  | _, [] => []
  | w, op :: ops => histDrops (step w op).1 ops ++ (step w op).1.edrops

@[simp] theorem histDrops_nil (w : World) : histDrops w [] = [] := rfl
theorem histDrops_cons (w : World) (op : Op) (ops : List Op) :
    histDrops w (op :: ops) = histDrops (step w op).1 ops ++ (step w op).1.edrops := rfl

/-! ## (B) the invariant is kept by every model function -/

/-- `P` holds in the final state of a run that returned normally or ended in a panic (nothing is said about a run that
    ended in a `ub` / `assert` marker) -/
def OnExit {α : Type} (P : World → Prop) (r : Except Err α × World) : Prop :=
  match r with
  | (.ok _, w') => P w'
  | (.error e, w') => e.isPanic = true → P w'

/-- **every top-level operation, from ANY world satisfying the ledger invariant, on normal return and after a panic** -/
theorem execOp_ledger (op : Op) {D : List Nat} {w : World} (h : LedgerOK D w) :
    OnExit (LedgerOK D) ((execOp op).run.run w) := by
  have := (execOp_led (Z := D) op).run w (ledgerOK_iff.1 h)
  generalize (execOp op).run.run w = r at this
  obtain ⟨(e|a), w'⟩ := r
  · exact fun hp => ledgerOK_iff.2 (this hp)
  · exact ledgerOK_iff.2 this

/-- per function: anything with a triple `Hoare (Led D) m (fun _ => Led D) (PanicOnly (Led D))` — `flush_led`,
    `dropQueued_led`, `addHandler_led`, `removeHandler_led`, `removeEvent_led`, `removeComponent_led`, … -/
theorem ledger_of_kp {α : Type} {m : M α} {D : List Nat} (hm : KP (Led D) m) {w : World} (h : LedgerOK D w) :
    OnExit (LedgerOK D) (m.run.run w) := by
  have := hm.run w (ledgerOK_iff.1 h)
  generalize m.run.run w = r at this
  obtain ⟨(e|a), w'⟩ := r
  · exact fun hp => ledgerOK_iff.2 (this hp)
  · exact ledgerOK_iff.2 this

/-- **one delivery, on EVERY exit** (normal, panic, marker): handed an event whose serial is new (`ledgerOf it` is
    `[serial]` for a user event, `[]` otherwise), `deliverOne` leaves the invariant — the event went to the ledger by
    exactly one of: dead target, `take`, the drop after the handler loop, the unwinding guard; or it has no drop function
    / a built-in effect and is forgotten — and everything its handlers sent is pending under fresh serials -/
theorem deliverOne_ledger (it : QItem) {D : List Nat} {w : World} (h : Led (ledgerOf it ++ D) w) :
    Led D ((deliverOne it).run.run w).2 := by
  have := (deliverOne_led (Z := D) it).run w h
  generalize (deliverOne it).run.run w = r at this
  obtain ⟨(e|a), w'⟩ := r <;> exact this

/-- **a whole flush**: on return and after a panic (the unwinding guard has run `dropQueued`) -/
theorem flush_ledger (fuel : Nat) {D : List Nat} {w : World} (h : LedgerOK D w) :
    OnExit (LedgerOK D) ((flush fuel).run.run w) :=
  ledger_of_kp (flush_led fuel) h

/-- **one handler run, on every exit**, while `it` is in flight with the ownership flag clear: afterwards either the
    flag is still clear and `it` is still only in flight, or the flag is set and `it` is in the ledger — once -/
theorem runHandler_ledger (hk : Key) (it : QItem) (loc : Loc) {D : List Nat} {w : World}
    (h : LIn it D false w) : LedI it D ((runHandler hk it loc).run.run w).2 := by
  have := (runHandler_led (Z := D) (b := false) hk it loc).run w h
  generalize (runHandler hk it loc).run.run w = r at this
  obtain ⟨(e|a), w'⟩ := r
  · exact this
  · exact LZ.ledI this

/-! ## one protocol step, histories -/

theorem stepInit_led {D : List Nat} {w : World} (h : LedgerOK D w) : Led (w.edrops ++ D) (stepInit w) := by
  have h0 : Led D w := ledgerOK_iff.1 h
  refine Acct.perm h0 ?_
  show (D ++ (pend w.queue ++ w.edrops)).Perm ((w.edrops ++ D) ++ (pend w.queue ++ []))
  perm_app

/-- **one protocol step** (`step` clears `edrops`: what the previous operation destroyed moves to `D`) -/
theorem step_ledger {D : List Nat} {w : World} {op : Op} (h : LedgerOK D w) (hm : NoMarker w op) :
    LedgerOK (w.edrops ++ D) (step w op).1 := by
  have := (execOp_led (Z := w.edrops ++ D) op).run (stepInit w) (stepInit_led h)
  rw [step_fst_eq]
  have hm' := hm
  unfold NoMarker at hm'
  generalize (execOp op).run.run (stepInit w) = r at this hm'
  obtain ⟨(e|a), w'⟩ := r
  · exact ledgerOK_iff.2 (this (hm' e rfl))
  · exact ledgerOK_iff.2 this

/-- **every history without a marker**: the invariant holds at the end, with the ledger of the whole history -/
theorem history_ledger {D : List Nat} {w : World} (ops : List Op) (h : LedgerOK D w) (hm : NoMarkerHist w ops) :
    (pending (runHist w ops) ++ (histDrops w ops ++ w.edrops) ++ D).Nodup ∧
    ∀ s ∈ pending (runHist w ops) ++ (histDrops w ops ++ w.edrops) ++ D,
      0 < s ∧ s < (runHist w ops).nextESerial := by
  induction ops generalizing w D with
  | nil =>
    rw [runHist_nil, histDrops_nil, List.nil_append]
    exact h.2
  | cons op ops ih =>
    have h1 := step_ledger h hm.1
    have := ih h1 hm.2
    rw [runHist_cons, histDrops_cons]
    have e : pending (runHist (step w op).1 ops) ++ (histDrops (step w op).1 ops ++ (step w op).1.edrops ++ w.edrops) ++ D =
        pending (runHist (step w op).1 ops) ++ (histDrops (step w op).1 ops ++ (step w op).1.edrops) ++ (w.edrops ++ D) := by
      simp only [List.append_assoc]
    rw [e]
    exact this

/-! ## (A) no double destruction -/

/-- **(A), histories**: along every history (any operations, any handler programs, normal returns and panics) from a
    world satisfying the ledger invariant, no serial is written to the ledger twice — not within one operation, not by
    two different operations — and nothing that was destroyed is still pending -/
theorem history_no_double_drop {D : List Nat} {w : World} (ops : List Op) (h : LedgerOK D w)
    (hm : NoMarkerHist w ops) :
    (histDrops w ops ++ w.edrops ++ D).Nodup ∧
    ∀ s ∈ pending (runHist w ops), s ∉ histDrops w ops ++ w.edrops ++ D := by
  have h1 := (history_ledger ops h hm).1
  rw [List.append_assoc] at h1
  have h2 := List.nodup_append.1 h1
  exact ⟨h2.2.1, fun s hs hd => h2.2.2 s hs s hd rfl⟩

/-- … from the empty world -/
theorem history_no_double_drop_init (ops : List Op) (hm : NoMarkerHist {} ops) : (histDrops {} ops).Nodup := by
  have := (history_no_double_drop ops ledgerOK_init hm).1
  simpa using this

/-- the worlds reached from the empty world by operations that return normally or end in a panic (ANY panic: pending
    reservations, the model's fuel marker included); no validity condition on the operations -/
inductive ReachE : World → Prop
  | init : ReachE {}
  | step {w : World} (op : Op) : ReachE w → NoMarker w op → ReachE (step w op).1

theorem noMarker_of_stepOk {w : World} {op : Op} (h : StepOk w op) : NoMarker w op := by
  obtain ⟨l, hl⟩ := h
  intro e he
  rw [hl] at he; cases he

theorem noMarker_of_stepPanic {w : World} {op : Op} (h : StepPanic w op) : NoMarker w op := by
  obtain ⟨c, hc, -⟩ := h
  intro e he
  rw [hc] at he; cases he; rfl

/-- `ReachE` contains the reachability notions of the invariant proofs … -/
theorem reachE_of_reachP {w : World} (h : ReachP w) : ReachE w := by
  induction h with
  | init => exact .init
  | step op _ _ hok ih => exact .step op ih (noMarker_of_stepOk hok)
  | panic op _ _ hp _ ih => exact .step op ih (noMarker_of_stepPanic hp)

theorem reachE_of_reach {w : World} (h : Reach w) : ReachE w := reachE_of_reachP (reach_reachP h)

/-- … and of C01 (debug mode; the release-mode worlds start from `{ debug := false }`, see `ledgerOK_init_release`) -/
theorem reachE_of_reachSD {w : World} (h : C01.ReachSD true w) : ReachE w := by
  induction h with
  | init => exact .init
  | step op _ _ hok ih => exact .step op ih (noMarker_of_stepOk hok)
  | panic op _ _ hp _ ih => exact .step op ih (noMarker_of_stepPanic hp)

theorem ledgerOK_init_release : LedgerOK [] { debug := false } :=
  ⟨Nat.one_pos, List.nodup_nil, (fun _ h => nomatch h)⟩

/-- every reachable world satisfies the ledger invariant (for the serials destroyed by the earlier operations) -/
theorem reachE_ledger {w : World} (h : ReachE w) : ∃ D, LedgerOK D w := by
  induction h with
  | init => exact ⟨[], ledgerOK_init⟩
  | step op _ hm ih =>
    obtain ⟨D, hD⟩ := ih
    exact ⟨_, step_ledger hD hm⟩

/-- **(A), worlds**: in every world reached from the empty world — through normal returns AND panics — the event
    ledger has no duplicates -/
theorem reachE_edrops_nodup {w : World} (h : ReachE w) : w.edrops.Nodup := by
  obtain ⟨D, hD⟩ := reachE_ledger h
  exact hD.edrops_nodup

/-- **C01 closes the gap**: from the worlds of C01 (`ReachSD d`: valid operations with the receiver listed first, normal
    returns and panics without a pending reservation, debug or release mode), no operation ends in a marker — so the
    hypothesis `NoMarker` of the theorems above is a theorem there -/
theorem reachSD_noMarker {d : Bool} {w : World} {op : Op} (h : C01.ReachSD d w) (hv : op.SValid)
    (hs : Small (step w op).1) : NoMarker w op :=
  C01.no_ub_reachable_both d w op h hv hs

/-! ## (D) the link to C13: a panicking operation -/

/-- after an operation that returned, or ended in a panic other than the model's own fuel marker, nothing is queued
    (`InvV7.execOp_qe`: the unwinding guard has run `dropQueued`) -/
theorem step_queue_nil {w : World} {op : Op} (hq : w.queue = [])
    (hf : ((execOp op).run.run (stepInit w)).1 ≠ .error (.panic "model:fuel")) (hm : NoMarker w op) :
    (step w op).1.queue = [] := by
  have := (InvV7.execOp_qe op).run (stepInit w) hq
  rw [step_fst_eq]
  unfold NoMarker at hm
  generalize (execOp op).run.run (stepInit w) = r at this hm hf
  obtain ⟨(e|a), w'⟩ := r
  · exact this (hm e rfl) (fun he => hf (by rw [he]))
  · exact this

/-- **(D) one panicking operation**: started with an empty queue in a world satisfying the ledger invariant, an operation
    that ends in a panic (a handler's, or a documented panic of the library) leaves NOTHING pending and the invariant
    intact: every event value of the interrupted propagation that was destroyed is in the ledger exactly once -/
theorem panic_step_ledger {D : List Nat} {w : World} {op : Op} (h : LedgerOK D w) (hq : w.queue = [])
    (hp : StepPanic w op) :
    pending (step w op).1 = [] ∧ (step w op).1.queue = [] ∧ LedgerOK (w.edrops ++ D) (step w op).1 := by
  have hm := noMarker_of_stepPanic hp
  have hq' : (step w op).1.queue = [] := by
    refine step_queue_nil hq ?_ hm
    obtain ⟨c, hc, hne⟩ := hp
    rw [hc]
    intro he
    cases he
    exact hne rfl
  exact ⟨by unfold pending; rw [hq']; rfl, hq', step_ledger h hm⟩

/-- **(D) … and later operations never see the events of the panicked propagation again**: whatever continuation of
    the history (marker-free), nothing it destroys was destroyed by the panicking operation (or before), and nothing the
    panicking operation destroyed is ever pending again -/
theorem panic_history_disjoint {D : List Nat} {w : World} {op : Op} (h : LedgerOK D w) (hq : w.queue = [])
    (hp : StepPanic w op) (ops : List Op) (hm : NoMarkerHist (step w op).1 ops) :
    (∀ s ∈ histDrops (step w op).1 ops, s ∉ (step w op).1.edrops ∧ s ∉ w.edrops ∧ s ∉ D) ∧
    (∀ s ∈ (step w op).1.edrops, s ∉ pending (runHist (step w op).1 ops)) := by
  obtain ⟨-, -, h1⟩ := panic_step_ledger h hq hp
  obtain ⟨hn, hpd⟩ := history_no_double_drop ops h1 hm
  refine ⟨fun s hs => ?_, fun s hs hpe => ?_⟩
  · rw [List.append_assoc] at hn
    have hd := (List.nodup_append.1 hn).2.2 s hs
    refine ⟨fun h' => hd s (List.mem_append_left _ h') rfl, fun h' => ?_, fun h' => ?_⟩
    · exact hd s (List.mem_append_right _ (List.mem_append_left _ h')) rfl
    · exact hd s (List.mem_append_right _ (List.mem_append_right _ h')) rfl
  · exact hpd s hpe (List.mem_append_left _ (List.mem_append_right _ hs))

/-! ## the marker exit of `dropQueued` breaks the invariant (and nothing else does) -/

/-- a world with one registered global event (index 0) and two queued user events, the second of which refers to an
    event index that is not registered -/
def brokenWorld : World :=
  { gevs := { slots := [⟨1, U32MAX, some { ty := .g 0, id := ⟨0, 1⟩, kind := .normal, needsDrop := true }⟩], len := 1 }
    queue := [{ ty := .g 0, idx := 0, pay := { serial := 1 } }, { ty := .g 0, idx := 5, pay := { serial := 2 } }]
    nextESerial := 3 }

instance (n : Nat) (l : List Nat) : Decidable (Acct n l) := by unfold Acct; infer_instance

/-- **counterexample to "the invariant holds on EVERY exit"**: `brokenWorld` satisfies the ledger invariant; `dropQueued`
    destroys the first queued event, then stops with `ub` at the second — the queue has not been cleared, so serial `1`
    is both in the ledger and pending.  (A marker exit ends the history: the model does not unwind `ub`/`assert`.)  This is
    why `dropQueued`, `flushWith` and everything above them are stated for normal returns and panics only; `deliverOne`
    and everything below it keep the invariant on every exit. -/
theorem dropQueued_marker_breaks_ledger :
    Led [] brokenWorld ∧
    (dropQueued.run.run brokenWorld).1.toBool = false ∧
    (match (dropQueued.run.run brokenWorld).1 with | .error (.ub _) => true | _ => false) = true ∧
    pend (dropQueued.run.run brokenWorld).2.queue ++ (dropQueued.run.run brokenWorld).2.edrops = [1, 2, 1] ∧
    ¬ Led [] (dropQueued.run.run brokenWorld).2 := by
  decide +kernel


/-! ## (B), second half, and (C): conservation — no event value is lost

`Conserved a D w`: every serial from `a` up to `w.nextESerial` is pending, in the ledger of the current operation, or in
`D`.  It needs a fact about the REGISTRIES that the no-double-destruction half does not: whoever disposes of a user event
(`deliverOne`, `dropQueued`) asks the registry entry the event's index selects whether the event has a drop function
(`needs_drop`); an entry without one — or no entry — and the value is leaked.  `TW w` (`Proofs/EvLedgerConsTop.lean`) is
the invariant that excludes this: registered user event types have a drop function and the normal kind; the event set of
every registered handler names live registry slots of the right type (so what `Sender::send` queues is disposable) and is
covered by the handler's sent-events set (so `remove_event` removes the senders before the registry entry: C14);
registered handlers are in `by_insert_order`; queued user events are disposable.  The empty world satisfies it and EVERY
top-level operation keeps it, together with `Conserved`, on normal return and after a panic — from any world, for any
operation (`execOp_conserves`). -/

/-- every serial from `a` up to the next one is pending, destroyed by the current operation, or in `D` -/
def Conserved (a : Nat) (D : List Nat) (w : World) : Prop :=
  ∀ s, a ≤ s → s < w.nextESerial → s ∈ pending w ∨ s ∈ w.edrops ∨ s ∈ D

theorem conserved_iff {a : Nat} {D : List Nat} {w : World} : Conserved a D w ↔ Cov a D w := by
  unfold Conserved pending
  constructor
  · intro h s h1 h2
    rcases h s h1 h2 with h3 | h3 | h3
    · exact List.mem_append_right _ (List.mem_append_left _ h3)
    · exact List.mem_append_right _ (List.mem_append_right _ h3)
    · exact List.mem_append_left _ h3
  · intro h s h1 h2
    rcases List.mem_append.1 (h s h1 h2) with h3 | h3
    · exact .inr (.inr h3)
    · rcases List.mem_append.1 h3 with h4 | h4
      · exact .inl h4
      · exact .inr (.inl h4)

/-- the registry invariant of conservation holds in the empty world -/
theorem tw_empty : TW {} := tw_init

/-- nothing has been allocated in the empty world -/
theorem conserved_init (D : List Nat) : Conserved 1 D {} := fun s h1 h2 => by
  have : s < 1 := h2
  omega

/-- from the next serial on, nothing has been allocated: the base case for "what ONE operation allocates" -/
theorem conserved_base (D : List Nat) (w : World) : Conserved w.nextESerial D w := fun s h1 h2 => by omega

/-- **every top-level operation conserves, from ANY world satisfying `TW`, on normal return and after a panic**: the
    registry invariant holds again and every serial allocated so far is pending, destroyed, or in `D` -/
theorem execOp_conserves (op : Op) {a : Nat} {D : List Nat} {w : World} (tw : TW w) (h : Conserved a D w) :
    OnExit (fun w' => TW w' ∧ Conserved a D w') ((execOp op).run.run w) := by
  have := (execOp_tq (a := a) (Z := D) op).run w ⟨tw, conserved_iff.1 h⟩
  generalize (execOp op).run.run w = r at this
  obtain ⟨(e|x), w'⟩ := r
  · exact fun hp => ⟨(this hp).1, conserved_iff.2 (this hp).2⟩
  · exact ⟨this.1, conserved_iff.2 this.2⟩

/-- **a flush conserves** (the registries do not change during a flush) -/
theorem flush_conserves (fuel : Nat) {a : Nat} {D : List Nat} {w : World} (tw : TW w) (h : Conserved a D w) :
    OnExit (fun w' => TW w' ∧ Conserved a D w') ((flush fuel).run.run w) := by
  have := (flush_tq (a := a) (Z := D) fuel).run w ⟨tw, conserved_iff.1 h⟩
  generalize (flush fuel).run.run w = r at this
  obtain ⟨(e|x), w'⟩ := r
  · exact fun hp => ⟨(this hp).1, conserved_iff.2 (this hp).2⟩
  · exact ⟨this.1, conserved_iff.2 this.2⟩

/-- **one delivery conserves**: if the delivered user event's registry entry has a drop function and the normal kind
    (`TOK`; nothing is required of an event of a built-in type), its serial is in the ledger when the delivery returns OR
    panics — by the dead-target drop, a `take`, the drop after the handler loop, or the unwinding guard -/
theorem deliverOne_conserves (it : QItem) {a : Nat} {D : List Nat} {w : World} (hok : TOK w.gevs w.tevs it)
    (h : Cov a (ledgerOf it ++ D) w) : OnExit (Cov a D) ((deliverOne it).run.run w) := by
  have := (deliverOne_cov (a := a) (Z := D) it).run w ⟨hok, h⟩
  generalize (deliverOne it).run.run w = r at this
  obtain ⟨(e|x), w'⟩ := r <;> exact this

theorem stepInit_topq {a : Nat} {D : List Nat} {w : World} (tw : TW w) (h : Conserved a D w) :
    EvLedger.TopQ a (w.edrops ++ D) (stepInit w) := by
  refine ⟨tw.comps tw.ri rfl rfl rfl rfl rfl, ?_⟩
  have h0 : Cov a D w := conserved_iff.1 h
  refine (cover_accounting a).perm h0 ?_
  show (D ++ (pend w.queue ++ w.edrops)).Perm ((w.edrops ++ D) ++ (pend w.queue ++ []))
  perm_app

/-- **one protocol step** -/
theorem step_conserves {a : Nat} {D : List Nat} {w : World} {op : Op} (tw : TW w) (h : Conserved a D w)
    (hm : NoMarker w op) : TW (step w op).1 ∧ Conserved a (w.edrops ++ D) (step w op).1 := by
  have := (execOp_tq (a := a) (Z := w.edrops ++ D) op).run (stepInit w) (stepInit_topq tw h)
  rw [step_fst_eq]
  unfold NoMarker at hm
  generalize (execOp op).run.run (stepInit w) = r at this hm
  obtain ⟨(e|x), w'⟩ := r
  · exact ⟨(this (hm e rfl)).1, conserved_iff.2 (this (hm e rfl)).2⟩
  · exact ⟨this.1, conserved_iff.2 this.2⟩

/-- **every history without a marker conserves**: at the end every serial allocated so far (from `a` on) is pending or
    in the ledger of the history (or was in `w.edrops ++ D` to begin with), and the registry invariant holds -/
theorem history_conserves {a : Nat} {D : List Nat} {w : World} (ops : List Op) (tw : TW w) (h : Conserved a D w)
    (hm : NoMarkerHist w ops) :
    TW (runHist w ops) ∧
    ∀ s, a ≤ s → s < (runHist w ops).nextESerial →
      s ∈ pending (runHist w ops) ∨ s ∈ histDrops w ops ++ w.edrops ++ D := by
  induction ops generalizing w D with
  | nil =>
    refine ⟨tw, fun s h1 h2 => ?_⟩
    rcases h s h1 h2 with h3 | h3 | h3
    · exact .inl h3
    · exact .inr (by simp [h3])
    · exact .inr (by simp [h3])
  | cons op ops ih =>
    obtain ⟨tw1, h1⟩ := step_conserves tw h hm.1
    obtain ⟨tw2, h2⟩ := ih tw1 h1 hm.2
    refine ⟨tw2, fun s hs1 hs2 => ?_⟩
    rw [runHist_cons] at hs2 ⊢
    rcases h2 s hs1 hs2 with h3 | h3
    · exact .inl h3
    · refine .inr ?_
      rw [histDrops_cons]
      simp only [List.mem_append] at h3 ⊢
      rcases h3 with (h3 | h3) | h3 | h3
      · exact .inl (.inl (.inl h3))
      · exact .inl (.inl (.inr h3))
      · exact .inl (.inr h3)
      · exact .inr h3

/-- every world reached from the empty world satisfies the registry invariant of conservation -/
theorem reachE_tw {w : World} (h : ReachE w) : TW w := by
  induction h with
  | init => exact tw_init
  | step op _ hm ih => exact (step_conserves ih (conserved_base [] _) hm).1

/-! ### (C) the quiescent corollary -/

/-- the operation did not end in the model's own fuel marker -/
def NoFuel (w : World) (op : Op) : Prop := ((execOp op).run.run (stepInit w)).1 ≠ .error (.panic "model:fuel")

/-- every operation of the history returned, or ended in a panic — a handler's or a documented panic of the library —
    other than the model's fuel marker -/
def QuietHist : World → List Op → Prop
  | _, [] => True
  | w, op :: ops => NoMarker w op ∧ NoFuel w op ∧ QuietHist (step w op).1 ops

theorem QuietHist.noMarker {w : World} {ops : List Op} (h : QuietHist w ops) : NoMarkerHist w ops := by
  induction ops generalizing w with
  | nil => trivial
  | cons op ops ih => exact ⟨h.1, ih h.2.2⟩

/-- between the operations of such a history nothing is queued -/
theorem QuietHist.queue_nil {w : World} {ops : List Op} (h : QuietHist w ops) (hq : w.queue = []) :
    (runHist w ops).queue = [] := by
  induction ops generalizing w with
  | nil => exact hq
  | cons op ops ih => exact ih h.2.2 (step_queue_nil hq h.2.1 h.1)

/-- **(C) one operation destroys everything it creates.**  From ANY world satisfying the registry invariant with an empty
    queue: when the operation has returned OR panicked, nothing is queued and every event value it created (top-level
    `send` / `sendto`, every `send` of every handler that ran — including the handlers that panicked and the events still
    queued when they did) is in the operation's ledger, exactly once: destroyed after its delivery, at a dead target,
    rejected by a failing `Sender::send`, by the unwinding guard, by `dropQueued`, or — taken — by the handler that took
    it.  None lost, none twice. -/
theorem op_destroys_what_it_creates {w : World} {op : Op} (tw : TW w) (hpos : 0 < w.nextESerial)
    (hq : w.queue = []) (hm : NoMarker w op) (hf : NoFuel w op) :
    (step w op).1.queue = [] ∧ (step w op).1.edrops.Nodup ∧
    (∀ s, w.nextESerial ≤ s → s < (step w op).1.nextESerial → s ∈ (step w op).1.edrops) ∧
    (∀ s ∈ (step w op).1.edrops, w.nextESerial ≤ s → s < (step w op).1.nextESerial) := by
  have hq' := step_queue_nil hq hf hm
  have hc : Conserved w.nextESerial ([] ++ []) (step w op).1 :=
    (step_conserves (w := { w with edrops := [] }) (op := op) (D := []) (tw.comps tw.ri rfl rfl rfl rfl rfl)
      (conserved_base [] _) hm).2
  -- no double destruction: the ledger invariant with `D := every serial allocated before`
  have hL : LedgerOK [] { w with edrops := [] } := by
    refine ⟨hpos, ?_, fun s hs => ?_⟩
    · show (pend w.queue ++ [] ++ []).Nodup
      rw [hq]; exact List.nodup_nil
    · have : s ∈ pend w.queue ++ [] ++ [] := hs
      rw [hq] at this; cases this
  have hs := step_ledger (w := { w with edrops := [] }) (op := op) hL hm
  have e : step { w with edrops := [] } op = step w op := rfl
  rw [e] at hs
  refine ⟨hq', hs.edrops_nodup, fun s h1 h2 => ?_, fun s hs' _ => ?_⟩
  · rcases hc s h1 h2 with h3 | h3 | h3
    · unfold pending at h3; rw [hq'] at h3; cases h3
    · exact h3
    · simp at h3
  · exact (hs.2.2 s (List.mem_append_left _ (List.mem_append_right _ hs'))).2

/-- **(C) whole histories from the empty world: every user event value ever created has been destroyed exactly once.**
    After any history of top-level operations (each returned or panicked): nothing is queued; the ledger of the history has
    no duplicates, contains only allocated serials, and contains EVERY serial allocated so far.  (A taken event is in the
    ledger because the handler that took it destroyed it: the model's `take` drops the value at once.) -/
theorem history_quiescent {ops : List Op} (h : QuietHist {} ops) :
    (runHist {} ops).queue = [] ∧
    (histDrops {} ops).Nodup ∧
    (∀ s ∈ histDrops {} ops, 0 < s ∧ s < (runHist {} ops).nextESerial) ∧
    (∀ s, 1 ≤ s → s < (runHist {} ops).nextESerial → s ∈ histDrops {} ops) := by
  have hq := h.queue_nil rfl
  have h1 := history_ledger ops ledgerOK_init h.noMarker
  have h2 := (history_conserves ops tw_init (conserved_init []) h.noMarker).2
  have hp : pending (runHist {} ops) = [] := by unfold pending; rw [hq]; rfl
  rw [hp] at h1
  simp only [List.nil_append, List.append_nil] at h1
  refine ⟨hq, h1.1, h1.2, fun s hs1 hs2 => ?_⟩
  rcases h2 s hs1 hs2 with h3 | h3
  · rw [hp] at h3; cases h3
  · simpa using h3

/-- **(C), in one line: the ledger of a history from the empty world is a permutation of `1, 2, …, nextESerial - 1`** —
    exactly the event values created, each exactly once -/
theorem history_ledger_exact {ops : List Op} (h : QuietHist {} ops) :
    (histDrops {} ops).Perm (List.range' 1 ((runHist {} ops).nextESerial - 1)) := by
  obtain ⟨-, h1, h2, h3⟩ := history_quiescent h
  refine (List.perm_ext_iff_of_nodup h1 (List.nodup_range' ..)).2 fun s => ?_
  rw [List.mem_range'_1]
  constructor
  · intro hs
    have := h2 s hs
    omega
  · intro hs
    exact h3 s hs.1 (by omega)

/-- … and from any world satisfying the invariants with an empty queue: what the history allocates, it destroys —
    exactly once -/
theorem history_destroys_what_it_creates {D : List Nat} {w : World} {ops : List Op} (tw : TW w)
    (hl : LedgerOK D w) (hq : w.queue = []) (h : QuietHist w ops) :
    (runHist w ops).queue = [] ∧ (histDrops w ops).Nodup ∧
    ∀ s, w.nextESerial ≤ s → s < (runHist w ops).nextESerial → s ∈ histDrops w ops := by
  have hq' := h.queue_nil hq
  have h1 := (history_no_double_drop ops hl h.noMarker).1
  have h2 := (history_conserves (a := w.nextESerial) (D := []) ops tw (conserved_base [] w) h.noMarker).2
  refine ⟨hq', (List.nodup_append.1 (List.nodup_append.1 h1).1).1, fun s hs1 hs2 => ?_⟩
  rcases h2 s hs1 hs2 with h3 | h3
  · unfold pending at h3; rw [hq'] at h3; cases h3
  · simp only [List.append_nil, List.mem_append] at h3
    rcases h3 with h3 | h3
    · exact h3
    · have := (hl.2.2 s (List.mem_append_left _ (List.mem_append_right _ h3))).2
      omega

/-! ### the worlds of C01: no hypothesis on the outcome left

For the worlds the driver reaches in the sense of C01 (`C01.ReachSD d`: debug or release mode, valid operations with the
receiver listed first, normal returns and panics that leave no reservation pending) the hypothesis "the operation did not
end in a marker" is a theorem (`C01.no_ub_reachable_both`), and the queue is empty between operations. -/

theorem tw_init_release : TW { debug := false } where
  ri := ⟨SlotMap.wf_empty, SlotMap.wf_empty, SlotMap.wf_empty, SlotMap.wf_empty, (fun _ h => nomatch h), (fun _ h => nomatch h)⟩
  dropG := fun k info h => by cases h
  dropT := fun k info h => by cases h
  sends := fun hk h hh => by cases hh
  listed := fun hk h hh => by cases hh
  queue := fun q hq => nomatch hq

/-- every world of C01 satisfies the ledger invariant and the registry invariant of conservation -/
theorem reachSD_invariants {d : Bool} {w : World} (h : C01.ReachSD d w) : (∃ D, LedgerOK D w) ∧ TW w := by
  induction h with
  | init =>
    refine ⟨⟨[], Nat.one_pos, List.nodup_nil, (fun _ h => nomatch h)⟩, ?_⟩
    cases d
    · exact tw_init_release
    · exact tw_init
  | step op _ _ hok ih =>
    obtain ⟨⟨D, hD⟩, tw⟩ := ih
    exact ⟨⟨_, step_ledger hD (noMarker_of_stepOk hok)⟩,
      (step_conserves tw (conserved_base [] _) (noMarker_of_stepOk hok)).1⟩
  | panic op _ _ hp _ ih =>
    obtain ⟨⟨D, hD⟩, tw⟩ := ih
    exact ⟨⟨_, step_ledger hD (noMarker_of_stepPanic hp)⟩,
      (step_conserves tw (conserved_base [] _) (noMarker_of_stepPanic hp)).1⟩

/-- **C11 + C13 for every operation the driver can run, with no hypothesis on how it ends** (other than the model's fuel
    marker): from a world of C01, a valid operation — whatever the registered handlers do, whether it returns or a handler
    panics at any point of the propagation — leaves nothing queued, and its ledger holds exactly the event values it
    created, each once -/
theorem reachSD_op_destroys_what_it_creates {d : Bool} {w : World} {op : Op} (h : C01.ReachSD d w)
    (hv : op.SValid) (hs : Small (step w op).1) (hf : NoFuel w op) :
    (step w op).1.queue = [] ∧ (step w op).1.edrops.Nodup ∧
    (∀ s, w.nextESerial ≤ s → s < (step w op).1.nextESerial → s ∈ (step w op).1.edrops) ∧
    (∀ s ∈ (step w op).1.edrops, w.nextESerial ≤ s → s < (step w op).1.nextESerial) :=
  op_destroys_what_it_creates (reachSD_invariants h).2 (reachSD_invariants h).1.choose_spec.1
    (C01.reachSD_inv h (small_of_step' w op hv.1 hs)).2.1.1 (reachSD_noMarker h hv hs) hf

/-! ## (E) non-vacuity: a history with a `take`, a panic in the middle of a propagation, a dead target

Closed histories, evaluated by the kernel (`decide +kernel`). -/

/-- executable form of `NoMarker` -/
def noMarkerB (w : World) (op : Op) : Bool :=
  match ((execOp op).run.run (stepInit w)).1 with
  | .error (.ub _) => false
  | .error (.assert _) => false
  | _ => true

theorem noMarker_of_check {w : World} {op : Op} (h : noMarkerB w op = true) : NoMarker w op := by
  unfold noMarkerB at h
  intro e he
  rw [he] at h
  cases e with
  | panic c => rfl
  | ub s => cases h
  | «assert» s => cases h

def noMarkerHistB : World → List Op → Bool
  | _, [] => true
  | w, op :: ops => noMarkerB w op && noMarkerHistB (step w op).1 ops

theorem noMarkerHist_of_check {w : World} {ops : List Op} (h : noMarkerHistB w ops = true) : NoMarkerHist w ops := by
  induction ops generalizing w with
  | nil => trivial
  | cons op ops ih =>
    unfold noMarkerHistB at h
    rw [Bool.and_eq_true] at h
    exact ⟨noMarker_of_check h.1, ih h.2⟩

/-- receives `G0` mutably, sends `G1` twice, TAKES the event — twice: the second `take` finds the ownership flag set -/
def hTake : HSpec :=
  { name := "t", params := [.recv (.g 0) true none, .snd [.g 1]], body := [.send 1, .send 1, .take, .take] }
/-- receives `G1`, sends `G2`, then PANICS: the `G2` it sent and the second `G1` are still queued -/
def hPanic : HSpec :=
  { name := "p", params := [.recv (.g 1) false none, .snd [.g 2]], body := [.send 2, .panic] }

/-- `send G0` (taken; the propagation is interrupted by the panic of `p`: two events still queued), `sendto T0` to an
    entity that does not exist (dead target), `send G2` (no handler), `send G1` (panics at once), `send G0` again -/
def demoOps : List Op :=
  [.addh hTake, .addh hPanic, .send 0, .sendto 0 5, .send 2, .send 1, .send 0]

/-- the outcome of every operation of a history: `none` = returned, `some cls` = panic -/
def outcomes : World → List Op → List (Option String)
  | _, [] => []
  | w, op :: ops =>
    (match ((execOp op).run.run (stepInit w)).1 with
      | .error (.panic c) => some c
      | .error (.ub s) => some ("ub " ++ s)
      | .error (.assert s) => some ("assert " ++ s)
      | .ok _ => none) :: outcomes (step w op).1 ops

/-- the per-operation ledgers (`ed` lines), oldest first -/
def ledgers : World → List Op → List (List Nat)
  | _, [] => []
  | w, op :: ops => (step w op).1.edrops :: ledgers (step w op).1 ops

set_option maxRecDepth 1000000 in
/-- **the demo history, evaluated**: operations 3, 6, 7 end in `panic user`; the ledgers are
    `[4,3,2,1]` — `G0(s1)` taken by `t` (once, although it `take`s twice), `G1(s2)` in flight when `p` panicked (dropped by
    the unwinding guard of the delivery), `G1(s3)` and `G2(s4)` still queued (dropped by `dropQueued`) —, `[5]` (dead target),
    `[6]`, `[8,7]`, `[12,11,10,9]`; twelve serials were allocated, twelve destroyed, nothing is pending -/
theorem demo_eval :
    noMarkerHistB {} demoOps = true ∧
    outcomes {} demoOps = [none, none, some "user", none, none, some "user", some "user"] ∧
    ledgers {} demoOps = [[], [], [4, 3, 2, 1], [5], [6], [8, 7], [12, 11, 10, 9]] ∧
    histDrops {} demoOps = [12, 11, 10, 9, 8, 7, 6, 5, 4, 3, 2, 1] ∧
    (runHist {} demoOps).nextESerial = 13 ∧
    (runHist {} demoOps).queue.length = 0 ∧
    (runHist {} (demoOps.take 3)).queue.length = 0 ∧
    (runHist {} (demoOps.take 3)).inflightOwned = false := by
  decide +kernel

theorem demo_noMarker : NoMarkerHist {} demoOps := noMarkerHist_of_check demo_eval.1

/-- the theorems apply to it … -/
example : (histDrops {} demoOps).Nodup := history_no_double_drop_init demoOps demo_noMarker

/-- … and to every continuation: whatever operations follow, with whatever handlers, as long as no marker is hit,
    none of the twelve event values destroyed so far is destroyed again or becomes pending again -/
theorem demo_forever (more : List Op) (hm : NoMarkerHist (runHist {} demoOps) more) :
    (histDrops (runHist {} demoOps) more ++ histDrops {} demoOps).Nodup ∧
    ∀ s ∈ pending (runHist (runHist {} demoOps) more), s ∉ histDrops {} demoOps := by
  have h0 := history_ledger demoOps ledgerOK_init demo_noMarker
  have hq : pending (runHist {} demoOps) = [] := by
    have : (runHist {} demoOps).queue = [] := List.length_eq_zero_iff.1 demo_eval.2.2.2.2.2.1
    unfold pending; rw [this]; rfl
  -- the world after the demo satisfies the invariant with `D := the ledgers of the first six operations`
  have hL : LedgerOK (histDrops {} (demoOps.take 6)) (runHist {} demoOps) := by
    have e : histDrops {} demoOps = (runHist {} demoOps).edrops ++ histDrops {} (demoOps.take 6) := by decide +kernel
    refine ⟨by rw [demo_eval.2.2.2.2.1]; decide, ?_, fun s hs => h0.2 s ?_⟩
    · have := h0.1
      rw [hq, List.nil_append, List.append_nil, List.append_nil, e] at this
      rw [hq, List.nil_append]
      exact this
    · rw [hq, List.nil_append] at hs ⊢
      rw [List.append_nil, List.append_nil, e]
      exact hs
  have e : histDrops {} demoOps = (runHist {} demoOps).edrops ++ histDrops {} (demoOps.take 6) := by decide +kernel
  obtain ⟨h1, h2⟩ := history_no_double_drop more hL hm
  rw [List.append_assoc, ← e] at h1
  refine ⟨h1, fun s hs hd => h2 s hs ?_⟩
  rw [List.append_assoc, ← e]
  exact List.mem_append_right _ hd

/-- executable form of `NoFuel` -/
def noFuelB (w : World) (op : Op) : Bool :=
  match ((execOp op).run.run (stepInit w)).1 with
  | .error (.panic c) => c != "model:fuel"
  | _ => true

theorem noFuel_of_check {w : World} {op : Op} (h : noFuelB w op = true) : NoFuel w op := by
  unfold noFuelB at h
  intro he
  rw [he] at h
  simp at h

/-- executable form of `QuietHist` -/
def quietHistB : World → List Op → Bool
  | _, [] => true
  | w, op :: ops =>
    (match ((execOp op).run.run (stepInit w)).1 with
      | .ok _ => true
      | .error (.panic c) => c != "model:fuel"
      | .error _ => false) && quietHistB (step w op).1 ops

theorem quietHist_of_check {w : World} {ops : List Op} (h : quietHistB w ops = true) : QuietHist w ops := by
  induction ops generalizing w with
  | nil => trivial
  | cons op ops ih =>
    unfold quietHistB at h
    rw [Bool.and_eq_true] at h
    refine ⟨?_, ?_, ih h.2⟩
    · intro e he
      have h1 := h.1
      rw [he] at h1
      cases e with
      | panic c => rfl
      | ub s => cases h1
      | «assert» s => cases h1
    · intro he
      have h1 := h.1
      rw [he] at h1
      simp at h1

set_option maxRecDepth 1000000 in
theorem demo_quiet_check : quietHistB {} demoOps = true := by decide +kernel

theorem demo_quiet : QuietHist {} demoOps := quietHist_of_check demo_quiet_check

/-- **the conservation theorem applied to the demo history** — with a handler that takes, a handler that panics in the
    middle of a propagation with two events still queued, a dead-target send: every one of the twelve event values created
    has been destroyed exactly once, nothing is pending -/
theorem demo_conserved :
    (runHist {} demoOps).queue = [] ∧ (histDrops {} demoOps).Nodup ∧
    ∀ s, 1 ≤ s → s < 13 → s ∈ histDrops {} demoOps := by
  obtain ⟨h1, h2, -, h4⟩ := history_quiescent demo_quiet
  rw [demo_eval.2.2.2.2.1] at h4
  exact ⟨h1, h2, h4⟩

/-- … the third operation (the one whose propagation was interrupted by the panic of `p`) on its own: from the world
    before it, it created the serials `1 … 4` and destroyed exactly these -/
theorem demo_panicking_op :
    let w := runHist {} (demoOps.take 2)
    (step w (.send 0)).1.queue = [] ∧ (step w (.send 0)).1.edrops.Nodup ∧
    ∀ s, w.nextESerial ≤ s → s < (step w (.send 0)).1.nextESerial → s ∈ (step w (.send 0)).1.edrops := by
  intro w
  have hq : QuietHist {} (demoOps.take 2 ++ [.send 0]) := quietHist_of_check (by decide +kernel)
  have tw : TW w := (history_conserves (a := 1) (D := []) (demoOps.take 2) tw_init (conserved_init [])
    (quietHist_of_check (w := {}) (ops := demoOps.take 2) (by decide +kernel)).noMarker).1
  have hw : w.queue = [] := (quietHist_of_check (w := {}) (ops := demoOps.take 2) (by decide +kernel)).queue_nil rfl
  have hm : NoMarker w (.send 0) := noMarker_of_check (by decide +kernel)
  have hf : NoFuel w (.send 0) := by
    unfold NoFuel
    have : noFuelB w (.send 0) = true := by decide +kernel
    exact noFuel_of_check this
  obtain ⟨h1, h2, h3, -⟩ := op_destroys_what_it_creates tw (by decide +kernel) hw hm hf
  exact ⟨h1, h2, h3⟩

#print axioms execOp_ledger
#print axioms step_ledger
#print axioms history_ledger
#print axioms history_no_double_drop
#print axioms history_no_double_drop_init
#print axioms reachE_ledger
#print axioms reachE_edrops_nodup
#print axioms reachE_of_reachP
#print axioms reachSD_noMarker
#print axioms deliverOne_ledger
#print axioms flush_ledger
#print axioms runHandler_ledger
#print axioms panic_step_ledger
#print axioms panic_history_disjoint
#print axioms dropQueued_marker_breaks_ledger
#print axioms demo_eval
#print axioms demo_forever
#print axioms execOp_conserves
#print axioms flush_conserves
#print axioms deliverOne_conserves
#print axioms step_conserves
#print axioms history_conserves
#print axioms reachE_tw
#print axioms op_destroys_what_it_creates
#print axioms history_quiescent
#print axioms history_ledger_exact
#print axioms history_destroys_what_it_creates
#print axioms reachSD_invariants
#print axioms reachSD_op_destroys_what_it_creates
#print axioms demo_conserved
#print axioms demo_panicking_op

end C11History
end Evenio
