import Evenio.Proofs.FrameFlush
import Evenio.Proofs.DispositionFlush
/-!
# C13 — unwinding drops every pending event exactly once

> If a handler panics at any point during propagation, unwinding out of the top-level call destroys exactly once
> every event value that had been sent but not fully delivered — the one in flight (unless already taken) and all
> queued ones — before the caller regains control.

Formal reading, for `flushWith deliver` with an ARBITRARY `deliver` (hence for `flush = flushWith deliverOne`).
`DfsPanic deliver w es err log x wl P` is the depth-first propagation of `es` from `w` up to a delivery — the
`(log.length + 1)`-th, for any length — that fails with `err`: `log` are the deliveries completed before, `x` is the
event in flight, `wl` is the state the failing delivery left (its queue: the segment it had pushed so far) and `P` is
the stack below that segment (the siblings not yet popped, at every level of the propagation).

* `flushWith_panic_drops_all`: if the loop is left by `panic c` (other than the model's own fuel exhaustion), the
  failing delivery threw `panic c`, the guard ran `dropQueued` — once, to completion — on the state the delivery left
  with `queue := P ++ segment`, the loop rethrew `panic c` from exactly that state, and the queue is empty.
* `flushWith_panic_complete`: conversely every such derivation is realised by the loop (given fuel).
* `dropQueued_spec`: what `dropQueued` does to the ledger: each queued event goes through its registered drop
  function exactly once.
* `flushWith_panic_ledger`: the two combined.
* `flush_registry_stable`, `flush_panic_ledger`: for the real delivery `deliverOne` the registries cannot change during
  a flush, so the ledger form only needs the pending events' types to be registered in the world the flush started in.
* `pending_is_everything_undelivered`: `delivered ++ in-flight ++ P` is a permutation of "initially queued ++ left
  queued by completed deliveries": the guard is handed every event that was sent but not delivered — each once — and
  nothing else.

The in-flight event `x` itself is disposed of by the delivery: for `deliverOne`, `flush_panic_inflight_once` shows that
when the failing delivery panics, `x` has been written to the event ledger exactly once when the guard takes over — by
the `take` of a handler ("already taken": ownership flag set, the guard leaves it alone) or by the guard's first half
(flag clear) — never both. A delivery failing with `ub`/`assert` is a finding, not a Rust panic; the model
then stops without running the guard (`flushWith_nonpanic_exit`). -/
namespace Evenio

variable {deliver : QItem → M Unit}

/-- **C13, main theorem.** -/
theorem flushWith_panic_drops_all {fuel : Nat} {w w' : World} {c : String}
    (h : (flushWith deliver fuel).run.run w = (.error (.panic c), w')) (hc : c ≠ "model:fuel") :
    ∃ log x wl P,
      DfsPanic deliver { w with queue := [] } w.queue.reverse (.panic c) log x wl P ∧
      dropQueued.run.run { wl with queue := P ++ wl.queue } = (.ok (), w') ∧
      w'.queue = [] := by
  rcases flushWith_error_log (w0 := w) (q := w.queue) h with hf | ⟨err, log, x, wl, P, hp, hg⟩
  · cases hf; exact absurd rfl hc
  · unfold guardExit at hg
    cases err with
    | panic c' =>
      simp only at hg
      generalize hr : dropQueued.run.run { wl with queue := P ++ wl.queue } = r at hg
      obtain ⟨(e'|_), w3⟩ := r
      · cases hg
        obtain ⟨s, hs⟩ := dropQueued_error_ub hr
        cases hs
      · cases hg
        exact ⟨log, x, wl, P, hp, hr, dropQueued_ok_queue hr⟩
    | ub s => cases hg
    | assert s => cases hg

/-- General form: any error exit of the loop is either fuel exhaustion or the guard's answer to a `DfsPanic`. -/
theorem flushWith_error_exit {fuel : Nat} {w w' : World} {e : Err}
    (h : (flushWith deliver fuel).run.run w = (.error e, w')) :
    e = .panic "model:fuel" ∨
    ∃ err log x wl P, DfsPanic deliver { w with queue := [] } w.queue.reverse err log x wl P ∧
      guardExit err { wl with queue := P ++ wl.queue } = (.error e, w') :=
  flushWith_error_log (w0 := w) (q := w.queue) h

/-- Converse: a propagation in which some delivery panics makes the loop (with more fuel than completed deliveries)
    run `dropQueued` on the state that delivery left with everything pending queued, and rethrow the same panic. -/
theorem flushWith_panic_complete {w : World} {es : List QItem} {c : String} {log : List Delivery} {x : QItem}
    {wl : World} {P : List QItem} (h : DfsPanic deliver w es (.panic c) log x wl P) (fuel : Nat)
    (hf : log.length < fuel) :
    (flushWith deliver fuel).run.run { w with queue := es.reverse } =
      match dropQueued.run.run { wl with queue := P ++ wl.queue } with
      | (.ok _, w3) => (.error (.panic c), w3)
      | (.error e', w3) => (.error e', w3) :=
  flushWith_complete_error h fuel hf

/-- a delivery that fails with `ub` / `assert` stops the model as is (no unwinding is modelled for findings) -/
theorem flushWith_nonpanic_exit {w : World} {es : List QItem} {err : Err} {log : List Delivery} {x : QItem}
    {wl : World} {P : List QItem} (h : DfsPanic deliver w es err log x wl P) (hne : ∀ c, err ≠ .panic c)
    (fuel : Nat) (hf : log.length < fuel) :
    (flushWith deliver fuel).run.run { w with queue := es.reverse } =
      (.error err, { wl with queue := P ++ wl.queue }) := by
  rw [flushWith_complete_error h fuel hf]
  cases err with
  | panic c => exact absurd rfl (hne c)
  | ub s => rfl
  | assert s => rfl

/-- **`dropQueued`.** When every queued event's type is still registered (`w.evInfo q` is the registry entry the
    loop looks up: `tevs`/`gevs` by `q.idx`), `dropQueued` returns normally, empties the queue, extends `edrops` by
    exactly the serials of the queued user events (`G`/`T`) whose registry entry has `needsDrop` (`w.dropsE`), and
    `cdrops` by the cells of the queued `Insert` events whose entry has `needsDrop` and whose component type needs a
    destructor (`w.dropsC`) — each queued event once, in queue order — and changes nothing else. -/
theorem dropQueued_spec (w : World) (h : ∀ q ∈ w.queue, (w.evInfo q).isSome) :
    dropQueued.run.run w =
      (.ok (), { w with
        queue := []
        edrops := (w.queue.filterMap w.dropsE).reverse ++ w.edrops
        cdrops := (w.queue.filterMap w.dropsC).reverse ++ w.cdrops }) :=
  dropQueued_spec' w h

/-- `w.dropsE q` / `w.dropsC q` are precisely the ledger effect of `dropEvent q` guarded by the registry entry -/
theorem dropEvent_ledger {w : World} {q : QItem} {ei : EvInfo} (h : w.evInfo q = some ei) :
    (if ei.needsDrop then ((dropEvent q).run.run w).2 else w) =
      { w with edrops := (w.dropsE q).toList ++ w.edrops, cdrops := (w.dropsC q).toList ++ w.cdrops } := by
  rw [run_dropEvent]
  exact dropOne_eq h

/-- on normal return of `dropQueued`, nothing is queued -/
theorem dropQueued_returns_empty {w w' : World} (h : dropQueued.run.run w = (.ok (), w')) : w'.queue = [] :=
  dropQueued_ok_queue h

/-- `dropQueued` never panics: its only failure is `ub` (an event whose type was unregistered while it was queued) -/
theorem dropQueued_fails_only_ub {w w' : World} {e : Err} (h : dropQueued.run.run w = (.error e, w')) :
    ∃ s, e = .ub s :=
  dropQueued_error_ub h

/-- **C13, ledger form.** If the failing delivery panicked and every pending event's type is still registered in the
    state it left, the caller regains control with `panic c` in exactly that state, with the queue emptied and the
    ledger extended by one drop for every pending event that has a drop function. -/
theorem flushWith_panic_ledger {w : World} {es : List QItem} {c : String} {log : List Delivery} {x : QItem}
    {wl : World} {P : List QItem} (h : DfsPanic deliver w es (.panic c) log x wl P) (fuel : Nat)
    (hf : log.length < fuel) (hreg : ∀ q ∈ P ++ wl.queue, (wl.evInfo q).isSome) :
    (flushWith deliver fuel).run.run { w with queue := es.reverse } =
      (.error (.panic c), { wl with
        queue := []
        edrops := ((P ++ wl.queue).filterMap wl.dropsE).reverse ++ wl.edrops
        cdrops := ((P ++ wl.queue).filterMap wl.dropsC).reverse ++ wl.cdrops }) := by
  rw [flushWith_panic_complete h fuel hf, dropQueued_spec' _ hreg]
  rfl

/-- **C13, accounting.** The events the guard is handed (`P`, together with the failing delivery's own segment
    `wl.queue`) are exactly the events that were queued at some point and not delivered: delivered ++ in-flight ++ `P`
    is a permutation of initially-queued ++ left-queued-by-completed-deliveries. -/
theorem pending_is_everything_undelivered {w : World} {es : List QItem} {err : Err} {log : List Delivery}
    {x : QItem} {wl : World} {P : List QItem} (h : DfsPanic deliver w es err log x wl P) :
    (log.map (·.ev) ++ x :: P).Perm (es ++ log.flatMap (·.seg)) :=
  h.perm

/-! ### the real delivery: the registry cannot change under the guard's feet

`deliverOne` (and everything it calls) never assigns `gevs`/`tevs` (`deliverOne_frame`), so the registry entry — hence
the drop function — of every pending event is, when the guard runs, the one it had in the world the flush started
in. The hypothesis of the ledger form can therefore be checked in the initial world. -/

/-- during a flush the event registries are those of the start -/
theorem flush_registry_stable {w : World} {es : List QItem} {err : Err} {log : List Delivery} {x : QItem}
    {wl : World} {P : List QItem} (h : DfsPanic deliverOne w es err log x wl P) :
    wl.gevs = w.gevs ∧ wl.tevs = w.tevs ∧ wl.evInfo = w.evInfo := by
  have hf := h.frame deliverOne_frameStable
  exact ⟨congrArg Frame.gevs hf, congrArg Frame.tevs hf, evInfo_of_frame hf⟩

/-- **C13 for `flush`, ledger form.** If a delivery of `flush` panics and every pending event's type is registered
    in the world the flush STARTED in, then `flush` rethrows that panic, the queue is empty, every pending event with a
    drop function is dropped exactly once (drop functions as registered at the start), and nothing else changes with
    respect to the state the panicking delivery left. -/
theorem flush_panic_ledger {w : World} {es : List QItem} {c : String} {log : List Delivery} {x : QItem}
    {wl : World} {P : List QItem} (h : DfsPanic deliverOne w es (.panic c) log x wl P) (fuel : Nat)
    (hf : log.length < fuel) (hreg : ∀ q ∈ P ++ wl.queue, (w.evInfo q).isSome) :
    (flush fuel).run.run { w with queue := es.reverse } =
      (.error (.panic c), { wl with
        queue := []
        edrops := ((P ++ wl.queue).filterMap w.dropsE).reverse ++ wl.edrops
        cdrops := ((P ++ wl.queue).filterMap w.dropsC).reverse ++ wl.cdrops }) := by
  have hfr := h.frame deliverOne_frameStable
  have hreg' : ∀ q ∈ P ++ wl.queue, (wl.evInfo q).isSome := by
    rw [evInfo_of_frame hfr]; exact hreg
  have := flushWith_panic_ledger h fuel hf hreg'
  rw [dropsE_of_frame hfr, dropsC_of_frame hfr] at this
  exact this

/-- **C13, the event in flight.** In a propagation of `flush` interrupted by a panicking delivery, the in-flight
    event `x` has been destroyed exactly once when that delivery is left: with `wpre` the world in which the delivery of
    `x` started, the state `wl` it left has `x` in the event ledger once — put there by a handler's `take` if the
    ownership flag is set (then the unwinding guard did not drop it again), by the unwinding guard otherwise — plus at
    most one entry `rej` for an event that a failing `Sender::send` rejected. `dropQueued` then handles `P ++ wl.queue`,
    which does not contain `x` (it was popped: `pending_is_everything_undelivered`). Hypothesis: `x`'s registry entry is
    well formed in the world the flush started in (user events: drop function, normal kind). -/
theorem flush_panic_inflight_once {w : World} {es : List QItem} {c : String} {log : List Delivery} {x : QItem}
    {wl : World} {P : List QItem} (h : DfsPanic deliverOne w es (.panic c) log x wl P) (hok : UserEntryOk w x) :
    ∃ wpre : World, wpre.frame = w.frame ∧ (deliverOne x).run.run { wpre with queue := [] } = (.error (.panic c), wl) ∧
      ∃ rej : List Nat, rej.length ≤ 1 ∧
        ((wl.inflightOwned = true ∧ wl.edrops = rej ++ ledgerOf x ++ wpre.edrops) ∨
         (wl.inflightOwned = false ∧ wl.edrops = ledgerOf x ++ rej ++ wpre.edrops)) := by
  obtain ⟨wpre, hf, hr⟩ := h.inflight deliverOne_frameStable
  refine ⟨wpre, hf, hr, ?_⟩
  have hok' : UserEntryOk { wpre with queue := [] } x := (userEntryOk_of_frame (w2 := w) hf x).mpr hok
  have := deliverOne_panic_ledger (w := { wpre with queue := [] }) hr hok'
  exact this

/-! ### non-vacuity: event 0 sends 1 and 2; event 1 sends 3 and then panics; 2 and 3 are dropped by the guard -/

def panicky (it : QItem) : M Unit :=
  match it.idx with
  | 0 => do
    push { ty := .g 0, idx := 1, pay := { serial := 1 } }
    push { ty := .g 0, idx := 1, pay := { serial := 2 } }
    modify fun w => { w with queue := w.queue.reverse }
  | _ =>
    if it.pay.serial = 1 then do
      push { ty := .g 0, idx := 1, pay := { serial := 3 } }
      throw (.panic "user")
    else pure ()

example :
    DfsPanic panicky {} [{ ty := .g 9, idx := 0 }] (.panic "user")
      [⟨{}, { ty := .g 9, idx := 0 }, {},
        [{ ty := .g 0, idx := 1, pay := { serial := 2 } }, { ty := .g 0, idx := 1, pay := { serial := 1 } }]⟩]
      { ty := .g 0, idx := 1, pay := { serial := 1 } }
      { queue := [{ ty := .g 0, idx := 1, pay := { serial := 3 } }] }
      ([] ++ [{ ty := .g 0, idx := 1, pay := { serial := 2 } }]) :=
  .child (es := []) ⟨_, rfl, rfl, rfl⟩ (.here (es := [{ ty := .g 0, idx := 1, pay := { serial := 2 } }]) rfl)

/-- a world in which the global event indices 0 and 1 are registered, with a drop function -/
def panickyWorld : World :=
  { gevs := { slots := [⟨1, U32MAX, some { ty := .g 9, id := ⟨0, 1⟩, kind := .normal, needsDrop := true }⟩,
                        ⟨1, U32MAX, some { ty := .g 0, id := ⟨1, 1⟩, kind := .normal, needsDrop := true }⟩],
              len := 2 }
    queue := [{ ty := .g 9, idx := 0 }] }

/-- the loop rethrows the panic, the queue is empty, and exactly the two pending events — the sibling 2 and the
    event 3 the panicking delivery had already pushed — went through `dropQueued`, once each -/
example : ((flushWith panicky 5).run.run panickyWorld).1 = .error (.panic "user") := rfl
example : ((flushWith panicky 5).run.run panickyWorld).2.queue.length = 0 := by decide
example : ((flushWith panicky 5).run.run panickyWorld).2.edrops = [3, 2] := by decide

#print axioms flushWith_panic_drops_all
#print axioms flushWith_error_exit
#print axioms flushWith_panic_complete
#print axioms flushWith_nonpanic_exit
#print axioms dropQueued_spec
#print axioms dropEvent_ledger
#print axioms dropQueued_returns_empty
#print axioms dropQueued_fails_only_ub
#print axioms flushWith_panic_ledger
#print axioms pending_is_everything_undelivered
#print axioms flush_registry_stable
#print axioms flush_panic_ledger
#print axioms flush_panic_inflight_once

end Evenio
