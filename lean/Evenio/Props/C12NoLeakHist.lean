import Evenio.Proofs.CompLedgerTrackRmc
import Evenio.Props.C12NoLeak
/-!
# C12 "never neither", continued: registry typing of `Insert` events, `remove_component`

Steps (1) and (2) towards the history-level no-leak statement, which is still NOT proved (see "What remains").

* **(1) registry typing** — `history_insShape`: in every world of every history from the empty world (any operations,
  every exit), every entry of the targeted-event registry of type `Insert<K j>` has `needsDrop = compNeedsDrop j` and a
  kind `.insert c` (`CompLedger.InsShape`; `CompLedger.execOp_is` per operation, ≈ 45 lemmas in the style of
  `Inv/TevTyped.lean`).  So the delivery of a queued `Insert` whose registry entry has ITS type either stores the
  payload (`effectPhase`, arm `.insert`) or — dead target, unwinding — runs `dropEvent` iff the type has a destructor:
  `insert_entry_disposition`.  NOT included: `compTy c = j` for that `c` (it needs the component registry: kept by every
  write except the `comps.remove` of `remove_component`, where it needs `CompUnused`: the `Insert` events of the component
  were removed before), and that a queued item's index names an entry of the item's type (`RegistryInv.handlerRefs.sendsT`
  for handler-sent items, `addTargetedEvent_live` for top-level ones).
* **(2) `remove_component`** — `CompLedger.archsRemoveComponent_logs` (any world with archetypes at their own index),
  `CompLedger.dropCompTail_logs`, and `remove_component_destroys_all`: from a world satisfying `WInv` and `CompIdInv`
  (every world of `ReachP`: `reachable_remove_component_destroys_all`), after the registry write and the tail of
  `removeComponent` returned normally, every cell of every archetype that HAS the removed component — position by
  position, in particular every value `World::get` could read — whose component type (before the removal) has a
  destructor is in the ledger.  With (i), (ii) of `Props/C12NoLeak.lean`: at EVERY place where a value leaves storage
  (`Insert` overwrite, `Remove`, `Despawn`, `remove_component`, `drop`) it is logged if its type has a destructor.

## What remains for `history_no_leak`

(3) the serial-based tracking predicate `∀ s, tracked w0 s → tracked w s ∨ s ∈ dropSers w.cdrops` with its table, paired
with `WInvMid`, through the handler phase (`bump` changes values, not serials; `take` logs `(k, ser)` of an `Insert<K k>`),
`flushWith` / `dropQueued` (uses (1) and "the entry at a queued item's index has the item's type"), the registration
functions (component types of live indices are stable: `compsCore` up to `insEvents`), and `removeComponent` (uses (2));
the component half of the registry typing (`kind = .insert c → compTy c = j`); and then (4) the induction over
histories.  None of the one-step statements proved so far has an exception, and no counterexample is known.
-/
namespace Evenio
namespace C12NoLeakHist
open CompLedger C12History

/-! ## (1) registry typing of `Insert` entries -/

theorem insShape_stepInit {w : World} (h : InsShape w) : InsShape (stepInit w) := h

/-- one protocol step, any operation, every exit -/
theorem step_insShape {w : World} (op : Op) (h : InsShape w) : InsShape (step w op).1 := by
  rw [step_fst_eq]
  exact (execOp_is op).run (stepInit w) (insShape_stepInit h)

/-- **(1) every history**: `Insert` entries of the targeted-event registry have the drop function and the kind of their
    type -/
theorem history_insShape (ops : List Op) : InsShape (runHist {} ops) := by
  have : ∀ (w : World), InsShape w → InsShape (runHist w ops) := by
    induction ops with
    | nil => exact fun _ h => h
    | cons op ops ih => exact fun w h => ih _ (step_insShape op h)
  exact this {} insShape_init

/-- what the registry entry of an `Insert<K j>` decides: the payload is dropped through `dropEvent` exactly if the type
    has a destructor, and the built-in effect is the `Insert` effect -/
theorem insert_entry_disposition {w : World} (h : InsShape w) {k : Key} {ei : EvInfo} (hk : w.tevs.get k = some ei)
    {j : Nat} (hty : ei.ty = .ins j) : ei.needsDrop = compNeedsDrop j ∧ ∃ c, ei.kind = .insert c :=
  h k ei hk j hty

/-! ## (2) `remove_component` -/

/-- **(2) `remove_component` destroys what it takes out of storage.**  `w`: the world in which `removeComponent` performs
    the registry write (`WInv`, `CompIdInv`); `info`: the removed entry.  After the tail (`Archetypes::remove_component`,
    cursor refresh) returned normally: every cell of every archetype that has the removed component whose component type
    in `w` has a destructor is in the ledger; the ledger kept what it had. -/
theorem remove_component_destroys_all {w : World} (hw : WInv w) (hid : InvV7.CompIdInv w) {k : Key} {info : CompInfo}
    {comps' : SlotMap CompInfo} (hrm : w.comps.remove k = some (info, comps')) {w' : World}
    (h : (dropCompTail info).run.run (Step.dropComp w k comps') = (.ok (), w')) :
    (∀ e ∈ w.cdrops, e ∈ w'.cdrops) ∧
    ∀ (i : Nat) (a : Arch), w.archs.get i = some a → k.idx ∈ a.comps →
      ∀ (j c : Nat) (col : List Cell) (x : Cell), a.comps[j]? = some c → a.cols[j]? = some col → x ∈ col →
        compNeedsDrop (w.compTy c) = true → (w.compTy c, x.ser) ∈ w'.cdrops := by
  have hget : w.comps.get k = some info := SlotMap.get_of_remove hrm
  have hty : w.compTy k.idx = info.ty := by
    unfold World.compTy
    rw [SlotMap.get_getByIndex hw.compsWF hget]
  have r := (dropCompTail_logs w k info comps' hrm (hid k info hget) hty hw.indexOK).run _ rfl
  rw [h] at r
  refine ⟨r.1, fun i a ha hk => ?_⟩
  exact r.2 i (((hw.graph.members k info hget).2 i).2 ⟨a, ha, hk⟩) a ha

/-- the same from a world the driver reaches (normal returns and reservation-free panics), `Small` -/
theorem reachable_remove_component_destroys_all {w : World} (hr : ReachP w) (hs : Small w) {k : Key} {info : CompInfo}
    {comps' : SlotMap CompInfo} (hrm : w.comps.remove k = some (info, comps')) {w' : World}
    (h : (dropCompTail info).run.run (Step.dropComp w k comps') = (.ok (), w')) :
    ∀ (i : Nat) (a : Arch), w.archs.get i = some a → k.idx ∈ a.comps →
      ∀ (j c : Nat) (col : List Cell) (x : Cell), a.comps[j]? = some c → a.cols[j]? = some col → x ∈ col →
        compNeedsDrop (w.compTy c) = true → (w.compTy c, x.ser) ∈ w'.cdrops :=
  (remove_component_destroys_all (reachableP_WInv w hr hs).1 (reachableP_auxInv w hr).1 hrm h).2

end C12NoLeakHist
end Evenio

#print axioms Evenio.CompLedger.execOp_is
#print axioms Evenio.C12NoLeakHist.history_insShape
#print axioms Evenio.CompLedger.archsRemoveComponent_logs
#print axioms Evenio.CompLedger.dropCompTail_logs
#print axioms Evenio.C12NoLeakHist.remove_component_destroys_all
#print axioms Evenio.C12NoLeakHist.reachable_remove_component_destroys_all
