import Evenio.Proofs.HandlerHist
import Evenio.Props.C15History
/-!
# C16 — first registration of a HANDLER

> "Registering a component, event or handler type twice returns the same id and notifies exactly once … the
> notification is delivered after the item is usable."

`Props/C16World.lean` proves the first-registration path for components and events (`addComponent_new_shape`,
`addComponent_new_one_push`, `notification_delivered_once`) and, for handlers, the `dup` path and id freshness
(`addHandler_dup`, `addHandler_never_reissues`).  This file does the first-registration path of `try_add_handler`:

* `addHandler_run_new` — on a handler type that is not registered yet, `addHandler hs` IS the parameter loop
  (`paramLoop`: `HandlerParam::init` for every parameter, which registers the events / components the parameters name)
  followed by `accept`;
* `accept_rejected_*` / `accept_full` / `accept_new_shape` — `accept` is (i) the ACCEPTANCE CHECK (`Accepted`: exactly one
  received event, a defined event access, no conflicting component access), (ii) the registry INSERT `insertWith` returning
  the key `k`, after which the world is `Step.insertHandler …` (slot map, global list of the received event,
  insertion-order index), (iii)+(iv) `tail k`: the debug assertion, `archetypes.register_handler` (`registerAll k`) and
  then EXACTLY ONE `sendGlobal .addH { id := k }`;
* `new_handler_usable` — the key is fresh (not valid before, not recorded as removed) and, in the world handed to `tail`,
  already valid, in the insertion-order index and — for a global event — in the global list of the received event;
* `notify_one_push` / `notify_delivered_once` — with the `AddHandler` event type registered, the notification is ONE
  queue item, and when the flush returns the depth-first log starts with its delivery, from the world `registerAll` left,
  and EVERY delivery of the log starts in a world in which `handlers.get k` is `some` (so a receiver of `AddHandler`
  that sends the new handler's event reaches it);
* `tail_keeps_registered` / `addHandler_panic_keeps_registered` — however `tail k` ends (normal return, a panic of a
  handler of the `AddHandler` notification, a marker): the handler is still registered under `k` with the same entry
  up to fetcher caches.  The model and the code agree (corpus/R_addh_panics_in_notification.txt);
* `addHandler_ok_inv` — every run of `addHandler` that returns `ok k` has this shape (so the theorems above apply to it);
  `first_registration` — from a world satisfying the invariants (every reachable world): when `addHandler hs` returns
  `ok k`, `k` was not valid and not recorded as removed before, is valid afterwards with the entry built from the
  accepted configuration, and the world satisfies the guarded invariant again, so (C08 / `ReachLists`) every list is
  exact for `k`: it is in the global list of its event / the listener list and refresh set of every archetype its filter
  matches.
-/
namespace Evenio
namespace C16Handler
open ReachLists

/-- the parameter loop of `try_add_handler` -/
def paramLoop (hs : HSpec) : M (Config × List Param) := do
  let mut cfg : Config := {}
  let mut params := []
  for ps in hs.params do
    let (p, cfg') ← initParam ps cfg
    cfg := cfg'
    params := params ++ [p]
  pure (cfg, params)

/-- the registry entry `try_add_handler` builds -/
def mkInfo (hs : HSpec) (cfg : Config) (params : List Param) (recvTy : EvTy) (recvKey : Key) (order : Nat) (k : Key) : HInfo :=
  { name := hs.name, key := k, order, tid := hs.tid, recv := recvTy, recvIdx := recvKey.idx, recvKey,
    recvMut := cfg.recvMut, filter := cfg.filter, sentG := cfg.sentG, sentT := cfg.sentT, sends := cfg.sends,
    compAccess := cfg.accesses.foldl (fun acc a => acc.and a) CA.tt,
    archFilter := cfg.accesses.foldl (fun acc a => acc.or a) CA.ff, referenced := cfg.referenced, prio := hs.prio,
    params, body := hs.body }

/-- everything after the parameter loop -/
def accept (hs : HSpec) (cfg0 : Config) (params : List Param) : M AddResult := do
  let cfg := { cfg0 with prio := hs.prio }
  match cfg.recvEv with
  | none => return .err "noevent"
  | some none => return .err "multievent"
  | some (some (recvTy, recvKey)) =>
  if cfg.recvAccess.isNone then return .err "evaccess"
  let conflicts := (acceptAccess cfg.accesses).conflicts
  if !conflicts.isEmpty then
    let w ← get
    let tys := (conflicts.map w.compTy).toArray.qsort (· < ·) |>.toList
    return .err ("conflict:" ++ ",".intercalate (tys.map fun t => s!"K{t}"))
  let w ← get
  match w.handlers.insertWith (mkInfo hs cfg0 params recvTy recvKey w.insertCounter) with
  | none => throw (.panic "capacity")
  | some (k, handlers) =>
    set (Step.insertHandler w k handlers recvTy recvKey hs.prio)
    dbgAssert ((← get).handlers.len == (← get).byInsertOrder.length) "handler.rs:add:len"
    registerAll k
    sendGlobal .addH { id := k }
    pure (.ok k)


def dupCheck (hs : HSpec) (w : World) : Option Key :=
  match hs.tid with
  | some t => (w.handlers.toList.find? fun (p : Key × HInfo) => p.2.tid == some t).map (·.1)
  | none => none

theorem addHandler_run_new (hs : HSpec) (w : World) (hd : dupCheck hs w = none) :
    (addHandler hs).run.run w =
      (do let (cfg, params) ← paramLoop hs
          accept hs cfg params : M AddResult).run.run w := by
  unfold addHandler
  extract_lets cfg0 params0 jp
  have hjp : (jp ()).run.run w = (do let (cfg, params) ← paramLoop hs
                                     accept hs cfg params : M AddResult).run.run w := by
    unfold paramLoop accept mkInfo registerAll Step.insertHandler
    simp only [jp, cfg0, params0, run_bind, run_pure]
    generalize StateT.run (ExceptT.run (forIn (m := M) hs.params _ _)) w = r
    obtain ⟨(e|⟨cfg, params⟩), w1⟩ := r
    · rfl
    · simp only
      cases hre : cfg.recvEv with
      | none => rfl
      | some o =>
        cases o with
        | none => rfl
        | some p =>
          obtain ⟨recvTy, recvKey⟩ := p
          simp only
          cases h1 : cfg.recvAccess.isNone with
          | true => rfl
          | false =>
            simp only [Bool.false_eq_true, if_false]
            cases h2 : (!(acceptAccess cfg.accesses).conflicts.isEmpty) with
            | true => rfl
            | false =>
              simp only [Bool.false_eq_true, if_false, run_bind, run_get]
              generalize w1.handlers.insertWith _ = r
              obtain _ | ⟨k, handlers⟩ := r
              · rfl
              · simp only [run_bind, run_get, run_set, run_pure]
                generalize StateT.run (ExceptT.run (dbgAssert _ _)) _ = r1
                obtain ⟨(e1|u1), w2⟩ := r1
                · rfl
                · simp only
                  generalize StateT.run (ExceptT.run (forIn (m := M) w2.archs.toList _ _)) _ = r2
                  obtain ⟨(e2|u2), w3⟩ := r2 <;> rfl
  rw [← hjp]
  unfold dupCheck at hd
  split
  · rename_i t ht
    rw [ht] at hd
    simp only at hd
    simp only [run_bind, run_get]
    cases hf : w.handlers.toList.find? fun (p : Key × HInfo) => p.2.tid == some t with
    | none => simp only
    | some p => rw [hf] at hd; cases hd
  · rfl
/-! ## the acceptance check and the insert -/

/-- **(i) the acceptance check** of `try_add_handler` on the configuration the parameter loop produced -/
def Accepted (cfg : Config) (recvTy : EvTy) (recvKey : Key) : Prop :=
  cfg.recvEv = some (some (recvTy, recvKey)) ∧ cfg.recvAccess.isNone = false ∧
  (!(acceptAccess cfg.accesses).conflicts.isEmpty) = false

/-- **(iii)+(iv) what runs after `Handlers::add`**: the debug assertion, `archetypes.register_handler`, then the ONE
    notification -/
def tail (k : Key) : M AddResult := do
  dbgAssert ((← get).handlers.len == (← get).byInsertOrder.length) "handler.rs:add:len"
  registerAll k
  sendGlobal .addH { id := k }
  pure (.ok k)

/-- no received event / more than one: rejected, nothing changes (beyond what the parameter loop registered) -/
theorem accept_rejected_noevent {hs : HSpec} {cfg : Config} {params : List Param} {w1 : World}
    (h : cfg.recvEv = none) : (accept hs cfg params).run.run w1 = (.ok (.err "noevent"), w1) := by
  unfold accept
  simp only [h]
  rfl

theorem accept_rejected_multievent {hs : HSpec} {cfg : Config} {params : List Param} {w1 : World}
    (h : cfg.recvEv = some none) : (accept hs cfg params).run.run w1 = (.ok (.err "multievent"), w1) := by
  unfold accept
  simp only [h]
  rfl

/-- **(ii) the insert**: an accepted specification whose registry insert returns `k` — the rest is `tail k`, run in the
    world `Handlers::add` left -/
theorem accept_new_shape {hs : HSpec} {cfg : Config} {params : List Param} {w1 : World} {recvTy : EvTy}
    {recvKey k : Key} {handlers' : SlotMap HInfo} (hacc : Accepted cfg recvTy recvKey)
    (hins : w1.handlers.insertWith
      (mkInfo hs cfg params recvTy recvKey w1.insertCounter) = some (k, handlers')) :
    (accept hs cfg params).run.run w1 =
      (tail k).run.run (Step.insertHandler w1 k handlers' recvTy recvKey hs.prio) := by
  obtain ⟨h1, h2, h3⟩ := hacc
  unfold accept tail
  simp only [h1, h2, h3, Bool.false_eq_true, if_false, run_bind, run_get, hins, run_set]

/-- the index space of the handler registry is exhausted: `panic "capacity"`, nothing inserted -/
theorem accept_full {hs : HSpec} {cfg : Config} {params : List Param} {w1 : World} {recvTy : EvTy}
    {recvKey : Key} (hacc : Accepted cfg recvTy recvKey)
    (hins : w1.handlers.insertWith
      (mkInfo hs cfg params recvTy recvKey w1.insertCounter) = none) :
    (accept hs cfg params).run.run w1 = (.error (.panic "capacity"), w1) := by
  obtain ⟨h1, h2, h3⟩ := hacc
  unfold accept
  simp only [h1, h2, h3, Bool.false_eq_true, if_false, run_bind, run_get, hins]
  rfl

/-- **the key is fresh, and usable in the world handed to `tail`**: `k` was not valid before and is not recorded as
    removed (so it differs from the id of every handler removed so far: C16 "never reissued"); after the insert it is
    valid and denotes the new entry, every other id denotes what it did, `k` is in the insertion-order index and — for a
    global event — in the global list of the received event -/
theorem new_handler_usable {w1 : World} {mk : Key → HInfo} {recvTy : EvTy} {recvKey k : Key} {prio : Priority}
    {handlers' : SlotMap HInfo} (hri : RegInv [] w1) (hins : w1.handlers.insertWith mk = some (k, handlers')) :
    let w2 := Step.insertHandler w1 k handlers' recvTy recvKey prio
    w1.handlers.contains k = false ∧ ('h', k) ∉ w1.removedIds ∧
    w2.handlers.get k = some (mk k) ∧ (∀ k', k' ≠ k → w2.handlers.get k' = w1.handlers.get k') ∧
    k ∈ w2.byInsertOrder ∧
    (recvTy.targeted = false → ∃ l, w2.byGlobal[recvKey.idx]? = some l ∧ k ∈ l.entries) := by
  intro w2
  obtain ⟨-, hk, -, hother, hfresh⟩ := SlotMap.insertWith_usable hri.wfh hins
  have hri' : RegInv w1.removedIds w1 := ⟨hri.wfc, hri.wfg, hri.wft, hri.wfh, hri.dead, fun _ hp => hp⟩
  refine ⟨hfresh, live_handler_of_insert hins hri', hk, hother, ?_, fun ht => ?_⟩
  · show k ∈ w1.byInsertOrder ++ [k]
    simp
  · have hlen : recvKey.idx < (listResize w1.byGlobal (recvKey.idx + 1) ({} : HandlerList Key)).length :=
      listResize_length_ge _ _ _
    refine ⟨(((listResize w1.byGlobal (recvKey.idx + 1) ({} : HandlerList Key))[recvKey.idx]?).getD {}).insert k prio,
      ?_, (HandlerList.mem_insert _ k prio k).2 (.inl rfl)⟩
    show (if recvTy.targeted = true then w1.byGlobal else
      (listResize w1.byGlobal (recvKey.idx + 1) ({} : HandlerList Key)).set recvKey.idx
        ((((listResize w1.byGlobal (recvKey.idx + 1) ({} : HandlerList Key))[recvKey.idx]?).getD {}).insert k prio))[recvKey.idx]? = _
    rw [ht]
    simp only [Bool.false_eq_true, if_false]
    exact List.getElem?_set_self hlen

/-! ## the notification -/

/-- **however `tail k` ends — normal return, a panic inside the `AddHandler` notification, a marker — every handler id
    still denotes its registry entry** (up to fetcher caches); in particular the new handler stays registered -/
theorem tail_keeps_registered (k : Key) (w2 : World) (k' : Key) :
    (((tail k).run.run w2).2.handlers.get k').map HInfo.core = (w2.handlers.get k').map HInfo.core := by
  have hk : Keeps (HK fun k => (w2.handlers.get k).map HInfo.core) (tail k) := by
    unfold tail
    refine Keeps.get_bind fun _ _ => Keeps.get_bind fun _ _ => ?_
    exact Keeps.bind (dbgAssert_hk _ _) fun _ => Keeps.bind (InvV6.registerAll_hk k) fun _ =>
      Keeps.bind (sendGlobal_hk _ _) fun _ => Keeps.pure _
  exact hk.run w2 (fun _ => rfl) k'

/-- the part of `tail` after `archetypes.register_handler`: the ONE `AddHandler(k)` -/
def notify (k : Key) : M AddResult := do
  sendGlobal .addH { id := k }
  pure (.ok k)

/-- `tail` is the assertion, the registration loop, then `notify` -/
theorem tail_eq (k : Key) (w2 : World) :
    (tail k).run.run w2 =
      (do dbgAssert (w2.handlers.len == w2.byInsertOrder.length) "handler.rs:add:len"
          registerAll k
          notify k : M AddResult).run.run w2 := by
  unfold tail notify
  simp only [run_bind, run_get]

/-- **(iv) exactly one `AddHandler(k)` is queued** (the `AddHandler` event type registered, under `ak`): the notification
    is the event loop started on the old queue plus that one item — nothing else changes —; `ok k` is returned iff the loop
    returns -/
theorem notify_one_push {w3 : World} {k ak : Key} {ai : EvInfo} (ha : w3.gevOfTy .addH = some (ak, ai)) :
    (notify k).run.run w3 =
      match (flush FUEL).run.run { w3 with queue := w3.queue ++ [{ ty := .addH, idx := ak.idx, pay := { id := k } }] } with
      | (.ok _, w') => (.ok (.ok k), w')
      | (.error e, w') => (.error e, w') := by
  unfold notify
  rw [run_bind, notification_is_one_push _ ha]
  generalize (flush FUEL).run.run _ = r
  obtain ⟨(e|a), w'⟩ := r <;> rfl

/-- **… delivered exactly once, to a world in which the handler is already registered**: when `notify k` returns from a
    world `w3` with an empty queue, the flush was a depth-first log whose FIRST entry is the delivery of `AddHandler(k)`,
    started in `w3` itself (so `handlers.get k` and every list are those `registerAll` left); everything delivered after
    it was sent by a handler; every delivery of the log saw `k` registered with the same entry; nothing is left queued -/
theorem notify_delivered_once {w3 w' : World} {k ak : Key} {ai : EvInfo} {res : AddResult}
    (ha : w3.gevOfTy .addH = some (ak, ai)) (hq : w3.queue = [])
    (h : (notify k).run.run w3 = (.ok res, w')) :
    res = .ok k ∧
    ∃ wd w4 seg l1,
      DfsLog deliverOne { w3 with queue := [] } [{ ty := .addH, idx := ak.idx, pay := { id := k } }] wd
        (⟨{ w3 with queue := [] }, { ty := .addH, idx := ak.idx, pay := { id := k } }, w4, seg⟩ :: l1) ∧
      DfsLog deliverOne w4 seg.reverse wd l1 ∧
      (delivered l1).Perm
        (leftQueued (⟨{ w3 with queue := [] }, { ty := .addH, idx := ak.idx, pay := { id := k } }, w4, seg⟩ :: l1)) ∧
      (∀ d ∈ (⟨{ w3 with queue := [] }, { ty := .addH, idx := ak.idx, pay := { id := k } }, w4, seg⟩ :: l1 :
          List Delivery), (d.pre.handlers.get k).map HInfo.core = (w3.handlers.get k).map HInfo.core) ∧
      w'.queue = [] ∧ w' = { wd with arenaEpoch := wd.arenaEpoch + 1 } := by
  rw [notify_one_push ha] at h
  generalize hf : (flush FUEL).run.run _ = r at h
  obtain ⟨(e|u), w''⟩ := r
  · cases h
  · cases h
    refine ⟨rfl, ?_⟩
    obtain ⟨wd, w4, seg, l1, hlog, -, hc, -, hp, hq', hw'⟩ := notification_delivered_once hq hf
    refine ⟨wd, w4, seg, l1, hlog, hc, hp, fun d hd => ?_, hq', hw'⟩
    have h0 : HK (fun k => (w3.handlers.get k).map HInfo.core) { w3 with queue := [] } := fun _ => rfl
    exact ((hlog.hk h0).2 d hd).1 k

/-! ## the whole first registration -/

/-- **`addHandler_panic_keeps_registered`** (and the normal return): let `hs` be a handler type that is not registered,
    whose parameter loop returned `(cfg, params)` in `w1`, accepted, with the registry insert returning `k`.  Then,
    HOWEVER `addHandler hs` ends — `ok k`, or the `AddHandler` notification panicked (a handler of `AddHandler`
    panicked, or one of the handlers it triggered), or a marker — in the world it leaves `k` is valid and denotes the new
    entry (up to fetcher caches), and every other handler id denotes what it denoted in `w1`: the handler STAYS
    registered.  On normal return the result is `ok k`.  The run IS `tail k` from the world `Handlers::add` left. -/
theorem addHandler_panic_keeps_registered {hs : HSpec} {w w1 : World} {cfg : Config} {params : List Param}
    {recvTy : EvTy} {recvKey k : Key} {handlers' : SlotMap HInfo} (hnew : dupCheck hs w = none)
    (hloop : (paramLoop hs).run.run w = (.ok (cfg, params), w1)) (hacc : Accepted cfg recvTy recvKey)
    (hri : RegInv [] w1)
    (hins : w1.handlers.insertWith
      (mkInfo hs cfg params recvTy recvKey w1.insertCounter) = some (k, handlers')) :
    let r := (addHandler hs).run.run w
    (r.2.handlers.get k).map HInfo.core =
      some (mkInfo hs cfg params recvTy recvKey w1.insertCounter k).core ∧
    r.2.handlers.contains k = true ∧
    (∀ k', k' ≠ k → (r.2.handlers.get k').map HInfo.core = (w1.handlers.get k').map HInfo.core) ∧
    (∀ res, r.1 = .ok res → res = .ok k) ∧
    r = (tail k).run.run (Step.insertHandler w1 k handlers' recvTy recvKey hs.prio) := by
  intro r
  have hr : r = (tail k).run.run (Step.insertHandler w1 k handlers' recvTy recvKey hs.prio) := by
    show (addHandler hs).run.run w = _
    rw [addHandler_run_new hs w hnew, run_bind, hloop]
    exact accept_new_shape hacc hins
  obtain ⟨-, -, hk, hother, -, -⟩ :=
    new_handler_usable (recvTy := recvTy) (recvKey := recvKey) (prio := hs.prio) hri hins
  have hcore : (r.2.handlers.get k).map HInfo.core =
      some (mkInfo hs cfg params recvTy recvKey w1.insertCounter k).core := by
    rw [hr, tail_keeps_registered, hk]; rfl
  refine ⟨hcore, ?_, fun k' hk' => by rw [hr, tail_keeps_registered, hother k' hk'], fun res hres => ?_, hr⟩
  · unfold SlotMap.contains
    cases hg : r.2.handlers.get k with
    | none => rw [hg] at hcore; cases hcore
    | some _ => rfl
  · rw [hr, tail_eq] at hres
    simp only [run_bind] at hres
    generalize StateT.run (ExceptT.run (dbgAssert _ _)) _ = r1 at hres
    obtain ⟨(e1|u1), wa⟩ := r1
    · cases hres
    · simp only at hres
      generalize (registerAll k).run.run wa = r2 at hres
      obtain ⟨(e2|u2), wb⟩ := r2
      · cases hres
      · simp only at hres
        unfold notify at hres
        simp only [run_bind] at hres
        generalize (sendGlobal .addH { id := k }).run.run wb = r3 at hres
        obtain ⟨(e3|u3), wc⟩ := r3
        · cases hres
        · cases hres; rfl

/-! ## every run that returns `ok k` is a first registration -/

/-- **inversion**: whenever `addHandler hs` returns `ok k`, the handler type was not registered, the parameter loop
    returned some `(cfg, params)` in a world `w1`, the configuration was accepted, the registry insert returned `k`, and
    the run ended with `tail k` from the world `Handlers::add` left — so `addHandler_panic_keeps_registered`,
    `new_handler_usable`, `notify_one_push`, `notify_delivered_once` apply to it -/
theorem addHandler_ok_inv {hs : HSpec} {w w' : World} {k : Key}
    (h : (addHandler hs).run.run w = (.ok (.ok k), w')) :
    dupCheck hs w = none ∧
    ∃ cfg params w1 recvTy recvKey handlers',
      (paramLoop hs).run.run w = (.ok (cfg, params), w1) ∧ Accepted cfg recvTy recvKey ∧
      w1.handlers.insertWith (mkInfo hs cfg params recvTy recvKey w1.insertCounter) = some (k, handlers') ∧
      (tail k).run.run (Step.insertHandler w1 k handlers' recvTy recvKey hs.prio) = (.ok (.ok k), w') := by
  have hd : dupCheck hs w = none := by
    cases hd : dupCheck hs w with
    | none => rfl
    | some k0 =>
      exfalso
      unfold dupCheck at hd
      cases ht : hs.tid with
      | none => rw [ht] at hd; cases hd
      | some t =>
        rw [ht] at hd
        simp only at hd
        cases hf : w.handlers.toList.find? fun (p : Key × HInfo) => p.2.tid == some t with
        | none => rw [hf] at hd; cases hd
        | some p =>
          obtain ⟨k1, h1⟩ := p
          rw [addHandler_dup ht hf] at h
          cases h
  refine ⟨hd, ?_⟩
  rw [addHandler_run_new hs w hd, run_bind] at h
  generalize hl : (paramLoop hs).run.run w = r at h
  obtain ⟨(e|⟨cfg, params⟩), w1⟩ := r
  · cases h
  · simp only at h
    cases hre : cfg.recvEv with
    | none => rw [accept_rejected_noevent hre] at h; cases h
    | some o =>
      cases o with
      | none => rw [accept_rejected_multievent hre] at h; cases h
      | some p =>
        obtain ⟨recvTy, recvKey⟩ := p
        cases h1 : cfg.recvAccess.isNone with
        | true =>
          exfalso
          unfold accept at h
          simp only [hre, h1, if_true] at h
          cases h
        | false =>
          cases h2 : (!(acceptAccess cfg.accesses).conflicts.isEmpty) with
          | true =>
            exfalso
            unfold accept at h
            simp only [hre, h1, h2, Bool.false_eq_true, if_false, if_true, run_bind, run_get] at h
            cases h
          | false =>
            have hacc : Accepted cfg recvTy recvKey := ⟨hre, h1, h2⟩
            cases hins : w1.handlers.insertWith (mkInfo hs cfg params recvTy recvKey w1.insertCounter) with
            | none => rw [accept_full hacc hins] at h; cases h
            | some q =>
              obtain ⟨k', handlers'⟩ := q
              rw [accept_new_shape hacc hins] at h
              have hk : k' = k := by
                have hres : ∀ res, ((tail k').run.run (Step.insertHandler w1 k' handlers' recvTy recvKey hs.prio)).1 =
                    .ok res → res = .ok k' := by
                  intro res hres
                  rw [tail_eq] at hres
                  simp only [run_bind] at hres
                  generalize StateT.run (ExceptT.run (dbgAssert _ _)) _ = r1 at hres
                  obtain ⟨(e1|u1), wa⟩ := r1
                  · cases hres
                  · simp only at hres
                    generalize (registerAll k').run.run wa = r2 at hres
                    obtain ⟨(e2|u2), wb⟩ := r2
                    · cases hres
                    · simp only at hres
                      unfold notify at hres
                      simp only [run_bind] at hres
                      generalize (sendGlobal .addH { id := k' }).run.run wb = r3 at hres
                      obtain ⟨(e3|u3), wc⟩ := r3
                      · cases hres
                      · cases hres; rfl
                have := hres (.ok k) (by rw [h])
                cases this; rfl
              subst hk
              exact ⟨cfg, params, w1, recvTy, recvKey, handlers', rfl, hacc, hins, h⟩

/-- **first registration from a world satisfying the invariants** (every reachable world, and the worlds in the middle of
    an operation): when `addHandler hs` returns `ok k` in `w'`,
    * `k` was not a valid handler id in the world the insert was made in, and is not recorded as removed there — nor in `w`
      (`addHandler_never_reissues`): it differs from the id of every handler removed so far;
    * `k` is valid in `w'`, with the entry `addHandler` built (up to fetcher caches);
    * `w'` satisfies the guarded world invariant, so within the resource bound every list is exact for `k`
      (`ReachLists.global_list_exact_of_winv`, `listener_list_mem_of_winv`, C08): `k` is in the global list of its event
      / in the listener list and refresh set of every archetype its filter matches, at the position its priority and
      insertion order give it. -/
theorem first_registration {hs : HSpec} (hv : hs.Valid) {w w' : World} {k : Key} (hw : GW w) (hri : RegInv [] w)
    (h : (addHandler hs).run.run w = (.ok (.ok k), w')) :
    ('h', k) ∉ w.removedIds ∧ w'.handlers.contains k = true ∧ GW w' ∧ RegInv [] w' ∧
    ∃ cfg params w1 recvTy recvKey,
      (paramLoop hs).run.run w = (.ok (cfg, params), w1) ∧ Accepted cfg recvTy recvKey ∧
      w1.handlers.contains k = false ∧ ('h', k) ∉ w1.removedIds ∧
      (w'.handlers.get k).map HInfo.core =
        some (mkInfo hs cfg params recvTy recvKey w1.insertCounter k).core := by
  have hgw : GW w' := by
    have := (pieces.glue_addHandler hs hv).run w hw
    rw [h] at this
    exact this
  have hri' : RegInv [] w' := by
    have := (addHandler_ri (D := []) hs).run w hri
    rw [h] at this
    exact this
  have hfresh : ('h', k) ∉ w.removedIds := by
    have hD : RegInv w.removedIds w := ⟨hri.wfc, hri.wfg, hri.wft, hri.wfh, hri.dead, fun _ hp => hp⟩
    exact (addHandler_never_reissues (D := w.removedIds) hs).run w hD _ w' h k rfl
  obtain ⟨hd, cfg, params, w1, recvTy, recvKey, handlers', hloop, hacc, hins, -⟩ := addHandler_ok_inv h
  have hri1 : RegInv [] w1 := by
    have hk : Keeps (RegInv []) (paramLoop hs) := by
      unfold paramLoop
      refine Keeps.bind (Keeps.forIn_list fun ps r => ?_) fun _ => Keeps.pure _
      exact Keeps.bind (initParam_ri _ _) fun _ => Keeps.pure _
    have := hk.run w hri
    rw [hloop] at this
    exact this
  obtain ⟨a, b, -, -, -, -⟩ :=
    new_handler_usable (recvTy := recvTy) (recvKey := recvKey) (prio := hs.prio) hri1 hins
  obtain ⟨c1, c2, -, -, -⟩ := addHandler_panic_keeps_registered hd hloop hacc hri1 hins
  rw [h] at c1 c2
  exact ⟨hfresh, c2, hgw, hri', cfg, params, w1, recvTy, recvKey, hloop, hacc, a, b, c1⟩

/-! ## non-vacuity

The history of `Props/C15History.lean` (register `G0`; handlers "a", "b"; remove "a"; two sends), then `addh "c"`: a first
registration that REUSES slot 0 of the handler registry.  Evaluated by the kernel. -/

/-- the key a run of `addHandler` returned, if it returned `ok` -/
def keyOfRun (r : Except Err AddResult × World) : Option Key :=
  match r.1 with
  | .ok (.ok k) => some k
  | _ => none

theorem keyOfRun_some {r : Except Err AddResult × World} {k : Key} (h : keyOfRun r = some k) :
    r = (.ok (.ok k), r.2) := by
  obtain ⟨(e|res), w'⟩ := r
  · cases h
  · cases res <;> first | (cases h; rfl) | cases h

/-- the world before the last operation of the demo history -/
def w6 : World := runHist {} (C15History.demoOps.take 6)

set_option maxRecDepth 1000000 in
theorem demo_eval :
    C03History.goodHistB {} (C15History.demoOps.take 6) = true ∧
    (C15History.demoOps.take 6).all validB = true ∧
    keyOfRun ((addHandler C15History.hC).run.run (stepInit w6)) = some ⟨0, 3⟩ ∧
    w6.removedIds.map (·.2) = [⟨0, 1⟩] := by
  decide +kernel

theorem demo_reach6 : ReachP w6 := by
  unfold w6
  exact C03History.reachP_runHist .init
    (C03History.goodHist_of_check (C15History.valid_of_all demo_eval.2.1) demo_eval.1)

attribute [irreducible] w6

/-- **the theorems apply to it**: `addh "c"` returns `ok 0v3`; the id is new — not valid before, not recorded as removed
    (the removed handler "a" had `0v1`, the same slot) —, valid afterwards, and the world satisfies the invariants -/
theorem demo_first_registration :
    ∃ w', (addHandler C15History.hC).run.run (stepInit w6) = (.ok (.ok ⟨0, 3⟩), w') ∧
      ('h', (⟨0, 3⟩ : Key)) ∉ (stepInit w6).removedIds ∧ w'.handlers.contains ⟨0, 3⟩ = true ∧ GW w' ∧
      dupCheck C15History.hC (stepInit w6) = none := by
  have hrun := keyOfRun_some demo_eval.2.2.1
  have hv : C15History.hC.Valid := fun ps hps q he => by
    have : ps = .recv (.g 0) false none := by simpa [C15History.hC] using hps
    subst this
    cases he
  have hsite : GW (stepInit w6) ∧ RegInv [] (stepInit w6) := by
    have h0 : RegInv [] w6 := regInv_reachP demo_reach6
    refine ⟨fun hs => ?_, h0⟩
    have hs' : Small w6 := hs
    obtain ⟨h1, h2⟩ := reachableP_WInv w6 demo_reach6 hs'
    have hm : WInvMid w6 := ⟨h1, h2.reservedSome⟩
    exact hm.frame (stepInit_relEq w6) rfl rfl
  obtain ⟨a, b, c, -, -⟩ := first_registration hv hsite.1 hsite.2 hrun
  have d := (addHandler_ok_inv hrun).1
  exact ⟨_, hrun, a, b, c, d⟩

#print axioms addHandler_run_new
#print axioms accept_new_shape
#print axioms accept_full
#print axioms new_handler_usable
#print axioms tail_keeps_registered
#print axioms notify_one_push
#print axioms notify_delivered_once
#print axioms addHandler_panic_keeps_registered
#print axioms addHandler_ok_inv
#print axioms first_registration
#print axioms demo_eval
#print axioms demo_first_registration

end C16Handler
end Evenio
