import Evenio.Proofs.HandlerHist
/-!
# C15 along whole WORLD histories: "a removed handler never runs again"

> "A handler's removal is announced by RemoveHandler before it happens; afterwards the handler is never invoked for any
> event and its id is invalid.  Removing an event type … removes exactly the handlers that receive it or are able to send
> it."

`Props/C15.lean` proves "never invoked" for the world RIGHT AFTER the removal (`removed_handler_never_invoked`),
`Props/ReachLists.lean` for one REACHABLE world (`removed_handler_in_no_list_reach`).  The property quantifies over every
later delivery of every later operation.  This file states it for arbitrary continuations: sequences of valid top-level
operations with arbitrary handler programs (`add_handler` of new handlers that reuse the slot, `remove_event`,
`remove_component`, sends inside handlers, …), each returning normally OR panicking without a pending reservation
(`C03History.GoodHist`, the steps `ReachP` follows).

## What "runs" means in the model

`runHandler hk` starts with the registry lookup `handlers.get hk` and executes the body stored THERE.  A removed id is dead
in the registry for ever (C16: `removed_id_stays_dead`), so `runHandler k` of a removed `k` cannot run anything (it is the
marker exit `ub handler-ptr:run`: `runHandler_removed`).  The content of the property is therefore: *the handler loop of
no delivery is handed `k`*.  The list a delivery hands to its handler loop is a function of the world it starts in and of
the event: `runList w it` (`deliverOne_runs_runList`: `deliverOne it` IS the lookups followed by
`deliverBody it info (runList w it) loc`; `deliverOne_poisoned`: nothing outside the list is invoked).

`Invoked k d := k ∈ runList d.pre d.ev` for a delivery-log entry `d` (`Delivery`, `Proofs/Flush.lean`: the entries of the
depth-first log `DfsLog` of a flush; `DfsPanic` for a flush cut short by a failing delivery).

## How "every delivery of every later operation" is covered

* **the site invariant** `HSite k w` (`Proofs/HandlerHist.lean`): the guarded world invariant `GW`, the registry
  invariant, and `('h', k)` recorded as removed.  One-state.
* **between operations**: `history_site` — from a `ReachP` world with `('h', k)` recorded, the world after EVERY good
  continuation, and the world every operation of the continuation is started in (`stepInit`), is a site.
* **inside an operation**: the `KS` table — `push`, `senderPush`, `runAct`, `runHandler`, `dropQueued`, `deliverOne`,
  `flush`, `ensureAddG`, `addGlobalEvent`, `sendGlobal`, `addComponent`, `addTargetedEvent`, `addEvent`, `sendTargeted`,
  `initQuery`, `initParam`, `addHandler`, `removeHandler`, and `execOp op` for every valid `op` keep the site invariant on
  normal return and after a panic.  Every flush of the model is a call `flush FUEL` made by `ensureAddG`,
  `addGlobalEvent`, `sendGlobal` or `sendTargeted`; all of them, and everything that calls them, are in the table, so
  every flush of every operation starts at a site (`sendGlobal_avoids` / `sendTargeted_avoids` spell it out for the two
  functions every top-level send goes through).
* **inside a flush**: `flush_from_site_avoids` — a flush started at a site, whether it returns or not: every delivery of
  its log (and the delivery that failed) starts at a site and has `¬ Invoked k d`.
* `removed_never_runs_again` bundles the three; `removed_in_no_list_history` is the state form;
  `rmh_then_never` / `removeHandler_makes_site` start from the removal itself.

The shallow embedding has no notion of "the list of all flushes an operation performs" (an operation is a function
`World → Except Err α × World`), so the middle bullet is a table of per-function theorems, not one quantified statement.

## Events

`removed_event_never_delivered_again`: after `remove_*_event` of the id `k`, no delivery of any later operation looks up
the registry entry `k` (queued items carry the INDEX; the index may be reused by a later registration — the entry found
is then the new one, with a different id), on every exit of every operation (only `RegInv` is needed); and within the
resource bound no live handler receives `k` (`no_live_handler_receives_removed_event`).
-/
namespace Evenio
namespace C15History
open C03History ReachLists

/-! ## vocabulary -/

/-- `k` is in the handler list the delivery `d` walks -/
def Invoked (k : Key) (d : Delivery) : Prop := k ∈ runList d.pre d.ev

theorem invoked_iff (k : Key) (d : Delivery) : Invoked k d ↔ k ∈ runList d.pre d.ev := Iff.rfl

/-- **the outcome `r` of a flush started in `w1` involves no delivery whose handler list contains `k`.**
    Normal return: the flush was the depth-first propagation `log` of the stack of `w1`, every delivery of it started at
    a site and did not have `k` in its list.  Error return: unless the model's fuel ran out, the propagation was cut short
    by the failing delivery of `x`; the same holds for the completed deliveries, and the failing one started in a site
    `wx` with `k ∉ runList wx x`. -/
def FlushAvoids (k : Key) (w1 : World) (r : Except Err Unit × World) : Prop :=
  match r with
  | (.ok _, w') =>
    ∃ wd log, DfsLog deliverOne { w1 with queue := [] } w1.queue.reverse wd log ∧
      w' = { wd with arenaEpoch := wd.arenaEpoch + 1 } ∧
      ∀ d ∈ log, HSite k d.pre ∧ (Small d.pre → ¬ Invoked k d)
  | (.error e, _) =>
    e = .panic "model:fuel" ∨
    ∃ err log x wl P, DfsPanic deliverOne { w1 with queue := [] } w1.queue.reverse err log x wl P ∧
      (∀ d ∈ log, HSite k d.pre ∧ (Small d.pre → ¬ Invoked k d)) ∧
      ∃ wx, HSite k wx ∧ (Small wx → k ∉ runList wx x) ∧
        (deliverOne x).run.run { wx with queue := [] } = (.error err, wl)

/-! ## inside a flush -/

/-- **every flush started at a site avoids `k`**, however it ends -/
theorem flush_from_site_avoids {k : Key} {w1 : World} (fuel : Nat) (hw : HSite k w1) :
    FlushAvoids k w1 ((flush fuel).run.run w1) := by
  generalize hr : (flush fuel).run.run w1 = r
  obtain ⟨(e|u), w'⟩ := r
  · have hr' : (flush fuel).run.run { w1 with queue := w1.queue } = (.error e, w') := hr
    rcases flush_site_error hw hr' with hf | ⟨err, log, x, wl, P, hp, ha, wx, hwx, hx⟩
    · exact .inl hf
    · exact .inr ⟨err, log, x, wl, P, hp, fun d hd => ⟨ha d hd, fun hs => site_not_in_runList (ha d hd) hs d.ev⟩,
        wx, hwx, fun hs => site_not_in_runList hwx hs x, hx⟩
  · have hr' : (flush fuel).run.run { w1 with queue := w1.queue } = (.ok (), w') := hr
    obtain ⟨wd, log, hlog, rfl, ha⟩ := flush_site_ok hw hr'
    exact ⟨wd, log, hlog, rfl, fun d hd => ⟨ha d hd, fun hs => site_not_in_runList (ha d hd) hs d.ev⟩⟩

/-- the resource bound goes backwards along a propagation: if the world it left is `Small`, every delivery started in a
    `Small` world -/
theorem dfsLog_small {w wd : World} {es : List QItem} {log : List Delivery} (h : DfsLog deliverOne w es wd log)
    (hs : Small wd) : (∀ d ∈ log, Small d.pre) ∧ Small w := by
  induction h with
  | nil w => exact ⟨fun d hd => (nomatch hd), hs⟩
  | @cons w e w1 seg w2 es w3 l1 l2 hstep _ _ ih1 ih2 =>
    obtain ⟨a2, b2⟩ := ih2 hs
    obtain ⟨a1, b1⟩ := ih1 b2
    obtain ⟨w'', hrun, -, rfl⟩ := hstep
    have hw0 : Small { w with queue := [] } :=
      SlabMono.small (m := deliverOne e) (fun _ => deliverOne_sl e) hrun b1
    have hw : Small w := hw0
    refine ⟨fun d hd => ?_, hw⟩
    rcases List.mem_cons.1 hd with rfl | hd
    · exact hw
    · rcases List.mem_append.1 hd with hd | hd
      · exact a1 d hd
      · exact a2 d hd

/-- **a flush that returns into a world within the resource bound**: NO delivery of it had `k` in its list -/
theorem flush_ok_never_invokes {k : Key} {w1 w' : World} {fuel : Nat} (hw : HSite k w1)
    (h : (flush fuel).run.run w1 = (.ok (), w')) (hs : Small w') :
    ∃ wd log, DfsLog deliverOne { w1 with queue := [] } w1.queue.reverse wd log ∧
      w' = { wd with arenaEpoch := wd.arenaEpoch + 1 } ∧ ∀ d ∈ log, ¬ Invoked k d := by
  have := flush_from_site_avoids fuel hw
  rw [h] at this
  obtain ⟨wd, log, hlog, rfl, ha⟩ := this
  exact ⟨wd, log, hlog, rfl, fun d hd => (ha d hd).2 ((dfsLog_small hlog hs).1 d hd)⟩

/-- … and each of these deliveries is the same whatever the code of handler `k` is replaced by -/
theorem delivery_independent_of_removed {k : Key} {wd : World} (hw : HSite k wd) (hs : Small wd) (it : QItem)
    (bad : QItem → Loc → M Bool) :
    (∃ s, (deliverOne it).run.run wd = (.error (.ub s), wd)) ∨
    (∃ info : EvInfo, (deliverOne it).run.run wd = (if info.needsDrop then dropEvent it else pure ()).run.run wd) ∨
    (∃ info loc, (deliverOne it).run.run wd =
      (deliverBodyWith (fun hk => if hk = k then bad else runHandler hk) it info (runList wd it) loc).run.run wd) :=
  deliverOne_poisoned it wd k (site_not_in_runList hw hs it) bad

/-! ## inside an operation: the two functions every send goes through -/

/-- **`World::send` from a site**: the registration of the event type (at most the `AddGlobalEvent` notifications, each a
    `flush` from a site: `addGlobalEvent_ks`) leaves a site `w0`; the event is pushed; the flush avoids `k` -/
theorem sendGlobal_avoids {k : Key} {w1 w' : World} {ty : EvTy} {pay : Payload} (hw : HSite k w1)
    (h : (sendGlobal ty pay).run.run w1 = (.ok (), w')) :
    ∃ ek w0, (addGlobalEvent ty).run.run w1 = (.ok ek, w0) ∧ HSite k w0 ∧
      FlushAvoids k { w0 with queue := w0.queue ++ [{ ty, idx := ek.idx, pay }] } (.ok (), w') := by
  obtain ⟨ek, w0, hadd, hfl⟩ := sendGlobal_ok h
  have h0 : HSite k w0 := by
    have := (addGlobalEvent_ks ('h', k) ty).run w1 hw
    rw [hadd] at this
    exact this
  refine ⟨ek, w0, hadd, h0, ?_⟩
  have := flush_from_site_avoids (k := k) FUEL (siteP_queueBlind ('h', k) w0 (w0.queue ++ [{ ty, idx := ek.idx, pay }])
    w0.arenaEpoch h0)
  rw [show (flush FUEL).run.run { w0 with queue := w0.queue ++ [{ ty, idx := ek.idx, pay }], arenaEpoch := w0.arenaEpoch }
    = (.ok (), w') from hfl] at this
  exact this

/-! ## between operations -/

theorem goodHist_append {w : World} {a b : List Op} :
    GoodHist w (a ++ b) ↔ GoodHist w a ∧ GoodHist (runHist w a) b := by
  induction a generalizing w with
  | nil => exact ⟨fun h => ⟨trivial, h⟩, fun h => h.2⟩
  | cons op a ih =>
    show (op.Valid ∧ StepGood w op ∧ GoodHist (step w op).1 (a ++ b)) ↔
      (op.Valid ∧ StepGood w op ∧ GoodHist (step w op).1 a) ∧ GoodHist (runHist (step w op).1 a) b
    rw [ih]
    exact ⟨fun ⟨h1, h2, h3, h4⟩ => ⟨⟨h1, h2, h3⟩, h4⟩, fun ⟨⟨h1, h2, h3⟩, h4⟩ => ⟨h1, h2, h3, h4⟩⟩

/-- **an id recorded as removed stays recorded and dead** along every sequence of operations (valid or not, however they
    end) — restated from `removed_id_stays_dead` for `ReachP` and `runHist` -/
theorem removed_stays_removed {w : World} {p : Char × Key} (hr : ReachP w) (hp : p ∈ w.removedIds) (ops : List Op) :
    p ∈ (runHist w ops).removedIds ∧ RegInv [p] (runHist w ops) := by
  have h1 : RegInv [p] w := (regInv_reachP hr).track fun q hq => by rw [List.mem_singleton.1 hq]; exact hp
  have h2 : RegInv [p] (runHist w ops) := runOps_regInv ops h1
  exact ⟨h2.sub p List.mem_cons_self, h2⟩

/-- **the world a good continuation leaves is a site** -/
theorem history_site {w : World} {p : Char × Key} (hr : ReachP w) (hp : p ∈ w.removedIds) {ops : List Op}
    (hg : GoodHist w ops) : SiteP p (runHist w ops) :=
  siteP_of_reachP (reachP_runHist hr hg) (removed_stays_removed hr hp ops).1

/-- **every operation of a good continuation is started at a site** (in the world `step` prepares for it), is valid, and
    keeps the site invariant on normal return and after a panic -/
theorem history_op_site {w : World} {p : Char × Key} (hr : ReachP w) (hp : p ∈ w.removedIds) {ops : List Op}
    (hg : GoodHist w ops) {pre post : List Op} {op : Op} (he : ops = pre ++ op :: post) :
    SiteP p (stepInit (runHist w pre)) ∧ op.Valid ∧ StepGood (runHist w pre) op ∧
      SiteP p (step (runHist w pre) op).1 := by
  subst he
  obtain ⟨h1, h2⟩ := goodHist_append.1 hg
  refine ⟨siteP_stepInit (history_site hr hp h1), h2.1, h2.2.1, ?_⟩
  have : GoodHist w (pre ++ [op]) := goodHist_append.2 ⟨h1, h2.1, h2.2.1, trivial⟩
  have := history_site hr hp this
  rwa [runHist_append] at this

/-- **C15, state form, histories**: after every good continuation from a `ReachP` world in which `('h', k)` is recorded
    as removed (within the resource bound): `k` is invalid, not in the insertion-order index, in no global list, in no
    refresh set, in no listener table -/
theorem removed_in_no_list_history {w : World} {k : Key} (hr : ReachP w) (hk : ('h', k) ∈ w.removedIds)
    {ops : List Op} (hg : GoodHist w ops) (hs : Small (runHist w ops)) :
    let w' := runHist w ops
    w'.handlers.contains k = false ∧ k ∉ w'.byInsertOrder ∧ (∀ l ∈ w'.byGlobal, k ∉ l.entries) ∧
    (∀ i a, w'.archs.get i = some a →
      k ∉ a.refresh ∧ (∀ t l, a.listeners.get t = some l → k ∉ l.entries) ∧ ∀ t, k ∉ a.listenersFor t) :=
  site_in_no_list (history_site hr hk hg) hs

/-! ## the theorem -/

/-- **C15, whole histories: a removed handler never runs again.**  Let `w` be reachable (normal returns and
    reservation-free panics) with `('h', k)` recorded as removed, and `ops` ANY continuation of valid operations that
    return or panic without a pending reservation.  Then
    1. `('h', k)` is still recorded, `k` is invalid, and the world the continuation leaves is a site;
    2. every operation of the continuation is started at a site;
    3. every flush started at a site — every flush of these operations: the model's functions keep the site invariant
       (the `KS` table of `Proofs/HandlerHist.lean`; `execOp_ks`) — avoids `k`: no delivery of its log, and not the
       delivery that failed if it did not return, has `k` in the list it hands to its handler loop;
    4. every delivery that starts at a site (within the resource bound) is the same whatever the code of handler `k` is
       replaced by. -/
theorem removed_never_runs_again {w : World} {k : Key} (hr : ReachP w) (hk : ('h', k) ∈ w.removedIds)
    {ops : List Op} (hg : GoodHist w ops) :
    (('h', k) ∈ (runHist w ops).removedIds ∧ (runHist w ops).handlers.contains k = false ∧ HSite k (runHist w ops)) ∧
    (∀ pre op post, ops = pre ++ op :: post → HSite k (stepInit (runHist w pre)) ∧ op.Valid) ∧
    (∀ w1 fuel, HSite k w1 → FlushAvoids k w1 ((flush fuel).run.run w1)) ∧
    (∀ wd it, HSite k wd → Small wd → k ∉ runList wd it) := by
  have h1 := history_site hr hk hg
  refine ⟨⟨h1.removed, HSite.dead h1, h1⟩, fun pre op post he => ?_, fun w1 fuel hw => flush_from_site_avoids fuel hw,
    fun wd it hw hs => site_not_in_runList hw hs it⟩
  obtain ⟨a, b, -, -⟩ := history_op_site hr hk hg he
  exact ⟨a, b⟩

/-! ## starting from the removal -/

/-- **`remove_handler(k)` that returns `true` leaves a site for `k`** — from any world satisfying the guarded invariant
    and the registry invariant (every reachable world; every world in the middle of an operation) -/
theorem removeHandler_makes_site {w w' : World} {k : Key} (hw : GW w) (hri : RegInv [] w)
    (hrun : (removeHandler k).run.run w = (.ok true, w')) : HSite k w' := by
  have h1 := (pieces.glue_removeHandler k).run w hw
  rw [hrun] at h1
  have h2 := (removeHandler_ri (D := []) k).run w hri
  rw [hrun] at h2
  have h3 := (removeHandler_records hri hrun).2.1
  exact ⟨h1, RegInv.track h2 fun q hq => by rw [List.mem_singleton.1 hq]; exact h3⟩

/-- the first live handler named `name` in insertion order (what the driver operation `rmh name` removes) -/
def firstNamed (w : World) (name : String) : Option (Key × HInfo) :=
  (w.byInsertOrder.filterMap fun k => (w.handlers.get k).map fun h => (k, h)).find? fun (_, h) => h.name == name

/-- the run of the driver operation `rmh name` when the name resolves to `k` -/
theorem execOp_rmh_run {w : World} {name : String} {k : Key} {h : HInfo} (hf : firstNamed w name = some (k, h)) :
    (execOp (.rmh name)).run.run w =
      match (removeHandler k).run.run w with
      | (.ok b, w') => (.ok [renderResult b], w')
      | (.error e, w') => (.error e, w') := by
  unfold firstNamed at hf
  unfold execOp
  simp only [run_bind, run_get, hf, run_pure]
  generalize (removeHandler k).run.run w = res
  obtain ⟨(e|b), w'⟩ := res <;> rfl

theorem firstNamed_live {w : World} {name : String} {k : Key} {h : HInfo} (hf : firstNamed w name = some (k, h)) :
    w.handlers.get k = some h := by
  unfold firstNamed at hf
  have := List.mem_of_find?_eq_some hf
  rw [List.mem_filterMap] at this
  obtain ⟨k', -, hk'⟩ := this
  cases hg : w.handlers.get k' with
  | none => rw [hg] at hk'; cases hk'
  | some h' =>
    rw [hg] at hk'
    simp only [Option.map_some, Option.some.injEq, Prod.mk.injEq] at hk'
    obtain ⟨rfl, rfl⟩ := hk'
    exact hg

/-- **C15: after the driver operation `rmh name` has returned** from a reachable world in which `name` resolves to the
    live handler `k`: `('h', k)` is recorded, the world is reachable — so everything `removed_never_runs_again` says holds
    for EVERY continuation -/
theorem rmh_then_never {w : World} {name : String} {k : Key} {h : HInfo} (hr : ReachP w)
    (hf : firstNamed w name = some (k, h)) (hok : StepOk w (.rmh name)) :
    ReachP (step w (.rmh name)).1 ∧ ('h', k) ∈ (step w (.rmh name)).1.removedIds ∧
    ∀ ops, GoodHist (step w (.rmh name)).1 ops →
      HSite k (runHist (step w (.rmh name)).1 ops) ∧
      (Small (runHist (step w (.rmh name)).1 ops) → ∀ it, k ∉ runList (runHist (step w (.rmh name)).1 ops) it) := by
  have hr1 : ReachP (step w (.rmh name)).1 := ReachP.step _ hr trivial hok
  have hf' : firstNamed (stepInit w) name = some (k, h) := hf
  have hrec : ('h', k) ∈ (step w (.rmh name)).1.removedIds := by
    obtain ⟨lines, hl⟩ := hok
    rw [step_fst, execOp_rmh_run hf']
    rw [execOp_rmh_run hf'] at hl
    generalize hres : (removeHandler k).run.run (stepInit w) = res at hl ⊢
    obtain ⟨(e|b), w'⟩ := res
    · cases hl
    · have hb := (removeHandler_result hres).1
      have hc : (stepInit w).handlers.contains k = true := by
        simp [SlotMap.contains, firstNamed_live hf']
      rw [hc] at hb
      subst hb
      have hri0 : RegInv [] w := regInv_reachP hr
      have hri' : RegInv [] (stepInit w) := hri0
      show ('h', k) ∈ w'.removedIds
      exact (removeHandler_records (w := stepInit w) (D := []) hri' hres).2.1
  refine ⟨hr1, hrec, fun ops hg => ?_⟩
  have hs := history_site hr1 hrec hg
  exact ⟨hs, fun hsm it => site_not_in_runList hs hsm it⟩

/-! ## events -/

/-- a predicate kept by `deliverOne` on every exit holds at the start of every delivery of a propagation -/
theorem dfsLog_keeps {I : World → Prop} (hq : QueueBlind I) (hd : ∀ it, Keeps I (deliverOne it)) {w wd : World}
    {es : List QItem} {log : List Delivery} (h : DfsLog deliverOne w es wd log) (hw : I w) :
    (∀ d ∈ log, I d.pre) ∧ I wd := by
  induction h with
  | nil w => exact ⟨fun d hd => (nomatch hd), hw⟩
  | @cons w e w1 seg w2 es w3 l1 l2 hstep _ _ ih1 ih2 =>
    obtain ⟨w'', hrun, -, rfl⟩ := hstep
    have h1 := (hd e).run _ (hq w [] w.arenaEpoch hw)
    rw [hrun] at h1
    obtain ⟨a1, b1⟩ := ih1 (hq w'' [] w''.arenaEpoch h1)
    obtain ⟨a2, b2⟩ := ih2 b1
    refine ⟨fun d hd => ?_, b2⟩
    rcases List.mem_cons.1 hd with rfl | hd
    · exact hw
    · rcases List.mem_append.1 hd with hd | hd
      · exact a1 d hd
      · exact a2 d hd

/-- … also of a propagation cut short by a failing delivery, the failing delivery included -/
theorem dfsPanic_keeps {I : World → Prop} (hq : QueueBlind I) (hd : ∀ it, Keeps I (deliverOne it)) {w : World}
    {es : List QItem} {err : Err} {log : List Delivery} {x : QItem} {wl : World} {P : List QItem}
    (h : DfsPanic deliverOne w es err log x wl P) (hw : I w) :
    (∀ d ∈ log, I d.pre) ∧ ∃ wx, I wx ∧ (deliverOne x).run.run { wx with queue := [] } = (.error err, wl) := by
  have stepI : ∀ {w e w1 seg}, Step deliverOne w e w1 seg → I w → I w1 := by
    intro w e w1 seg hs hw
    obtain ⟨w'', hrun, -, rfl⟩ := hs
    have h1 := (hd e).run _ (hq w [] w.arenaEpoch hw)
    rw [hrun] at h1
    exact hq w'' [] w''.arenaEpoch h1
  induction h with
  | @here w e es err wl hd' => exact ⟨fun d hd'' => (nomatch hd''), w, hw, hd'⟩
  | @child w e w1 seg es err l x wl P hs _ ih =>
    obtain ⟨a1, b1⟩ := ih (stepI hs hw)
    refine ⟨fun d hd => ?_, b1⟩
    rcases List.mem_cons.1 hd with rfl | hd
    · exact hw
    · exact a1 d hd
  | @sibling w e w1 seg w2 es err l1 l2 x wl P hs hc _ ih =>
    obtain ⟨a1, b1⟩ := dfsLog_keeps hq hd hc (stepI hs hw)
    obtain ⟨a2, b2⟩ := ih b1
    refine ⟨fun d hd => ?_, b2⟩
    rcases List.mem_cons.1 hd with rfl | hd
    · exact hw
    · rcases List.mem_append.1 hd with hd | hd
      · exact a1 d hd
      · exact a2 d hd

/-- the registry key a delivery-log entry was for -/
def DeliveredFor (kev : Key) (d : Delivery) : Prop := deliveredKey d.pre d.ev = some kev

/-- **C15, events, whole histories: a removed event id is never delivered again.**  Let `(evTag ty, kev)` — `('g', kev)` /
    `('t', kev)` for a global / targeted event id — be recorded as removed in a `ReachP` world `w`.  For EVERY sequence
    `ops` of driver operations (valid or not, returning, panicking or ending in a marker):
    1. the id is still recorded and dead after `ops`;
    2. every flush started in a world `w1` satisfying `RegInv [(evTag ty, kev)]` — every flush of every one of these
       operations, `RegInv` being kept by every model function on every exit (`Proofs/Registry.lean`, `execOp_ri`) —
       however it ends: no delivery of its log, and not the failing one, of an event of that kind looked up the entry
       `kev`, whatever index the queued item carried. -/
theorem removed_event_never_delivered_again {w : World} {ty : EvTy} {kev : Key} (hr : ReachP w)
    (hk : (evTag ty, kev) ∈ w.removedIds) (ops : List Op) :
    ((evTag ty, kev) ∈ (runHist w ops).removedIds ∧ RegInv [(evTag ty, kev)] (runHist w ops) ∧
      (if ty.targeted then (runHist w ops).tevs.contains kev else (runHist w ops).gevs.contains kev) = false) ∧
    (∀ (w1 : World) (fuel : Nat), RegInv [(evTag ty, kev)] w1 →
      (∀ w', (flush fuel).run.run w1 = (.ok (), w') →
        ∃ wd log, DfsLog deliverOne { w1 with queue := [] } w1.queue.reverse wd log ∧
          ∀ d ∈ log, d.ev.ty.targeted = ty.targeted → ¬ DeliveredFor kev d) ∧
      (∀ e w', (flush fuel).run.run w1 = (.error e, w') → e = .panic "model:fuel" ∨
        ∃ err log x wl P, DfsPanic deliverOne { w1 with queue := [] } w1.queue.reverse err log x wl P ∧
          (∀ d ∈ log, d.ev.ty.targeted = ty.targeted → ¬ DeliveredFor kev d) ∧
          ∃ wx, (x.ty.targeted = ty.targeted → deliveredKey wx x ≠ some kev) ∧
            (deliverOne x).run.run { wx with queue := [] } = (.error err, wl))) := by
  obtain ⟨h1, h2⟩ := removed_stays_removed hr hk ops
  refine ⟨⟨h1, h2, ?_⟩, fun w1 fuel hw => ⟨fun w' hrun => ?_, fun e w' hrun => ?_⟩⟩
  · have := h2.not_valid h1
    unfold evTag at this
    cases htt : ty.targeted with
    | true => rw [htt] at this; simpa using this
    | false => rw [htt] at this; simpa using this
  · have hrun' : (flush fuel).run.run { w1 with queue := w1.queue } = (.ok (), w') := hrun
    obtain ⟨wd, log, hlog, -⟩ := flushWith_ok_log (deliver := deliverOne) hrun'
    have := (dfsLog_keeps ri_queueBlind deliverOne_ri hlog (ri_queueBlind w1 [] w1.arenaEpoch hw)).1
    exact ⟨wd, log, hlog, fun d hd ht => removed_event_not_delivered (this d hd) d.ev ht⟩
  · have hrun' : (flush fuel).run.run { w1 with queue := w1.queue } = (.error e, w') := hrun
    rcases flushWith_error_log (deliver := deliverOne) hrun' with hf | ⟨err, log, x, wl, P, hp, -⟩
    · exact .inl hf
    · obtain ⟨a, wx, hwx, hx⟩ := dfsPanic_keeps ri_queueBlind deliverOne_ri hp (ri_queueBlind w1 [] w1.arenaEpoch hw)
      exact .inr ⟨err, log, x, wl, P, hp, fun d hd ht => removed_event_not_delivered (a d hd) d.ev ht,
        wx, fun ht => removed_event_not_delivered hwx x ht, hx⟩

/-- **… and the handlers that received it are gone for good**: after every good continuation (within the resource
    bound) no live handler receives the removed event id (`no_handler_receives_removed_event`, lifted to histories) -/
theorem no_live_handler_receives_removed_event {w : World} {ty : EvTy} {kev : Key} (hr : ReachP w)
    (hk : (evTag ty, kev) ∈ w.removedIds) {ops : List Op} (hg : GoodHist w ops) (hs : Small (runHist w ops))
    {hk' : Key} {h : HInfo} (hget : (runHist w ops).handlers.get hk' = some h) :
    ¬ (h.recv.targeted = ty.targeted ∧ h.recvKey = kev) :=
  site_no_handler_receives (history_site hr hk hg) hs hget

/-- `remove_*_event(k)` that returns `true` records the id: from then on `removed_event_never_delivered_again` applies -/
theorem removeEvent_records_id {w w' : World} {ty : EvTy} {kev : Key} (hri : RegInv [] w)
    (hrun : (removeEvent ty kev).run.run w = (.ok true, w')) :
    (evTag ty, kev) ∈ w'.removedIds ∧ RegInv [(evTag ty, kev)] w' :=
  ⟨(removeEvent_records hri hrun).2.1, (removeEvent_records hri hrun).1⟩

/-! ## non-vacuity

A closed history, evaluated by the kernel (`decide +kernel`): register `G0`; add the handlers "a" and "b" for it; remove
"a"; send `G0` twice; add a third handler "c" — it reuses slot 0 of the handler registry under a NEW id. -/

def hA : HSpec := { name := "a", params := [.recv (.g 0) false none] }
def hB : HSpec := { name := "b", params := [.recv (.g 0) false none] }
def hC : HSpec := { name := "c", params := [.recv (.g 0) false none] }

def demoPre : List Op := [.addev (.g 0), .addh hA, .addh hB]
def demoPost : List Op := [.send 0, .send 0, .addh hC]
def demoOps : List Op := demoPre ++ .rmh "a" :: demoPost

/-- the world before the removal, the world after it -/
def w3 : World := runHist {} demoPre
def w4 : World := (step w3 (.rmh "a")).1

theorem valid_of_all {ops : List Op} (h : ops.all validB = true) : ∀ op ∈ ops, op.Valid :=
  fun op hop => valid_of_validB (List.all_eq_true.1 h op hop)

/-- the `G0` event as it is queued by `send` (index 0 of the global-event registry) -/
def g0 : QItem := { ty := .g 0, idx := 0, pay := {} }

set_option maxRecDepth 1000000 in
/-- **the demo history, evaluated**: every operation returns; "a" resolves to `0v1`; before the removal a `G0` is handed
    the list `[0v1, 1v1]` and two handlers run (two trace lines, the first one `h a G0(s1)`); after the removal the list
    is `[1v1]`, each of the two sends runs ONE handler (`h b …`); the new handler "c" gets `0v3` — slot 0 again, another
    id — and the list becomes `[1v1, 0v3]`; `0v1` is the one id recorded as removed -/
theorem demo_eval :
    (demoOps.all validB = true ∧ goodHistB {} demoOps = true) ∧
    ((firstNamed w3 "a").map (·.1) = some ⟨0, 1⟩ ∧ stepOkB w3 (.rmh "a") = true) ∧
    (runList w3 g0 = [⟨0, 1⟩, ⟨1, 1⟩] ∧ runList w4 g0 = [⟨1, 1⟩]) ∧
    ((step w3 (.send 0)).1.out.size = 2 ∧ (step w4 (.send 0)).1.out.size = 1 ∧
      (step (step w4 (.send 0)).1 (.send 0)).1.out.size = 1) ∧
    ((step w3 (.send 0)).2.take 1 = ["t h a G0(s1)"] ∧ (step w4 (.send 0)).2.take 1 = ["t h b G0(s1)"]) ∧
    ((runHist {} demoOps).handlers.toList.map (·.1) = [⟨0, 3⟩, ⟨1, 1⟩] ∧
      runList (runHist {} demoOps) g0 = [⟨1, 1⟩, ⟨0, 3⟩] ∧
      (runHist {} demoOps).removedIds.map (·.2) = [⟨0, 1⟩]) := by
  decide +kernel

set_option maxRecDepth 1000000 in
theorem demo_small : Small (runHist {} demoOps) := by unfold Small; decide +kernel

theorem demo_goodHist : GoodHist {} demoOps := goodHist_of_check (valid_of_all demo_eval.1.1) demo_eval.1.2

theorem demo_firstNamed : ∃ h, firstNamed w3 "a" = some (⟨0, 1⟩, h) := by
  have := demo_eval.2.1.1
  cases hf : firstNamed w3 "a" with
  | none => rw [hf] at this; cases this
  | some p =>
    obtain ⟨k, h⟩ := p
    rw [hf] at this
    cases this
    exact ⟨h, rfl⟩

theorem demo_split : runHist {} demoOps = runHist w4 demoPost := by
  unfold demoOps w4 w3
  rw [runHist_append, runHist_cons]

theorem demo_goodPre : GoodHist {} demoPre := (goodHist_append.1 demo_goodHist).1

theorem demo_reach3 : ReachP w3 := by
  unfold w3
  exact reachP_runHist .init demo_goodPre

theorem demo_goodPost : GoodHist w4 demoPost := by
  have h := (goodHist_append.1 demo_goodHist).2
  unfold w4 w3
  exact h.2.2

/-- **the theorems apply**: after the removal the world is reachable, `0v1` is recorded … -/
theorem demo_removed : ReachP w4 ∧ ('h', (⟨0, 1⟩ : Key)) ∈ w4.removedIds := by
  obtain ⟨h, hf⟩ := demo_firstNamed
  have h12 := rmh_then_never demo_reach3 hf (stepOk_of_check demo_eval.2.1.2)
  unfold w4
  exact ⟨h12.1, h12.2.1⟩

/-- … the rest of the history (two sends, the new handler in the old slot) is a good continuation, so everything
    `removed_never_runs_again` says holds for it: the world it leaves is a site for `0v1`, every one of its three
    operations was started at a site, every flush started at a site avoids `0v1` … -/
theorem demo_instance :
    HSite ⟨0, 1⟩ (runHist {} demoOps) ∧
    (∀ pre op post, demoPost = pre ++ op :: post → HSite ⟨0, 1⟩ (stepInit (runHist w4 pre)) ∧ op.Valid) ∧
    (∀ it, (⟨0, 1⟩ : Key) ∉ runList (runHist {} demoOps) it) := by
  obtain ⟨⟨-, -, h1⟩, h2, -, h4⟩ := removed_never_runs_again demo_removed.1 demo_removed.2 demo_goodPost
  rw [← demo_split] at h1
  exact ⟨h1, h2, fun it => h4 _ it h1 demo_small⟩

/-- … and for EVERY further continuation: whatever valid operations follow (more handlers in slot 0, removals, sends
    from inside handlers, panics), `0v1` is never in the list of a delivery, and never the id of a handler again — the
    handler now in slot 0 has the id `0v3 ≠ 0v1` -/
theorem demo_forever (more : List Op) (hg : GoodHist (runHist {} demoOps) more)
    (hs : Small (runHist (runHist {} demoOps) more)) :
    (∀ it, (⟨0, 1⟩ : Key) ∉ runList (runHist (runHist {} demoOps) more) it) ∧
    (runHist (runHist {} demoOps) more).handlers.contains ⟨0, 1⟩ = false ∧
    (∀ w1 fuel, HSite ⟨0, 1⟩ w1 → FlushAvoids ⟨0, 1⟩ w1 ((flush fuel).run.run w1)) ∧
    (⟨0, 3⟩ : Key) ≠ ⟨0, 1⟩ := by
  have hg4 : GoodHist w4 (demoPost ++ more) := by
    refine goodHist_append.2 ⟨demo_goodPost, ?_⟩
    rw [← demo_split]; exact hg
  obtain ⟨⟨-, h0, h1⟩, -, h3, h4⟩ := removed_never_runs_again demo_removed.1 demo_removed.2 hg4
  have e : runHist w4 (demoPost ++ more) = runHist (runHist {} demoOps) more := by
    rw [runHist_append, ← demo_split]
  rw [e] at h0 h1
  exact ⟨fun it => h4 _ it h1 hs, h0, h3, by decide⟩

#print axioms flush_from_site_avoids
#print axioms flush_ok_never_invokes
#print axioms delivery_independent_of_removed
#print axioms sendGlobal_avoids
#print axioms removed_stays_removed
#print axioms history_site
#print axioms history_op_site
#print axioms removed_in_no_list_history
#print axioms removed_never_runs_again
#print axioms removeHandler_makes_site
#print axioms rmh_then_never
#print axioms removed_event_never_delivered_again
#print axioms no_live_handler_receives_removed_event
#print axioms removeEvent_records_id
#print axioms demo_eval
#print axioms demo_small
#print axioms demo_removed
#print axioms demo_instance
#print axioms demo_forever
#print axioms Evenio.deliverOne_runs_runList
#print axioms Evenio.deliverOne_poisoned
#print axioms Evenio.site_in_no_list
#print axioms Evenio.site_not_in_runList
#print axioms Evenio.runHandler_removed
#print axioms Evenio.execOp_ks
#print axioms Evenio.addHandler_ks
#print axioms Evenio.removeHandler_ks
#print axioms Evenio.flush_site_ok
#print axioms Evenio.flush_site_error
#print axioms Evenio.removed_event_not_delivered

end C15History
end Evenio
