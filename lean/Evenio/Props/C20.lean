import Evenio.Proofs.FlushPanic
import Evenio.Proofs.ArenaEpoch
/-!
# C20 — arena data outlives the whole top-level send

> Data that a handler allocates through its Sender and embeds by reference in an event it sends is still intact when
> every handler receiving that event … reads it. Such memory is recycled only after the whole top-level send has
> finished.

In the model the bump arena is abstracted by its epoch: `World.arenaEpoch` is incremented by `self.bump.reset()`, an
allocation is stamped with the epoch current when it was made (`Act.alloc` stores `(w.arenaEpoch, _, _)` in the
payload), and reading an allocation whose stamp differs from the current epoch is `ub "arena:use-after-reset"`
(`runHandler`). So "still intact" = "same epoch".

* `arena_epoch_stable` (generic in `deliver`): if no delivery changes `arenaEpoch` (`EpochStable deliver`), then in
  a flush every delivery starts and ends in the epoch the flush started in, and the epoch is incremented exactly
  once, after the last delivery, when the queue is empty.
* `arena_alloc_valid`: hence a stamp taken in any delivery of a flush equals the epoch seen by every other delivery of
  that flush.
* `flushWith_error_arenaEpoch`: when the loop is left by an error the arena is not reset at all.
* `deliverOne_arenaEpoch`: the hypothesis holds for `deliverOne` — proved COMPLETELY: none of the 34 model
  functions reachable from `deliverOne` assigns `arenaEpoch` (it is part of the frame, `Evenio/Proofs/Frame.lean`,
  one `Keeps` lemma per function; `Evenio/Proofs/ArenaEpoch.lean` specialises them); moreover the
  epoch is `n` after every prefix of the computation, not only at the end, because `Keeps (AE n)` is established
  for every sub-computation (in particular for each `runHandler`, where the stamp is compared).
* `flush_arena_epoch_stable`: the instance for `flush`. -/
namespace Evenio

variable {deliver : QItem → M Unit}

/-- no delivery, however it ends, changes the arena epoch -/
def EpochStable (deliver : QItem → M Unit) : Prop :=
  ∀ it w w'' r, (deliver it).run.run w = (r, w'') → w''.arenaEpoch = w.arenaEpoch

theorem Step.arenaEpoch (hdel : EpochStable deliver) {w it w' seg} (h : Step deliver w it w' seg) :
    w'.arenaEpoch = w.arenaEpoch := by
  obtain ⟨w'', hd, _, rfl⟩ := h
  have := hdel _ _ _ _ hd
  exact this

/-- in a propagation, every delivery starts and ends in the epoch of the start, and so does the propagation -/
theorem dfs_arena_epoch_stable (hdel : EpochStable deliver) {w es w' log} (h : DfsLog deliver w es w' log) :
    w'.arenaEpoch = w.arenaEpoch ∧
    ∀ d ∈ log, d.pre.arenaEpoch = w.arenaEpoch ∧ d.post.arenaEpoch = w.arenaEpoch := by
  induction h with
  | nil w => exact ⟨rfl, by simp⟩
  | @cons w e w1 seg w2 es w3 l1 l2 hs _ _ ih1 ih2 =>
    have h1 := hs.arenaEpoch hdel
    obtain ⟨e1, m1⟩ := ih1
    obtain ⟨e2, m2⟩ := ih2
    refine ⟨by omega, ?_⟩
    intro d hd
    simp only [List.cons_append, List.mem_cons, List.mem_append] at hd
    rcases hd with rfl | hd | hd
    · exact ⟨rfl, h1⟩
    · have := m1 d hd; omega
    · have := m2 d hd; omega

/-- **C20, main theorem.** A normal return of the event loop: all deliveries of the flush — a depth-first
    propagation `DfsLog` with log `log` — start and end in the epoch `w.arenaEpoch` in which the flush was entered; the
    world after the last delivery `wd` still has that epoch and an empty queue; the result differs from `wd` only by
    the single increment of `arenaEpoch`. -/
theorem arena_epoch_stable (hdel : EpochStable deliver) {fuel : Nat} {w w' : World}
    (h : (flushWith deliver fuel).run.run w = (.ok (), w')) :
    ∃ wd log, DfsLog deliver { w with queue := [] } w.queue.reverse wd log ∧
      (∀ d ∈ log, d.pre.arenaEpoch = w.arenaEpoch ∧ d.post.arenaEpoch = w.arenaEpoch) ∧
      wd.arenaEpoch = w.arenaEpoch ∧ wd.queue = [] ∧
      w' = { wd with arenaEpoch := wd.arenaEpoch + 1 } ∧ w'.arenaEpoch = w.arenaEpoch + 1 := by
  obtain ⟨wd, log, hd, rfl⟩ := flushWith_ok_log (w0 := w) (q := w.queue) h
  obtain ⟨e, m⟩ := dfs_arena_epoch_stable hdel hd
  have e' : wd.arenaEpoch = w.arenaEpoch := e
  refine ⟨wd, log, hd, m, e', hd.queue_nil rfl, rfl, ?_⟩
  show wd.arenaEpoch + 1 = w.arenaEpoch + 1
  omega

/-- **C20.** An allocation stamped with the epoch of one delivery of a flush is valid (same epoch) in every
    delivery of that flush — whichever came first. -/
theorem arena_alloc_valid (hdel : EpochStable deliver) {fuel : Nat} {w w' : World}
    (h : (flushWith deliver fuel).run.run w = (.ok (), w')) :
    ∃ wd log, DfsLog deliver { w with queue := [] } w.queue.reverse wd log ∧
      ∀ d1 ∈ log, ∀ d2 ∈ log, d1.pre.arenaEpoch = d2.pre.arenaEpoch ∧ d1.pre.arenaEpoch = d2.post.arenaEpoch := by
  obtain ⟨wd, log, hd, m, _⟩ := arena_epoch_stable hdel h
  refine ⟨wd, log, hd, fun d1 h1 d2 h2 => ?_⟩
  have := m d1 h1
  have := m d2 h2
  omega

/-- number of arena resets of a run of the loop, by its outcome -/
def resetCount : Except Err Unit → Nat
  | .ok _ => 1
  | .error _ => 0

/-- the epoch after any run of the loop: `+ 1` on normal return, unchanged on an error exit (the arena is not reset
    while unwinding) -/
theorem flushWith_arenaEpoch (hdel : EpochStable deliver) {fuel : Nat} {w w' : World} {r : Except Err Unit}
    (h : (flushWith deliver fuel).run.run w = (r, w')) :
    w'.arenaEpoch = w.arenaEpoch + resetCount r := by
  induction fuel generalizing w with
  | zero => rw [flushWith_zero] at h; cases h; rfl
  | succ fuel ih =>
    rw [flushWith_succ] at h
    split at h
    · cases h; rfl
    · rename_i it _
      generalize hd : (deliver it).run.run { w with queue := [] } = rr at h
      obtain ⟨(err|_), w''⟩ := rr
      · have e1 : w''.arenaEpoch = w.arenaEpoch := by have := hdel _ _ _ _ hd; exact this
        simp only at h
        unfold guardExit at h
        cases err with
        | panic c =>
          simp only at h
          have hk := (dropQueued_ae (n := w''.arenaEpoch)).run { w'' with queue := w.queue.dropLast ++ w''.queue } rfl
          generalize dropQueued.run.run { w'' with queue := w.queue.dropLast ++ w''.queue } = r3 at h hk
          obtain ⟨(e3|_), w3⟩ := r3 <;> cases h <;> simp only [AE, resetCount] at hk ⊢ <;> omega
        | ub s => cases h; exact e1
        | assert s => cases h; exact e1
      · have e1 : w''.arenaEpoch = w.arenaEpoch := by have := hdel _ _ _ _ hd; exact this
        have := ih h
        simp only at this
        omega

theorem flushWith_error_arenaEpoch (hdel : EpochStable deliver) {fuel : Nat} {w w' : World} {e : Err}
    (h : (flushWith deliver fuel).run.run w = (.error e, w')) : w'.arenaEpoch = w.arenaEpoch :=
  flushWith_arenaEpoch hdel h

/-! ### the hypothesis holds for `deliverOne` -/

theorem EpochStable.of_keeps (h : ∀ n it, Keeps (AE n) (deliver it)) : EpochStable deliver := by
  intro it w w'' r hr
  have := (h w.arenaEpoch it).run w rfl
  rw [hr] at this
  exact this

/-- **C20.** No delivery of the real event loop changes the arena epoch, however it ends (normal return, panic,
    `ub`, failed assertion). -/
theorem deliverOne_arenaEpoch : EpochStable deliverOne :=
  EpochStable.of_keeps fun _ it => deliverOne_ae it

/-- every handler run of a delivery started in epoch `n` ends in epoch `n` (this is where the stamp is compared) -/
theorem runHandler_arenaEpoch (hk : Key) (it : QItem) (loc : Loc) (w : World) :
    ((runHandler hk it loc).run.run w).2.arenaEpoch = w.arenaEpoch :=
  (runHandler_ae (n := w.arenaEpoch) hk it loc).run w rfl

/-- **C20 for `flush`.** -/
theorem flush_arena_epoch_stable {fuel : Nat} {w w' : World} (h : (flush fuel).run.run w = (.ok (), w')) :
    ∃ wd log, DfsLog deliverOne { w with queue := [] } w.queue.reverse wd log ∧
      (∀ d ∈ log, d.pre.arenaEpoch = w.arenaEpoch ∧ d.post.arenaEpoch = w.arenaEpoch) ∧
      wd.arenaEpoch = w.arenaEpoch ∧ wd.queue = [] ∧
      w' = { wd with arenaEpoch := wd.arenaEpoch + 1 } ∧ w'.arenaEpoch = w.arenaEpoch + 1 :=
  arena_epoch_stable deliverOne_arenaEpoch h

theorem flush_error_arenaEpoch {fuel : Nat} {w w' : World} {e : Err}
    (h : (flush fuel).run.run w = (.error e, w')) : w'.arenaEpoch = w.arenaEpoch :=
  flushWith_error_arenaEpoch deliverOne_arenaEpoch h

/-! ### non-vacuity: a delivery that stamps an allocation and forwards it -/

/-- event 0 allocates (stamps the current epoch into the payload) and sends event 1 carrying it; event 1 checks it -/
def stamping (it : QItem) : M Unit :=
  match it.idx with
  | 0 => do
    let w ← get
    push { ty := .g 3, idx := 1, pay := { arena := some (w.arenaEpoch, 0, 8) } }
  | _ => do
    let w ← get
    match it.pay.arena with
    | some (ep, _, _) => if ep != w.arenaEpoch then ubErr "arena:use-after-reset" else logT "ok"
    | none => pure ()

example : EpochStable stamping := by
  refine EpochStable.of_keeps fun n it => ?_
  unfold stamping ubErr logT push
  keeps

example : ((flushWith stamping 5).run.run { queue := [{ ty := .g 0, idx := 0 }], arenaEpoch := 7 }).2.out = #["ok"] := by
  decide
example : ((flushWith stamping 5).run.run { queue := [{ ty := .g 0, idx := 0 }], arenaEpoch := 7 }).2.arenaEpoch = 8 := by
  decide

#print axioms dfs_arena_epoch_stable
#print axioms arena_epoch_stable
#print axioms arena_alloc_valid
#print axioms flushWith_arenaEpoch
#print axioms flushWith_error_arenaEpoch
#print axioms deliverOne_arenaEpoch
#print axioms runHandler_arenaEpoch
#print axioms flush_arena_epoch_stable
#print axioms flush_error_arenaEpoch

end Evenio
