import Evenio.Props.C02History
import Evenio.Props.C11
/-!
# C02 along a whole flush (continuation of `Props/C02History.lean`)

* (1) `hreg_of_winv`: the registry invariant discharges the hypothesis `hreg` of `C02History.deliverOne_refines`;
  `deliverOne_refines_strong` is that theorem without `hreg` and with one more conjunct: if no registered handler has a
  `bump` in its body (`NoBump`), the handler phase changes no read at all.  `deliverOne_refines_reach'`: hypotheses
  `Reach`, `Small` only.
* (D) `dfsLog_refines` / `flush_refines`: along a completed depth-first propagation the log entries chain (`Chain`) and
  EVERY entry satisfies `DeliveryRel` — the conclusion of `deliverOne_refines_strong` for its pre/post worlds; all
  intermediate worlds satisfy `WInvMid`.  `unaffected_serial`, `flush_last_insert`: the value an applied `Insert(e,c,x)`
  stored is still the value of `(e,c)` at the end (same ledger serial; the same cell if no handler bumps) unless a later
  delivery targets `e` with `Insert c` / `Remove c` / `Despawn`.
* (E) a kernel-evaluated history with a bumping handler, a handler that inserts in reaction to an `Insert`, a taken
  `Insert` and a despawn.
-/
namespace Evenio
namespace C02Flush
open C02History

/-- no registered handler has a `bump` in its body -/
def NoBump (w : World) : Prop := ∀ hk h p, w.handlers.get hk = some h → Act.bump p ∉ h.body

/-- **(1)** a global event has no storage effect: its kind is `normal` or `spawn` (`RegistryInv.gevKind`) -/
theorem hreg_of_winv {w : World} (hw : WInv w) (it : QItem) :
    ∀ info, w.evInfo it = some info → it.ty.targeted = false →
      info.kind = EvKind.normal ∨ info.kind = EvKind.spawn := by
  intro info hinfo hg
  unfold World.evInfo at hinfo
  rw [hg] at hinfo
  simp only [Bool.false_eq_true, if_false] at hinfo
  cases hgi : w.gevs.getByIndex it.idx with
  | none => rw [hgi] at hinfo; cases hinfo
  | some p =>
    obtain ⟨k, i⟩ := p
    rw [hgi] at hinfo
    cases hinfo
    have hk := hw.registry.gevKind k i (SlotMap.getByIndex_get hgi).1
    show i.kind = _ ∨ i.kind = _
    rw [hk]
    unfold gevKind
    split
    · exact .inr rfl
    · exact .inl rfl

/-- **(C), final form**: `C02History.deliverOne_refines` with `hreg` discharged and the no-`bump` clause -/
theorem deliverOne_refines_strong {w w' : World} {it : QItem} (hw : WInvMid w) (hs' : Small w')
    (h : (deliverOne it).run.run w = (.ok (), w')) :
    ∃ info, w.evInfo it = some info ∧
      ((it.ty.targeted = true ∧ w.entities.get it.target = none ∧ w'.entities = w.entities ∧ w'.archs = w.archs) ∨
       ∃ (wh : World) (owned : Bool), PayloadsOnly w wh ∧ (NoBump w → ∀ e c, wh.read e c = w.read e c) ∧ WInvMid wh ∧
         (it.ty.targeted = true → ∃ loc, wh.entities.get it.target = some loc) ∧
         if owned then w'.entities = wh.entities ∧ w'.archs = wh.archs
         else ∀ e, ((∃ l, wh.entities.get e = some l) ∨ (e = it.target ∧ it.ty.targeted = true) ∨
                    (info.kind ≠ EvKind.spawn ∧ info.kind ≠ EvKind.despawn)) →
                ∀ c, w'.read e c = applySpec info.kind it.target it.pay.cell wh.read e c) := by
  have hreg := hreg_of_winv hw.1 it
  obtain ⟨info, hl, loc, hlook, hinfo, hm⟩ := deliverOne_ok_cases h
  refine ⟨info, hinfo, ?_⟩
  have hcases := lookupPhase_cases hlook
  cases hl with
  | none =>
    obtain ⟨ht, hdead⟩ := hcases.1.1 rfl
    refine .inl ⟨ht, hdead, ?_⟩
    dsimp only at hm
    subst hm
    split
    · unfold dropEventW
      split
      · exact ⟨rfl, rfl⟩
      · exact ⟨rfl, rfl⟩
      · unfold dropCellW; split <;> exact ⟨rfl, rfl⟩
      · exact ⟨rfl, rfl⟩
    · exact ⟨rfl, rfl⟩
  | some hl =>
    obtain ⟨owned, wh, hh, hm⟩ := hm
    have hidx : SlabIdx w.archs := hw.1.storeOk.idx
    have hfr := handlerPhase_frame hidx it info loc hl
    have hfr2 := fun (hnb : NoBump w) => handlerPhase_frame_nobump hidx it info loc hl (fun hk _ h p hh => hnb hk h p hh)
    rw [hh] at hfr hfr2
    have hpo : PayloadsOnly w wh := hfr
    -- the world the effect starts in
    let we : World := { wh with queue := wh.queue.reverse }
    have hsmall_we : Small we := by
      cases owned with
      | true => simp only [if_true] at hm; subst hm; exact hs'
      | false =>
        simp only [Bool.false_eq_true, if_false] at hm
        exact (SafeS4.effectPhase_sl it info loc).small hm hs'
    have hsmall_wh : Small wh := hsmall_we
    have hmid0 : WInvMid { w with inflightOwned := false } := hw.frame (by releq) rfl rfl
    rw [handlerPhase_run] at hh
    have hmid_wh : WInvMid wh :=
      KeepsG.run_ok (handlerLoop_keepsW (Pieces.glue_runHandler pieces) it info loc hl) hmid0 hh hsmall_wh
    have hmid_we : WInvMid we := hmid_wh.frame (by releq) rfl rfl
    have htgt : it.ty.targeted = true → ∃ loc, wh.entities.get it.target = some loc := fun ht =>
      ⟨loc, by rw [hpo.1]; exact hcases.2.1 ht rfl⟩
    refine .inr ⟨wh, owned, hpo, fun hnb => (hfr2 hnb).2, hmid_wh, htgt, ?_⟩
    cases owned with
    | true =>
      simp only [if_true] at hm ⊢
      subst hm
      exact ⟨rfl, rfl⟩
    | false =>
      simp only [Bool.false_eq_true, if_false] at hm ⊢
      have hwe : WInv we := hmid_we.1
      have hwf_we : we.entities.WF := hwe.entsWF
      have hrd : ∀ e c, we.read e c = wh.read e c := fun e c => read_congr rfl rfl e c
      -- reads of the end state through `getCell`
      have hwf' : w'.entities.WF :=
        (KeepsG.run_ok (effectPhase_keepsW (Pieces.kw_traverseInsert pieces)
          (Pieces.kw_traverseRemove pieces) (Pieces.kw_moveEntity pieces) (Pieces.kw_spawnAll pieces)
          (Pieces.glue_fixedDespawn pieces) it info loc) hmid_we hm hs').1.entsWF
      intro e he c
      rw [read_eq_getCell hwf']
      show w'.getCell e c = applySpec info.kind it.target it.pay.cell we.read e c
      cases hk : info.kind with
      | normal =>
        unfold applySpec; dsimp only
        rw [effectPhase_normal hk] at hm
        have : w'.entities = we.entities ∧ w'.archs = we.archs := by
          split at hm
          · rw [run_dropEvent] at hm; cases hm
            unfold dropEventW
            split
            · exact ⟨rfl, rfl⟩
            · exact ⟨rfl, rfl⟩
            · unfold dropCellW; split <;> exact ⟨rfl, rfl⟩
            · exact ⟨rfl, rfl⟩
          · cases hm; exact ⟨rfl, rfl⟩
        rw [← read_eq_getCell hwf']
        exact read_congr this.1 this.2 e c
      | spawn =>
        unfold applySpec; dsimp only
        rw [effectPhase_spawn hk] at hm
        obtain ⟨-, hkeep⟩ := world_spawnAll hwe.storeOk hwe.hasEmpty hm
        rcases he with ⟨l, hl⟩ | ⟨rfl, ht⟩ | hne
        · rw [read_eq_getCell hwf_we]; exact (hkeep e l hl).2.1 c
        · obtain ⟨l, hl⟩ := htgt ht
          rw [read_eq_getCell hwf_we]; exact (hkeep _ l hl).2.1 c
        · exact absurd hk hne.1
      | despawn =>
        unfold applySpec; dsimp only
        have ht : it.ty.targeted = true := by
          cases hb : it.ty.targeted with
          | true => rfl
          | false => rcases hreg info hinfo hb with h1 | h1 <;> rw [hk] at h1 <;> cases h1
        have hloc : we.entities.get it.target = some loc := by
          show wh.entities.get it.target = some loc
          rw [hpo.1]; exact hcases.2.1 ht rfl
        obtain ⟨-, g2, -, g4⟩ := ReachStore.despawn_effect_reads_winv hwe hk hloc hm
        by_cases het : e = it.target
        · rw [if_pos het, het]; exact g2 c
        · rw [if_neg het, read_eq_getCell hwf_we]
          rcases he with ⟨l, hl⟩ | ⟨rfl, -⟩ | hne
          · exact (g4 e l het hl).1 c
          · exact absurd rfl het
          · exact absurd hk hne.2
      | insert ci =>
        unfold applySpec; dsimp only
        have ht : it.ty.targeted = true := by
          cases hb : it.ty.targeted with
          | true => rfl
          | false => rcases hreg info hinfo hb with h1 | h1 <;> rw [hk] at h1 <;> cases h1
        have hloc : we.entities.get it.target = some loc := by
          show wh.entities.get it.target = some loc
          rw [hpo.1]; exact hcases.2.1 ht rfl
        obtain ⟨g1, g2, -, g4⟩ := ReachStore.insert_effect_winv hwe hk hloc hm
        by_cases het : e = it.target
        · subst het
          by_cases hc : c = ci
          · subst hc; rw [if_pos ⟨rfl, rfl⟩]; exact g1
          · rw [if_neg (fun hh => hc hh.2), read_eq_getCell hwf_we]; exact g2 c hc
        · rw [if_neg (fun hh => het hh.1), read_eq_getCell hwf_we]; exact (g4 e het).1 c
      | remove ci =>
        unfold applySpec; dsimp only
        have ht : it.ty.targeted = true := by
          cases hb : it.ty.targeted with
          | true => rfl
          | false => rcases hreg info hinfo hb with h1 | h1 <;> rw [hk] at h1 <;> cases h1
        have hloc : we.entities.get it.target = some loc := by
          show wh.entities.get it.target = some loc
          rw [hpo.1]; exact hcases.2.1 ht rfl
        obtain ⟨g1, g2, -, g4⟩ := ReachStore.remove_effect_winv hwe hk hloc hm
        by_cases het : e = it.target
        · subst het
          by_cases hc : c = ci
          · subst hc; rw [if_pos ⟨rfl, rfl⟩]; exact g1
          · rw [if_neg (fun hh => hc hh.2), read_eq_getCell hwf_we]; exact g2 c hc
        · rw [if_neg (fun hh => het hh.1), read_eq_getCell hwf_we]; exact (g4 e het).1 c

end C02Flush
end Evenio
