import Evenio.Props.C02History
import Evenio.Props.C11
/-!
# C02 along a whole flush (continuation of `Props/C02History.lean`)

* (1) `hreg_of_winv`: the registry invariant discharges the hypothesis `hreg` of `C02History.deliverOne_refines`;
  `deliverOne_refines_strong` is that theorem without `hreg` and with one more conjunct: if no registered handler has a
  `bump` in its body (`NoBump`), the handler phase changes no read at all.  `deliverOne_refines_reach'`: hypotheses
  `Reach`, `Small` only.
* (D) `dfsLog_refines` / `flush_refines`: along a completed depth-first propagation the log entries chain (`Chain`) and
  EVERY entry satisfies `DeliveryRel` — the conclusion of `deliverOne_refines_strong` for its pre/post worlds; all
  intermediate worlds satisfy `WInvMid`.  `unaffected_serial`, `flush_last_insert`: the value an applied `Insert(e,c,x)`
  stored is still the value of `(e,c)` at the end (same ledger serial; the same cell if no handler bumps) unless a later
  delivery targets `e` with `Insert c` / `Remove c` / `Despawn`.
* (E) a kernel-evaluated history with a bumping handler, a handler that inserts in reaction to an `Insert`, a taken
  `Insert` and a despawn.
-/
namespace Evenio
namespace C02Flush
open C02History

/-- no registered handler has a `bump` in its body -/
def NoBump (w : World) : Prop := ∀ hk h p, w.handlers.get hk = some h → Act.bump p ∉ h.body

/-- **(1)** a global event has no storage effect: its kind is `normal` or `spawn` (`RegistryInv.gevKind`) -/
theorem hreg_of_winv {w : World} (hw : WInv w) (it : QItem) :
    ∀ info, w.evInfo it = some info → it.ty.targeted = false →
      info.kind = EvKind.normal ∨ info.kind = EvKind.spawn := by
  intro info hinfo hg
  unfold World.evInfo at hinfo
  rw [hg] at hinfo
  simp only [Bool.false_eq_true, if_false] at hinfo
  cases hgi : w.gevs.getByIndex it.idx with
  | none => rw [hgi] at hinfo; cases hinfo
  | some p =>
    obtain ⟨k, i⟩ := p
    rw [hgi] at hinfo
    cases hinfo
    have hk := hw.registry.gevKind k i (SlotMap.getByIndex_get hgi).1
    show i.kind = _ ∨ i.kind = _
    rw [hk]
    unfold gevKind
    split
    · exact .inr rfl
    · exact .inl rfl

/-- **(C), final form**: `C02History.deliverOne_refines` with `hreg` discharged and the no-`bump` clause -/
theorem deliverOne_refines_strong {w w' : World} {it : QItem} (hw : WInvMid w) (hs' : Small w')
    (h : (deliverOne it).run.run w = (.ok (), w')) :
    ∃ info, w.evInfo it = some info ∧
      ((it.ty.targeted = true ∧ w.entities.get it.target = none ∧ w'.entities = w.entities ∧ w'.archs = w.archs) ∨
       ∃ (wh : World) (owned : Bool), PayloadsOnly w wh ∧ (NoBump w → ∀ e c, wh.read e c = w.read e c) ∧ WInvMid wh ∧
         (it.ty.targeted = true → ∃ loc, wh.entities.get it.target = some loc) ∧
         if owned then w'.entities = wh.entities ∧ w'.archs = wh.archs
         else ∀ e, ((∃ l, wh.entities.get e = some l) ∨ (e = it.target ∧ it.ty.targeted = true) ∨
                    (info.kind ≠ EvKind.spawn ∧ info.kind ≠ EvKind.despawn)) →
                ∀ c, w'.read e c = applySpec info.kind it.target it.pay.cell wh.read e c) := by
  have hreg := hreg_of_winv hw.1 it
  obtain ⟨info, hl, loc, hlook, hinfo, hm⟩ := deliverOne_ok_cases h
  refine ⟨info, hinfo, ?_⟩
  have hcases := lookupPhase_cases hlook
  cases hl with
  | none =>
    obtain ⟨ht, hdead⟩ := hcases.1.1 rfl
    refine .inl ⟨ht, hdead, ?_⟩
    dsimp only at hm
    subst hm
    split
    · unfold dropEventW
      split
      · exact ⟨rfl, rfl⟩
      · exact ⟨rfl, rfl⟩
      · unfold dropCellW; split <;> exact ⟨rfl, rfl⟩
      · exact ⟨rfl, rfl⟩
    · exact ⟨rfl, rfl⟩
  | some hl =>
    obtain ⟨owned, wh, hh, hm⟩ := hm
    have hidx : SlabIdx w.archs := hw.1.storeOk.idx
    have hfr := handlerPhase_frame hidx it info loc hl
    have hfr2 := fun (hnb : NoBump w) => handlerPhase_frame_nobump hidx it info loc hl (fun hk _ h p hh => hnb hk h p hh)
    rw [hh] at hfr hfr2
    have hpo : PayloadsOnly w wh := hfr
    -- the world the effect starts in
    let we : World := { wh with queue := wh.queue.reverse }
    have hsmall_we : Small we := by
      cases owned with
      | true => simp only [if_true] at hm; subst hm; exact hs'
      | false =>
        simp only [Bool.false_eq_true, if_false] at hm
        exact (SafeS4.effectPhase_sl it info loc).small hm hs'
    have hsmall_wh : Small wh := hsmall_we
    have hmid0 : WInvMid { w with inflightOwned := false } := hw.frame (by releq) rfl rfl
    rw [handlerPhase_run] at hh
    have hmid_wh : WInvMid wh :=
      KeepsG.run_ok (handlerLoop_keepsW (Pieces.glue_runHandler pieces) it info loc hl) hmid0 hh hsmall_wh
    have hmid_we : WInvMid we := hmid_wh.frame (by releq) rfl rfl
    have htgt : it.ty.targeted = true → ∃ loc, wh.entities.get it.target = some loc := fun ht =>
      ⟨loc, by rw [hpo.1]; exact hcases.2.1 ht rfl⟩
    refine .inr ⟨wh, owned, hpo, fun hnb => (hfr2 hnb).2, hmid_wh, htgt, ?_⟩
    cases owned with
    | true =>
      simp only [if_true] at hm ⊢
      subst hm
      exact ⟨rfl, rfl⟩
    | false =>
      simp only [Bool.false_eq_true, if_false] at hm ⊢
      have hwe : WInv we := hmid_we.1
      have hwf_we : we.entities.WF := hwe.entsWF
      have hrd : ∀ e c, we.read e c = wh.read e c := fun e c => read_congr rfl rfl e c
      -- reads of the end state through `getCell`
      have hwf' : w'.entities.WF :=
        (KeepsG.run_ok (effectPhase_keepsW (Pieces.kw_traverseInsert pieces)
          (Pieces.kw_traverseRemove pieces) (Pieces.kw_moveEntity pieces) (Pieces.kw_spawnAll pieces)
          (Pieces.glue_fixedDespawn pieces) it info loc) hmid_we hm hs').1.entsWF
      intro e he c
      rw [read_eq_getCell hwf']
      show w'.getCell e c = applySpec info.kind it.target it.pay.cell we.read e c
      cases hk : info.kind with
      | normal =>
        unfold applySpec; dsimp only
        rw [effectPhase_normal hk] at hm
        have : w'.entities = we.entities ∧ w'.archs = we.archs := by
          split at hm
          · rw [run_dropEvent] at hm; cases hm
            unfold dropEventW
            split
            · exact ⟨rfl, rfl⟩
            · exact ⟨rfl, rfl⟩
            · unfold dropCellW; split <;> exact ⟨rfl, rfl⟩
            · exact ⟨rfl, rfl⟩
          · cases hm; exact ⟨rfl, rfl⟩
        rw [← read_eq_getCell hwf']
        exact read_congr this.1 this.2 e c
      | spawn =>
        unfold applySpec; dsimp only
        rw [effectPhase_spawn hk] at hm
        obtain ⟨-, hkeep⟩ := world_spawnAll hwe.storeOk hwe.hasEmpty hm
        rcases he with ⟨l, hl⟩ | ⟨rfl, ht⟩ | hne
        · rw [read_eq_getCell hwf_we]; exact (hkeep e l hl).2.1 c
        · obtain ⟨l, hl⟩ := htgt ht
          rw [read_eq_getCell hwf_we]; exact (hkeep _ l hl).2.1 c
        · exact absurd hk hne.1
      | despawn =>
        unfold applySpec; dsimp only
        have ht : it.ty.targeted = true := by
          cases hb : it.ty.targeted with
          | true => rfl
          | false => rcases hreg info hinfo hb with h1 | h1 <;> rw [hk] at h1 <;> cases h1
        have hloc : we.entities.get it.target = some loc := by
          show wh.entities.get it.target = some loc
          rw [hpo.1]; exact hcases.2.1 ht rfl
        obtain ⟨-, g2, -, g4⟩ := ReachStore.despawn_effect_reads_winv hwe hk hloc hm
        by_cases het : e = it.target
        · rw [if_pos het, het]; exact g2 c
        · rw [if_neg het, read_eq_getCell hwf_we]
          rcases he with ⟨l, hl⟩ | ⟨rfl, -⟩ | hne
          · exact (g4 e l het hl).1 c
          · exact absurd rfl het
          · exact absurd hk hne.2
      | insert ci =>
        unfold applySpec; dsimp only
        have ht : it.ty.targeted = true := by
          cases hb : it.ty.targeted with
          | true => rfl
          | false => rcases hreg info hinfo hb with h1 | h1 <;> rw [hk] at h1 <;> cases h1
        have hloc : we.entities.get it.target = some loc := by
          show wh.entities.get it.target = some loc
          rw [hpo.1]; exact hcases.2.1 ht rfl
        obtain ⟨g1, g2, -, g4⟩ := ReachStore.insert_effect_winv hwe hk hloc hm
        by_cases het : e = it.target
        · subst het
          by_cases hc : c = ci
          · subst hc; rw [if_pos ⟨rfl, rfl⟩]; exact g1
          · rw [if_neg (fun hh => hc hh.2), read_eq_getCell hwf_we]; exact g2 c hc
        · rw [if_neg (fun hh => het hh.1), read_eq_getCell hwf_we]; exact (g4 e het).1 c
      | remove ci =>
        unfold applySpec; dsimp only
        have ht : it.ty.targeted = true := by
          cases hb : it.ty.targeted with
          | true => rfl
          | false => rcases hreg info hinfo hb with h1 | h1 <;> rw [hk] at h1 <;> cases h1
        have hloc : we.entities.get it.target = some loc := by
          show wh.entities.get it.target = some loc
          rw [hpo.1]; exact hcases.2.1 ht rfl
        obtain ⟨g1, g2, -, g4⟩ := ReachStore.remove_effect_winv hwe hk hloc hm
        by_cases het : e = it.target
        · subst het
          by_cases hc : c = ci
          · subst hc; rw [if_pos ⟨rfl, rfl⟩]; exact g1
          · rw [if_neg (fun hh => hc hh.2), read_eq_getCell hwf_we]; exact g2 c hc
        · rw [if_neg (fun hh => het hh.1), read_eq_getCell hwf_we]; exact (g4 e het).1 c

/-- the conclusion of `deliverOne_refines_strong`, as a relation between the world a delivery starts in, the world it
    ends in and the event -/
def Refines (w w' : World) (it : QItem) : Prop :=
    ∃ info, w.evInfo it = some info ∧
      ((it.ty.targeted = true ∧ w.entities.get it.target = none ∧ w'.entities = w.entities ∧ w'.archs = w.archs) ∨
       ∃ (wh : World) (owned : Bool), PayloadsOnly w wh ∧ (NoBump w → ∀ e c, wh.read e c = w.read e c) ∧ WInvMid wh ∧
         (it.ty.targeted = true → ∃ loc, wh.entities.get it.target = some loc) ∧
         if owned then w'.entities = wh.entities ∧ w'.archs = wh.archs
         else ∀ e, ((∃ l, wh.entities.get e = some l) ∨ (e = it.target ∧ it.ty.targeted = true) ∨
                    (info.kind ≠ EvKind.spawn ∧ info.kind ≠ EvKind.despawn)) →
                ∀ c, w'.read e c = applySpec info.kind it.target it.pay.cell wh.read e c)

theorem deliverOne_Refines {w w' : World} {it : QItem} (hw : WInvMid w) (hs' : Small w')
    (h : (deliverOne it).run.run w = (.ok (), w')) : Refines w w' it :=
  deliverOne_refines_strong hw hs' h

/-- **(1) `deliverOne_refines_reach` with no hypothesis but `Reach`, `Small`** and the normal return -/
theorem deliverOne_refines_reach' {w w' : World} {it : QItem} (hr : Reach w) (hs : Small w) (hs' : Small w')
    (h : (deliverOne it).run.run w = (.ok (), w')) : Refines w w' it :=
  deliverOne_Refines ⟨ReachStore.winv hr hs, [], (ReachStore.quiescent hr hs).2⟩ hs' h

/-! ## (D) a whole depth-first propagation -/

/-- what a log entry says about the store: the delivery, run on an empty segment from `d.pre`, refines the abstract map
    update and ends in `d.post` -/
def DeliveryRel (d : Delivery) : Prop := Refines { d.pre with queue := [] } d.post d.ev

/-- the entries of a log follow one another: each starts in the world the previous one ended in -/
def Chain : World → List Delivery → World → Prop
  | w, [], w' => w' = w
  | w, d :: l, w' => d.pre = w ∧ Chain d.post l w'

theorem Chain.append {w w1 w2 : World} {l1 l2 : List Delivery} (h1 : Chain w l1 w1) (h2 : Chain w1 l2 w2) :
    Chain w (l1 ++ l2) w2 := by
  induction l1 generalizing w with
  | nil => cases h1; exact h2
  | cons d l ih => exact ⟨h1.1, ih h1.2⟩

theorem small_of_step {w it w1 seg} (h : Step deliverOne w it w1 seg) (hs : Small w1) : Small w := by
  obtain ⟨w'', hd, -, rfl⟩ := h
  have : Small { w with queue := [] } := SlabMono.small (fun n => deliverOne_sl it) hd hs
  exact this

theorem dfsLog_small {w es w' log} (h : DfsLog deliverOne w es w' log) (hs : Small w') : Small w := by
  induction h with
  | nil w => exact hs
  | cons hst _ _ ih1 ih2 => exact small_of_step hst (ih1 (ih2 hs))

/-- **(D) every delivery of a completed propagation refines the abstract map update**: started in a world satisfying
    the mid-flush invariant, a completed depth-first propagation (`DfsLog`, what a `flush` that returns normally is:
    `flushWith_ok_log`) ends in such a world; its log is a chain from the start to the end world; every entry starts in a
    world satisfying `WInvMid` and satisfies `DeliveryRel`. -/
theorem dfsLog_refines {w es w' log} (h : DfsLog deliverOne w es w' log) (hw : WInvMid w) (hs : Small w') :
    WInvMid w' ∧ Chain w log w' ∧ ∀ d ∈ log, WInvMid d.pre ∧ DeliveryRel d := by
  induction h with
  | nil w => exact ⟨hw, rfl, fun d hd => nomatch hd⟩
  | @cons w e w1 seg w2 es w3 l1 l2 hst h1 h2 ih1 ih2 =>
    have hs2 : Small w2 := dfsLog_small h2 hs
    have hs1 : Small w1 := dfsLog_small h1 hs2
    obtain ⟨w'', hd, rfl, rfl⟩ := hst
    have hmid0 : WInvMid { w with queue := [] } := hw.frame (by releq) rfl rfl
    have hs'' : Small w'' := hs1
    have hmid'' : WInvMid w'' := KeepsG.run_ok (Pieces.glue_deliverOne pieces e) hmid0 hd hs''
    have hmid1 : WInvMid { w'' with queue := [] } := hmid''.frame (by releq) rfl rfl
    obtain ⟨m2, c1, r1⟩ := ih1 hmid1 hs2
    obtain ⟨m3, c2, r2⟩ := ih2 m2 hs
    have hrel0 : Refines { w with queue := [] } w'' e := deliverOne_Refines hmid0 hs'' hd
    have hrel : DeliveryRel ⟨w, e, { w'' with queue := [] }, w''.queue⟩ := hrel0
    refine ⟨m3, ⟨rfl, c1.append c2⟩, fun d hd' => ?_⟩
    simp only [List.cons_append, List.mem_cons, List.mem_append] at hd'
    rcases hd' with rfl | hd' | hd'
    · exact ⟨hw, hrel⟩
    · exact r1 d hd'
    · exact r2 d hd'

/-- **(D) `flush`**: a flush that returns normally from a world satisfying `WInvMid` is a chain of deliveries each of
    which refines the abstract map update; the end world differs from the last world of the chain in the arena epoch
    only (so it reads the same). -/
theorem flush_refines {fuel : Nat} {w w' : World} (hw : WInvMid w) (hs : Small w')
    (h : (flush fuel).run.run w = (.ok (), w')) :
    ∃ wd log, DfsLog deliverOne { w with queue := [] } w.queue.reverse wd log ∧
      w' = { wd with arenaEpoch := wd.arenaEpoch + 1 } ∧ WInvMid wd ∧
      Chain { w with queue := [] } log wd ∧ ∀ d ∈ log, WInvMid d.pre ∧ DeliveryRel d := by
  obtain ⟨wd, log, hd, rfl⟩ := flushWith_ok_log (w0 := w) (q := w.queue) h
  obtain ⟨a, b, c⟩ := dfsLog_refines hd (hw.frame (by releq) rfl rfl) hs
  exact ⟨wd, log, hd, rfl, a, b, c⟩

/-- the delivery can change `(e, c)` through its built-in effect: it targets `e` and its registry entry is
    `Insert c`, `Remove c` or `Despawn` -/
def Touches (d : Delivery) (e : Key) (c : Nat) : Prop :=
  d.ev.target = e ∧ ∃ info, ({ d.pre with queue := [] } : World).evInfo d.ev = some info ∧
    (info.kind = EvKind.insert c ∨ info.kind = EvKind.remove c ∨ info.kind = EvKind.despawn)

theorem read_some_alive {w : World} {e : Key} {c : Nat} {x : Cell} (h : w.read e c = some x) :
    ∃ l, w.entities.get e = some l := by
  unfold World.read at h
  split at h
  · cases h
  · exact ⟨_, ‹_›⟩

/-- one delivery that does not touch `(e, c)`: the value stays, with the same serial; the same cell if no handler
    bumps -/
theorem delivery_unaffected {d : Delivery} (hr : DeliveryRel d) {e : Key} {c : Nat} (hnt : ¬ Touches d e c) {x : Cell}
    (hx : d.pre.read e c = some x) :
    ∃ y, d.post.read e c = some y ∧ y.ser = x.ser ∧ (NoBump d.pre → y = x) := by
  obtain ⟨info, hinfo, hcase⟩ := hr
  have hx0 : ({ d.pre with queue := [] } : World).read e c = some x := hx
  rcases hcase with ⟨-, -, he, ha⟩ | ⟨wh, owned, hpo, hnb, -, -, hrest⟩
  · exact ⟨x, by rw [read_congr he ha]; exact hx0, rfl, fun _ => rfl⟩
  · obtain ⟨y, hy, hser⟩ := hpo.2.2.2 e c x hx0
    have hyx : NoBump d.pre → y = x := fun h => by
      have := hnb h e c
      rw [hy, hx0] at this
      exact Option.some.inj this
    cases owned with
    | true =>
      simp only [if_true] at hrest
      exact ⟨y, by rw [read_congr hrest.1 hrest.2]; exact hy, hser, hyx⟩
    | false =>
      simp only [Bool.false_eq_true, if_false] at hrest
      have := hrest e (.inl (read_some_alive hy)) c
      refine ⟨y, ?_, hser, hyx⟩
      rw [this]
      cases hk : info.kind with
      | insert ci =>
        simp only [applySpec]
        rw [if_neg]; exact hy
        rintro ⟨rfl, rfl⟩
        exact hnt ⟨rfl, info, hinfo, .inl hk⟩
      | remove ci =>
        simp only [applySpec]
        rw [if_neg]; exact hy
        rintro ⟨rfl, rfl⟩
        exact hnt ⟨rfl, info, hinfo, .inr (.inl hk)⟩
      | despawn =>
        simp only [applySpec]
        rw [if_neg]; exact hy
        rintro rfl
        exact hnt ⟨rfl, info, hinfo, .inr (.inr hk)⟩
      | spawn => simp only [applySpec]; exact hy
      | normal => simp only [applySpec]; exact hy

/-- **(D) `last_value`, serial form**: along a chain of deliveries none of which touches `(e, c)`, the value of
    `(e, c)` is the same stored value at the end (same ledger serial — only `&mut` access of handlers may have changed
    its payload), and literally the same cell when no handler of any of the worlds bumps -/
theorem unaffected_serial {w w' : World} {log : List Delivery} (hc : Chain w log w')
    (hr : ∀ d ∈ log, DeliveryRel d) {e : Key} {c : Nat} (hnt : ∀ d ∈ log, ¬ Touches d e c) {x : Cell}
    (hx : w.read e c = some x) :
    ∃ y, w'.read e c = some y ∧ y.ser = x.ser ∧ ((∀ d ∈ log, NoBump d.pre) → y = x) := by
  induction log generalizing w x with
  | nil => cases hc; exact ⟨x, hx, rfl, fun _ => rfl⟩
  | cons d l ih =>
    obtain ⟨rfl, hc'⟩ := hc
    obtain ⟨y, hy, hs, hb⟩ := delivery_unaffected (hr d (List.mem_cons_self ..)) (hnt d (List.mem_cons_self ..)) hx
    obtain ⟨z, hz, hs', hb'⟩ := ih hc' (fun d' h' => hr d' (List.mem_cons_of_mem _ h'))
      (fun d' h' => hnt d' (List.mem_cons_of_mem _ h')) hy
    exact ⟨z, hz, hs'.trans hs, fun hall =>
      (hb' fun d' h' => hall d' (List.mem_cons_of_mem _ h')).trans (hb (hall d (List.mem_cons_self ..)))⟩

/-- **(D) `flush_last_insert`**: the log of a propagation splits as `l1 ++ d :: l2`; after `d` — an applied
    `Insert(e, c, x)`, i.e. `d.post` reads `x` at `(e, c)` (`insert_applied`) — no delivery touches `(e, c)`.  Then the end
    world reads at `(e, c)` the value `d` stored: same serial, and the same cell if no handler bumps. -/
theorem flush_last_insert {w w' : World} {l1 l2 : List Delivery} {d : Delivery}
    (hc : Chain w (l1 ++ d :: l2) w') (hr : ∀ d' ∈ l1 ++ d :: l2, DeliveryRel d') {e : Key} {c : Nat} {x : Cell}
    (happ : d.post.read e c = some x) (hnt : ∀ d' ∈ l2, ¬ Touches d' e c) :
    ∃ y, w'.read e c = some y ∧ y.ser = x.ser ∧ ((∀ d' ∈ l2, NoBump d'.pre) → y = x) := by
  have hsplit : ∀ (l1 : List Delivery) (w : World), Chain w (l1 ++ d :: l2) w' → Chain d.post l2 w' := by
    intro l1
    induction l1 with
    | nil => intro w h; exact h.2
    | cons a l ih => intro w h; exact ih _ h.2
  exact unaffected_serial (hsplit l1 w hc)
    (fun d' h' => hr d' (List.mem_append_right _ (List.mem_cons_of_mem _ h'))) hnt happ

/-- **an applied `Insert`**: a delivery of an event of kind `insert c` either stored its value at `(target, c)`, or its
    target was dead, or a handler took it (and then entities and archetypes are as the handlers left them) -/
theorem insert_applied {d : Delivery} (hr : DeliveryRel d) {info : EvInfo} {c : Nat}
    (hinfo : ({ d.pre with queue := [] } : World).evInfo d.ev = some info) (hk : info.kind = EvKind.insert c) :
    d.post.read d.ev.target c = some d.ev.pay.cell ∨ d.pre.entities.get d.ev.target = none ∨
    ∃ wh, PayloadsOnly { d.pre with queue := [] } wh ∧ d.post.entities = wh.entities ∧ d.post.archs = wh.archs := by
  obtain ⟨info', hinfo', hcase⟩ := hr
  rw [hinfo] at hinfo'; cases hinfo'
  rcases hcase with ⟨-, hdead, -, -⟩ | ⟨wh, owned, hpo, -, -, -, hrest⟩
  · exact .inr (.inl hdead)
  · cases owned with
    | true => simp only [if_true] at hrest; exact .inr (.inr ⟨wh, hpo, hrest⟩)
    | false =>
      simp only [Bool.false_eq_true, if_false] at hrest
      refine .inl ?_
      rw [hrest d.ev.target (.inr (.inr ⟨(by rw [hk]; exact fun h => nomatch h), (by rw [hk]; exact fun h => nomatch h)⟩)) c]
      simp [applySpec, hk]

/-! ## (E) a kernel-evaluated history -/

/-- `Receiver<G0>`, `Fetcher<&mut K0>`; body: bump every row -/
def hBump : HSpec := { name := "bump", params := [.recv (.g 0) false none, .fetch (.mut 0)], body := [.bump 1] }
/-- `Receiver<Insert<K0>, ()>`, `Sender<Insert<K1>>`; body: insert `K1 = 5` on the target -/
def hReact : HSpec :=
  { name := "react", params := [.recv (.ins 0) false none, .snd [.ins 1]], body := [.ins .self 1 5] }
/-- `ReceiverMut<Insert<K2>, ()>`; body: take the event -/
def hTake : HSpec := { name := "take", params := [.recv (.ins 2) true none], body := [.take] }

/-- spawn `#0`, `#1`; the three handlers; `#0.K0 := 7` (the reaction inserts `K1 = 5`); `G0` (bump: `K0 = 8`);
    `#0.K2 := 9` (taken: never stored); despawn `#1` -/
def demoOps : List Op :=
  [.spawn, .spawn, .addh hBump, .addh hReact, .addh hTake, .insert 0 0 7, .send 0, .insert 0 2 9, .despawn 1]

def demoW : World := ReachStore.runOps demoOps

/-- what the kernel observes -/
def demoCheck : Bool :=
  ReachStore.okOps demoOps
  && (ReachStore.runOps (demoOps.take 6)).read ⟨0, 1⟩ 0 == some ⟨7, 1⟩
  && (ReachStore.runOps (demoOps.take 6)).read ⟨0, 1⟩ 1 == some ⟨5, 2⟩
  && demoW.read ⟨0, 1⟩ 0 == some ⟨8, 1⟩ && demoW.read ⟨0, 1⟩ 1 == some ⟨5, 2⟩ && demoW.read ⟨0, 1⟩ 2 == none
  && (ReachStore.runOps (demoOps.take 8)).entities.get ⟨1, 1⟩ == some ⟨0, 0⟩ && demoW.entities.get ⟨1, 1⟩ == none
  && demoW.nextCSerial == 4

set_option maxRecDepth 1000000 in
/-- **kernel-checked**: every operation returns normally; after the insert `#0` reads `K0 = 7` (serial 1) and the value
    the reacting handler inserted, `K1 = 5` (serial 2); at the end `K0 = 8` WITH THE SAME SERIAL 1 (the bump: payload
    only), `K1 = 5`, no `K2` although serial 3 was handed out for it (the `Insert` was taken), and `#1` is dead -/
theorem demoCheck_true : demoCheck = true := by
  delta demoCheck demoW ReachStore.runOps ReachStore.okOps demoOps
  eval_world

theorem demoOps_valid : ∀ op ∈ demoOps, op.Valid := by
  intro op hm
  simp only [demoOps, List.mem_cons, List.not_mem_nil, or_false] at hm
  rcases hm with rfl | rfl | rfl | rfl | rfl | rfl | rfl | rfl | rfl <;> try trivial
  all_goals
    intro ps hps q
    simp only [hBump, hReact, hTake, List.mem_cons, List.not_mem_nil, or_false] at hps
    rcases hps with rfl | rfl <;> intro hc <;> cases hc

theorem demo_reach : Reach demoW := by
  have h := demoCheck_true
  simp only [demoCheck, Bool.and_eq_true] at h
  exact ReachStore.reach_runOps demoOps_valid h.1.1.1.1.1.1.1.1

/-- the theorems apply to the demo world: every delivery started in it refines the abstract map update (no hypothesis
    left but the resource bound of the end world) -/
example (hs : Small demoW) {it : QItem} {w' : World} (hs' : Small w')
    (h : (deliverOne it).run.run demoW = (.ok (), w')) : Refines demoW w' it :=
  deliverOne_refines_reach' demo_reach hs hs' h

/-- the bound of (A) is tight: across the operation `send G0` (one delivery whose handler bumps) `(#0, K0)` keeps its
    serial `1` and changes its payload `7 ↦ 8`; `(#0, K1)` (not in the handler's query) is literally unchanged -/
theorem demo_bump_tight :
    (ReachStore.runOps (demoOps.take 6)).read ⟨0, 1⟩ 0 = some ⟨7, 1⟩ ∧
    (ReachStore.runOps (demoOps.take 7 ++ demoOps.drop 7)).read ⟨0, 1⟩ 0 = some ⟨8, 1⟩ ∧
    (ReachStore.runOps (demoOps.take 6)).read ⟨0, 1⟩ 1 = demoW.read ⟨0, 1⟩ 1 := by
  have h := demoCheck_true
  simp only [demoCheck, Bool.and_eq_true, beq_iff_eq] at h
  obtain ⟨⟨⟨⟨⟨⟨⟨⟨-, h1⟩, h2⟩, h3⟩, h4⟩, -⟩, -⟩, -⟩, -⟩ := h
  exact ⟨h1, h3, h2.trans h4.symm⟩

end C02Flush
end Evenio

#print axioms Evenio.C02Flush.hreg_of_winv
#print axioms Evenio.C02Flush.deliverOne_refines_strong
#print axioms Evenio.C02Flush.deliverOne_refines_reach'
#print axioms Evenio.C02Flush.dfsLog_refines
#print axioms Evenio.C02Flush.flush_refines
#print axioms Evenio.C02Flush.delivery_unaffected
#print axioms Evenio.C02Flush.unaffected_serial
#print axioms Evenio.C02Flush.flush_last_insert
#print axioms Evenio.C02Flush.insert_applied
#print axioms Evenio.C02Flush.demoCheck_true
#print axioms Evenio.C02Flush.demo_reach
#print axioms Evenio.C02Flush.demo_bump_tight
