import Evenio.Proofs.CompLedgerOps
import Evenio.Proofs.EntHistory
import Evenio.Proofs.Inv.QueueEmpty
import Evenio.Props.ReachStore
import Evenio.Props.C03History
import Evenio.Props.C01Safe
/-!
# C12 (and the storage half of C11) along whole WORLD histories

> C12: "Every stored component value is destroyed exactly once and never seen afterwards … for every history."
> C11 (storage half): "an applied Insert's value is stored, not dropped."

`Props/C12.lean`, `Props/C02World.lean`, `Props/ReachStore.lean` prove the destruction ledger per storage primitive
(a `move_entity` / `remove_entity` logs exactly the cells it drops, on normal return).  This file is about WHOLE
HISTORIES of the world: arbitrary sequences of top-level operations (`spawn`, `despawn`, `insert`, `remove`, `send` /
`sendto` with arbitrary handler programs — handlers that insert, overwrite, take the event, panic half way, send outside
their event set —, `add_handler`, `remove_handler`, `add_component`, `remove_component`, `add_event`, `remove_event`,
the generation hook, `drop`), every operation returning normally OR panicking.

## What is counted

Every `Insert` gets a serial from the counter `nextCSerial` (`freshC`; from `1`), stored in the cell next to the value.
The model logs `(component type, serial)` in `cdrops` when the destructor of a cell runs (`dropCell`), for the component
types that HAVE a destructor (`compNeedsDrop`: K1, K3, K4 of the fixed universe; a value of a type without destructor
disappears without a trace, in the model as in Rust).  `step` clears `cdrops` before every operation (the `cd` line of the
protocol is per operation), so the ledger of a history is the concatenation of the ledgers of its steps:
`totalLedger w ops`.  Events other than `Insert` carry the default cell, serial `0`; no value has serial `0`, and all
statements are about serials `≠ 0` (`nz`) — this is what makes them independent of the event registry (whether the
delivery of a queued item will store its cell is decided by the registry entry of its index, not by its type; that the
two agree is part of the world invariant `WInv`, which is NOT needed here).

* `storedSers w.archs` — the serials of all cells in all archetype columns;
* `queuedSers w.queue` — the serials carried by the payloads of queued (not yet applied) events;
* `dropSers l` — the serials of ledger entries.

## Results

For every history `ops` from the empty world (more generally from any world satisfying `CL H w`) in which no step ends in
a `ub` / `assert` marker (`HistClean`; by C01 — `Props/C01Safe.lean` — no reachable step does; after a marker the driver
stops), panics INCLUDED — also the fuel marker, also panics that leave reservations pending (F8) —, and with NO validity
condition on the operations:

* **(A) no double destruction** — `no_double_destruction`: the serials of the total ledger are pairwise distinct.
* **(B) destroyed ⇒ never seen afterwards** — `destroyed_not_stored`: a destroyed serial is in no archetype column and in
  no queued payload; `destroyed_never_seen_again`: nor in any later world (any continuation of the history);
  `destroyed_not_readable`: `World::get` (`World.getCell`) never returns a cell with a destroyed serial.
* **(C) at most once, anywhere** — `ledger_exclusive`: the serials of stored cells, queued payloads and the total ledger
  are pairwise distinct, and all were handed out (`< nextCSerial`): a value is never stored twice, never both stored
  and destroyed, never destroyed twice.  `quiescent_after_step`: after every operation that returns or panics (other
  than the model's fuel marker) the queue is empty, so at these points "live" means "stored".
  The LITERAL converse — "every serial below the counter is stored, queued or in the ledger" — is FALSE of the model,
  by design: a value of a component type without destructor that is overwritten (removed, despawned) leaves no trace
  (`conservation_literal_false`, kernel-checked: K0 = 7 overwritten by K0 = 8, serial 1 is handed out and is nowhere).
  The corrected converse — NO LEAK for the types WITH destructor — is NOT proved here; see "What is not proved".
* **(D) C11, storage half** — `insert_dead_target_destroyed_once`: an `Insert` delivered to a dead target: the value is
  in the ledger, exactly once, and nowhere else; `insert_effect_stored_not_destroyed`: the built-in effect of an `Insert`
  on a live target (no handler took the event): the value is what `World::get` reads, its serial is stored exactly once,
  and it is not in the ledger (that the value it overwrites is logged is `world_insert_get_self_same`,
  `Props/C02World.lean`; that it is logged once and never seen again is (A), (B)).
* **(E) non-vacuity** — `demo_history`: spawn, insert K1, overwrite K1, insert K4, despawn, evaluated by the kernel.

## What is not proved

**No leak** ("never neither"): *every value of a type with destructor that was ever created is stored, queued, or in the
ledger*.  Unlike (A)–(C) this is not a property of the storage / queue / ledger bookkeeping alone: whether a value that
leaves a column, the queue or a delivery reaches `dropCell` WITH ITS OWN TYPE is decided by tables — the component
registry (`dropCellIdx c` logs iff `compNeedsDrop (w.compTy c)`), the registry entry of a queued event's index
(`info.needsDrop`, `info.kind` decide whether the payload of an `Insert` is dropped, stored or ignored), the cached
archetype edges (`traverse_insert` picks the destination; a destination without the new component makes the merge loop
return normally WITHOUT consuming the supplied cell, `moveCols … [] [] [] [] _ = some …`) and the alignment of `comps`
and `cols` (`zip` truncates).  The places where the proofs of this development FORGET a serial (`CLF.forget`,
`CLF.drop_left`, `CLF.sub_X`, the `≤` of `moveCols_sers_le`) are exactly these:
`dropCell` of a type without destructor (legitimate iff the type is the value's), `if info.needsDrop then dropEvent it`
and the non-`insert` arms of `effectPhase` (legitimate iff the registry entry at the item's index agrees with the item's
type), the leftover `new` cells and the `zip`s of `moveEntity` / `removeEntity` / `archsRemoveComponent` / `drop`
(impossible iff `NewOk` resp. `cols.length = comps.length`), and the `ub` / `assert` exits.  That the tables agree is the
world invariant (`WInv`: `GraphInv` for the edges, `StoreInv` for the columns, `RegistryInv.handlerRefs.sendsT` +
`TevTyped` for queued items) plus a typing of `Insert` registry entries that `WInv` does not contain
(`ei.ty = .ins k → ei.needsDrop = compNeedsDrop k ∧ ∃ c, ei.kind = .insert c ∧ compTy c = k`).  Per storage primitive
and per effect, on normal return from a world satisfying `WInv`, exact conservation IS proved (`Props/ReachStore.lean`:
`C12_move_ledger`, `C12_despawn_ledger`, `C12_spawn_ledger`, `C02_insert_effect`, …: `cells ++ new ~ cells' ++ dropped`,
`cdrops' = dropLog w … ++ cdrops`, none lost by the pairing); what is missing is the typed whole-history glue: a
predicate `∃ τ : serial → type, (every stored / queued / logged serial sits at a position of type τ s) ∧ (every
`s < nextCSerial` with `compNeedsDrop (τ s)` is stored, queued or logged)`, pushed — together with `WInvMid`, hence on
`ReachP` histories and under `Small` only — through the same 75 functions.  No counterexample to it was found
(`demo_history` conserves: three serials handed out, ledger `3, 2, 1`, nothing stored).

The machinery: `Proofs/CompLedger.lean` (the predicate `CL X w`), `Proofs/CompLedgerStore.lean` (calculus, storage
primitives), `Proofs/CompLedgerDeliver.lean` (handlers, one delivery, the event loop), `Proofs/CompLedgerOps.lean`
(registration, removal, `execOp_cl`) — one lemma per model function, about 75 of them.
-/
namespace Evenio
namespace C12History
open CompLedger

/-! ## vocabulary -/

/-- the serials that denote values (the default cell of an event without component value has serial `0`) -/
def nz (l : List Nat) : List Nat := l.filter (· != 0)

theorem mem_nz {l : List Nat} {s : Nat} : s ∈ nz l ↔ s ∈ l ∧ s ≠ 0 := by
  unfold nz; simp

/-- the operation did not end in a `ub` / `assert` marker (it returned, or it panicked) -/
def StepClean (w : World) (op : Op) : Prop :=
  ∀ e, ((execOp op).run.run (stepInit w)).1 = .error e → e.isPanic = true

/-- no step of the history ends in a marker -/
def HistClean : World → List Op → Prop
  | _, [] => True
  | w, op :: ops => StepClean w op ∧ HistClean (step w op).1 ops

/-- the ledger entries of all steps before the last world of the history (`step` clears `cdrops`) -/
def histLedger : World → List Op → List (Nat × Nat)
  | _, [] => []
  | w, op :: ops => histLedger (step w op).1 ops ++ w.cdrops

/-- **the ledger of the whole history**: the `cd` lines of all its steps (and what `w` had logged before) -/
def totalLedger (w : World) (ops : List Op) : List (Nat × Nat) := (runHist w ops).cdrops ++ histLedger w ops

theorem histClean_append {w : World} {a b : List Op} :
    HistClean w (a ++ b) ↔ HistClean w a ∧ HistClean (runHist w a) b := by
  induction a generalizing w with
  | nil => simp [HistClean]
  | cons op a ih => simp only [List.cons_append, HistClean, runHist_cons, ih, and_assoc]

theorem histLedger_append (w : World) (a b : List Op) :
    histLedger w (a ++ b) = histLedger (runHist w a) b ++ histLedger w a := by
  induction a generalizing w with
  | nil => simp [histLedger]
  | cons op a ih => simp only [List.cons_append, histLedger, runHist_cons, ih, List.append_assoc]

/-- the ledger only grows along a history -/
theorem totalLedger_mono {w : World} (a b : List Op) {p : Nat × Nat} (h : p ∈ totalLedger w a) :
    p ∈ totalLedger w (a ++ b) := by
  unfold totalLedger at h ⊢
  rw [histLedger_append, runHist_append]
  rcases List.mem_append.1 h with h | h
  · cases b with
    | nil => simpa [histLedger] using Or.inl h
    | cons op b =>
      simp only [histLedger, runHist_cons, List.mem_append]
      exact .inr (.inl (.inr h))
  · simp only [List.mem_append]
    exact .inr (.inr h)

/-! ## the predicate along histories -/

/-- the empty world -/
theorem cl_init : CL [] ({} : World) := by
  refine ⟨fun i a h => ?_, fun i a h => ?_, fun s _ => ?_, fun s _ _ => ?_, by decide⟩
  · obtain ⟨rfl, rfl⟩ := init_archs_get h; rfl
  · obtain ⟨rfl, rfl⟩ := init_archs_get h
    exact Exists.intro 0 (And.intro (fun c hc => nomatch hc) (Nat.le_refl _))
  · show serCount ({} : World).archs [] [] [] s ≤ 1
    simp [serCount, storedSers, entrySers]
  · show serCount ({} : World).archs [] [] [] s = 0
    simp [serCount, storedSers, entrySers]

/-- `step` files the ledger of the previous operation away -/
theorem cl_stepInit {H : List Nat} {w : World} (h : CL H w) : CL (dropSers w.cdrops ++ H) (stepInit w) := by
  show CLF w.archs w.queue [] w.nextCSerial (dropSers w.cdrops ++ H)
  exact h.mono_sers (fun s => by
    unfold serCount
    simp only [dropSers_nil, List.count_nil, List.count_append]
    omega) (Nat.le_refl _)

/-- **one protocol step**, whatever the operation (no validity condition) and the handlers do, on normal return and on
    panic -/
theorem step_cl {H : List Nat} {w : World} {op : Op} (h : CL H w) (hc : StepClean w op) :
    CL (dropSers w.cdrops ++ H) (step w op).1 := by
  rw [step_fst_eq]
  have r := (execOp_cl (X := dropSers w.cdrops ++ H) op).run (stepInit w) (cl_stepInit h)
  have hc' := hc
  unfold StepClean at hc'
  generalize (execOp op).run.run (stepInit w) = res at r hc'
  obtain ⟨(e|a), w'⟩ := res
  · exact r (hc' e rfl)
  · exact r

/-- **every history** -/
theorem hist_cl {H : List Nat} {w : World} {ops : List Op} (h : CL H w) (hc : HistClean w ops) :
    CL (dropSers (histLedger w ops) ++ H) (runHist w ops) := by
  induction ops generalizing w H with
  | nil => exact h
  | cons op ops ih =>
    have := ih (step_cl h hc.1) hc.2
    rw [runHist_cons]
    unfold histLedger
    unfold dropSers at this ⊢
    rw [List.map_append, List.append_assoc]
    exact this

/-- from a counting statement to `Nodup` -/
theorem nodup_nz_of_count {l : List Nat} (h : ∀ s, s ≠ 0 → l.count s ≤ 1) : (nz l).Nodup := by
  rw [List.nodup_iff_count]
  intro s
  unfold nz
  by_cases hs : s = 0
  · subst hs
    have : List.count 0 (List.filter (fun x => x != 0) l) = 0 := by
      rw [List.count_eq_zero]; simp
    omega
  · rw [List.count_filter (by simpa using hs)]
    exact h s hs

/-- the predicate, spelled out: pairwise distinct, and handed out -/
theorem cl_spelled {X : List Nat} {w : World} (h : CL X w) :
    (nz (storedSers w.archs ++ queuedSers w.queue ++ dropSers w.cdrops ++ X)).Nodup ∧
    ∀ s ∈ nz (storedSers w.archs ++ queuedSers w.queue ++ dropSers w.cdrops ++ X), s < w.nextCSerial := by
  constructor
  · refine nodup_nz_of_count fun s h0 => ?_
    have := h.once s h0
    unfold serCount at this
    simp only [List.count_append]
    exact this
  · intro s hs
    obtain ⟨hm, h0⟩ := mem_nz.1 hs
    rcases Nat.lt_or_ge s w.nextCSerial with hlt | hge
    · exact hlt
    · have := h.bound s h0 hge
      unfold serCount at this
      have hp : 0 < (storedSers w.archs ++ queuedSers w.queue ++ dropSers w.cdrops ++ X).count s :=
        List.count_pos_iff.2 hm
      simp only [List.count_append] at hp
      omega

/-! ## (C) at most once, anywhere -/

/-- **(C), safety half, every history from the empty world.**  The serials of the stored cells, of the payloads still
    queued, and of the whole ledger of the history are pairwise distinct — no value is stored twice, none is both stored
    (or queued) and destroyed, none is destroyed twice — and every one of them was handed out by the serial counter. -/
theorem ledger_exclusive {ops : List Op} (hc : HistClean {} ops) :
    (nz (storedSers (runHist {} ops).archs ++ queuedSers (runHist {} ops).queue
      ++ dropSers (totalLedger {} ops))).Nodup ∧
    ∀ s ∈ nz (storedSers (runHist {} ops).archs ++ queuedSers (runHist {} ops).queue
      ++ dropSers (totalLedger {} ops)), s < (runHist {} ops).nextCSerial := by
  have := cl_spelled (hist_cl cl_init hc)
  unfold totalLedger
  unfold dropSers at this ⊢
  simp only [List.append_nil, List.map_append, List.append_assoc] at this ⊢
  exact this

/-- the same from any world satisfying the predicate (`H`: what was destroyed before) -/
theorem ledger_exclusive_from {H : List Nat} {w : World} {ops : List Op} (h : CL H w) (hc : HistClean w ops) :
    (nz (storedSers (runHist w ops).archs ++ queuedSers (runHist w ops).queue
      ++ dropSers (totalLedger w ops) ++ H)).Nodup := by
  have := (cl_spelled (hist_cl h hc)).1
  unfold totalLedger
  unfold dropSers at this ⊢
  simp only [List.map_append, List.append_assoc] at this ⊢
  exact this

/-! ## (A) no double destruction -/

theorem nz_append (a b : List Nat) : nz (a ++ b) = nz a ++ nz b := by unfold nz; simp

/-- **(A) every history from the empty world: no serial is destroyed twice.**  The serials in the ledger of the whole
    history (all `cd` lines) are pairwise distinct. -/
theorem no_double_destruction {ops : List Op} (hc : HistClean {} ops) : (nz (dropSers (totalLedger {} ops))).Nodup := by
  have := (ledger_exclusive hc).1
  rw [nz_append] at this
  exact (List.nodup_append.1 this).2.1

/-- in particular the ledger of every single step (`cd` line) has no serial twice -/
theorem no_double_destruction_step {ops : List Op} (hc : HistClean {} ops) :
    (nz (dropSers (runHist {} ops).cdrops)).Nodup := by
  have := no_double_destruction hc
  unfold totalLedger dropSers at this
  rw [List.map_append] at this
  have := this
  unfold dropSers
  rw [nz_append] at this
  exact (List.nodup_append.1 this).1

/-! ## (B) destroyed ⇒ never seen afterwards -/

/-- **(B) a destroyed serial is not stored and not queued** -/
theorem destroyed_not_stored {ops : List Op} (hc : HistClean {} ops) {s : Nat} (h0 : s ≠ 0)
    (hd : s ∈ dropSers (totalLedger {} ops)) :
    s ∉ storedSers (runHist {} ops).archs ∧ s ∉ queuedSers (runHist {} ops).queue := by
  have := (ledger_exclusive hc).1
  rw [nz_append] at this
  have hdis := (List.nodup_append.1 this).2.2
  have hd' : s ∈ nz (dropSers (totalLedger {} ops)) := mem_nz.2 ⟨hd, h0⟩
  constructor
  · intro hs
    exact hdis s (mem_nz.2 ⟨List.mem_append_left _ hs, h0⟩) s hd' rfl
  · intro hs
    exact hdis s (mem_nz.2 ⟨List.mem_append_right _ hs, h0⟩) s hd' rfl

/-- **(B) … and stays absent in every later world**: whatever operations follow -/
theorem destroyed_never_seen_again {ops ops' : List Op} (hc : HistClean {} (ops ++ ops')) {s : Nat} (h0 : s ≠ 0)
    (hd : s ∈ dropSers (totalLedger {} ops)) :
    s ∉ storedSers (runHist {} (ops ++ ops')).archs ∧ s ∉ queuedSers (runHist {} (ops ++ ops')).queue := by
  refine destroyed_not_stored hc h0 ?_
  unfold dropSers at hd ⊢
  obtain ⟨p, hp, rfl⟩ := List.mem_map.1 hd
  exact List.mem_map_of_mem (totalLedger_mono ops ops' hp)

/-- cell by cell: no cell of any column of any archetype carries a destroyed serial -/
theorem destroyed_not_in_column {ops ops' : List Op} (hc : HistClean {} (ops ++ ops')) {s : Nat} (h0 : s ≠ 0)
    (hd : s ∈ dropSers (totalLedger {} ops)) {i : Nat} {a : Arch}
    (ha : (runHist {} (ops ++ ops')).archs.get i = some a) {col : List Cell} (hcol : col ∈ a.cols) {x : Cell}
    (hx : x ∈ col) : x.ser ≠ s := by
  intro he
  exact (destroyed_never_seen_again hc h0 hd).1 (he ▸ mem_storedSers ha hcol hx)

/-- the cells `World::get` can return are stored cells -/
theorem cells_sers_aux (f : Nat → SlabEntry Arch → Arch)
    (hf : ∀ i e, (f i e).cols.flatten.map (·.ser) = entrySers e) (l : List (SlabEntry Arch)) :
    ((l.mapIdx f).flatMap fun a => a.cols.flatten).map (·.ser) = l.flatMap entrySers := by
  induction l generalizing f with
  | nil => rfl
  | cons e l ih =>
    rw [List.mapIdx_cons, List.flatMap_cons, List.flatMap_cons, List.map_append, hf, ih]
    intro i e'
    exact hf (i + 1) e'

theorem cells_sers (w : World) : w.cells.map (·.ser) = storedSers w.archs := by
  unfold World.cells Store.cells absStore storedSers
  refine cells_sers_aux absEntry (fun i e => ?_) _
  cases e <;> rfl

/-- **(B) what the API reads**: `World::get` never returns a cell whose serial has been destroyed — now or after any
    continuation of the history -/
theorem destroyed_not_readable {ops ops' : List Op} (hc : HistClean {} (ops ++ ops')) {s : Nat} (h0 : s ≠ 0)
    (hd : s ∈ dropSers (totalLedger {} ops)) (e : Key) (c : Nat) (y : Cell)
    (hy : (runHist {} (ops ++ ops')).getCell e c = some y) : y.ser ≠ s := by
  intro he
  refine (destroyed_never_seen_again hc h0 hd).1 ?_
  rw [← cells_sers, ← he]
  exact List.mem_map_of_mem (Store.get_mem_cells hy)

/-! ## quiescent points -/

/-- **after every operation the queue is empty**: on normal return, and after every panic other than the model's own
    fuel marker (the unwinding guard dropped what was queued) — so between operations "live" means "stored" -/
theorem quiescent_after_step {w : World} {op : Op} (hq : w.queue = [])
    (h : (∃ lines, ((execOp op).run.run (stepInit w)).1 = .ok lines) ∨
      ∃ cls, ((execOp op).run.run (stepInit w)).1 = .error (.panic cls) ∧ cls ≠ "model:fuel") :
    (step w op).1.queue = [] := by
  rw [step_fst_eq]
  have r := (InvV7.execOp_qe op).run (stepInit w) hq
  generalize (execOp op).run.run (stepInit w) = res at r h
  obtain ⟨(e|a), w'⟩ := res
  · rcases h with ⟨_, h⟩ | ⟨cls, h, hne⟩
    · cases h
    · cases h
      exact r rfl (fun he => hne (by cases he; rfl))
  · exact r

/-- histories in the sense of `Props/C03History.lean` (every step returns, or panics without leaving a reservation
    pending) have no marker exit -/
theorem histClean_of_goodHist {w : World} {ops : List Op} (h : C03History.GoodHist w ops) : HistClean w ops := by
  induction ops generalizing w with
  | nil => trivial
  | cons op ops ih =>
    refine ⟨fun e he => ?_, ih h.2.2⟩
    rcases h.2.1 with ⟨l, hl⟩ | ⟨⟨cls, hcls, -⟩, -⟩
    · rw [hl] at he; cases he
    · rw [hcls] at he; cases he; rfl

/-- by C01 (`Props/C01Safe.lean`), from a world the driver reaches (debug or release profile) a valid operation never ends
    in a marker: the hypothesis `StepClean` is discharged -/
theorem stepClean_of_reachable {d : Bool} {w : World} {op : Op} (hr : C01.ReachSD d w) (hv : op.SValid)
    (hs : Small (step w op).1) : StepClean w op :=
  C01.no_ub_reachable_both d w op hr hv hs

/-! ## (D) C11, storage half: what becomes of the value of an `Insert` -/

/-- **(D) dead target**: an `Insert` of a component type with destructor, delivered to an entity that does not exist
    (any more).  `ser` is the serial of the value it carries; before the delivery it is held by the event only
    (`CL (ser :: X) w`).  Afterwards the value has been destroyed: its serial heads the ledger, occurs in the ledger
    exactly once, and is nowhere else — not stored, not queued, not in `X`. -/
theorem insert_dead_target_destroyed_once {X : List Nat} {it : QItem} {w w' : World} {k : Nat} {info : EvInfo}
    (hcl : CL (it.pay.cell.ser :: X) w) (h : (deliverOne it).run.run w = (.ok (), w')) (hty : it.ty = .ins k)
    (hdead : w.entities.get it.target = none) (hinfo : w.evInfo it = some info) (hn : info.needsDrop = true)
    (hk : compNeedsDrop k = true) (h0 : it.pay.cell.ser ≠ 0) :
    w'.cdrops = (k, it.pay.cell.ser) :: w.cdrops ∧ (dropSers w'.cdrops).count it.pay.cell.ser = 1 ∧
    it.pay.cell.ser ∉ storedSers w'.archs ∧ it.pay.cell.ser ∉ queuedSers w'.queue ∧ it.pay.cell.ser ∉ X := by
  have hw' := dead_insert_value_destroyed h hty hdead hinfo hn hk
  have hcd : w'.cdrops = (k, it.pay.cell.ser) :: w.cdrops := by rw [hw']
  have r := (deliverOne_cl (X := X) it).run w hcl
  rw [h] at r
  have once := r.once _ h0
  unfold serCount at once
  have hpos : 0 < (dropSers w'.cdrops).count it.pay.cell.ser := by
    rw [hcd, dropSers_cons, List.count_cons_self]; exact Nat.succ_pos _
  refine ⟨hcd, by omega, ?_, ?_, ?_⟩ <;>
  · intro hm
    have := List.count_pos_iff.2 hm
    omega

/-- **(D) live target, nobody took the event**: the built-in effect of an `Insert` (`effectPhase`, run on the state the
    handlers of the delivery left — that state satisfies `WInv`: `Obl.glue_runHandler` —; `C09.effect_iff` says when it
    runs: the target is alive and no handler took the event).  The value is STORED: it is what `World::get` reads for
    `(e, c)`, its serial occurs in storage exactly once; and it is NOT DESTROYED: the serial is not in the ledger, nor
    queued, nor in `X`. -/
theorem insert_effect_stored_not_destroyed {X : List Nat} {it : QItem} {info : EvInfo} {loc : Loc} {c : Nat} {e : Key}
    {w w' : World} (hw : WInv w) (hcl : CL (it.pay.cell.ser :: X) w) (hkind : info.kind = .insert c)
    (hloc : w.entities.get e = some loc) (h : (effectPhase it info loc).run.run w = (.ok (), w'))
    (h0 : it.pay.cell.ser ≠ 0) :
    w'.getCell e c = some it.pay.cell ∧ (storedSers w'.archs).count it.pay.cell.ser = 1 ∧
    it.pay.cell.ser ∉ dropSers w'.cdrops ∧ it.pay.cell.ser ∉ queuedSers w'.queue ∧ it.pay.cell.ser ∉ X := by
  have hread := (ReachStore.insert_effect_winv hw hkind hloc h).1
  have r := (effectPhase_cl (X := X) it info loc).run w hcl
  rw [h] at r
  have once := r.once _ h0
  unfold serCount at once
  have hpos : 0 < (storedSers w'.archs).count it.pay.cell.ser := by
    rw [List.count_pos_iff, ← cells_sers]
    exact List.mem_map_of_mem (Store.get_mem_cells hread)
  refine ⟨hread, by omega, ?_, ?_, ?_⟩ <;>
  · intro hm
    have := List.count_pos_iff.2 hm
    omega

/-- the per-delivery triple behind (D), for every event, every handler program, every exit: the value the event
    carries leaves `X` — into storage, into the ledger, or (a type without destructor) into oblivion -/
theorem deliverOne_disposes (X : List Nat) (it : QItem) :
    Hoare (CL (it.pay.cell.ser :: X)) (deliverOne it) (fun _ => CL X) (PanicOnly (CL X)) :=
  deliverOne_cl it

/-! ## (E) non-vacuity: a concrete history, evaluated by the kernel

`moveCols` is compiled by well-founded recursion and does not reduce in the kernel.  `stepF.1` is `step` with `moveCols`
replaced by its fuel form (`moveCols_eq_fuel`, `Props/C02World.lean`) along the call chain `step → execOp →
sendTargeted → flush → deliverOne → moveEntity`; `stepF.2 : stepF.1 = step`.  The runs below are rewritten with it and
evaluated by `decide +kernel`.  No axiom beyond the three standard ones. -/

def moveEntityF : { f : Loc → Nat → List (Nat × Cell) → M Unit // f = moveEntity } :=
  ⟨_, by delta moveEntity; rw [moveCols_eq_fuel]⟩
def deliverOneF : { f : QItem → M Unit // f = deliverOne } :=
  ⟨_, by delta deliverOne; rw [← moveEntityF.2]⟩
def sendTargetedF : { f : EvTy → Key → Payload → M Unit // f = sendTargeted } :=
  ⟨_, by delta sendTargeted flush; rw [← deliverOneF.2]⟩
def execOpF : { f : Op → M (List String) // f = execOp } :=
  ⟨_, by delta execOp; rw [← sendTargetedF.2]⟩
def stepF : { f : World → Op → Bool → World × List String // f = @step } :=
  ⟨_, by delta step; rw [← execOpF.2]⟩

/-- spawn `#0`; insert K1 = 7 (serial 1); overwrite K1 = 8 (serial 2); insert K4 = 9 (serial 3); despawn `#0` -/
def demoOps : List Op := [.spawn, .insert 0 1 7, .insert 0 1 8, .insert 0 4 9, .despawn 0]

set_option maxRecDepth 100000 in
theorem demo_history :
    (runHist {} (demoOps.take 1)).cdrops = [] ∧
    (runHist {} (demoOps.take 2)).cdrops = [] ∧ storedSers (runHist {} (demoOps.take 2)).archs = [1] ∧
    (runHist {} (demoOps.take 3)).cdrops = [(1, 1)] ∧ storedSers (runHist {} (demoOps.take 3)).archs = [2] ∧
    (runHist {} (demoOps.take 4)).cdrops = [] ∧ storedSers (runHist {} (demoOps.take 4)).archs = [2, 3] ∧
    (runHist {} demoOps).cdrops = [(4, 3), (1, 2)] ∧ storedSers (runHist {} demoOps).archs = [] ∧
    (runHist {} demoOps).nextCSerial = 4 ∧ (runHist {} demoOps).queue = [] := by
  delta runHist
  rw [← stepF.2]
  decide +kernel

theorem demo_total : totalLedger {} demoOps = [(4, 3), (1, 2), (1, 1)] := by
  obtain ⟨h1, h2, -, h3, -, h4, -, h5, -⟩ := demo_history
  simp only [demoOps, List.take, runHist_cons, runHist_nil] at h1 h2 h3 h4 h5
  simp only [totalLedger, demoOps, histLedger, runHist_cons, runHist_nil, h1, h2, h3, h4, h5]
  rfl

/-- executable form of `StepClean` -/
def stepCleanB (w : World) (op : Op) : Bool :=
  match ((execOp op).run.run (stepInit w)).1 with
  | .ok _ => true
  | .error e => e.isPanic

theorem stepClean_of_check {w : World} {op : Op} (h : stepCleanB w op = true) : StepClean w op := by
  intro e he
  unfold stepCleanB at h
  rw [he] at h
  exact h

set_option maxRecDepth 100000 in
/-- no step of the demo history ends in a marker (all of them return normally) -/
theorem demo_clean : HistClean {} demoOps := by
  have h : stepCleanB {} .spawn = true ∧
      stepCleanB (runHist {} (demoOps.take 1)) (.insert 0 1 7) = true ∧
      stepCleanB (runHist {} (demoOps.take 2)) (.insert 0 1 8) = true ∧
      stepCleanB (runHist {} (demoOps.take 3)) (.insert 0 4 9) = true ∧
      stepCleanB (runHist {} (demoOps.take 4)) (.despawn 0) = true := by
    delta runHist stepCleanB
    rw [← stepF.2, ← execOpF.2]
    decide +kernel
  obtain ⟨h1, h2, h3, h4, h5⟩ := h
  exact ⟨stepClean_of_check h1, stepClean_of_check h2, stepClean_of_check h3, stepClean_of_check h4,
    stepClean_of_check h5, trivial⟩

/-- **the theorems apply to it**: (A) the ledger `3, 2, 1` of the whole history has no serial twice; (B) the destroyed
    serial `1` is stored nowhere after the overwrite nor at any later point; (C) stored and destroyed serials are
    disjoint at every point -/
theorem demo_instance :
    (nz (dropSers (totalLedger {} demoOps))).Nodup ∧
    (1 ∉ storedSers (runHist {} demoOps).archs ∧ 1 ∉ queuedSers (runHist {} demoOps).queue) ∧
    (nz (storedSers (runHist {} demoOps).archs ++ queuedSers (runHist {} demoOps).queue
      ++ dropSers (totalLedger {} demoOps))).Nodup := by
  refine ⟨no_double_destruction demo_clean, destroyed_not_stored demo_clean (by decide) ?_,
    (ledger_exclusive demo_clean).1⟩
  rw [demo_total]
  decide

/-! ## the literal conservation statement is false: values of types without destructor leave no trace -/

/-- spawn `#0`; insert K0 = 7 (serial 1); overwrite K0 = 8 (serial 2).  K0 has no destructor. -/
def plainOps : List Op := [.spawn, .insert 0 0 7, .insert 0 0 8]

set_option maxRecDepth 100000 in
theorem plain_eval :
    compNeedsDrop 0 = false ∧
    (runHist {} (plainOps.take 1)).cdrops = [] ∧ (runHist {} (plainOps.take 2)).cdrops = [] ∧
    storedSers (runHist {} (plainOps.take 2)).archs = [1] ∧
    (runHist {} plainOps).cdrops = [] ∧ storedSers (runHist {} plainOps).archs = [2] ∧
    (runHist {} plainOps).queue = [] ∧ (runHist {} plainOps).nextCSerial = 3 := by
  delta runHist
  rw [← stepF.2]
  decide +kernel

/-- **the literal converse of (C) is false** (kernel-checked): after `spawn; insert K0 = 7; insert K0 = 8` two serials
    have been handed out, serial `2` is stored, and serial `1` — the overwritten value, of a type without destructor —
    is neither stored, nor queued, nor in the ledger of the history.  (In Rust the value is overwritten in place without
    any drop glue; the harness logs destructions through `Drop`, so it sees nothing either.)  "Stored or destroyed,
    never neither" can only be claimed for component types WITH destructor. -/
theorem conservation_literal_false :
    (runHist {} plainOps).nextCSerial = 3 ∧ 1 ∉ storedSers (runHist {} plainOps).archs ∧
    1 ∉ queuedSers (runHist {} plainOps).queue ∧ 1 ∉ dropSers (totalLedger {} plainOps) := by
  obtain ⟨-, h1, h2, -, h3, h4, h5, h6⟩ := plain_eval
  refine ⟨h6, by rw [h4]; decide, by rw [h5]; decide, ?_⟩
  simp only [plainOps, List.take, runHist_cons, runHist_nil] at h1 h2 h3
  simp only [totalLedger, plainOps, histLedger, runHist_cons, runHist_nil, h1, h2, h3]
  decide

/-! ## why the predicate carries the column shape: `move_entity` logs before it checks the row -/

/-- a world whose archetype 1 has a column with one cell (serial 5, component index 0 of type K1) but NO row -/
def badW : World :=
  { comps := { slots := [⟨1, U32MAX, some { ty := 1, id := ⟨0, 1⟩ }⟩], nextFree := U32MAX, len := 1 }
    archs := { entries := [.occ { index := 0, comps := [], cols := [], ids := [] },
                           .occ { index := 1, comps := [0], cols := [[⟨7, 5⟩]], ids := [] }], next := 2 }
    nextCSerial := 6 }

/-- **without `ColsOk` the counting half is not kept** (kernel-checked): in a world whose archetype 1 has a column with a
    cell but no row — every archetype at its own index, no serial twice — `moveEntity` passes the cell to its
    destructor (serial `5` is logged), THEN finds no entity id in the row and panics (`swap_remove index out of bounds`)
    with the cell still in the column: serial `5` is stored and destroyed.  `ColsOk` (no column is longer than
    `entity_ids`) rules this out; it is part of `CL` and kept by every model function. -/
theorem moveEntity_needs_colsOk :
    (∀ i a, badW.archs.get i = some a → a.index = i) ∧
    (storedSers badW.archs ++ queuedSers badW.queue ++ dropSers badW.cdrops).Nodup ∧
    (fun (r : Except Err Unit × World) =>
        ((match r.1 with | .error (.panic _) => true | _ => false), storedSers r.2.archs, dropSers r.2.cdrops))
      ((moveEntity ⟨1, 0⟩ 0 []).run.run badW) = (true, [5], [5]) := by
  refine ⟨?_, by decide, ?_⟩
  · intro i a h
    rw [Slab.get_eq_some_iff] at h
    match i, h with
    | 0, h => cases h; rfl
    | 1, h => cases h; rfl
  · unfold moveEntity
    rw [moveCols_eq_fuel]
    decide

end C12History
end Evenio

#print axioms Evenio.CompLedger.execOp_cl
#print axioms Evenio.C12History.hist_cl
#print axioms Evenio.C12History.ledger_exclusive
#print axioms Evenio.C12History.no_double_destruction
#print axioms Evenio.C12History.destroyed_never_seen_again
#print axioms Evenio.C12History.destroyed_not_readable
#print axioms Evenio.C12History.quiescent_after_step
#print axioms Evenio.C12History.insert_dead_target_destroyed_once
#print axioms Evenio.C12History.insert_effect_stored_not_destroyed
#print axioms Evenio.C12History.demo_history
#print axioms Evenio.C12History.demo_instance
#print axioms Evenio.C12History.conservation_literal_false
#print axioms Evenio.C12History.stepClean_of_reachable
#print axioms Evenio.C12History.moveEntity_needs_colsOk
