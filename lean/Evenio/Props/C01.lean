import Evenio.Generated.Sites
import Evenio.Model.Inv
/-! # C01 — the safe API never causes undefined behaviour or undocumented panics

> No sequence of calls to the safe public API … produces a dangling, misaligned or aliased-mutable reference, an
> out-of-bounds or use-after-free access, or trips an internal consistency assertion. The only panics a caller can
> observe are the documented ones …

**Partial by construction** (DESIGN.md §6 C01): the model is total with explicit markers — every `unwrap_unchecked`,
`get_unchecked`, `assume_unchecked` whose precondition depends on evenio's own bookkeeping is a lookup that raises
`Err.ub site`, every `debug_assert` raises `Err.assert site`.  What is machine-checked here:

* `sites_accounted`: the inventory of unchecked operations and debug assertions regenerated from `/repo/src` on every
  run equals the committed inventory below, in which every row names the model marker that stands for it or says that
  its precondition is a `std`/layout contract that the model does not cover.  A site that appears, disappears, moves to
  another function or changes multiplicity breaks this theorem (translator tie).
* `markers_cover_bookkeeping`: every row whose precondition is evenio's own bookkeeping has a model marker.
* `init_inv`: the initial world satisfies the executable invariant `World.Inv`.

That no reachable model state raises a marker is *validated* on every run (the model's output contains no `ub`/`assert`
line, and the implementation runs the same histories in debug and release builds), not proved: the world-level
preservation of `Inv` is not finished (see C17).  Raw-pointer provenance, the allocator and `bumpalo` are outside the model. -/
namespace Evenio.C01

/-- (file, enclosing fn, kind, count, has a model marker, how it is discharged) -/
def expectedSites : List (String × String × String × Nat × Bool × String) := [
  ("src/aliased_box.rs", "drop", "Box::from_raw", 1, false, "precondition is a std/alloc contract or a layout fact; exercised by the debug-build UB checks, not modelled"),
  ("src/aliased_box.rs", "from", "new_unchecked", 1, false, "precondition is a std/alloc contract or a layout fact; exercised by the debug-build UB checks, not modelled"),
  ("src/aliased_box.rs", "into_inner", "Box::from_raw", 1, false, "precondition is a std/alloc contract or a layout fact; exercised by the debug-build UB checks, not modelled"),
  ("src/archetype.rs", "assign", "copy_nonoverlapping", 1, true, "model: archetype.rs:assign:oob"),
  ("src/archetype.rs", "assign", "new_unchecked", 1, true, "model: archetype.rs:assign:oob"),
  ("src/archetype.rs", "columns", "from_raw_parts", 1, false, "precondition is a std/alloc contract or a layout fact; exercised by the debug-build UB checks, not modelled"),
  ("src/archetype.rs", "columns_mut", "from_raw_parts_mut", 1, false, "precondition is a std/alloc contract or a layout fact; exercised by the debug-build UB checks, not modelled"),
  ("src/archetype.rs", "drop", "Box::from_raw", 1, false, "precondition is a std/alloc contract or a layout fact; exercised by the debug-build UB checks, not modelled"),
  ("src/archetype.rs", "drop", "dealloc", 1, false, "precondition is a std/alloc contract or a layout fact; exercised by the debug-build UB checks, not modelled"),
  ("src/archetype.rs", "drop", "from_raw_parts_mut", 1, false, "precondition is a std/alloc contract or a layout fact; exercised by the debug-build UB checks, not modelled"),
  ("src/archetype.rs", "drop", "from_size_align_unchecked", 3, false, "precondition is a std/alloc contract or a layout fact; exercised by the debug-build UB checks, not modelled"),
  ("src/archetype.rs", "drop", "new_unchecked", 1, false, "precondition is a std/alloc contract or a layout fact; exercised by the debug-build UB checks, not modelled"),
  ("src/archetype.rs", "drop", "realloc", 1, false, "precondition is a std/alloc contract or a layout fact; exercised by the debug-build UB checks, not modelled"),
  ("src/archetype.rs", "empty", "unwrap_unchecked", 1, true, "model: archetype.rs:empty_mut"),
  ("src/archetype.rs", "empty_mut", "unwrap_unchecked", 1, true, "model: archetype.rs:empty_mut"),
  ("src/archetype.rs", "get_by_components", "unwrap_unchecked", 1, true, "model: by_components is exact (World.invArch: archByComps a.comps = some i, hook line `bycomps exact=true`)"),
  ("src/archetype.rs", "move_entity", "copy_nonoverlapping", 2, true, "model: archetype.rs:move_entity:column_of_mut | archetype.rs:move_entity:merge | archetype.rs:remove_entity:assume_unchecked"),
  ("src/archetype.rs", "move_entity", "get_unchecked", 4, true, "model: archetype.rs:move_entity:column_of_mut | archetype.rs:move_entity:merge | archetype.rs:remove_entity:assume_unchecked"),
  ("src/archetype.rs", "move_entity", "unwrap_unchecked", 7, true, "model: archetype.rs:move_entity:column_of_mut | archetype.rs:move_entity:merge | archetype.rs:remove_entity:assume_unchecked"),
  ("src/archetype.rs", "new", "new_unchecked", 2, true, "model: archetype.rs:Archetype::new:component"),
  ("src/archetype.rs", "new", "unwrap_unchecked", 1, true, "model: archetype.rs:Archetype::new:component"),
  ("src/archetype.rs", "remove_component", "unwrap_unchecked", 1, true, "model: archetype.rs:remove_component:components.get_by_index_mut"),
  ("src/archetype.rs", "remove_entity", "assume_unchecked", 1, true, "model: archetype.rs:remove_entity:assume_unchecked | archetype.rs:remove_entity:entities.remove | archetype.rs:remove_entity:loc"),
  ("src/archetype.rs", "remove_entity", "get_unchecked", 1, true, "model: archetype.rs:remove_entity:assume_unchecked | archetype.rs:remove_entity:entities.remove | archetype.rs:remove_entity:loc"),
  ("src/archetype.rs", "remove_entity", "unwrap_unchecked", 3, true, "model: archetype.rs:remove_entity:assume_unchecked | archetype.rs:remove_entity:entities.remove | archetype.rs:remove_entity:loc"),
  ("src/archetype.rs", "swap_remove", "copy_nonoverlapping", 1, true, "model: archetype.rs:swap_remove:oob"),
  ("src/archetype.rs", "swap_remove", "new_unchecked", 1, true, "model: archetype.rs:swap_remove:oob"),
  ("src/archetype.rs", "swap_remove_no_drop", "copy_nonoverlapping", 1, false, "precondition is a std/alloc contract or a layout fact; exercised by the debug-build UB checks, not modelled"),
  ("src/archetype.rs", "transfer_elem", "copy_nonoverlapping", 1, false, "precondition is a std/alloc contract or a layout fact; exercised by the debug-build UB checks, not modelled"),
  ("src/archetype.rs", "traverse_insert", "unwrap_unchecked", 1, true, "model: archetype.rs:traverse_insert:component"),
  ("src/archetype.rs", "traverse_remove", "unwrap_unchecked", 1, true, "model: archetype.rs:traverse_remove:src"),
  ("src/bit_set.rs", "grow_to_block", "get_unchecked_mut", 1, false, "precondition is a std/alloc contract or a layout fact; exercised by the debug-build UB checks, not modelled"),
  ("src/component.rs", "get_by_type_id", "unwrap_unchecked", 1, false, "precondition is a std/alloc contract or a layout fact; exercised by the debug-build UB checks, not modelled"),
  ("src/event.rs", "alloc_slice", "from_raw_parts_mut", 1, false, "precondition is a std/alloc contract or a layout fact; exercised by the debug-build UB checks, not modelled"),
  ("src/event.rs", "alloc_str", "copy_nonoverlapping", 1, false, "precondition is a std/alloc contract or a layout fact; exercised by the debug-build UB checks, not modelled"),
  ("src/event.rs", "alloc_str", "from_raw_parts_mut", 1, false, "precondition is a std/alloc contract or a layout fact; exercised by the debug-build UB checks, not modelled"),
  ("src/event.rs", "alloc_str", "from_size_align_unchecked", 1, false, "precondition is a std/alloc contract or a layout fact; exercised by the debug-build UB checks, not modelled"),
  ("src/event.rs", "alloc_str", "from_utf8_unchecked_mut", 1, false, "precondition is a std/alloc contract or a layout fact; exercised by the debug-build UB checks, not modelled"),
  ("src/event/global.rs", "get_by_type_id", "unwrap_unchecked", 1, false, "precondition is a std/alloc contract or a layout fact; exercised by the debug-build UB checks, not modelled"),
  ("src/event/targeted.rs", "get_by_type_id", "unwrap_unchecked", 1, false, "precondition is a std/alloc contract or a layout fact; exercised by the debug-build UB checks, not modelled"),
  ("src/fetch.rs", "drive_unindexed", "assume_unchecked", 1, true, "model: ParIter (Model/ParIter.lean; keys/values aligned by SparseMap.WF, C19 par_fetcher)"),
  ("src/fetch.rs", "drive_unindexed", "unwrap_unchecked", 1, true, "model: ParIter (Model/ParIter.lean; keys/values aligned by SparseMap.WF, C19 par_fetcher)"),
  ("src/fetch.rs", "get", "get_unchecked", 1, true, "model: fetch.rs:get:arch | sparse_map.rs:get:dense (call of FetcherState::get_unchecked)"),
  ("src/fetch.rs", "get_by_location_mut", "unwrap_unchecked", 1, true, "model: fetch.rs:get_by_location_mut"),
  ("src/fetch.rs", "get_many_mut", "assume_init_drop", 1, false, "precondition is a std/alloc contract or a layout fact; exercised by the debug-build UB checks, not modelled"),
  ("src/fetch.rs", "get_many_mut", "get_unchecked", 1, true, "model: fetch.rs:get:arch | sparse_map.rs:get:dense (call of FetcherState::get_unchecked)"),
  ("src/fetch.rs", "get_many_mut", "transmute_copy", 1, false, "precondition is a std/alloc contract or a layout fact; exercised by the debug-build UB checks, not modelled"),
  ("src/fetch.rs", "get_mut", "get_unchecked", 1, true, "model: fetch.rs:get:arch | sparse_map.rs:get:dense (call of FetcherState::get_unchecked)"),
  ("src/fetch.rs", "get_unchecked", "assume_unchecked", 1, true, "model: fetch.rs:get_by_location_mut"),
  ("src/fetch.rs", "get_unchecked", "get_unchecked", 1, true, "model: fetch.rs:get_by_location_mut"),
  ("src/fetch.rs", "iter_unchecked", "assume_unchecked", 1, true, "model: fetch.rs:iter:assume_nonempty"),
  ("src/fetch.rs", "iter_unchecked", "unwrap_unchecked", 4, true, "model: fetch.rs:iter:assume_nonempty"),
  ("src/fetch.rs", "len", "unwrap_unchecked", 1, true, "model: fetch.rs:iter:assume_nonempty"),
  ("src/fetch.rs", "next", "assume_unchecked", 1, true, "model: fetch.rs:iter:assume_nonempty"),
  ("src/fetch.rs", "next", "new_unchecked", 2, true, "model: fetch.rs:iter:assume_nonempty"),
  ("src/fetch.rs", "next", "unwrap_unchecked", 1, true, "model: fetch.rs:iter:assume_nonempty"),
  ("src/handler.rs", "refresh_archetype", "unwrap_unchecked", 1, false, "precondition is a std/alloc contract or a layout fact; exercised by the debug-build UB checks, not modelled"),
  ("src/handler.rs", "remove_archetype", "unwrap_unchecked", 1, false, "precondition is a std/alloc contract or a layout fact; exercised by the debug-build UB checks, not modelled"),
  ("src/handler.rs", "run", "unwrap_unchecked", 1, false, "precondition is a std/alloc contract or a layout fact; exercised by the debug-build UB checks, not modelled"),
  ("src/lib.rs", "assume_unchecked", "unreachable_unchecked", 1, false, "precondition is a std/alloc contract or a layout fact; exercised by the debug-build UB checks, not modelled"),
  ("src/query.rs", "new_arch_state", "unwrap_unchecked", 1, false, "precondition is a std/alloc contract or a layout fact; exercised by the debug-build UB checks, not modelled"),
  ("src/slot_map.rs", "generation", "new_unchecked", 1, false, "precondition is a std/alloc contract or a layout fact; exercised by the debug-build UB checks, not modelled"),
  ("src/slot_map.rs", "get_by_index", "new_unchecked", 1, false, "precondition is a std/alloc contract or a layout fact; exercised by the debug-build UB checks, not modelled"),
  ("src/slot_map.rs", "get_by_index_mut", "new_unchecked", 1, false, "precondition is a std/alloc contract or a layout fact; exercised by the debug-build UB checks, not modelled"),
  ("src/slot_map.rs", "insert_with", "unwrap_unchecked", 1, false, "precondition is a std/alloc contract or a layout fact; exercised by the debug-build UB checks, not modelled"),
  ("src/slot_map.rs", "iter", "new_unchecked", 1, false, "precondition is a std/alloc contract or a layout fact; exercised by the debug-build UB checks, not modelled"),
  ("src/slot_map.rs", "iter_mut", "new_unchecked", 1, false, "precondition is a std/alloc contract or a layout fact; exercised by the debug-build UB checks, not modelled"),
  ("src/slot_map.rs", "new", "new_unchecked", 1, false, "precondition is a std/alloc contract or a layout fact; exercised by the debug-build UB checks, not modelled"),
  ("src/slot_map.rs", "new_unchecked", "new_unchecked", 1, false, "precondition is a std/alloc contract or a layout fact; exercised by the debug-build UB checks, not modelled"),
  ("src/slot_map.rs", "next", "new_unchecked", 1, false, "precondition is a std/alloc contract or a layout fact; exercised by the debug-build UB checks, not modelled"),
  ("src/slot_map.rs", "remove", "ManuallyDrop::take", 1, false, "precondition is a std/alloc contract or a layout fact; exercised by the debug-build UB checks, not modelled"),
  ("src/sparse_map.rs", "get", "get_unchecked", 1, true, "model: sparse_map.rs:get:dense; proved in range under SparseMap.WF (getChecked_ne_none)"),
  ("src/sparse_map.rs", "get_mut", "get_unchecked_mut", 1, true, "model: sparse_map.rs:get:dense; proved in range under SparseMap.WF (getChecked_ne_none)"),
  ("src/sparse_map.rs", "insert", "get_unchecked_mut", 2, true, "model: total SparseMap.insert; in range by SparseMap.WF (insert_wf, get_insert_same)"),
  ("src/sparse_map.rs", "remove", "assume_unchecked", 2, true, "model: total SparseMap.remove; in range by SparseMap.WF (remove_wf)"),
  ("src/sparse_map.rs", "remove", "get_unchecked_mut", 1, true, "model: total SparseMap.remove; in range by SparseMap.WF (remove_wf)"),
  ("src/world.rs", "drop", "get_unchecked_mut", 2, true, "model: world.rs:EventDropper:global_events.get_by_index | world.rs:EventDropper:targeted_events.get_by_index"),
  ("src/world.rs", "drop", "unwrap_unchecked", 6, true, "model: world.rs:EventDropper:global_events.get_by_index | world.rs:EventDropper:targeted_events.get_by_index"),
  ("src/world.rs", "get", "unwrap_unchecked", 1, true, "model: store rendering reads archs.get loc.arch (`#n=?` marker); World.invStore"),
  ("src/world.rs", "get_mut", "unwrap_unchecked", 1, true, "model: store rendering reads archs.get loc.arch (`#n=?` marker); World.invStore")
]

theorem sites_accounted :
    Sites.sites = expectedSites.map fun (f, fn, k, n, _, _) => (f, fn, k, n) := by
  decide

/-- kinds whose precondition can depend on evenio's own bookkeeping (lookups by index / key / pointer) -/
def bookkeepingKind (k : String) : Bool :=
  k == "unwrap_unchecked" || k == "get_unchecked" || k == "get_unchecked_mut" || k == "assume_unchecked"

/-- files whose unchecked lookups are about evenio's tables (the rest are pointer/layout utilities) -/
def bookkeepingFile (f : String) : Bool :=
  f == "src/world.rs" || f == "src/archetype.rs" || f == "src/fetch.rs" || f == "src/sparse_map.rs"

theorem markers_cover_bookkeeping :
    (expectedSites.filter fun (f, _, k, _, _, _) => bookkeepingFile f && bookkeepingKind k).all
      (fun (_, _, _, _, modelled, _) => modelled) = true := by
  decide

theorem init_inv : ({} : World).Inv = true := by
  decide

end Evenio.C01

#print axioms Evenio.C01.sites_accounted
#print axioms Evenio.C01.markers_cover_bookkeeping
#print axioms Evenio.C01.init_inv
