import Evenio.Proofs.EntIssued
import Evenio.Proofs.Inv.ReachPanic
import Evenio.Props.ReachStore
/-!
# C03 along whole WORLD histories

> "Entity ids are unique, become valid as promised, and are never reused … for every history."

`Props/C03.lean` proves the whole-history facts for the stand-alone slot map (traces of `insertWith` / `remove`);
`Props/C03World.lean` / `Props/ReachStore.lean` prove one-step facts about the world (`reserve`, `spawn_all`, the `Despawn`
effect, one `World::spawn`).  The world invariant `WInv` carries no history.  This file closes the gap: along an
ARBITRARY sequence of world operations (`spawn`, `despawn`, `insert`, `remove`, `send` / `sendto` with arbitrary handler
programs, `add_handler`, `remove_handler`, `add_component`, `remove_component`, `add_event`, `remove_event`, the
generation hook), whether the operations return or panic,

* **(A) monotonicity** — no entity slot ever loses rank (`execOp_monotone`, `step_monotone`, `history_monotone`);
* **(B) dead stays dead** — `dead_stays_dead`, `dead_never_valid_again`, `valid_then_invalid_is_dead`,
  `removed_never_valid_again`, `once_invalid_never_valid_again`;
* **(C) spawn freshness** — `spawn_fresh`, `spawn_issued`, `spawn_valid_or_dead`, `spawn_ids_fresh`,
  `spawn_ids_pairwise_distinct`, `spawn_id_ne_earlier`, `spawn_ids_distinct_from_init`;
* **(D) non-vacuity** — `demo_history` (spawn, despawn, spawn: a different id, the old one invalid), and the
  counterexample `setgen_unbounded_resurrects` showing that the side condition of `Op.Valid` on the generation hook
  (`g < 2^32`) is necessary.

The machinery is in `Proofs/EntHistory.lean` (rank, `SlotMap.Le`, the `EI` table: one lemma per model function) and
`Proofs/EntIssued.lean` (`Issued` / `Dead`, the `IR` table that follows a reservation to its materialisation).

Vocabulary.
* `Slot.rank s` = `s.gen`, the retired generation `0` counted as `2^32`.
* `EntLe w w'` = `w.entities.slots.length ≤ w'.entities.slots.length ∧ ∀ i s, w.entities.slots[i]? = some s →
  ∃ s', w'.entities.slots[i]? = some s' ∧ s.rank ≤ s'.rank` (`entLe_iff`); reflexive, transitive.
* `DeadIssued w k` = the slot of `k` exists at a rank `> k.gen` (`DeadIssued.iff`); `EntIssued w k` = … `≥ k.gen`.
* `runHist w ops` = the world after running `ops` from `w` with the driver's `step`, every outcome included.
* (A) and (B) need NO invariant of the world beyond a well-formed entity map (`SlotMap.WF`, which the empty world has and
  every operation keeps) — in particular no `Small`, no quiescence: they hold through panics that leave reservations
  pending (F8) and through `ub`/`assert` exits.  (C) is about the id `World::spawn` RETURNS, which is a prediction
  (`ReservedEntities::reserve`); that the prediction is fresh and comes true needs the reservation invariant, i.e. a world
  reachable in the sense of `ReachP` (normal returns and panics without a pending reservation) and `Small`.
-/
namespace Evenio
namespace C03History
open SlotMap

/-! ## (A) monotonicity -/

/-- `EntLe`, spelled out -/
theorem entLe_iff (w w' : World) :
    EntLe w w' ↔ w.entities.slots.length ≤ w'.entities.slots.length ∧
      ∀ (i : Nat) (s : Slot Loc), w.entities.slots[i]? = some s →
        ∃ s' : Slot Loc, w'.entities.slots[i]? = some s' ∧ s.rank ≤ s'.rank := Iff.rfl

theorem entLe_refl (w : World) : EntLe w w := EntLe.refl w
theorem entLe_trans {a b c : World} (h1 : EntLe a b) (h2 : EntLe b c) : EntLe a c := h1.trans h2

/-- **(A), every model function `execOp` reaches.**  For every valid top-level operation, run from ANY world with a
    well-formed entity map, on EVERY exit (normal return, panic, marker): the entity map is well formed again and
    every slot is still there at a rank that is at least as high.  (Per function: the `_ei` lemmas of
    `Proofs/EntHistory.lean` — `deliverOne_ei`, `runHandler_ei`, `spawnAll_ei`, `removeEntity_ei`,
    `archsRemoveComponent_ei`, `flush_ei`, `removeComponent_ei`, … 55 lemmas.) -/
theorem execOp_monotone {w : World} {op : Op} (hv : op.Valid) (wf : w.entities.WF) :
    ((execOp op).run.run w).2.entities.WF ∧ EntLe w ((execOp op).run.run w).2 :=
  execOp_entLe hv wf

/-- **(A), per function**: a model function with an entry in the `EI` table (`<f>_ei` in `Proofs/EntHistory.lean`), run
    from any world with a well-formed entity map, on every exit -/
theorem monotone_of_ei {α : Type} {m : M α} (h : ∀ sm0, Keeps (EI sm0) m) {w : World} (wf : w.entities.WF) :
    (m.run.run w).2.entities.WF ∧ EntLe w (m.run.run w).2 :=
  (h w.entities).run w ⟨wf, SlotMap.Le.refl _⟩

/-- … for instance one delivery (handler phase with arbitrary programs + built-in effect), a whole flush,
    `World::send`, `World::remove_component` -/
theorem deliverOne_monotone (it : QItem) {w : World} (wf : w.entities.WF) :
    ((deliverOne it).run.run w).2.entities.WF ∧ EntLe w ((deliverOne it).run.run w).2 :=
  monotone_of_ei (fun _ => deliverOne_ei it) wf
theorem flush_monotone (fuel : Nat) {w : World} (wf : w.entities.WF) :
    ((flush fuel).run.run w).2.entities.WF ∧ EntLe w ((flush fuel).run.run w).2 :=
  monotone_of_ei (fun _ => flush_ei fuel) wf
theorem sendGlobal_monotone (ty : EvTy) (pay : Payload) {w : World} (wf : w.entities.WF) :
    ((sendGlobal ty pay).run.run w).2.entities.WF ∧ EntLe w ((sendGlobal ty pay).run.run w).2 :=
  monotone_of_ei (fun _ => sendGlobal_ei ty pay) wf
theorem removeComponent_monotone (k : Key) {w : World} (wf : w.entities.WF) :
    ((removeComponent k).run.run w).2.entities.WF ∧ EntLe w ((removeComponent k).run.run w).2 :=
  monotone_of_ei (fun _ => removeComponent_ei k) wf

/-- **(A), one protocol step** -/
theorem step_monotone {w : World} {op : Op} (hv : op.Valid) (wf : w.entities.WF) :
    (step w op).1.entities.WF ∧ EntLe w (step w op).1 :=
  step_entLe hv wf

/-- **(A), every history** -/
theorem history_monotone {w : World} (ops : List Op) (hv : ∀ op ∈ ops, op.Valid) (wf : w.entities.WF) :
    (runHist w ops).entities.WF ∧ EntLe w (runHist w ops) :=
  runHist_entLe ops hv wf

/-- the empty world has a well-formed entity map: the histories of the driver start here -/
theorem init_wf : ({} : World).entities.WF := SlotMap.wf_empty

/-! ## (B) dead stays dead -/

/-- **(B)** a dead id stays dead along `EntLe`, and is not valid -/
theorem dead_stays_dead {w w' : World} {k : Key} (hd : DeadIssued w k) (hle : EntLe w w') (wf' : w'.entities.WF) :
    DeadIssued w' k ∧ w'.entities.get k = none :=
  ⟨hd.mono hle, dead_get_none wf' (hd.mono hle)⟩

/-- the same without well-formedness, for a key whose generation is not `0` (`SlotMap.dead_get_needs_wf`: one of
    the two side conditions is needed) -/
theorem dead_stays_dead' {w w' : World} {k : Key} (hd : DeadIssued w k) (hle : EntLe w w') (hk : k.gen ≠ 0) :
    DeadIssued w' k ∧ w'.entities.get k = none :=
  ⟨hd.mono hle, dead_get_none_of_gen_ne (hd.mono hle) hk⟩

/-- an issued id stays issued along `EntLe` -/
theorem issued_stays_issued {w w' : World} {k : Key} (hi : EntIssued w k) (hle : EntLe w w') : EntIssued w' k :=
  hi.mono hle

/-- **(B), every history: a dead id never becomes valid again** — for every continuation `ops` of valid operations,
    operations that panic (or hit a marker) included -/
theorem dead_never_valid_again {w : World} {k : Key} (ops : List Op) (hv : ∀ op ∈ ops, op.Valid)
    (wf : w.entities.WF) (hd : DeadIssued w k) :
    (runHist w ops).entities.contains k = false ∧ DeadIssued (runHist w ops) k := by
  obtain ⟨wf', hle⟩ := history_monotone ops hv wf
  exact ⟨dead_contains_false wf' (hd.mono hle), hd.mono hle⟩

/-- **an id that was valid and is not valid later is dead** -/
theorem valid_then_invalid_is_dead {w w1 : World} {k : Key} {l : Loc} (wf : w.entities.WF) (wf1 : w1.entities.WF)
    (hle : EntLe w w1) (hv : w.entities.get k = some l) (hn : w1.entities.get k = none) : DeadIssued w1 k :=
  dead_of_get_of_not_get wf wf1 hle hv hn

/-- **"once removed, never valid again"**, for real ids, in relational form -/
theorem removed_never_valid_again {w w1 w2 : World} {k : Key} {l : Loc} (wf : w.entities.WF) (wf1 : w1.entities.WF)
    (wf2 : w2.entities.WF) (h01 : EntLe w w1) (h12 : EntLe w1 w2) (hv : w.entities.get k = some l)
    (hn : w1.entities.get k = none) : w2.entities.get k = none :=
  (dead_stays_dead (valid_then_invalid_is_dead wf wf1 h01 hv hn) h12 wf2).2

/-- **… along histories**: an id valid in `w` that is invalid after the operations `ops1` (it was despawned, or its
    archetype was removed with a component, …) is invalid after every continuation `ops2` -/
theorem once_invalid_never_valid_again {w : World} {k : Key} {l : Loc} (ops1 ops2 : List Op)
    (hv1 : ∀ op ∈ ops1, op.Valid) (hv2 : ∀ op ∈ ops2, op.Valid) (wf : w.entities.WF)
    (hv : w.entities.get k = some l) (hn : (runHist w ops1).entities.get k = none) :
    (runHist w (ops1 ++ ops2)).entities.contains k = false := by
  obtain ⟨wf1, h1⟩ := history_monotone ops1 hv1 wf
  rw [runHist_append]
  exact (dead_never_valid_again ops2 hv2 wf1 (valid_then_invalid_is_dead wf wf1 h1 hv hn)).1

/-- a valid id is issued, and not dead -/
theorem valid_issued {w : World} {k : Key} {l : Loc} (wf : w.entities.WF) (hv : w.entities.get k = some l) :
    EntIssued w k ∧ ¬ DeadIssued w k :=
  issued_of_get wf hv

/-! ## (C) spawn freshness -/

/-- the top-level operation `spawn` (`World::spawn`), run by `step` from `w`, returns `id` -/
def SpawnRet (w : World) (id : Key) : Prop := ∃ w', opSpawn.run.run (stepInit w) = (.ok id, w')

/-- the id `spawn` returns from `w`, if it returns -/
def spawnRet? (w : World) : Option Key :=
  match (opSpawn.run.run (stepInit w)).1 with
  | .ok id => some id
  | .error _ => none

theorem spawnRet?_eq_some {w : World} {id : Key} : spawnRet? w = some id ↔ SpawnRet w id := by
  unfold spawnRet? SpawnRet
  generalize opSpawn.run.run (stepInit w) = r
  obtain ⟨(e | a), w'⟩ := r
  · exact ⟨fun h => (by cases h), fun ⟨_, h⟩ => (by cases h)⟩
  · exact ⟨fun h => (by cases h; exact ⟨w', rfl⟩), fun ⟨_, h⟩ => (by cases h; rfl)⟩

/-- what `step` does with a `spawn` that returns: the world after the step is the world `opSpawn` left -/
theorem step_spawn_of_ret {w w' : World} {id : Key} (h : opSpawn.run.run (stepInit w) = (.ok id, w')) :
    (step w .spawn).1 = w' ∧ StepOk w .spawn := by
  have hrun : (execOp .spawn).run.run (stepInit w) = (.ok [s!"ret {w'.ordOf id}", s!"id e {id.render}"], w') := by
    unfold execOp
    dsimp only
    rw [run_bind, h]
    dsimp only
    rw [run_bind, run_get]
    rfl
  refine ⟨?_, _, congrArg Prod.fst hrun⟩
  rw [step_fst_eq, hrun]

/-- the three phases of `World::spawn`: `reserve` returns the id, the `Spawn` event is sent, the caller learns the id -/
theorem opSpawn_shape {w w' : World} {id : Key} (h : opSpawn.run.run w = (.ok id, w')) :
    ∃ w0 w3, reserve.run.run w = (.ok id, w0) ∧ (sendGlobal .spawn { ent := id }).run.run w0 = (.ok (), w3) ∧
      w' = { w3 with ords := w3.ords.push id } := by
  unfold opSpawn at h
  rw [run_bind] at h
  generalize hrs : reserve.run.run w = r at h
  obtain ⟨(e | k), w0⟩ := r
  · cases h
  · dsimp only at h
    rw [run_bind] at h
    generalize hsg : (sendGlobal .spawn { ent := k }).run.run w0 = r at h
    obtain ⟨(e | u), w3⟩ := r
    · cases h
    · simp only [run_bind, run_modify, run_pure] at h
      cases h
      exact ⟨w0, w3, rfl, hsg, rfl⟩

/-- `SpawnRet` is what the driver observes: the operation returned normally, the id is the last entry of `ords` (the
    ids handed to the caller so far) and the `id e …` line of the output -/
theorem spawnRet_observed {w : World} {id : Key} (h : SpawnRet w id) :
    StepOk w .spawn ∧ (step w .spawn).1.ords.back? = some id ∧ s!"id e {id.render}" ∈ (step w .spawn).2 := by
  obtain ⟨w', h⟩ := h
  obtain ⟨h1, h2⟩ := step_spawn_of_ret h
  obtain ⟨w0, w3, -, -, hw'⟩ := opSpawn_shape h
  refine ⟨h2, ?_, ?_⟩
  · rw [h1, hw']; simp
  · have hrun : (execOp .spawn).run.run (stepInit w) = (.ok [s!"ret {w'.ordOf id}", s!"id e {id.render}"], w') := by
      unfold execOp
      dsimp only
      rw [run_bind, h]
      dsimp only
      rw [run_bind, run_get]
      rfl
    unfold step
    dsimp only
    rw [show (execOp Op.spawn).run.run { w with out := #[], edrops := [], cdrops := [], budget := BUDGET } = _ from hrun]
    simp

theorem spawnRet_unique {w : World} {id id' : Key} (h : SpawnRet w id) (h' : SpawnRet w id') : id = id' := by
  obtain ⟨w1, h⟩ := h
  obtain ⟨w2, h'⟩ := h'
  rw [h] at h'
  cases h'
  rfl

/-- nothing is reserved in the world `step` runs the operation in -/
theorem reserved_stepInit {w : World} (hr : ReachP w) (hs : Small w) : Reserved (stepInit w) [] := by
  obtain ⟨h1, h2, h3⟩ := (reserved_nil_iff w).1 (reachableP_WInv w hr hs).2.2
  exact (reserved_nil_iff _).2 ⟨h1, h2, h3⟩

/-- the id `spawn` returns is a well-shaped key: odd generation below `2^32`, index below `u32::MAX` -/
theorem spawn_id_shape {w : World} {id : Key} (hr : ReachP w) (hs : Small w) (h : SpawnRet w id) :
    id.gen % 2 = 1 ∧ id.gen < GENMOD ∧ id.idx < U32MAX := by
  obtain ⟨w', h⟩ := h
  obtain ⟨w0, w3, hres, -, -⟩ := opSpawn_shape h
  obtain ⟨hr0, -⟩ := reserve_spec (reserved_stepInit hr hs) hres
  have hr1 : Reserved w0 [id] := by simpa using hr0
  obtain ⟨sm', hm, -, -⟩ := reserved_predicts hr1 [fun _ => Loc.NULL] rfl
  unfold SlotMap.insertMany at hm
  cases hi : w0.entities.insertWith (fun _ => Loc.NULL) with
  | none => rw [hi] at hm; cases hm
  | some p =>
    obtain ⟨k', sm1⟩ := p
    rw [hi] at hm
    dsimp only at hm
    unfold SlotMap.insertMany at hm
    simp only [Option.some.injEq, Prod.mk.injEq, List.cons.injEq, and_true] at hm
    obtain ⟨h1, h2, h3, -⟩ := insertWith_key hr1.1 hi
    rw [hm.1] at h1 h2 h3
    exact ⟨h1, h2, h3⟩

/-- an issued, well-shaped key is valid or dead -/
theorem issued_valid_or_dead {sm : SlotMap Loc} (wf : sm.WF) {k : Key} (hodd : k.gen % 2 = 1) (hlt : k.gen < GENMOD)
    (h : sm.Issued k) : sm.contains k = true ∨ sm.Dead k := by
  obtain ⟨s, hs, hr⟩ := h
  rcases Nat.lt_or_ge k.gen s.rank with hlt' | hge
  · exact .inr ⟨s, hs, hlt'⟩
  · left
    have he : s.rank = k.gen := Nat.le_antisymm hge hr
    have h0 : s.gen ≠ 0 := fun h0 => by rw [Slot.rank_of_zero h0] at he; omega
    rw [Slot.rank_of_ne h0] at he
    have hval : s.val.isSome = true := (wf.valIff _ _ hs).2 (by omega)
    unfold SlotMap.contains SlotMap.get
    rw [hs]
    simp only [he, if_true]
    exact hval

/-- **(C) the id `World::spawn` returns is new** with respect to `w`: it is not valid, it is not dead, it was never
    issued — its slot does not exist yet, or is at a rank strictly below the id's generation.  From every world reached
    through normal returns and reservation-free panics. -/
theorem spawn_fresh {w : World} {id : Key} (hr : ReachP w) (hs : Small w) (h : SpawnRet w id) :
    w.entities.get id = none ∧ ¬ EntIssued w id ∧ ¬ DeadIssued w id ∧
      (id.idx < w.entities.slots.length → ∀ s, w.entities.slots[id.idx]? = some s → s.rank < id.gen) := by
  obtain ⟨w', h⟩ := h
  obtain ⟨h1, h2, h3, -⟩ := ReachStore.world_spawn_fresh_res (reserved_stepInit hr hs) h
  have hni : ¬ EntIssued w id := not_issued_of_not_covers h2
  refine ⟨?_, hni, fun hd => hni hd.issued, fun _ s hs' => ?_⟩
  · have : (stepInit w).entities.contains id = false := h1
    unfold SlotMap.contains at this
    cases hg : (stepInit w).entities.get id with
    | none => exact hg
    | some l => rw [hg] at this; cases this
  · obtain ⟨hne, hlt⟩ := h3 s hs'
    rw [Slot.rank_of_ne hne]; exact hlt

/-- **(C) the id `World::spawn` returns has been issued when the call returns** ("become valid as promised"): in the
    world after the step the id is covered by the rank of its slot … -/
theorem spawn_issued {w : World} {id : Key} (hr : ReachP w) (hs : Small (step w .spawn).1) (h : SpawnRet w id) :
    EntIssued (step w .spawn).1 id := by
  have hsw : Small w := small_of_step' w .spawn trivial hs
  obtain ⟨w', h⟩ := h
  obtain ⟨h1, hok⟩ := step_spawn_of_ret h
  have hq := (reachableP_WInv _ (ReachP.step .spawn hr trivial hok) hs).2
  rw [h1] at hq ⊢
  exact opSpawn_issued (reserved_stepInit hr hsw) h (resCount_of_reserved_nil hq.2)

/-- … that is: it is valid, or — if a handler despawned the new entity before `World::spawn` returned — dead -/
theorem spawn_valid_or_dead {w : World} {id : Key} (hr : ReachP w) (hs : Small (step w .spawn).1) (h : SpawnRet w id) :
    (step w .spawn).1.entities.contains id = true ∨ DeadIssued (step w .spawn).1 id := by
  have hsw : Small w := small_of_step' w .spawn trivial hs
  obtain ⟨hodd, hlt, -⟩ := spawn_id_shape hr hsw h
  have hwf : (step w .spawn).1.entities.WF :=
    (step_monotone (op := .spawn) trivial (reachableP_WInv w hr hsw).1.entsWF).1
  exact issued_valid_or_dead hwf hodd hlt (spawn_issued hr hs h)

/-! ### histories -/

/-- the step returned normally, or panicked without leaving a reservation pending (the steps `ReachP` follows) -/
def StepGood (w : World) (op : Op) : Prop := StepOk w op ∨ (StepPanic w op ∧ (step w op).1.resCount = 0)

/-- every operation of the history is valid and ends as `ReachP` requires -/
def GoodHist : World → List Op → Prop
  | _, [] => True
  | w, op :: ops => op.Valid ∧ StepGood w op ∧ GoodHist (step w op).1 ops

theorem GoodHist.valid {w : World} {ops : List Op} (h : GoodHist w ops) : ∀ op ∈ ops, op.Valid := by
  induction ops generalizing w with
  | nil => intro _ hm; cases hm
  | cons op ops ih =>
    intro o ho
    rcases List.mem_cons.1 ho with rfl | ho
    · exact h.1
    · exact ih h.2.2 o ho

theorem reachP_step {w : World} {op : Op} (hr : ReachP w) (hv : op.Valid) (hg : StepGood w op) :
    ReachP (step w op).1 := by
  rcases hg with hok | ⟨hp, hc⟩
  · exact ReachP.step op hr hv hok
  · exact ReachP.panic op hr hv hp hc

theorem reachP_runHist {w : World} {ops : List Op} (hr : ReachP w) (h : GoodHist w ops) : ReachP (runHist w ops) := by
  induction ops generalizing w with
  | nil => exact hr
  | cons op ops ih => exact ih (reachP_step hr h.1 h.2.1) h.2.2

/-- `Small` of the last world of a history gives `Small` of the first -/
theorem small_of_runHist {w : World} (ops : List Op) (hv : ∀ op ∈ ops, op.Valid) (hs : Small (runHist w ops)) :
    Small w := by
  induction ops generalizing w with
  | nil => exact hs
  | cons op ops ih =>
    exact small_of_step' w op (hv op (List.mem_cons_self ..))
      (ih (fun o ho => hv o (List.mem_cons_of_mem _ ho)) hs)

/-- the ids returned by the `spawn` operations of the history `ops` run from `w`, oldest first -/
def spawnIds : World → List Op → List Key
  | _, [] => []
  | w, op :: ops =>
    (match op with
     | .spawn => (spawnRet? w).toList
     | _ => []) ++ spawnIds (step w op).1 ops

/-- the ids a single operation hands out -/
theorem mem_spawnIds_head {w : World} {op : Op} {k : Key}
    (h : k ∈ (match op with | .spawn => (spawnRet? w).toList | _ => [] : List Key)) : op = .spawn ∧ SpawnRet w k := by
  cases op <;> first | (cases h; done) | skip
  refine ⟨rfl, spawnRet?_eq_some.1 ?_⟩
  simpa using h

/-- **(C), histories: no id returned by a `spawn` of the history had been issued in the world the history started
    from** — it differs from every id that is valid in `w`, and from every id that was valid earlier and is dead -/
theorem spawn_ids_fresh {w : World} {ops : List Op} (hr : ReachP w) (hg : GoodHist w ops)
    (hs : Small (runHist w ops)) : ∀ k ∈ spawnIds w ops, ¬ EntIssued w k := by
  induction ops generalizing w with
  | nil => intro k hk; cases hk
  | cons op ops ih =>
    intro k hk
    have hs0 : Small w := small_of_runHist _ hg.valid hs
    rcases List.mem_append.1 hk with hk | hk
    · obtain ⟨-, hret⟩ := mem_spawnIds_head hk
      exact (spawn_fresh hr hs0 hret).2.1
    · have h1 := ih (reachP_step hr hg.1 hg.2.1) hg.2.2 hs k hk
      exact fun hi => h1 (hi.mono (step_monotone hg.1 (reachableP_WInv w hr hs0).1.entsWF).2)

/-- every id returned by a `spawn` of the history has been issued at the end of the history -/
theorem spawn_ids_issued {w : World} {ops : List Op} (hr : ReachP w) (hg : GoodHist w ops)
    (hs : Small (runHist w ops)) : ∀ k ∈ spawnIds w ops, EntIssued (runHist w ops) k := by
  induction ops generalizing w with
  | nil => intro k hk; cases hk
  | cons op ops ih =>
    intro k hk
    have hr1 := reachP_step hr hg.1 hg.2.1
    have hs1 : Small (step w op).1 := small_of_runHist ops hg.2.2.valid hs
    rcases List.mem_append.1 hk with hk | hk
    · obtain ⟨rfl, hret⟩ := mem_spawnIds_head hk
      have hi := spawn_issued hr hs1 hret
      exact hi.mono (history_monotone ops hg.2.2.valid (reachableP_WInv _ hr1 hs1).1.entsWF).2
    · exact ih hr1 hg.2.2 hs k hk

/-- **(C), histories: the ids returned by any two different `spawn` operations are different.**  Along any history of
    valid operations — arbitrary handler programs, despawns, component removals, handler panics (without a pending
    reservation) in between — from a world reachable in the sense of `ReachP`. -/
theorem spawn_ids_pairwise_distinct {w : World} {ops : List Op} (hr : ReachP w) (hg : GoodHist w ops)
    (hs : Small (runHist w ops)) : (spawnIds w ops).Nodup := by
  induction ops generalizing w with
  | nil => exact List.nodup_nil
  | cons op ops ih =>
    have hr1 := reachP_step hr hg.1 hg.2.1
    have hs1 : Small (step w op).1 := small_of_runHist ops hg.2.2.valid hs
    have hrest := ih hr1 hg.2.2 hs
    show (_ ++ spawnIds (step w op).1 ops).Nodup
    refine List.nodup_append.2 ⟨?_, hrest, ?_⟩
    · cases op <;> first | exact List.nodup_nil | skip
      show (spawnRet? w).toList.Nodup
      cases spawnRet? w <;> simp
    · intro a ha b hb hab
      subst hab
      obtain ⟨rfl, hret⟩ := mem_spawnIds_head ha
      exact spawn_ids_fresh hr1 hg.2.2 hs a hb (spawn_issued hr hs1 hret)

/-- **(C): an id returned by `spawn` is never equal to an id that was issued at an earlier point of the history** — in
    particular not to an id that was valid at that point, whether it is still valid or has been despawned since -/
theorem spawn_id_ne_earlier {w : World} {ops : List Op} {k id : Key} (hr : ReachP w) (hg : GoodHist w ops)
    (hs : Small (runHist w ops)) (hk : EntIssued w k) (h : SpawnRet (runHist w ops) id) : id ≠ k := by
  rintro rfl
  have hwf := (reachableP_WInv w hr (small_of_runHist _ hg.valid hs)).1.entsWF
  exact (spawn_fresh (reachP_runHist hr hg) hs h).2.1 (hk.mono (history_monotone ops hg.valid hwf).2)

/-- … the same for an id that was valid at the earlier point -/
theorem spawn_id_ne_earlier_valid {w : World} {ops : List Op} {k id : Key} {l : Loc} (hr : ReachP w)
    (hg : GoodHist w ops) (hs : Small (runHist w ops)) (hk : w.entities.get k = some l)
    (h : SpawnRet (runHist w ops) id) : id ≠ k :=
  spawn_id_ne_earlier hr hg hs
    (valid_issued (reachableP_WInv w hr (small_of_runHist _ hg.valid hs)).1.entsWF hk).1 h

/-- every id returned by a `spawn` of the history is a well-shaped key -/
theorem spawn_ids_shape {w : World} {ops : List Op} (hr : ReachP w) (hg : GoodHist w ops)
    (hs : Small (runHist w ops)) : ∀ k ∈ spawnIds w ops, k.gen % 2 = 1 ∧ k.gen < GENMOD ∧ k.idx < U32MAX := by
  induction ops generalizing w with
  | nil => intro k hk; cases hk
  | cons op ops ih =>
    intro k hk
    rcases List.mem_append.1 hk with hk | hk
    · exact spawn_id_shape hr (small_of_runHist _ hg.valid hs) (mem_spawnIds_head hk).2
    · exact ih (reachP_step hr hg.1 hg.2.1) hg.2.2 hs k hk

/-- **at the end of the history every id a `spawn` returned is valid or dead** (never "not yet issued") -/
theorem spawn_ids_valid_or_dead {w : World} {ops : List Op} (hr : ReachP w) (hg : GoodHist w ops)
    (hs : Small (runHist w ops)) :
    ∀ k ∈ spawnIds w ops, (runHist w ops).entities.contains k = true ∨ DeadIssued (runHist w ops) k := by
  intro k hk
  obtain ⟨hodd, hlt, -⟩ := spawn_ids_shape hr hg hs k hk
  exact issued_valid_or_dead (reachableP_WInv _ (reachP_runHist hr hg) hs).1.entsWF hodd hlt
    (spawn_ids_issued hr hg hs k hk)

/-- the driver's histories start in the empty world -/
theorem spawn_ids_distinct_from_init {ops : List Op} (hg : GoodHist {} ops) (hs : Small (runHist {} ops)) :
    (spawnIds {} ops).Nodup ∧
    ∀ k ∈ spawnIds {} ops, (runHist {} ops).entities.contains k = true ∨ DeadIssued (runHist {} ops) k :=
  ⟨spawn_ids_pairwise_distinct .init hg hs, spawn_ids_valid_or_dead .init hg hs⟩

/-! ## (D) non-vacuity

Closed histories, evaluated by the kernel (`decide +kernel`; nothing beyond the three standard
ones). -/

/-- executable form of `GoodHist` (validity aside) -/
def goodHistB : World → List Op → Bool
  | _, [] => true
  | w, op :: ops =>
    (stepOkB w op || (stepPanicB w op && (step w op).1.resCount == 0)) && goodHistB (step w op).1 ops

theorem goodHist_of_check {w : World} {ops : List Op} (hv : ∀ op ∈ ops, op.Valid) (h : goodHistB w ops = true) :
    GoodHist w ops := by
  induction ops generalizing w with
  | nil => trivial
  | cons op ops ih =>
    unfold goodHistB at h
    simp only [Bool.and_eq_true, Bool.or_eq_true, beq_iff_eq] at h
    refine ⟨hv op (List.mem_cons_self ..), ?_, ih (fun o ho => hv o (List.mem_cons_of_mem _ ho)) h.2⟩
    rcases h.1 with hok | ⟨hp, hc⟩
    · exact .inl (stepOk_of_check hok)
    · exact .inr ⟨stepPanic_of_check hp, hc⟩

/-- spawn, despawn the new entity, spawn again -/
def demoOps : List Op := [.spawn, .despawn 0, .spawn]

theorem demoOps_valid : ∀ op ∈ demoOps, op.Valid := by
  intro op h
  simp only [demoOps, List.mem_cons, List.not_mem_nil, or_false] at h
  rcases h with rfl | rfl | rfl <;> trivial

set_option maxRecDepth 1000000 in
/-- **(D) a concrete history**: the two `spawn`s return `0v1` and `0v3` (the slot is recycled, the generation is not);
    after the history the old id is invalid — dead: the rank of slot 0 is `3 > 1` —, the new one is valid, one entity
    is live -/
theorem demo_history :
    goodHistB {} demoOps = true ∧
    spawnIds {} demoOps = [⟨0, 1⟩, ⟨0, 3⟩] ∧
    (runHist {} [.spawn]).entities.contains ⟨0, 1⟩ = true ∧
    (runHist {} [.spawn, .despawn 0]).entities.contains ⟨0, 1⟩ = false ∧
    (runHist {} demoOps).entities.contains ⟨0, 1⟩ = false ∧
    (runHist {} demoOps).entities.contains ⟨0, 3⟩ = true ∧
    (runHist {} demoOps).entities.slots.map (·.gen) = [3] ∧
    (runHist {} demoOps).entities.len = 1 := by
  decide +kernel

set_option maxRecDepth 1000000 in
theorem demo_small : Small (runHist {} demoOps) := by unfold Small; decide +kernel

theorem demo_goodHist : GoodHist {} demoOps := goodHist_of_check demoOps_valid demo_history.1

/-- the theorems apply to it … -/
example : (spawnIds {} demoOps).Nodup := spawn_ids_pairwise_distinct .init demo_goodHist demo_small

/-- … and say what the evaluation shows: the id of the despawned entity is dead after the history, and stays invalid
    after EVERY continuation -/
theorem demo_dead : DeadIssued (runHist {} demoOps) ⟨0, 1⟩ := by
  have h := spawn_ids_valid_or_dead .init demo_goodHist demo_small ⟨0, 1⟩ (by rw [demo_history.2.1]; simp)
  rcases h with h | h
  · rw [demo_history.2.2.2.2.1] at h; cases h
  · exact h

theorem demo_dead_forever (more : List Op) (hv : ∀ op ∈ more, op.Valid) :
    (runHist {} (demoOps ++ more)).entities.contains ⟨0, 1⟩ = false := by
  rw [runHist_append]
  exact (dead_never_valid_again more hv (history_monotone demoOps demoOps_valid init_wf).1 demo_dead).1

/-! ### the side condition on the generation hook is necessary

`Op.Valid` demands `g < 2^32` of `setgen n g` (the hook `verif_set_entity_generation` takes a `u32`; the model's
generations are natural numbers).  Without it the hook moves a live slot to a generation `≥ 2^32`, the next `remove`
wraps it (`(g + 1) % 2^32`) to a SMALL generation, and ids come back.  (Within `Op.Valid` the hook only moves a
generation forward — `setgen` answers `ret none` for `g < s.gen` and for even `g` — and is covered by `execOp_monotone`.) -/

/-- three entities in slot 0 (`0v1`, `0v3`, `0v5`), the last one moved to generation `2^32 + 1` by the hook, despawned
    (slot 0 wraps to generation 2), and one more `spawn` -/
def wrapOps : List Op :=
  [.spawn, .despawn 0, .spawn, .despawn 1, .spawn, .setgen 2 4294967297, .despawn 2, .spawn]

set_option maxRecDepth 1000000 in
/-- **counterexample without the side condition**: every operation returns normally, the only invalid one is the
    `setgen` beyond `u32`; after the fourth operation `0v3` is dead (slot 0 at generation 4); the last `spawn` returns
    `0v3` AGAIN — the id of the second entity, despawned long ago, is valid again, two `spawn`s returned the same id,
    and slot 0 went from generation 4 to generation 3 -/
theorem setgen_unbounded_resurrects :
    ¬ (Op.setgen 2 4294967297).Valid ∧
    goodHistB {} wrapOps = true ∧
    spawnIds {} wrapOps = [⟨0, 1⟩, ⟨0, 3⟩, ⟨0, 5⟩, ⟨0, 3⟩] ∧
    (runHist {} (wrapOps.take 4)).entities.contains ⟨0, 3⟩ = false ∧
    (runHist {} (wrapOps.take 4)).entities.slots.map (·.gen) = [4] ∧
    (runHist {} (wrapOps.take 6)).entities.slots.map (·.gen) = [4294967297] ∧
    (runHist {} wrapOps).entities.contains ⟨0, 3⟩ = true ∧
    (runHist {} wrapOps).entities.slots.map (·.gen) = [3] := by
  refine ⟨fun h => ?_, ?_⟩
  · have : (4294967297 : Nat) < GENMOD := h
    revert this; decide
  · decide +kernel

#print axioms execOp_monotone
#print axioms step_monotone
#print axioms history_monotone
#print axioms monotone_of_ei
#print axioms deliverOne_monotone
#print axioms removeComponent_monotone
#print axioms dead_stays_dead
#print axioms dead_stays_dead'
#print axioms Evenio.SlotMap.dead_get_needs_wf
#print axioms dead_never_valid_again
#print axioms valid_then_invalid_is_dead
#print axioms removed_never_valid_again
#print axioms once_invalid_never_valid_again
#print axioms spawnRet_observed
#print axioms spawn_id_shape
#print axioms spawn_fresh
#print axioms spawn_issued
#print axioms spawn_valid_or_dead
#print axioms spawn_ids_fresh
#print axioms spawn_ids_issued
#print axioms spawn_ids_pairwise_distinct
#print axioms spawn_id_ne_earlier
#print axioms spawn_id_ne_earlier_valid
#print axioms spawn_ids_valid_or_dead
#print axioms spawn_ids_distinct_from_init
#print axioms demo_history
#print axioms demo_small
#print axioms demo_dead
#print axioms demo_dead_forever
#print axioms setgen_unbounded_resurrects
#print axioms Evenio.opSpawn_issued
#print axioms Evenio.execOp_ei
#print axioms Evenio.sendGlobal_ir
#print axioms Evenio.SlotMap.le_insertWith_needs_wf
#print axioms Evenio.remove_breaks_nextIs

end C03History
end Evenio
