import Evenio.Proofs.StoreHist
import Evenio.Proofs.Safe.DeliverAux
import Evenio.Props.ReachStore
/-!
# C02 along deliveries: the component store changes ONLY through the documented channels

"Component storage behaves as a map from (entity, component type) to last value … for every history."

`Props/C02.lean`, `Props/C02World.lean`, `Props/ReachStore.lean` say what each storage primitive and each built-in
effect does to the reads.  This file closes the other direction for one whole DELIVERY with arbitrary handler programs:
nothing else writes the store.

* `World.read w e c` (Proofs/StoreHist.lean) is `World::get` written out; `read_eq_getCell`: it is `World.getCell`
  whenever the entity map is well formed — in particular in every reachable world and in every world inside a flush.
* **(A) frame of the handler phase** — from ANY world whose archetypes sit under their own index, on EVERY exit
  (normal, panic, marker): `action_frame` (every scripted action but `bump`: entity map, archetype slab and so every
  read literally unchanged — they only queue events, log, reserve ids, count), `bump_frame` / `handler_frame` /
  `handlerPhase_frame` (with `bump`: the entity map is unchanged, every `(e, c)` keeps its PRESENCE and the ledger
  SERIAL of its value — only the payload `Cell.v` of existing cells can differ —, every id keeps its component set),
  `handler_frame_nobump` (a handler whose body has no `bump` changes no read).
* **(C) one delivery** — `deliverOne_refines`: from a world satisfying the mid-flush invariant `WInvMid`, a delivery that
  returns normally ends in a world whose reads are `applySpec kind target value` of the reads the handler phase left:
  `Insert(e,c,v)` not taken, `e` alive ↦ `(e,c) := v`; `Remove(e,c)` ↦ erase `(e,c)`; `Despawn(e)` ↦ erase `(e,·)`;
  `Spawn`, user events ↦ identity; taken ↦ identity; dead target ↦ the world's store is literally untouched.
  `deliverOne_refines_reach` is the instance for a reachable world.

Stated for reads of ids that are ALIVE when the effect starts in the two cases in which `spawn_all` runs (`Spawn`,
`Despawn`): that the ids it materialises read nothing is `ReachStore.C03_spawn_delivered` (they land in the
component-less archetype 0) and is not restated here.
-/
namespace Evenio
namespace C02History

/-- `World.read` is `World::get` as `Props/C02World.lean` defines it (through the pure store) -/
theorem read_eq_getCell {w : World} (wf : w.entities.WF) (e : Key) (c : Nat) : w.read e c = w.getCell e c :=
  (world_getCell_eq wf e c).symm

/-- a read looks at two fields only -/
theorem read_congr {w w' : World} (he : w'.entities = w.entities) (ha : w'.archs = w.archs) (e : Key) (c : Nat) :
    w'.read e c = w.read e c := by
  unfold World.read; rw [he, ha]

/-! ## (A) the handler phase -/

/-- **(A) every action but `bump` leaves the store alone** — `send`, `sendto`, `spawn` (which only RESERVES an id and
    queues `Spawn`), `despawn`, `ins`, `rem` (which only queue events), `take`, `panic`, `iter`, `get`, `getMany`,
    `single`, `recv`, `ents`, `alloc`, `fwd`: on every exit the entity map is the same and every read yields the same
    cell. -/
theorem action_frame {w : World} (hidx : SlabIdx w.archs) (hk : Key) (it : QItem) (loc : Loc) (act : Act)
    (hnb : ∀ p, act ≠ .bump p) :
    let w' := ((runAct hk it loc act).run.run w).2
    w'.entities = w.entities ∧ ∀ e c, w'.read e c = w.read e c := by
  have h := (runAct_hb (E := w.entities) (H := w.handlers) (A := w.archs) (C := fun _ => False) hk it loc act
    (fun ⟨p, hp⟩ => absurd hp (hnb p))).run w (HB.init hidx _)
  exact ⟨h.1, fun e c => HB.read_eq h e c⟩

/-- **(A) `bump` (the write through the mutable items of a query) changes payloads only**: the entity map is the same,
    every id has the same component set, a cell that was absent is absent, a cell that was present is present with the
    same ledger serial. -/
theorem bump_frame {w : World} (hidx : SlabIdx w.archs) (hk : Key) (it : QItem) (loc : Loc) (act : Act) :
    let w' := ((runAct hk it loc act).run.run w).2
    w'.entities = w.entities ∧ (∀ e, w'.compsAt e = w.compsAt e) ∧
    (∀ e c, w.read e c = none → w'.read e c = none) ∧
    (∀ e c x, w.read e c = some x → ∃ y, w'.read e c = some y ∧ y.ser = x.ser) := by
  have h := (runAct_hb (E := w.entities) (H := w.handlers) (A := w.archs) (C := fun _ => True) hk it loc act
    (fun _ _ => trivial)).run w (HB.init hidx _)
  refine ⟨h.1, fun e => HB.compsAt h e, fun e c => (HB.read h e c).2, fun e c x hx => ?_⟩
  obtain ⟨y, hy, hs, -⟩ := (HB.read h e c).1 x hx
  exact ⟨y, hy, hs⟩

/-- **(A) one handler run, whatever its program and however it ends** -/
theorem handler_frame {w : World} (hidx : SlabIdx w.archs) (hk : Key) (it : QItem) (loc : Loc) :
    let w' := ((runHandler hk it loc).run.run w).2
    w'.entities = w.entities ∧ (∀ e, w'.compsAt e = w.compsAt e) ∧
    (∀ e c, w.read e c = none → w'.read e c = none) ∧
    (∀ e c x, w.read e c = some x → ∃ y, w'.read e c = some y ∧ y.ser = x.ser) := by
  have h := (runHandler_hb (E := w.entities) (H := w.handlers) (A := w.archs) (C := fun _ => True) hk it loc
    (fun _ _ _ _ _ => trivial)).run w (HB.init hidx _)
  refine ⟨h.1, fun e => HB.compsAt h e, fun e c => (HB.read h e c).2, fun e c x hx => ?_⟩
  obtain ⟨y, hy, hs, -⟩ := (HB.read h e c).1 x hx
  exact ⟨y, hy, hs⟩

/-- **(A) a handler whose body has no `bump` changes no read** -/
theorem handler_frame_nobump {w : World} (hidx : SlabIdx w.archs) (hk : Key) (it : QItem) (loc : Loc)
    (hnb : ∀ h p, w.handlers.get hk = some h → Act.bump p ∉ h.body) :
    let w' := ((runHandler hk it loc).run.run w).2
    w'.entities = w.entities ∧ ∀ e c, w'.read e c = w.read e c := by
  have h := (runHandler_hb (E := w.entities) (H := w.handlers) (A := w.archs) (C := fun _ => False) hk it loc
    (fun h p hh hb => absurd hb (hnb h p hh))).run w (HB.init hidx _)
  exact ⟨h.1, fun e c => HB.read_eq h e c⟩

/-- **(A) the whole handler phase of a delivery** (all handlers of the list, until one takes the event) -/
theorem handlerPhase_frame {w : World} (hidx : SlabIdx w.archs) (it : QItem) (info : EvInfo) (loc : Loc)
    (hs : List Key) :
    let w' := ((handlerPhase it info loc hs).run.run w).2
    w'.entities = w.entities ∧ (∀ e, w'.compsAt e = w.compsAt e) ∧
    (∀ e c, w.read e c = none → w'.read e c = none) ∧
    (∀ e c x, w.read e c = some x → ∃ y, w'.read e c = some y ∧ y.ser = x.ser) := by
  have h := (handlerPhase_hb (E := w.entities) (H := w.handlers) (A := w.archs) (C := fun _ => True) it info loc hs
    (fun _ _ _ _ _ _ _ => trivial)).run w (HB.init hidx _)
  refine ⟨h.1, fun e => HB.compsAt h e, fun e c => (HB.read h e c).2, fun e c x hx => ?_⟩
  obtain ⟨y, hy, hs, -⟩ := (HB.read h e c).1 x hx
  exact ⟨y, hy, hs⟩

/-- … and when no handler of the list bumps, the handler phase changes no read at all -/
theorem handlerPhase_frame_nobump {w : World} (hidx : SlabIdx w.archs) (it : QItem) (info : EvInfo) (loc : Loc)
    (hs : List Key) (hnb : ∀ hk ∈ hs, ∀ h p, w.handlers.get hk = some h → Act.bump p ∉ h.body) :
    let w' := ((handlerPhase it info loc hs).run.run w).2
    w'.entities = w.entities ∧ ∀ e c, w'.read e c = w.read e c := by
  have h := (handlerPhase_hb (E := w.entities) (H := w.handlers) (A := w.archs) (C := fun _ => False) it info loc hs
    (fun hk hm h p hh hb => absurd hb (hnb hk hm h p hh))).run w (HB.init hidx _)
  exact ⟨h.1, fun e c => HB.read_eq h e c⟩

/-! ## (C) one delivery -/

/-- the abstract map update of a built-in effect -/
def applySpec (kind : EvKind) (tgt : Key) (x : Cell) (r : Key → Nat → Option Cell) : Key → Nat → Option Cell :=
  match kind with
  | .insert c => fun e c' => if e = tgt ∧ c' = c then some x else r e c'
  | .remove c => fun e c' => if e = tgt ∧ c' = c then none else r e c'
  | .despawn => fun e c' => if e = tgt then none else r e c'
  | .spawn => r
  | .normal => r

/-- the handlers of a delivery changed payloads only -/
def PayloadsOnly (w wh : World) : Prop :=
  wh.entities = w.entities ∧ (∀ e, wh.compsAt e = w.compsAt e) ∧
  (∀ e c, w.read e c = none → wh.read e c = none) ∧
  (∀ e c x, w.read e c = some x → ∃ y, wh.read e c = some y ∧ y.ser = x.ser)

theorem winvMid_of_releq {w w' : World} (h : WInvMid w) (e : RelEq w w') (hi : w'.resIndex = w.resIndex)
    (hc : w'.resCount = w.resCount) : WInvMid w' := h.frame e hi hc

/-- **(C) one delivery refines the abstract map update.**  `w` satisfies the invariant of the worlds inside a flush,
    the delivery of `it` returns normally in `w'` (within the resource bound).  Then the registry knows the event
    (`info`), and either
    * the target is not alive: the entity map and the archetypes of `w'` are those of `w` (no read changes); or
    * the handler phase ran and left `wh`, which differs from `w` in payloads only (`PayloadsOnly`, (A)), and
      - a handler took the event: `w'` reads exactly as `wh`;
      - nobody took it: every id that is alive in `wh` — every id whatsoever when the effect is `Insert`, `Remove` or
        that of a user event, and the target of a targeted event — reads in `w'` what `applySpec info.kind it.target it.pay.cell` makes of the reads of
        `wh`.\n    `hreg` (a global event has no storage effect) is a fact of the registry invariant; it is kept as a hypothesis here. -/
theorem deliverOne_refines {w w' : World} {it : QItem} (hw : WInvMid w) (hs' : Small w')
    (hreg : ∀ info, w.evInfo it = some info → it.ty.targeted = false →
      info.kind = EvKind.normal ∨ info.kind = EvKind.spawn)
    (h : (deliverOne it).run.run w = (.ok (), w')) :
    ∃ info, w.evInfo it = some info ∧
      ((it.ty.targeted = true ∧ w.entities.get it.target = none ∧ w'.entities = w.entities ∧ w'.archs = w.archs) ∨
       ∃ (wh : World) (owned : Bool), PayloadsOnly w wh ∧ WInvMid wh ∧
         (it.ty.targeted = true → ∃ loc, wh.entities.get it.target = some loc) ∧
         if owned then w'.entities = wh.entities ∧ w'.archs = wh.archs
         else ∀ e, ((∃ l, wh.entities.get e = some l) ∨ (e = it.target ∧ it.ty.targeted = true) ∨
                    (info.kind ≠ EvKind.spawn ∧ info.kind ≠ EvKind.despawn)) →
                ∀ c, w'.read e c = applySpec info.kind it.target it.pay.cell wh.read e c) := by
  obtain ⟨info, hl, loc, hlook, hinfo, hm⟩ := deliverOne_ok_cases h
  refine ⟨info, hinfo, ?_⟩
  have hcases := lookupPhase_cases hlook
  cases hl with
  | none =>
    obtain ⟨ht, hdead⟩ := hcases.1.1 rfl
    refine .inl ⟨ht, hdead, ?_⟩
    dsimp only at hm
    subst hm
    split
    · unfold dropEventW
      split
      · exact ⟨rfl, rfl⟩
      · exact ⟨rfl, rfl⟩
      · unfold dropCellW; split <;> exact ⟨rfl, rfl⟩
      · exact ⟨rfl, rfl⟩
    · exact ⟨rfl, rfl⟩
  | some hl =>
    obtain ⟨owned, wh, hh, hm⟩ := hm
    have hidx : SlabIdx w.archs := hw.1.storeOk.idx
    have hfr := handlerPhase_frame hidx it info loc hl
    rw [hh] at hfr
    have hpo : PayloadsOnly w wh := hfr
    -- the world the effect starts in
    let we : World := { wh with queue := wh.queue.reverse }
    have hsmall_we : Small we := by
      cases owned with
      | true => simp only [if_true] at hm; subst hm; exact hs'
      | false =>
        simp only [Bool.false_eq_true, if_false] at hm
        exact (SafeS4.effectPhase_sl it info loc).small hm hs'
    have hsmall_wh : Small wh := hsmall_we
    have hmid0 : WInvMid { w with inflightOwned := false } := hw.frame (by releq) rfl rfl
    rw [handlerPhase_run] at hh
    have hmid_wh : WInvMid wh :=
      KeepsG.run_ok (handlerLoop_keepsW (Pieces.glue_runHandler pieces) it info loc hl) hmid0 hh hsmall_wh
    have hmid_we : WInvMid we := hmid_wh.frame (by releq) rfl rfl
    have htgt : it.ty.targeted = true → ∃ loc, wh.entities.get it.target = some loc := fun ht =>
      ⟨loc, by rw [hpo.1]; exact hcases.2.1 ht rfl⟩
    refine .inr ⟨wh, owned, hpo, hmid_wh, htgt, ?_⟩
    cases owned with
    | true =>
      simp only [if_true] at hm ⊢
      subst hm
      exact ⟨rfl, rfl⟩
    | false =>
      simp only [Bool.false_eq_true, if_false] at hm ⊢
      have hwe : WInv we := hmid_we.1
      have hwf_we : we.entities.WF := hwe.entsWF
      have hrd : ∀ e c, we.read e c = wh.read e c := fun e c => read_congr rfl rfl e c
      -- reads of the end state through `getCell`
      have hwf' : w'.entities.WF :=
        (KeepsG.run_ok (effectPhase_keepsW (Pieces.kw_traverseInsert pieces)
          (Pieces.kw_traverseRemove pieces) (Pieces.kw_moveEntity pieces) (Pieces.kw_spawnAll pieces)
          (Pieces.glue_fixedDespawn pieces) it info loc) hmid_we hm hs').1.entsWF
      intro e he c
      rw [read_eq_getCell hwf']
      show w'.getCell e c = applySpec info.kind it.target it.pay.cell we.read e c
      cases hk : info.kind with
      | normal =>
        unfold applySpec; dsimp only
        rw [effectPhase_normal hk] at hm
        have : w'.entities = we.entities ∧ w'.archs = we.archs := by
          split at hm
          · rw [run_dropEvent] at hm; cases hm
            unfold dropEventW
            split
            · exact ⟨rfl, rfl⟩
            · exact ⟨rfl, rfl⟩
            · unfold dropCellW; split <;> exact ⟨rfl, rfl⟩
            · exact ⟨rfl, rfl⟩
          · cases hm; exact ⟨rfl, rfl⟩
        rw [← read_eq_getCell hwf']
        exact read_congr this.1 this.2 e c
      | spawn =>
        unfold applySpec; dsimp only
        rw [effectPhase_spawn hk] at hm
        obtain ⟨-, hkeep⟩ := world_spawnAll hwe.storeOk hwe.hasEmpty hm
        rcases he with ⟨l, hl⟩ | ⟨rfl, ht⟩ | hne
        · rw [read_eq_getCell hwf_we]; exact (hkeep e l hl).2.1 c
        · obtain ⟨l, hl⟩ := htgt ht
          rw [read_eq_getCell hwf_we]; exact (hkeep _ l hl).2.1 c
        · exact absurd hk hne.1
      | despawn =>
        unfold applySpec; dsimp only
        have ht : it.ty.targeted = true := by
          cases hb : it.ty.targeted with
          | true => rfl
          | false => rcases hreg info hinfo hb with h1 | h1 <;> rw [hk] at h1 <;> cases h1
        have hloc : we.entities.get it.target = some loc := by
          show wh.entities.get it.target = some loc
          rw [hpo.1]; exact hcases.2.1 ht rfl
        obtain ⟨-, g2, -, g4⟩ := ReachStore.despawn_effect_reads_winv hwe hk hloc hm
        by_cases het : e = it.target
        · rw [if_pos het, het]; exact g2 c
        · rw [if_neg het, read_eq_getCell hwf_we]
          rcases he with ⟨l, hl⟩ | ⟨rfl, -⟩ | hne
          · exact (g4 e l het hl).1 c
          · exact absurd rfl het
          · exact absurd hk hne.2
      | insert ci =>
        unfold applySpec; dsimp only
        have ht : it.ty.targeted = true := by
          cases hb : it.ty.targeted with
          | true => rfl
          | false => rcases hreg info hinfo hb with h1 | h1 <;> rw [hk] at h1 <;> cases h1
        have hloc : we.entities.get it.target = some loc := by
          show wh.entities.get it.target = some loc
          rw [hpo.1]; exact hcases.2.1 ht rfl
        obtain ⟨g1, g2, -, g4⟩ := ReachStore.insert_effect_winv hwe hk hloc hm
        by_cases het : e = it.target
        · subst het
          by_cases hc : c = ci
          · subst hc; rw [if_pos ⟨rfl, rfl⟩]; exact g1
          · rw [if_neg (fun hh => hc hh.2), read_eq_getCell hwf_we]; exact g2 c hc
        · rw [if_neg (fun hh => het hh.1), read_eq_getCell hwf_we]; exact (g4 e het).1 c
      | remove ci =>
        unfold applySpec; dsimp only
        have ht : it.ty.targeted = true := by
          cases hb : it.ty.targeted with
          | true => rfl
          | false => rcases hreg info hinfo hb with h1 | h1 <;> rw [hk] at h1 <;> cases h1
        have hloc : we.entities.get it.target = some loc := by
          show wh.entities.get it.target = some loc
          rw [hpo.1]; exact hcases.2.1 ht rfl
        obtain ⟨g1, g2, -, g4⟩ := ReachStore.remove_effect_winv hwe hk hloc hm
        by_cases het : e = it.target
        · subst het
          by_cases hc : c = ci
          · subst hc; rw [if_pos ⟨rfl, rfl⟩]; exact g1
          · rw [if_neg (fun hh => hc hh.2), read_eq_getCell hwf_we]; exact g2 c hc
        · rw [if_neg (fun hh => het hh.1), read_eq_getCell hwf_we]; exact (g4 e het).1 c

/-- **(C) for a reachable world** (the first delivery of a top-level operation starts in such a world, up to the
    queued event; the deliveries after it start in worlds satisfying `WInvMid`, for which `deliverOne_refines` is the
    statement) -/
theorem deliverOne_refines_reach {w w' : World} {it : QItem} (hr : Reach w) (hs : Small w) (hs' : Small w')
    (hreg : ∀ info, w.evInfo it = some info → it.ty.targeted = false →
      info.kind = EvKind.normal ∨ info.kind = EvKind.spawn)
    (h : (deliverOne it).run.run w = (.ok (), w')) :
    ∃ info, w.evInfo it = some info ∧
      ((it.ty.targeted = true ∧ w.entities.get it.target = none ∧ w'.entities = w.entities ∧ w'.archs = w.archs) ∨
       ∃ (wh : World) (owned : Bool), PayloadsOnly w wh ∧ WInvMid wh ∧
         (it.ty.targeted = true → ∃ loc, wh.entities.get it.target = some loc) ∧
         if owned then w'.entities = wh.entities ∧ w'.archs = wh.archs
         else ∀ e, ((∃ l, wh.entities.get e = some l) ∨ (e = it.target ∧ it.ty.targeted = true) ∨
                    (info.kind ≠ EvKind.spawn ∧ info.kind ≠ EvKind.despawn)) →
                ∀ c, w'.read e c = applySpec info.kind it.target it.pay.cell wh.read e c) :=
  deliverOne_refines ⟨ReachStore.winv hr hs, [], (ReachStore.quiescent hr hs).2⟩ hs' hreg h

/-- in a reachable world (and in every world inside a flush) archetypes sit under their own index: the one hypothesis
    of the (A) theorems -/
theorem slabIdx_of_reach {w : World} (hr : Reach w) (hs : Small w) : SlabIdx w.archs :=
  (ReachStore.winv hr hs).storeOk.idx

theorem slabIdx_of_mid {w : World} (h : WInvMid w) : SlabIdx w.archs := h.1.storeOk.idx

/-! ## non-vacuity: the (A) theorems on the concrete reachable world `ReachStore.exW`

`exW` (ten kernel-evaluated operations) has the live entity `0v1` with `K0 = 7` and the handler `0v1`
(`Receiver<G0>`, `Fetcher<&K0>`, body `iter`).  The (A) theorems speak about `(… .run.run w).2` for EVERY exit, so their
instances are statements about actual runs of the model from `exW`. -/

example (it : QItem) (loc : Loc) (act : Act) (hnb : ∀ p, act ≠ .bump p) (e : Key) (c : Nat) :
    ((runAct ⟨0, 1⟩ it loc act).run.run ReachStore.exW).2.read e c = ReachStore.exW.read e c :=
  (action_frame (slabIdx_of_reach ReachStore.exW_reach ReachStore.exW_small) ⟨0, 1⟩ it loc act hnb).2 e c

example (it : QItem) (info : EvInfo) (loc : Loc) (hs : List Key) (e : Key) :
    ((handlerPhase it info loc hs).run.run ReachStore.exW).2.compsAt e = ReachStore.exW.compsAt e :=
  (handlerPhase_frame (slabIdx_of_reach ReachStore.exW_reach ReachStore.exW_small) it info loc hs).2.1 e

end C02History
end Evenio

#print axioms Evenio.HB.read
#print axioms Evenio.bumpCell_hb
#print axioms Evenio.runAct_hb
#print axioms Evenio.runHandler_hb
#print axioms Evenio.handlerPhase_hb
#print axioms Evenio.C02History.action_frame
#print axioms Evenio.C02History.bump_frame
#print axioms Evenio.C02History.handler_frame
#print axioms Evenio.C02History.handler_frame_nobump
#print axioms Evenio.C02History.handlerPhase_frame
#print axioms Evenio.C02History.handlerPhase_frame_nobump
#print axioms Evenio.C02History.deliverOne_refines
#print axioms Evenio.C02History.deliverOne_refines_reach
