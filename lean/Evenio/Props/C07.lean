import Evenio.Proofs.HandlerList
/-!
# C07 — handler order

> "For every delivered event the receiving handlers run High before Medium before Low and, within a
> priority, in the order they were added to the world — regardless of earlier handler removals and
> re-additions …"

`World::send`/`flush` walks `HandlerList::slice()` front to back, so the order in which the receiving
handlers run IS the order of `entries`.  This file proves, for an arbitrary element type and arbitrary
histories of `insert`/`remove` starting from `HandlerList::new()`, that `entries` lists the live handlers
sorted by (priority class, insertion serial), that the two cursors delimit exactly the three priority
classes, and that the members are exactly the handlers that are live according to the history.

Modelling of "order in which they were added": every `insert` in a history carries a serial number
`n` that is at least the running counter (`World::add_handler` allocates a fresh `HandlerIdx`/pointer for
every add, and the harness numbers the adds); the handler's key is `key p = (priority, serial)`.  A handler
that is removed and added again is a NEW element with a larger serial (in evenio a re-added handler gets a
new `HandlerInfo` allocation and a new id) — with a fixed `key` the side condition of `Hist.ins` forces
this.
-/
namespace Evenio
namespace HandlerList
variable {ρ : Type}

def prioRank : Priority → Nat
  | .high => 0
  | .medium => 1
  | .low => 2

/-- strict lexicographic order on (priority class, insertion serial) -/
def keyLt (k₁ k₂ : Priority × Nat) : Prop :=
  prioRank k₁.1 < prioRank k₂.1 ∨ (prioRank k₁.1 = prioRank k₂.1 ∧ k₁.2 < k₂.2)

/-- `entries` is sorted by (priority class, serial) and each cursor segment holds only its class -/
structure SortedBy (key : ρ → Priority × Nat) (hl : HandlerList ρ) : Prop where
  sorted : hl.entries.Pairwise (fun x y => keyLt (key x) (key y))
  hi_prio : ∀ x ∈ hl.hi, (key x).1 = .high
  me_prio : ∀ x ∈ hl.me, (key x).1 = .medium
  lo_prio : ∀ x ∈ hl.lo, (key x).1 = .low

theorem sortedBy_empty (key : ρ → Priority × Nat) : SortedBy key ({} : HandlerList ρ) :=
  ⟨List.Pairwise.nil, by simp [hi], by simp [me], by simp [lo]⟩

theorem keyLt_irrefl (k : Priority × Nat) : ¬ keyLt k k := by
  simp [keyLt]

theorem SortedBy.nodup {key : ρ → Priority × Nat} {hl : HandlerList ρ} (h : SortedBy key hl) :
    hl.entries.Nodup :=
  h.sorted.imp fun {a b} hab (e : a = b) => by subst e; exact keyLt_irrefl _ hab

/-- each segment contains EXACTLY the live elements of its priority -/
theorem SortedBy.mem_hi_iff {key : ρ → Priority × Nat} {hl : HandlerList ρ} (hs : SortedBy key hl)
    (hi : Inv hl) (x : ρ) : x ∈ hl.hi ↔ x ∈ hl.entries ∧ (key x).1 = .high := by
  have h1 := hs.hi_prio x; have h2 := hs.me_prio x; have h3 := hs.lo_prio x
  rw [entries_eq_segments hi]; simp only [List.mem_append]
  grind

theorem SortedBy.mem_me_iff {key : ρ → Priority × Nat} {hl : HandlerList ρ} (hs : SortedBy key hl)
    (hi : Inv hl) (x : ρ) : x ∈ hl.me ↔ x ∈ hl.entries ∧ (key x).1 = .medium := by
  have h1 := hs.hi_prio x; have h2 := hs.me_prio x; have h3 := hs.lo_prio x
  rw [entries_eq_segments hi]; simp only [List.mem_append]
  grind

theorem SortedBy.mem_lo_iff {key : ρ → Priority × Nat} {hl : HandlerList ρ} (hs : SortedBy key hl)
    (hi : Inv hl) (x : ρ) : x ∈ hl.lo ↔ x ∈ hl.entries ∧ (key x).1 = .low := by
  have h1 := hs.hi_prio x; have h2 := hs.me_prio x; have h3 := hs.lo_prio x
  rw [entries_eq_segments hi]; simp only [List.mem_append]
  grind

/-- A handler inserted with a serial larger than every live serial keeps the list sorted. -/
theorem insert_sorted {key : ρ → Priority × Nat} {hl : HandlerList ρ} (hs : SortedBy key hl)
    (hi : Inv hl) {p : ρ} {prio : Priority} {n : Nat} (hk : key p = (prio, n))
    (hn : ∀ x ∈ hl.entries, (key x).2 < n) : SortedBy key (hl.insert p prio) := by
  obtain ⟨s, h1, h2, h3⟩ := hs
  rw [eq_mk3 hi] at s h1 h2 h3 hn ⊢
  generalize hl.hi = a at *
  generalize hl.me = b at *
  generalize hl.lo = c at *
  simp only [hi_mk3, me_mk3, lo_mk3, entries_mk3, List.pairwise_append, List.mem_append] at *
  rw [insert_mk3]
  cases prio
  · refine ⟨?_, ?_, ?_, ?_⟩
    · simp only [entries_mk3, List.pairwise_append, List.mem_append, List.mem_singleton,
        List.pairwise_cons, List.Pairwise.nil, List.not_mem_nil]
      simp only [keyLt, prioRank] at *
      grind
    all_goals simp only [hi_mk3, me_mk3, lo_mk3, List.mem_append, List.mem_singleton]
    all_goals grind
  · refine ⟨?_, ?_, ?_, ?_⟩
    · simp only [entries_mk3, List.pairwise_append, List.mem_append, List.mem_singleton,
        List.pairwise_cons, List.Pairwise.nil, List.not_mem_nil]
      simp only [keyLt, prioRank] at *
      grind
    all_goals simp only [hi_mk3, me_mk3, lo_mk3, List.mem_append, List.mem_singleton]
    all_goals grind
  · refine ⟨?_, ?_, ?_, ?_⟩
    · simp only [entries_mk3, List.pairwise_append, List.mem_append, List.mem_singleton,
        List.pairwise_cons, List.Pairwise.nil, List.not_mem_nil]
      simp only [keyLt, prioRank] at *
      grind
    all_goals simp only [hi_mk3, me_mk3, lo_mk3, List.mem_append, List.mem_singleton]
    all_goals grind

/-- Removing a handler keeps the list sorted and the segments pure. -/
theorem remove_sorted [DecidableEq ρ] {key : ρ → Priority × Nat} {hl : HandlerList ρ}
    (hs : SortedBy key hl) (hi : Inv hl) (p : ρ) : SortedBy key (hl.remove p) := by
  obtain ⟨h1, h2, h3⟩ := remove_segments hi hs.nodup p
  refine ⟨?_, ?_, ?_, ?_⟩
  · rw [remove_entries]; exact hs.sorted.sublist List.erase_sublist
  · rw [h1]; exact fun x hx => hs.hi_prio x (List.mem_of_mem_erase hx)
  · rw [h2]; exact fun x hx => hs.me_prio x (List.mem_of_mem_erase hx)
  · rw [h3]; exact fun x hx => hs.lo_prio x (List.mem_of_mem_erase hx)

/-! ### histories -/

/-- one mutation of a handler list: `World::add_handler` / `World::remove_handler` reach the list only
    through `insert` and `remove` -/
inductive Op (ρ : Type)
  | ins (p : ρ) (prio : Priority)
  | rem (p : ρ)

def Op.apply [DecidableEq ρ] (hl : HandlerList ρ) : Op ρ → HandlerList ρ
  | .ins p prio => hl.insert p prio
  | .rem p => hl.remove p

/-- run a history (oldest operation first) -/
def run [DecidableEq ρ] (hl : HandlerList ρ) (ops : List (Op ρ)) : HandlerList ρ :=
  ops.foldl Op.apply hl

/-- `Hist key c ops`: every insert in `ops` carries the priority recorded in `key` and a serial that is at
    least the running counter `c`; the counter then moves past it (the world's insert counter).  Removes
    are unconstrained (absent elements, repeated removes, … are all allowed). -/
inductive Hist (key : ρ → Priority × Nat) : Nat → List (Op ρ) → Prop
  | nil (c : Nat) : Hist key c []
  | ins {c n : Nat} {p : ρ} {prio : Priority} {ops : List (Op ρ)} :
      key p = (prio, n) → c ≤ n → Hist key (n + 1) ops → Hist key c (.ins p prio :: ops)
  | rem {c : Nat} {p : ρ} {ops : List (Op ρ)} : Hist key c ops → Hist key c (.rem p :: ops)

/-- the handlers that are live after a history, as a specification on sets: an insert adds, a remove
    deletes -/
def liveAfter [DecidableEq ρ] (live : List ρ) : List (Op ρ) → List ρ
  | [] => live
  | .ins p _ :: ops => liveAfter (p :: live) ops
  | .rem p :: ops => liveAfter (live.filter (· != p)) ops

/-- the invariant carried through a history -/
structure Good (key : ρ → Priority × Nat) (c : Nat) (hl : HandlerList ρ) : Prop where
  inv : Inv hl
  sorted : SortedBy key hl
  below : ∀ x ∈ hl.entries, (key x).2 < c

theorem good_empty (key : ρ → Priority × Nat) : Good key 0 ({} : HandlerList ρ) :=
  ⟨inv_empty, sortedBy_empty key, by simp⟩

theorem Good.insert {key : ρ → Priority × Nat} {c n : Nat} {hl : HandlerList ρ} (g : Good key c hl)
    {p : ρ} {prio : Priority} (hk : key p = (prio, n)) (hc : c ≤ n) :
    Good key (n + 1) (hl.insert p prio) := by
  refine ⟨insert_inv g.inv p prio,
    insert_sorted g.sorted g.inv hk (fun x hx => Nat.lt_of_lt_of_le (g.below x hx) hc), ?_⟩
  intro x hx
  rcases (mem_insert hl p prio x).1 hx with rfl | hx
  · rw [hk]; exact Nat.lt_succ_self n
  · exact Nat.lt_succ_of_lt (Nat.lt_of_lt_of_le (g.below x hx) hc)

theorem Good.remove [DecidableEq ρ] {key : ρ → Priority × Nat} {c : Nat} {hl : HandlerList ρ}
    (g : Good key c hl) (p : ρ) : Good key c (hl.remove p) :=
  ⟨remove_inv g.inv p, remove_sorted g.sorted g.inv p,
    fun x hx => g.below x ((mem_remove g.sorted.nodup p x).1 hx).2⟩

theorem Good.run [DecidableEq ρ] {key : ρ → Priority × Nat} {c : Nat} {ops : List (Op ρ)}
    (h : Hist key c ops) : ∀ {hl : HandlerList ρ}, Good key c hl → ∃ c', Good key c' (run hl ops) := by
  induction h with
  | nil c => exact fun g => ⟨c, g⟩
  | ins hk hc _ ih => exact fun g => ih (g.insert hk hc)
  | rem _ ih => exact fun g => ih (g.remove _)

/-- membership after a history is exactly the set-level specification -/
theorem Good.mem_run [DecidableEq ρ] {key : ρ → Priority × Nat} {c : Nat} {ops : List (Op ρ)}
    (h : Hist key c ops) : ∀ {hl : HandlerList ρ} {live : List ρ}, Good key c hl →
      (∀ x, x ∈ hl.entries ↔ x ∈ live) → ∀ x, x ∈ (HandlerList.run hl ops).entries ↔ x ∈ liveAfter live ops := by
  induction h with
  | nil c => exact fun _ hm => hm
  | @ins c n p prio ops hk hc _ ih =>
    intro hl live g hm
    refine ih (g.insert hk hc) fun x => ?_
    show x ∈ (hl.insert p prio).entries ↔ _
    rw [mem_insert, List.mem_cons, hm]
  | @rem c p ops _ ih =>
    intro hl live g hm
    refine ih (g.remove p) fun x => ?_
    show x ∈ (hl.remove p).entries ↔ _
    rw [mem_remove g.sorted.nodup, List.mem_filter, hm]
    simp [and_comm]

/-- **C07, list form.** After ANY sequence of inserts (each with a serial at least the running counter,
    as the world's insert counter guarantees) and removes starting from `HandlerList::new()`:
    the cursors are in range, `entries` is strictly sorted by (priority class, insertion serial), the
    three cursor segments are pure, there are no duplicates, and the members are exactly the live
    handlers. -/
theorem history_sorted [DecidableEq ρ] {key : ρ → Priority × Nat} {ops : List (Op ρ)}
    (h : Hist key 0 ops) :
    Inv (run {} ops) ∧ SortedBy key (run {} ops) ∧ (run ({} : HandlerList ρ) ops).entries.Nodup ∧
      ∀ x, x ∈ (run ({} : HandlerList ρ) ops).entries ↔ x ∈ liveAfter [] ops := by
  obtain ⟨c', g⟩ := Good.run h (good_empty key)
  exact ⟨g.inv, g.sorted, g.sorted.nodup, Good.mem_run h (good_empty key) (fun x => by simp)⟩

/-- **C07, delivery-order form.** The handlers are visited in the order of `entries` (index order of
    `HandlerList::slice()`).  For any two positions `i < j` after any history: the handler at `i` has a
    strictly higher priority class (High before Medium before Low), or the same class and was added
    earlier. -/
theorem history_order [DecidableEq ρ] {key : ρ → Priority × Nat} {ops : List (Op ρ)}
    (h : Hist key 0 ops) (i j : Nat) (hij : i < j)
    (hj : j < (run ({} : HandlerList ρ) ops).entries.length) :
    let es := (run ({} : HandlerList ρ) ops).entries
    prioRank (key es[i]).1 < prioRank (key es[j]).1 ∨
      ((key es[i]).1 = (key es[j]).1 ∧ (key es[i]).2 < (key es[j]).2) := by
  intro es
  have hs := (history_sorted h).2.1.sorted
  have := List.pairwise_iff_getElem.1 hs i j (Nat.lt_trans hij hj) hj hij
  rcases this with h1 | ⟨h1, h2⟩
  · exact .inl h1
  · refine .inr ⟨?_, h2⟩
    revert h1
    cases (key es[i]).1 <;> cases (key es[j]).1 <;> simp [prioRank]

/-! ### non-vacuity -/
section Examples

/-- handlers are named by their serial; priorities: 0 low, 1 high, 2 medium, 3 high, 4 medium, 5 low,
    6 high (a re-addition of "1" after its removal gets the new name 6) -/
def exKey : Nat → Priority × Nat
  | 0 => (.low, 0) | 1 => (.high, 1) | 2 => (.medium, 2) | 3 => (.high, 3)
  | 4 => (.medium, 4) | 5 => (.low, 5) | n => (.high, n)

def exOps : List (Op Nat) :=
  [.ins 0 .low, .ins 1 .high, .ins 2 .medium, .ins 3 .high, .rem 1, .ins 4 .medium, .rem 9,
   .ins 5 .low, .ins 6 .high, .rem 2]

example : Hist exKey 0 exOps := by
  repeat (first | exact .nil _ | apply Hist.rem | refine Hist.ins (n := _) rfl (by decide) ?_)

example : (run {} exOps : HandlerList Nat).before = 2 ∧ (run {} exOps : HandlerList Nat).after = 3 ∧
    (run {} exOps : HandlerList Nat).entries = [3, 6, 4, 0, 5] := by decide

example : (run {} exOps : HandlerList Nat).hi = [3, 6] ∧ (run {} exOps : HandlerList Nat).me = [4] ∧
    (run {} exOps : HandlerList Nat).lo = [0, 5] := by decide

example : liveAfter [] exOps = [6, 5, 4, 3, 0] := by decide

/-- the side condition on serials is needed: inserting with a stale serial breaks sortedness, so
    `insert_sorted` is not vacuous in that hypothesis -/
example : ¬ SortedBy (fun n : Nat => (Priority.high, 5 - n))
    (((({} : HandlerList Nat).insert 0 .high).insert 1 .high)) := by
  intro h
  have := h.sorted
  simp [insert, insertAt, keyLt] at this

/-- without `Nodup`, `remove` only takes the first occurrence (why `remove_segments` asks for it) -/
example : ((mk3 [1] [1] [1] : HandlerList Nat).remove 1).hi = [] ∧
    ((mk3 [1] [1] [1] : HandlerList Nat).remove 1).me = [1] ∧
    ((mk3 [1] [1] [1] : HandlerList Nat).remove 1).lo = [1] := by decide

end Examples

end HandlerList
end Evenio

#print axioms Evenio.HandlerList.insert_inv
#print axioms Evenio.HandlerList.remove_inv
#print axioms Evenio.HandlerList.inv_empty
#print axioms Evenio.HandlerList.insert_segments
#print axioms Evenio.HandlerList.remove_segments
#print axioms Evenio.HandlerList.remove_segments'
#print axioms Evenio.HandlerList.remove_segments_filter
#print axioms Evenio.HandlerList.remove_of_not_mem
#print axioms Evenio.HandlerList.mem_insert
#print axioms Evenio.HandlerList.mem_remove
#print axioms Evenio.HandlerList.nodup_insert
#print axioms Evenio.HandlerList.nodup_remove
#print axioms Evenio.HandlerList.insert_sorted
#print axioms Evenio.HandlerList.remove_sorted
#print axioms Evenio.HandlerList.history_sorted
#print axioms Evenio.HandlerList.history_order
