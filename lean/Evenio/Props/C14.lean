import Evenio.Proofs.Graph
/-!
# C14 — removing a component type leaves no trace of it

"Removing a component type … Afterwards no entity, handler, event or archetype mentions the type, all other entities
and handlers are untouched, and the world keeps working — including re-registering the same or another component
type …"

The defect behind this property (F4) was in the archetype graph: `Archetypes::remove_component` unlinked a removed
archetype only from the neighbours that the removed archetype ITSELF had recorded.  Cached transitions are recorded
on one side only when the destination already exists (`traverse_insert` finding the set through `by_components`),
so an insert-edge INTO a removed archetype could survive on a surviving archetype, and was followed after the index
had been freed or reused.  The repair is a final sweep deleting the insert-edge labelled with the removed component
from every surviving archetype.

* edge-table laws (`edgeGet_edgeInsert_same`, …) and sorted-list laws (`insertSorted_*`, `filter_ne_sorted`) — the
  `BTreeMap` / `binary_search` model behaves like a map / a sorted set;
* `sweep_no_edge` — after the sweep no live archetype has an insert-edge labelled with the removed component; all
  other edges and all other fields are unchanged, the set of live indices is unchanged;
* `sweep_loop_is_sweepEdges` / `archsRemoveComponent_ends_with_sweep` / `archsRemoveComponent_no_edge` — the last
  loop of the model's `archsRemoveComponent` IS that pure function, and whenever `archsRemoveComponent` returns, no
  live archetype has an insert-edge labelled with the removed component;
* `edges_into_removed_are_labelled` — under the edge invariant, an edge from an archetype WITHOUT `r` into an
  archetype WITH `r` is an insert-edge labelled `r`; a remove-edge from an archetype without `r` never leads to one
  with `r`.  `repair_restores_edges`: hence deleting the archetypes containing `r` and, on the survivors, the
  insert-edges labelled `r` re-establishes the edge invariant;
* `stale_edge_counterexample` — on the F4 history the pre-fix clean-up leaves an edge to a dead index, the sweep
  removes it;
* `archsRemoveComponent_keeps_graph` — the model's `Archetypes::remove_component` as a whole: started with a
  consistent archetype graph and a `member_of` listing exactly the archetypes having the component, it ends (if it
  returns) with a consistent graph (`GraphOK`: slab, indices, sorted pairwise distinct sets, every cached edge
  leads to a live archetype differing by exactly its label) in which exactly the archetypes with the component are
  gone and all others keep their rows, columns, capacity, epoch, refresh listeners and listener tables.
-/
namespace Evenio

/-! ## 1. the edge tables and sorted component lists (proved in Proofs/Edges.lean) -/

theorem C14_edge_table_laws (m : List (Nat × Nat)) (k v : Nat) :
    edgeGet (edgeInsert m k v) k = some v ∧
    (∀ k2, k2 ≠ k → edgeGet (edgeInsert m k v) k2 = edgeGet m k2) ∧
    edgeGet (edgeRemove m k) k = none ∧
    (∀ k2, k2 ≠ k → edgeGet (edgeRemove m k) k2 = edgeGet m k2) ∧
    (∀ d, (k, d) ∉ edgeRemove m k) ∧
    ((m.map (·.1)).Pairwise (· < ·) → ((edgeInsert m k v).map (·.1)).Pairwise (· < ·)) ∧
    ((m.map (·.1)).Pairwise (· < ·) → ((edgeRemove m k).map (·.1)).Pairwise (· < ·)) :=
  ⟨edgeGet_edgeInsert_same m k v, fun _ h => edgeGet_edgeInsert_other m k v h, edgeGet_edgeRemove_same m k,
   fun _ h => edgeGet_edgeRemove_other m k h, edgeRemove_no_label m k, fun h => edgeInsert_sorted h k v,
   fun h => edgeRemove_sorted h k⟩

theorem C14_sorted_set_laws (l : List Nat) (c : Nat) (hs : strictlySorted l = true) :
    (∀ x, x ∈ insertSorted l c ↔ x = c ∨ x ∈ l) ∧
    strictlySorted (insertSorted l c) = true ∧
    (c ∈ l → insertSorted l c = l) ∧
    (c ∉ l → insertSorted l c ≠ l ∧ (insertSorted l c).filter (· != c) = l) ∧
    strictlySorted (l.filter (· != c)) = true ∧
    (c ∈ l → insertSorted (l.filter (· != c)) c = l) := by
  rw [strictlySorted_iff] at hs
  refine ⟨mem_insertSorted_edges l c, (strictlySorted_iff _).2 (insertSorted_sorted hs c), insertSorted_of_mem hs,
    fun h => ⟨insertSorted_ne_of_not_mem h, filter_insertSorted h⟩, (strictlySorted_iff _).2 (filter_ne_sorted hs c),
    insertSorted_filter hs⟩

/-! ## 2. the final sweep -/

/-- After the sweep: the live indices are the same; every live archetype is the old one minus its insert-edge
    labelled `removed` — so no such edge is left, every other insert-edge, every remove-edge and every other field
    is unchanged.  FORCED HYPOTHESIS `IndexOK`: archetypes are stored under their own `index` (the loop writes back
    through `setArch`, i.e. under `a.index`); it is a conjunct of `World.invArch`. -/
theorem sweep_no_edge {archs : Slab Arch} (hi : IndexOK archs) (removed : Nat) :
    (∀ j, ((sweepEdges archs removed).get j).isSome = (archs.get j).isSome) ∧
    (∀ j b, (sweepEdges archs removed).get j = some b →
      ∃ a, archs.get j = some a ∧
        (∀ d, (removed, d) ∉ b.insEdges) ∧ edgeGet b.insEdges removed = none ∧
        (∀ c d, c ≠ removed → ((c, d) ∈ b.insEdges ↔ (c, d) ∈ a.insEdges)) ∧
        (∀ c, c ≠ removed → edgeGet b.insEdges c = edgeGet a.insEdges c) ∧
        b.remEdges = a.remEdges ∧ b.index = a.index ∧ b.comps = a.comps ∧ b.cols = a.cols ∧ b.ids = a.ids ∧
        b.cap = a.cap ∧ b.epoch = a.epoch ∧ b.refresh = a.refresh ∧ b.listeners = a.listeners) := by
  refine ⟨fun j => ?_, fun j b hb => ?_⟩
  · rw [sweepEdges_get hi]; cases archs.get j <;> rfl
  · rw [sweepEdges_get hi] at hb
    cases ha : archs.get j with
    | none => rw [ha] at hb; cases hb
    | some a =>
      rw [ha] at hb
      cases hb
      refine ⟨a, rfl, edgeRemove_no_label _ _, edgeGet_edgeRemove_same _ _, fun c d hc => ?_,
        fun c hc => edgeGet_edgeRemove_other _ _ hc, rfl, rfl, rfl, rfl, rfl, rfl, rfl, rfl, rfl⟩
      rw [Arch.dropIns_insEdges, mem_edgeRemove]
      exact ⟨fun h => h.1, fun h => ⟨h, hc⟩⟩

/-- the monadic loop (the text of the last loop of `archsRemoveComponent`) equals the pure sweep; it cannot fail -/
theorem sweep_loop_is_sweepEdges (removed : Nat) (w : World) :
    (do for (_, a) in (← get).archs.toList do
          setArch { a with insEdges := edgeRemove a.insEdges removed } : M Unit).run.run w
      = (.ok (), { w with archs := sweepEdges w.archs removed }) :=
  run_sweepM removed w

section
private theorem ubErr_idx {α : Type} (s : String) : Keeps (fun w => IndexOK w.archs) (ubErr s : M α) := by
  unfold ubErr; keeps
private theorem dropCell_idx (ty : Nat) (c : Cell) : Keeps (fun w => IndexOK w.archs) (dropCell ty c) := by
  unfold dropCell; keeps
private theorem handlerRemoveArch_idx (hk : Key) (a : Arch) :
    Keeps (fun w => IndexOK w.archs) (handlerRemoveArch hk a) := by
  unfold handlerRemoveArch
  keeps
  exact ubErr_idx _

local macro_rules | `(tactic| keeps_leaf) => `(tactic| first
  | exact ubErr_idx _ | exact dropCell_idx _ _ | exact handlerRemoveArch_idx _ _ | exact setArch_indexOK _)

/-- `IndexOK` is kept by everything `archsRemoveComponent` does before the sweep and by the sweep itself, and the
    sweep is the last thing it does: whenever `archsRemoveComponent` returns, no live archetype has an insert-edge
    labelled with the removed component index. -/
theorem archsRemoveComponent_no_edge (info : CompInfo) :
    HoareOk (fun w => IndexOK w.archs) (archsRemoveComponent info)
      (fun _ w' => IndexOK w'.archs ∧ ∀ j b, w'.archs.get j = some b → ∀ d, (info.id.idx, d) ∉ b.insEdges) := by
  unfold archsRemoveComponent
  refine HoareOk.bind (R := fun _ w => IndexOK w.archs) (HoareOk.of_keeps ?_) (fun _ => ?_)
  · keeps
    · next hidx _ _ _ hrem => exact Keeps.set (hidx.remove hrem)
    · refine Keeps.modify fun w h => ?_
      split
      · exact h
      · exact h
  · refine ⟨fun w hw u w' hr => ?_⟩
    have := run_sweepM info.id.idx w
    unfold sweepM at this
    rw [this] at hr
    cases hr
    refine ⟨sweepEdges_indexOK hw _, fun j b hb d => ?_⟩
    obtain ⟨a, -, h, -⟩ := (sweep_no_edge hw info.id.idx).2 j b hb
    exact h d

/-- the same as a statement about runs: the final state is the sweep of an intermediate state -/
theorem archsRemoveComponent_ends_with_sweep (info : CompInfo) (w w' : World)
    (h : (archsRemoveComponent info).run.run w = (.ok (), w')) :
    ∃ w1 : World, w' = { w1 with archs := sweepEdges w1.archs info.id.idx } := by
  unfold archsRemoveComponent at h
  rw [run_bind] at h
  split at h
  · next u w1 _ =>
    have := run_sweepM info.id.idx w1
    unfold sweepM at this
    rw [this] at h
    cases h
    exact ⟨w1, rfl⟩
  · cases h
end

/-! ## 3. why the sweep is enough -/

/-- on component sets: an insert-edge from a set without `r` into a set with `r` is labelled `r`; a remove-edge
    from a set without `r` never reaches a set with `r` -/
theorem edges_into_removed_are_labelled_sets {src dst : List Nat} {c r : Nat} (hs : r ∉ src) :
    (dst = insertSorted src c → r ∈ dst → c = r) ∧ (dst = src.filter (· != c) → r ∉ dst) :=
  ⟨fun hd hr => ins_edge_into_removed_is_labelled hd hs hr, fun hd => rem_edge_never_into_removed hd hs⟩

/-- in a world satisfying the edge invariant: every cached transition from a live archetype WITHOUT component `r`
    into a live archetype WITH `r` is an insert-edge labelled `r` — there is no such remove-edge at all -/
theorem edges_into_removed_are_labelled {w : World} (hinv : w.invEdges = true) {i : Nat} {a : Arch}
    (ha : w.archs.get i = some a) {r : Nat} (hr : r ∉ a.comps) :
    (∀ c d b, (c, d) ∈ a.insEdges → w.archs.get d = some b → r ∈ b.comps → c = r) ∧
    (∀ c d b, (c, d) ∈ a.remEdges → w.archs.get d = some b → r ∉ b.comps) := by
  obtain ⟨h1, h2⟩ := (invEdges_iff w).1 hinv i a ha
  refine ⟨fun c d b hcd hb hrb => ?_, fun c d b hcd hb => ?_⟩
  · obtain ⟨b', hb', -, hc⟩ := h1 c d hcd
    rw [hb] at hb'; cases hb'
    exact ins_edge_into_removed_is_labelled hc hr hrb
  · obtain ⟨b', hb', -, hc⟩ := h2 c d hcd
    rw [hb] at hb'; cases hb'
    exact rem_edge_never_into_removed hc hr

/-- The repaired clean-up re-establishes the edge invariant.  `get` is the archetype table before, `get'` after:
    the survivors are exactly the archetypes without `r` (`hkeep`, `hsurv`), with their component sets; a survivor
    keeps a subset of its edges, and none of its insert-edges is labelled `r` (what the sweep guarantees,
    `sweep_no_edge`).  Then every edge of every survivor leads to a survivor and differs by exactly its label. -/
theorem repair_restores_edges {get get' : Nat → Option Arch} {r : Nat}
    (hok : ∀ i a, get i = some a → EdgesOK get a)
    (hsurv : ∀ i a', get' i = some a' → ∃ a, get i = some a ∧ r ∉ a.comps ∧ a'.comps = a.comps ∧
      (∀ c d, (c, d) ∈ a'.insEdges → (c, d) ∈ a.insEdges ∧ c ≠ r) ∧
      (∀ c d, (c, d) ∈ a'.remEdges → (c, d) ∈ a.remEdges))
    (hkeep : ∀ i a, get i = some a → r ∉ a.comps → ∃ a', get' i = some a' ∧ a'.comps = a.comps) :
    ∀ i a', get' i = some a' → EdgesOK get' a' := by
  intro i a' ha'
  obtain ⟨a, ha, hra, hcomps, hins, hrem⟩ := hsurv i a' ha'
  obtain ⟨h1, h2⟩ := hok i a ha
  refine ⟨fun c d hcd => ?_, fun c d hcd => ?_⟩
  · obtain ⟨hcd', hcr⟩ := hins c d hcd
    obtain ⟨b, hb, hca, hbc⟩ := h1 c d hcd'
    have hrb : r ∉ b.comps := fun hm => hcr (ins_edge_into_removed_is_labelled hbc hra hm)
    obtain ⟨b', hb', hbc'⟩ := hkeep d b hb hrb
    exact ⟨b', hb', hcomps ▸ hca, by rw [hbc', hbc, hcomps]⟩
  · have hcd' := hrem c d hcd
    obtain ⟨b, hb, hca, hbc⟩ := h2 c d hcd'
    have hrb : r ∉ b.comps := rem_edge_never_into_removed hbc hra
    obtain ⟨b', hb', hbc'⟩ := hkeep d b hb hrb
    exact ⟨b', hb', hcomps ▸ hca, by rw [hbc', hbc, hcomps]⟩

/-! ## 4. the F4 history: the pre-fix clean-up leaves a stale edge -/

/-- the PRE-FIX clean-up of one removed archetype: it is taken out of the slab and unlinked from the neighbours
    that IT has recorded (the two `for (c, other) in arch.{ins,rem}Edges` loops of `archsRemoveComponent`) -/
def unlinkOne (archs : Slab Arch) (ai : Nat) : Slab Arch :=
  match archs.remove ai with
  | none => archs
  | some (arch, archs) =>
    let archs := arch.insEdges.foldl (fun s e =>
      match s.get e.2 with
      | some oa => s.set oa.index { oa with remEdges := edgeRemove oa.remEdges e.1 }
      | none => s) archs
    arch.remEdges.foldl (fun s e =>
      match s.get e.2 with
      | some oa => s.set oa.index { oa with insEdges := edgeRemove oa.insEdges e.1 }
      | none => s) archs

/-- the pre-fix `Archetypes::remove_component`, on the slab: no final sweep -/
def unlinkOnly (archs : Slab Arch) (memberOf : List Nat) : Slab Arch := memberOf.foldl unlinkOne archs

/-- The archetype graph after: entity 1 inserts `A` (component 0) then `B` (component 1); entity 2 inserts `B` then
    `A`.  Indices: 0 = `{}`, 1 = `{A}`, 2 = `{A,B}`, 3 = `{B}`.  `{A,B}` was created coming from `{A}`, so it has the
    remove-edge `B ↦ {A}` only; the transition `{B} --ins A--> {A,B}` found `{A,B}` through `by_components` and is
    cached ONLY on `{B}`. -/
def f4Archs : Slab Arch :=
  { entries := [
      .occ { index := 0, comps := [], cols := [], ids := [], insEdges := [(0, 1), (1, 3)] },
      .occ { index := 1, comps := [0], cols := [[]], ids := [], insEdges := [(1, 2)], remEdges := [(0, 0)] },
      .occ { index := 2, comps := [0, 1], cols := [[], []], ids := [], remEdges := [(1, 1)] },
      .occ { index := 3, comps := [1], cols := [[]], ids := [], insEdges := [(0, 2)], remEdges := [(1, 0)] }],
    next := 4 }

/-- a world with that graph (only `archs` matters for `invEdges`) -/
def f4World (archs : Slab Arch) : World := { archs := archs }

/-- Removing component `A` (index 0, `member_of = [1, 2]`): the graph is a legitimate one (edge invariant holds);
    after the pre-fix clean-up, archetype `{B}` (index 3) still has its insert-edge `A ↦ 2` although index 2 is dead
    — the edge invariant is broken, and `traverse_insert` would hand out the dead (or, later, reused) index; the
    repaired clean-up (pre-fix clean-up followed by the sweep) removes the edge and the invariant holds again. -/
theorem stale_edge_counterexample :
    (f4World f4Archs).invEdges = true ∧
    -- pre-fix
    ((unlinkOnly f4Archs [1, 2]).get 2).isNone = true ∧
    ((unlinkOnly f4Archs [1, 2]).get 3).map (fun a => edgeGet a.insEdges 0) = some (some 2) ∧
    (f4World (unlinkOnly f4Archs [1, 2])).invEdges = false ∧
    -- repaired
    ((sweepEdges (unlinkOnly f4Archs [1, 2]) 0).get 3).map (fun a => edgeGet a.insEdges 0) = some none ∧
    ((sweepEdges (unlinkOnly f4Archs [1, 2]) 0).get 3).map (fun a => a.insEdges) = some [] ∧
    ((sweepEdges (unlinkOnly f4Archs [1, 2]) 0).get 0).map (fun a => a.insEdges) = some [(1, 3)] ∧
    (f4World (sweepEdges (unlinkOnly f4Archs [1, 2]) 0)).invEdges = true := by
  decide

/-! ## 5. the whole clean-up keeps the archetype graph consistent -/

section
open Graph

/-- one iteration of the first loop of `archsRemoveComponent`, as a relation on slabs: the archetype is taken out,
    then cached edges of other archetypes are dropped -/
def RemovedOne (ai : Nat) (S S2 : Slab Arch) : Prop :=
  ∃ arch S1, S.remove ai = some (arch, S1) ∧ Thinned S1 S2

/-- what the first loop has done after processing `l`: exactly the archetypes in `l` are gone; the others are there,
    the same up to a subset of their edges -/
structure RemovedAll (l : List Nat) (S S' : Slab Arch) : Prop where
  back : ∀ j x', S'.get j = some x' → j ∉ l ∧ ∃ x, S.get j = some x ∧ Thinner x x'
  keep : ∀ j x, S.get j = some x → j ∉ l → (S'.get j).isSome = true

theorem chain_removedAll {l : List Nat} {S S' : Slab Arch} (h : ChainR RemovedOne l S S') : RemovedAll l S S' := by
  induction l generalizing S with
  | nil =>
    cases h
    exact ⟨fun j x' hj => ⟨List.not_mem_nil, x', hj, Thinner.refl x'⟩, fun j x hj _ => by rw [hj]; rfl⟩
  | cons ai l ih =>
    obtain ⟨S2, ⟨arch, S1, hrem, hthin⟩, hc⟩ := h
    have := ih hc
    refine ⟨fun j x' hj => ?_, fun j x hj hjl => ?_⟩
    · obtain ⟨hjl, x2, hx2, ht2⟩ := this.back j x' hj
      obtain ⟨x1, hx1, ht1⟩ := hthin.same j x2 hx2
      have hne : j ≠ ai := by
        rintro rfl
        rw [Slab.get_remove_same hrem] at hx1; cases hx1
      rw [Slab.get_remove_other hrem hne] at hx1
      exact ⟨by simp [hne, hjl], x1, hx1, ht1.trans ht2⟩
    · rw [List.mem_cons, not_or] at hjl
      have h1 : S1.get j = some x := by rw [Slab.get_remove_other hrem hjl.1]; exact hj
      have h2 : (S2.get j).isSome = true := by rw [hthin.live, h1]; rfl
      cases hg : S2.get j with
      | none => rw [hg] at h2; cases h2
      | some x2 => exact this.keep j x2 hg hjl.2

/-- the archetype graph after `Archetypes::remove_component`, in terms of the graph `A` before -/
structure ComponentRemoved (r : Nat) (A A' : Slab Arch) : Prop where
  /-- the graph part of the invariant holds again — in particular every cached edge leads to a live archetype -/
  graph : GraphOK A'
  /-- every archetype that is left was there before, had no `r`, and has the same rows, columns, capacity, epoch,
      refresh listeners and listener tables -/
  back : ∀ j x', A'.get j = some x' → ∃ x, A.get j = some x ∧ Thinner x x' ∧ r ∉ x'.comps
  /-- every archetype without `r` is left -/
  keep : ∀ j x, A.get j = some x → r ∉ x.comps → (A'.get j).isSome = true
  /-- every archetype with `r` is gone -/
  gone : ∀ j x, A.get j = some x → r ∈ x.comps → A'.get j = none

theorem componentRemoved_of {r : Nat} {l : List Nat} {A S' : Slab Arch} (hG : GraphOK A)
    (hM : ∀ j x, A.get j = some x → (r ∈ x.comps ↔ j ∈ l)) (hwf : Slab.WF S') (hidx : IndexOK S')
    (hR : RemovedAll l A S') : ComponentRemoved r A (sweepEdges S' r) := by
  have hget := sweepEdges_get hidx r
  have hback : ∀ j x'', (sweepEdges S' r).get j = some x'' →
      ∃ x' x, S'.get j = some x' ∧ x'' = x'.dropIns r ∧ A.get j = some x ∧ Thinner x x' ∧ j ∉ l := by
    intro j x'' hj
    rw [hget] at hj
    cases hs : S'.get j with
    | none => rw [hs] at hj; cases hj
    | some x' =>
      rw [hs] at hj; cases hj
      obtain ⟨hjl, x, hx, ht⟩ := hR.back j x' hs
      exact ⟨x', x, rfl, rfl, hx, ht, hjl⟩
  have hkeep : ∀ j x, A.get j = some x → r ∉ x.comps →
      ∃ x', S'.get j = some x' ∧ (sweepEdges S' r).get j = some (x'.dropIns r) ∧ Thinner x x' := by
    intro j x hj hr
    have hjl : j ∉ l := fun h => hr ((hM j x hj).2 h)
    have := hR.keep j x hj hjl
    cases hs : S'.get j with
    | none => rw [hs] at this; cases this
    | some x' =>
      obtain ⟨-, y, hy, ht⟩ := hR.back j x' hs
      rw [hj] at hy; cases hy
      exact ⟨x', rfl, by rw [hget, hs]; rfl, ht⟩
  refine ⟨⟨sweepEdges_wf hwf r, sweepEdges_indexOK hidx r, ?_, ?_, ?_⟩, ?_, ?_, ?_⟩
  · intro j x'' hj
    obtain ⟨x', x, -, rfl, hx, ht, -⟩ := hback j x'' hj
    rw [Arch.dropIns_comps, ht.same.comps]
    exact hG.sorted j x hx
  · intro i j a'' b'' hi hj hab
    obtain ⟨a', a, -, rfl, ha, hta, -⟩ := hback i a'' hi
    obtain ⟨b', b, -, rfl, hb, htb, -⟩ := hback j b'' hj
    rw [Arch.dropIns_comps, Arch.dropIns_comps, hta.same.comps, htb.same.comps] at hab
    exact hG.distinct i j a b ha hb hab
  · refine repair_restores_edges (r := r) hG.edges (fun i a'' hi => ?_) (fun i a ha hr => ?_)
    · obtain ⟨a', a, -, rfl, ha, hta, hil⟩ := hback i a'' hi
      refine ⟨a, ha, fun h => hil ((hM i a ha).1 h), by rw [Arch.dropIns_comps, hta.same.comps],
        fun c d hcd => ?_, fun c d hcd => hta.rem _ hcd⟩
      rw [Arch.dropIns_insEdges, mem_edgeRemove] at hcd
      exact ⟨hta.ins _ hcd.1, hcd.2⟩
    · obtain ⟨a', -, hs, hta⟩ := hkeep i a ha hr
      exact ⟨_, hs, by rw [Arch.dropIns_comps, hta.same.comps]⟩
  · intro j x'' hj
    obtain ⟨x', x, -, rfl, hx, ht, hjl⟩ := hback j x'' hj
    refine ⟨x, hx, ⟨ht.same.trans ⟨rfl, rfl, rfl, rfl, rfl, rfl, rfl, rfl⟩, fun e he => ?_, ht.rem⟩, ?_⟩
    · rw [Arch.dropIns_insEdges, mem_edgeRemove] at he
      exact ht.ins e he.1
    · rw [Arch.dropIns_comps, ht.same.comps]
      exact fun h => hjl ((hM j x hx).1 h)
  · intro j x hj hr
    obtain ⟨x', -, hs, -⟩ := hkeep j x hj hr
    rw [hs]; rfl
  · intro j x hj hr
    cases hs : (sweepEdges S' r).get j with
    | none => rfl
    | some x'' =>
      obtain ⟨-, -, -, -, -, -, hjl⟩ := hback j x'' hs
      exact absurd ((hM j x hj).1 hr) hjl

/-- **`Archetypes::remove_component` (with the F4 repair) keeps the archetype graph consistent.**
    Started with a fine graph `A` and `member_of` listing exactly the live archetypes that have the component
    (`World.invMembers`), it leaves (if it returns) a fine graph again: exactly the archetypes with the component
    are gone, all others are unchanged up to dropped cached edges, and every remaining cached edge leads to a live
    archetype differing by exactly its label. -/
theorem archsRemoveComponent_keeps_graph (info : CompInfo) {A : Slab Arch} (hG : GraphOK A)
    (hM : ∀ j x, A.get j = some x → (info.id.idx ∈ x.comps ↔ j ∈ info.memberOf)) :
    HoareOk (fun w => w.archs = A) (archsRemoveComponent info)
      (fun _ w' => ComponentRemoved info.id.idx A w'.archs) := by
  unfold archsRemoveComponent
  dsimp only
  refine HoareOk.bind (forIn_chain (Good := fun S => Slab.WF S ∧ IndexOK S) (R := RemovedOne) ?_ info.memberOf A
    ⟨hG.wf, hG.idx⟩) fun _ => ?_
  · -- one iteration
    intro ai S hS
    refine HoareOk.get_bind fun w hw => ?_
    split
    · exact HoareOk.bind (R := fun _ _ => False) (HoareOk.throw _) fun _ => ⟨fun _ h => h.elim⟩
    · next arch S1 hrem =>
      rw [hw] at hrem
      have hS1 : ThinOf S1 S1 := ⟨Slab.remove_wf hS.1 hrem, hS.2.remove hrem, Thinned.refl S1⟩
      refine HoareOk.bind (R := fun _ w => ThinOf S1 w.archs) ⟨fun w0 _ u w' hr => by cases hr; exact hS1⟩ fun _ => ?_
      refine HoareOk.bind_inv (HoareOk.of_keeps ?_) fun _ => ?_
      · keeps
        exact handlerRemoveArch_keeps_archs (ThinOf _) _ _
      refine HoareOk.bind_inv (HoareOk.of_keeps ?_) fun _ => ?_
      · keeps
        exact ubErr_keeps_archs (ThinOf _) _
      refine HoareOk.bind_inv (HoareOk.of_keeps ?_) fun _ => ?_
      · keeps
        refine Keeps.modify fun w h => ?_
        split <;> exact h
      refine HoareOk.bind_inv (HoareOk.of_keeps ?_) fun _ => ?_
      · keeps
        next hT _ _ hoa =>
        exact setArch_thinOf _ _ (hT.witness hoa ⟨⟨rfl, rfl, rfl, rfl, rfl, rfl, rfl, rfl⟩, fun _ h => h,
          fun e h => ((mem_edgeRemove _ _ _).1 h).1⟩)
      refine HoareOk.bind_inv (HoareOk.of_keeps ?_) fun _ => ?_
      · keeps
        next hT _ _ hoa =>
        exact setArch_thinOf _ _ (hT.witness hoa ⟨⟨rfl, rfl, rfl, rfl, rfl, rfl, rfl, rfl⟩,
          fun e h => ((mem_edgeRemove _ _ _).1 h).1, fun _ h => h⟩)
      refine HoareOk.bind_inv (HoareOk.of_keeps ?_) fun _ => ?_
      · keeps
        all_goals exact dropCell_keeps_archs (ThinOf _) _ _
      exact HoareOk.pure fun w hw => ⟨rfl, ⟨hw.wf, hw.idx⟩, arch, S1, hrem, hw.thin⟩
  · -- the sweep
    refine ⟨fun w hw u w' hr => ?_⟩
    obtain ⟨⟨hwf, hidx⟩, hc⟩ := hw
    have := run_sweepM info.id.idx w
    unfold sweepM at this
    rw [this] at hr
    cases hr
    exact componentRemoved_of hG hM hwf hidx (chain_removedAll hc)

/-- the same about runs, with the edge conjunct of `World.Inv` spelt out.  FORCED HYPOTHESES: `GraphOK` includes the
    well-formedness of the slab's vacant list (not a conjunct of `World.Inv`); `hM` is what `World.invMembers` says
    about the removed component (`removeComponent` takes the `CompInfo` out of the registry BEFORE this call, so it
    has to be carried over from the state before). -/
theorem archsRemoveComponent_graph_run (info : CompInfo) {w w' : World} (hG : GraphOK w.archs)
    (hM : ∀ j x, w.archs.get j = some x → (info.id.idx ∈ x.comps ↔ j ∈ info.memberOf))
    (hr : (archsRemoveComponent info).run.run w = (.ok (), w')) :
    ComponentRemoved info.id.idx w.archs w'.archs ∧ w'.invEdges = true := by
  have := (archsRemoveComponent_keeps_graph info hG hM).run w rfl () w' hr
  exact ⟨this, this.graph.invEdges⟩

end

end Evenio

#print axioms Evenio.C14_edge_table_laws
#print axioms Evenio.C14_sorted_set_laws
#print axioms Evenio.sweep_no_edge
#print axioms Evenio.sweep_loop_is_sweepEdges
#print axioms Evenio.archsRemoveComponent_no_edge
#print axioms Evenio.archsRemoveComponent_ends_with_sweep
#print axioms Evenio.edges_into_removed_are_labelled_sets
#print axioms Evenio.edges_into_removed_are_labelled
#print axioms Evenio.repair_restores_edges
#print axioms Evenio.stale_edge_counterexample
#print axioms Evenio.componentRemoved_of
#print axioms Evenio.archsRemoveComponent_keeps_graph
#print axioms Evenio.archsRemoveComponent_graph_run
