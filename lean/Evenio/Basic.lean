def hello := "world"
