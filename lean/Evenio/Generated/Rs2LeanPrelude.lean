import Evenio.Model.HandlerList
/-! Hand-written prelude of the Rust → Lean function translator `tools/rs2lean`: the `Vec` operations the generated
    definitions refer to.  `Vec<T>` is `List T`; indices and lengths are `Nat`.  All operations are total here; where the
    Rust operation panics (index out of range) the generated file says so in its header.
    They are `abbrev`s, so `simp`/`rfl` see through them. -/
namespace Evenio.Rs2Lean
variable {α : Type}

/-- `Vec::insert(i, x)` — the same function as the hand model's `HandlerList.insertAt` -/
abbrev vecInsert (l : List α) (i : Nat) (x : α) : List α := HandlerList.insertAt l i x

/-- `Vec::remove(i)` (the removed element is dropped) -/
abbrev vecRemove (l : List α) (i : Nat) : List α := l.eraseIdx i

/-- `Vec::push(x)` -/
abbrev vecPush (l : List α) (x : α) : List α := l ++ [x]

/-- `v.iter().position(|&p| p == x)` -/
abbrev vecPosition [BEq α] (l : List α) (x : α) : Option Nat := l.idxOf? x

/-- `Vec::len()` -/
abbrev vecLen (l : List α) : Nat := l.length

end Evenio.Rs2Lean
