import Evenio.Model.HandlerList
/-! Hand-written prelude of the Rust → Lean function translator `tools/rs2lean`: the `Vec` / `Option` operations the
    generated definitions refer to, and the result type of a function that can `panic!`.  `Vec<T>` is `List T`; indices and
    lengths are `Nat`.  All operations are total here; where the Rust operation panics or is undefined (index out of range,
    `unwrap` of `None`) the generated file says so in its header.
    They are `abbrev`s, so `simp`/`rfl` see through them. -/
namespace Evenio.Rs2Lean
variable {α : Type}

/-- `Vec::insert(i, x)` — the same function as the hand model's `HandlerList.insertAt` -/
abbrev vecInsert (l : List α) (i : Nat) (x : α) : List α := HandlerList.insertAt l i x

/-- `Vec::remove(i)` (the removed element is dropped) -/
abbrev vecRemove (l : List α) (i : Nat) : List α := l.eraseIdx i

/-- `Vec::push(x)` -/
abbrev vecPush (l : List α) (x : α) : List α := l ++ [x]

/-- `v.iter().position(|&p| p == x)` -/
abbrev vecPosition [BEq α] (l : List α) (x : α) : Option Nat := l.idxOf? x

/-- `Vec::len()` -/
abbrev vecLen (l : List α) : Nat := l.length

/-- `Vec::get(i)` / `get_mut(i)` (and the checked reading of `get_unchecked(i)`) -/
abbrev vecGet (l : List α) (i : Nat) : Option α := l[i]?

/-- `v[i] = x` through a mutable borrow of the element (nothing happens out of range) -/
abbrev vecSet (l : List α) (i : Nat) (x : α) : List α := l.set i x

/-- `Vec::resize(n, x)` -/
abbrev vecResize (l : List α) (n : Nat) (x : α) : List α := l.take n ++ List.replicate (n - l.length) x

/-- `Vec::swap_remove(i)` (the removed element is dropped): the last element takes the place of the `i`-th.
    Out of range (a panic in Rust) the list is unchanged. -/
abbrev vecSwapRemove (l : List α) (i : Nat) : List α :=
  match l.getLast? with
  | none => l
  | some last => if i < l.length then (l.set i last).dropLast else l

/-- `Option::unwrap()` / `unwrap_unchecked()`: `default` for `None` (a panic / undefined behaviour in Rust) -/
abbrev optUnwrap [Inhabited α] (o : Option α) : α := o.getD default

/-- the result of a function that contains `panic!` -/
inductive Outcome (α : Type) where
  | ok (a : α)
  | panic (msg : String)
deriving Repr

/-- `for (a, b) in v.iter_mut().zip(w.iter()) { body }`: the elements of `v` that have a partner in `w` are replaced by what
    the body makes of them, the others stay -/
def vecZipMut {α β : Type} (f : α → β → α) : List α → List β → List α
  | [], _ => []
  | as, [] => as
  | a :: as, b :: bs => f a b :: vecZipMut f as bs

/-- `for x in &v { body }` on the state the body changes: a left fold over the elements -/
def forEach {α σ : Type} (l : List α) (init : σ) (body : α → σ → σ) : σ :=
  l.foldl (fun s x => body x s) init

/-- `IndexSet::insert(x)` on a duplicate-free list in insertion order: appended when absent; the `Bool` is "newly inserted" -/
def indexSetInsert {α : Type} [BEq α] (s : List α) (x : α) : List α × Bool :=
  if s.contains x then (s, false) else (s ++ [x], true)

/-- `for i in 0..n { body }` on the state the body changes -/
def forRange {σ : Type} (n : Nat) (init : σ) (body : Nat → σ → σ) : σ :=
  (List.range n).foldl (fun s i => body i s) init

/-- `for i in 0..n { body }` when the body can panic: the first panic ends the loop -/
def forRangeO {σ : Type} (n : Nat) (init : σ) (body : Nat → σ → Outcome σ) : Outcome σ :=
  (List.range n).foldl (fun acc i => match acc with
    | .ok s => body i s
    | .panic msg => .panic msg) (.ok init)

end Evenio.Rs2Lean
