import Evenio.Model.World
import Evenio.Generated.HandlerListGen
/-! Hand-written companion of the prelude for the `ArchHandlers` client of `tools/rs2lean`: what the functions that
    `Archetype::register_handler` / `Archetypes::remove_handler` call ARE on the world model's representations
    (`Model/World.lean`, `Model/Storage.lean`): a `BTreeSet<HandlerInfoPtr>` is a duplicate-free `List Key` in insertion order
    (the order by pointer value is not modelled; nothing observable depends on it), `SparseMap` is the hand model's
    `SparseMap`, `HandlerInfo` is `HInfo`, and `Handler::refresh_archetype` (through `handler_mut()`) is the refresh of every
    parameter's cache (`Param.refreshArch`), as in the world model's `handlerRefresh`. -/
namespace Evenio.Rs2Lean
variable {ν : Type}

/-- `SparseMap::get` / `get_mut` -/
abbrev sparseGet (m : SparseMap ν) (k : Nat) : Option ν := m.get k
/-- writing through the borrow `SparseMap::get_mut` hands out -/
abbrev sparseSet (m : SparseMap ν) (k : Nat) (v : ν) : SparseMap ν := m.insert k v
/-- `SparseMap::insert`: the new map and the value replaced -/
abbrev sparseInsert (m : SparseMap ν) (k : Nat) (v : ν) : SparseMap ν × Option ν := (m.insert k v, m.get k)
/-- `BTreeSet::insert` -/
abbrev keySetInsert (l : List Key) (k : Key) : List Key × Bool := if l.contains k then (l, false) else (l ++ [k], true)
/-- `BTreeSet::remove` -/
abbrev keySetRemove (l : List Key) (k : Key) : List Key × Bool := (l.filter (· != k), l.contains k)
/-- `info.handler_mut().refresh_archetype(arch)` -/
abbrev hinfoRefresh (h : HInfo) (a : Arch) : HInfo := { h with params := h.params.map fun p => Param.refreshArch p a }
/-- `HandlerInfo::received_event()` as (targeted?, index) -/
abbrev hinfoRecv (h : HInfo) : Bool × Nat := (h.recv.targeted, h.recvIdx)
/-- `HandlerInfo::targeted_event_component_access()`: `Some` exactly for a targeted receiver -/
abbrev hinfoTargetedAccess (h : HInfo) : Option CA := if h.recv.targeted then some h.filter else none
/-- `Archetype::entity_count()` -/
abbrev archEntityCount (a : Arch) : Nat := a.ids.length

/-- `BTreeMap<u64, HandlerInfoPtr>::remove` / `TypeIdMap::remove` on an association list: the entries with another key stay, in
    order; the value removed -/
abbrev assocRemove (l : List (Nat × Key)) (k : Nat) : List (Nat × Key) × Option Key :=
  (l.filter (·.1 != k), (l.find? (·.1 == k)).map (·.2))

/-- `Slab::get` / `get_mut` -/
abbrev slabGet {α : Type} (s : Slab α) (i : Nat) : Option α := s.get i
abbrev slabSet {α : Type} (s : Slab α) (i : Nat) (a : α) : Slab α := s.set i a

/-- `for (i, x) in &mut slab { body }` when the body changes only `x`: the occupied entries, in index order -/
def slabMap {α : Type} (s : Slab α) (f : Nat → α → α) : Slab α :=
  { s with entries := s.entries.zipIdx.map fun (e, i) => match e with | .occ a => .occ (f i a) | .vacant n => .vacant n }

/-- … when the body also changes other state: a left fold over the occupied entries, in index order -/
def slabMapState {α σ : Type} (s : Slab α) (st : σ) (f : Nat → α → σ → α × σ) : Slab α × σ :=
  let r := s.entries.zipIdx.foldl (fun (acc : List (SlabEntry α) × σ) (p : SlabEntry α × Nat) =>
    match p.1 with
    | .occ a => let (a', st') := f p.2 a acc.2; (acc.1 ++ [.occ a'], st')
    | .vacant n => (acc.1 ++ [.vacant n], acc.2)) ([], st)
  ({ s with entries := r.1 }, r.2)

end Evenio.Rs2Lean
