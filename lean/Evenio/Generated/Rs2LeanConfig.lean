import Evenio.Model.World
/-! Hand-written companion of the prelude for the `HandlerConfig` client of `tools/rs2lean`: what `BitSet::insert` is on the
    world model's representation of a bit set (a sorted, duplicate-free `List Nat`, `Evenio.sortedInsert`).  That a
    `BitSet<T>` is such a set is the subject of `Model/BitSet.lean` / `Proofs/BitSet.lean`, not of this file. -/
namespace Evenio.Rs2Lean

/-- `BitSet::insert(value)`: the new set, and whether the value was newly inserted -/
abbrev setInsert (s : List Nat) (i : Nat) : List Nat × Bool := (Evenio.sortedInsert s i, !s.contains i)

end Evenio.Rs2Lean
