import Evenio.Proofs.AccessSem
import Evenio.Proofs.SparseMap
import Evenio.Props.C01
import Evenio.Props.C02World
import Evenio.Props.C03World
import Evenio.Props.C04
import Evenio.Props.C05
import Evenio.Props.C06
import Evenio.Props.C07
import Evenio.Props.C08
import Evenio.Props.C09
import Evenio.Props.C10
import Evenio.Props.C11
import Evenio.Props.C13
import Evenio.Props.C14
import Evenio.Props.C15
import Evenio.Props.C16World
import Evenio.Props.C17
import Evenio.Props.C18
import Evenio.Props.C19
import Evenio.Props.C20
import Evenio.Proofs.Inv.All
import Evenio.Props.ReachLists
import Evenio.Props.ReachStore
/-! Every property module in one environment (same import list as AllProofs.lean).  `lake build Evenio.All` checks
    that no two proof modules declare the same name with different statements. -/
