import Evenio.Model.Step
/-! Hand-made ids (`EntityId::new(index, generation)` is a safe public constructor): for every id ever returned by a
    spawn, the neighbouring generations of its slot are probed with `Entities::contains`. Driver-side observation (the
    `pr` line); the model's answer comes from `SlotMap.get`, where only odd generations form a key (`Key::new`). -/
namespace Evenio

def World.probeCount (w : World) : Nat :=
  let known := w.ords.toList
  let cands := known.flatMap fun k =>
    ([k.gen + 1, k.gen + 2] ++ (if k.gen ≥ 1 then [k.gen - 1] else []) ++ (if k.gen ≥ 2 then [k.gen - 2] else [])).map
      fun g => (⟨k.idx, g⟩ : Key)
  (cands.eraseDups.filter fun k =>
    k.gen % 2 == 1 && k.gen < GENMOD && !known.contains k && w.entities.contains k).length

end Evenio
