import Evenio.Model.BitSet
/-! Script interpreter for the `BitSet` model, the counterpart of `bit_set::verif_script` (`World::verif_bitset_script`,
    feature `verif-hooks`) on the Rust side.

    Two registers `A`, `B`, both initially empty.  One input line is one operation, tokens separated by single spaces;
    the first register named is the one operated on (and mutated), the OTHER register is the read-only operand.
    Exactly as in the Rust hook, the second register token is not inspected, a register token different from `A`
    selects `B`, and a missing register token selects `A`.  One output line per input line:

      ins R n | rem R n | has R n       -> true|false
      iter R                            -> [1,5,64]
      len R | nblocks R                 -> decimal
      empty R | disj R S | eq R S       -> true|false
      or R S | xor R S | shrink R | clear R -> ok
      cmp R S                           -> Less|Equal|Greater
      anything else                     -> bad-op -/
namespace Evenio.BitSetScript
open Evenio

/-- `str::parse::<usize>()` on a 64-bit target: an optional `+`, then one or more ASCII digits, value `< 2^64`. -/
def parseUsize (s : String) : Option Nat :=
  let cs := s.toList
  let ds := match cs with
    | '+' :: rest => rest
    | _ => cs
  if ds.isEmpty || !ds.all Char.isDigit then none
  else
    let n := ds.foldl (fun acc c => acc * 10 + (c.toNat - '0'.toNat)) 0
    if n < 2 ^ 64 then some n else none

/-- `{:?}` of `core::cmp::Ordering`. -/
def showOrdering : Ordering → String
  | .lt => "Less"
  | .eq => "Equal"
  | .gt => "Greater"

/-- the `iter` output: `[` items separated by `,` `]`. -/
def showList (vs : List Nat) : String :=
  "[" ++ ",".intercalate (vs.map toString) ++ "]"

/-- The two registers `(A, B)`. -/
abbrev Regs := BitSet × BitSet

/-- One script line: new registers and the output line. -/
def step (st : Regs) (line : String) : Regs × String :=
  let toks := line.splitOn " "
  -- `toks.get(1).map_or(true, |r| *r == "A")`
  let firstIsA := match toks[1]? with
    | none => true
    | some r => r == "A"
  -- `toks.get(2).and_then(|t| t.parse::<usize>().ok())`
  let n := toks[2]?.bind parseUsize
  let x := if firstIsA then st.1 else st.2
  let y := if firstIsA then st.2 else st.1
  let put (x' : BitSet) : Regs := if firstIsA then (x', st.2) else (st.1, x')
  match toks.headD "", n with
  | "ins", some n => let r := x.insert n; (put r.1, toString r.2)
  | "rem", some n => let r := x.remove n; (put r.1, toString r.2)
  | "has", some n => (st, toString (x.contains n))
  | "iter", _ => (st, showList x.iter)
  | "len", _ => (st, toString x.len)
  | "empty", _ => (st, toString x.isEmpty)
  | "nblocks", _ => (st, toString x.blocks.length)
  | "or", _ => (put (x.orAssign y), "ok")
  | "xor", _ => (put (x.xorAssign y), "ok")
  | "disj", _ => (st, toString (x.isDisjoint y))
  | "cmp", _ => (st, showOrdering (x.cmp y))
  | "eq", _ => (st, toString (x.beq y))
  | "shrink", _ => (put x.shrinkToFit, "ok")
  | "clear", _ => (put x.clear, "ok")
  | _, _ => (st, "bad-op")

/-- Run a script from two empty registers; one output line per input line. -/
def runFrom : Regs → List String → List String
  | _, [] => []
  | st, line :: rest =>
    let r := step st line
    r.2 :: runFrom r.1 rest

def run (lines : List String) : List String :=
  runFrom (BitSet.new, BitSet.new) lines

end Evenio.BitSetScript
