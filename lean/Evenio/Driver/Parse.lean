import Evenio.Model.Step
/-! Parser for the line protocol (operations, handler specifications, query codes). I/O glue, not model. -/
namespace Evenio.Parse
open Evenio

def digitsToNat (cs : List Char) : Option Nat := (String.ofList cs).toNat?

/-- recursive-descent parser for query codes; fuel bounds the nesting depth -/
def parseQ : Nat → List Char → Option (Query × List Char)
  | 0, _ => none
  | fuel + 1, cs =>
    match cs with
    | 'r' :: d :: rest => if d.isDigit then some (.ref (d.toNat - '0'.toNat), rest) else none
    | 'm' :: d :: rest => if d.isDigit then some (.mut (d.toNat - '0'.toNat), rest) else none
    | 'E' :: rest => some (.eid, rest)
    | 'P' :: rest => some (.phantom, rest)
    | '?' :: rest => (parseQ fuel rest).map fun (q, r) => (.opt q, r)
    | '!' :: rest => (parseQ fuel rest).map fun (q, r) => (.not q, r)
    | 'W' :: rest => (parseQ fuel rest).map fun (q, r) => (.wth q, r)
    | 'H' :: rest => (parseQ fuel rest).map fun (q, r) => (.has q, r)
    | 'O' :: '<' :: rest =>
      match parseQ fuel rest with
      | some (l, '|' :: rest) =>
        match parseQ fuel rest with
        | some (r, '>' :: rest) => some (.or l r, rest)
        | _ => none
      | _ => none
    | 'X' :: '<' :: rest =>
      match parseQ fuel rest with
      | some (l, '|' :: rest) =>
        match parseQ fuel rest with
        | some (r, '>' :: rest) => some (.xor l r, rest)
        | _ => none
      | _ => none
    | '(' :: ')' :: rest => some (.unit, rest)
    | '(' :: rest => tupleLoop fuel fuel .unit rest
    | _ => none
where
  tupleLoop : Nat → Nat → Query → List Char → Option (Query × List Char)
    | 0, _, _, _ => none
    | n + 1, fuel, acc, cs =>
      match parseQ fuel cs with
      | some (q, ',' :: rest) => tupleLoop n fuel (.snoc acc q) rest
      | some (q, ')' :: rest) => some (.snoc acc q, rest)
      | _ => none

def parseQuery (s : String) : Option Query :=
  match parseQ 64 s.toList with
  | some (q, []) => some q
  | _ => none

def parseK (s : String) : Option Nat :=
  match s.toList with
  | 'K' :: ds => digitsToNat ds
  | _ => none

def parseEv (s : String) : Option EvTy :=
  match s.toList with
  | 'G' :: ds => (digitsToNat ds).map .g
  | 'T' :: ds => (digitsToNat ds).map .t
  | 'I' :: 'n' :: 's' :: 'K' :: ds => (digitsToNat ds).map .ins
  | 'R' :: 'e' :: 'm' :: 'K' :: ds => (digitsToNat ds).map .rem
  | _ =>
    match s with
    | "Spawn" => some .spawn | "Despawn" => some .despawn
    | "AddC" => some .addC | "RemC" => some .remC | "AddH" => some .addH | "RemH" => some .remH
    | "AddG" => some .addG | "AddT" => some .addT | "RemG" => some .remG | "RemT" => some .remT
    | _ => none

def parseOrd (s : String) : Option Nat :=
  match s.toList with
  | '#' :: ds => digitsToNat ds
  | _ => none

def parseTgt (s : String) : Option Tgt :=
  match s with
  | "self" => some .self | "ev" => some .ev | "last" => some .last | "null" => some .null
  | _ => (parseOrd s).map .ord

def parseAct (s : String) : Option Act :=
  match s.splitOn ":" with
  | ["send", g] => match parseEv g with | some (.g n) => some (.send n) | _ => none
  | ["sendto", t, tg] => match parseEv t, parseTgt tg with | some (.t n), some x => some (.sendto n x) | _, _ => none
  | ["spawn"] => some .spawn
  | ["despawn", tg] => (parseTgt tg).map .despawn
  | ["ins", tg, k, v] => match parseTgt tg, parseK k, v.toNat? with | some x, some k, some v => some (.ins x k v) | _, _, _ => none
  | ["rem", tg, k] => match parseTgt tg, parseK k with | some x, some k => some (.rem x k) | _, _ => none
  | ["take"] => some .take
  | ["panic"] => some .panic
  | ["iter", p] => p.toNat?.map .iter
  | ["bump", p] => p.toNat?.map .bump
  | ["get", p, tg] => match p.toNat?, parseTgt tg with | some p, some x => some (.get p x) | _, _ => none
  | ["getmany", p, tgs] =>
    match p.toNat?, (tgs.splitOn "+").mapM parseTgt with
    | some p, some l => some (.getMany p l)
    | _, _ => none
  | ["single", p] => p.toNat?.map .single
  | ["recv"] => some .recv
  | ["ents"] => some .ents
  | ["alloc", n] => n.toNat?.map .alloc
  | ["fwd"] => some .fwd
  | _ => none

def parseParam (s : String) : Option PSpec :=
  match s.splitOn ":" with
  | ["R", ev, m] =>
    match parseEv ev with
    | some e => some (.recv e (m == "m") none)
    | none => none
  | ["R", ev, m, q] =>
    match parseEv ev, parseQuery q with
    | some e, some q => some (.recv e (m == "m") (some q))
    | _, _ => none
  | ["F", q] => (parseQuery q).map .fetch
  | ["S", q] => (parseQuery q).map .single
  | ["TS", q] => (parseQuery q).map .trySingle
  | ["Snd", evs] => ((evs.splitOn ",").filter (· != "")).mapM parseEv |>.map .snd
  | ["Snd"] => some (.snd [])
  | ["Ent"] => some .ents
  | _ => none

def field (toks : List String) (name : String) : Option String :=
  toks.findSome? fun t => if t.startsWith (name ++ "=") then some ((t.drop (name.length + 1)).toString) else none

def parseHSpec (toks : List String) : Option HSpec := do
  let name ← field toks "name"
  let prio ← match (field toks "prio").getD "m" with
    | "h" => some Priority.high | "m" => some .medium | "l" => some .low | _ => none
  let tid := (field toks "tid").bind String.toNat?
  let params ← (((field toks "params").getD "").splitOn ";").filter (· != "") |>.mapM parseParam
  -- protocol rule (`HSpec.RecvFirst` of the C01 theorem, also enforced by the harness): the receiver is listed first,
  -- a specification never starts with a fetcher-like parameter
  match params with
  | .fetch _ :: _ | .single _ :: _ | .trySingle _ :: _ => none
  | _ => pure ()
  let body ← (((field toks "body").getD "").splitOn ",").filter (· != "") |>.mapM parseAct
  pure { name, prio, tid, params, body }

def parseOp (line : String) : Option Op :=
  match line.splitOn " " with
  | ["spawn"] => some .spawn
  | ["despawn", e] => (parseOrd e).map .despawn
  | ["insert", e, k, v] => match parseOrd e, parseK k, v.toNat? with | some e, some k, some v => some (.insert e k v) | _, _, _ => none
  | ["remove", e, k] => match parseOrd e, parseK k with | some e, some k => some (.remove e k) | _, _ => none
  | ["send", g] => match parseEv g with | some (.g n) => some (.send n) | _ => none
  | ["sendto", t, e] => match parseEv t, parseOrd e with | some (.t n), some e => some (.sendto n e) | _, _ => none
  | "addh" :: toks => (parseHSpec toks).map .addh
  | ["addfn", f, wrap] =>
    -- ordinary `fn` handlers of the harness (FunctionHandler glue): same behaviour as these scripted handlers; the
    -- wrappers `.high()` / `.low()` keep the function's type id, `.no_type_id()` drops it
    let spec : Option (Nat × List PSpec × List Act) := match f with
      | "fn0" => some (0, [.recv (.g 0) false none], [])
      | "fn1" => some (1, [.recv (.g 0) false none, .fetch (.snoc (.snoc .unit .eid) (.ref 0))], [.iter 1])
      | "fn2" => some (2, [.recv (.t 0) false (some .eid)], [])
      | "fn3" => some (3, [.recv (.g 1) true none, .snd [.g 0, .spawn]], [.send 0, .take])
      -- a `#[derive(HandlerParam)]` struct with two fetchers / a tuple of parameters with a `#[derive(Query)]` struct
      | "fn4" => some (4, [.recv (.g 0) false none, .fetch (.snoc (.snoc .unit .eid) (.ref 0)),
                           .fetch (.snoc (.snoc .unit .eid) (.ref 1))], [.iter 1, .iter 2])
      | "fn5" => some (5, [.recv (.g 0) false none, .fetch (.snoc (.snoc .unit .eid) (.ref 0)),
                           .fetch (.snoc (.snoc .unit .eid) (.ref 1))], [.iter 1, .iter 2])
      | _ => none
    let pt : Option (Priority × Bool) := match wrap with
      | "plain" => some (.medium, true) | "high" => some (.high, true) | "low" => some (.low, true)
      | "notid" => some (.medium, false) | _ => none
    match spec, pt with
    | some (i, params, body), some (prio, keepTid) =>
      some (.addh { name := f, prio, tid := if keepTid then some (100 + i) else none, params, body })
    | _, _ => none
  | ["rmh", name] => some (.rmh name)
  | ["addc", k] => (parseK k).map .addc
  | ["rmc", k] => (parseK k).map .rmc
  | ["addev", ev] => (parseEv ev).map .addev
  | ["rmev", ev] => (parseEv ev).map .rmev
  | ["setgen", e, g] => match parseOrd e, g.toNat? with | some e, some g => some (.setgen e g) | _, _ => none
  | ["drop"] => some .drop
  | _ => none

end Evenio.Parse
