import Evenio.Model.SlotMap
/-! Model of `handler.rs: HandlerList` — one vector in three priority segments delimited by two cursors. -/
namespace Evenio

inductive Priority | high | medium | low
deriving Repr, DecidableEq, Inhabited

structure HandlerList (ρ : Type) where
  before : Nat := 0
  after : Nat := 0
  entries : List ρ := []
deriving Repr, Inhabited

namespace HandlerList
variable {ρ : Type}

/-- `List::insert(idx, x)` of `Vec` -/
def insertAt (l : List ρ) (i : Nat) (x : ρ) : List ρ := l.take i ++ x :: l.drop i

def insert (hl : HandlerList ρ) (p : ρ) : Priority → HandlerList ρ
  | .high => { before := hl.before + 1, after := hl.after + 1, entries := insertAt hl.entries hl.before p }
  | .medium => { before := hl.before, after := hl.after + 1, entries := insertAt hl.entries hl.after p }
  | .low => { before := hl.before, after := hl.after, entries := hl.entries ++ [p] }

def remove [DecidableEq ρ] (hl : HandlerList ρ) (p : ρ) : HandlerList ρ :=
  match hl.entries.idxOf? p with
  | none => hl
  | some idx =>
    let entries := hl.entries.eraseIdx idx
    if idx < hl.after then
      if idx < hl.before then { before := hl.before - 1, after := hl.after - 1, entries }
      else { before := hl.before, after := hl.after - 1, entries }
    else { before := hl.before, after := hl.after, entries }

end HandlerList
end Evenio
