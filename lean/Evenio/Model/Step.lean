import Evenio.Model.World
/-! Top-level operations and the observation lines printed after each of them (the line protocol shared with
    the Rust harness). -/
namespace Evenio

def BUDGET : Nat := 24

def World.ordKey (w : World) (n : Nat) : Key := (w.ords[n]?).getD Key.NULL

/-- `World::spawn` -/
def opSpawn : M Key := do
  let id ← reserve
  sendGlobal .spawn { ent := id }
  -- the caller learns the id (and the harness gives it its ordinal) only when `spawn` returns
  modify fun w => { w with ords := w.ords.push id }
  pure id

def renderResult (r : Bool) : String := if r then "ret some" else "ret none"

/-- executes one top-level operation; returns the `ret` / `id` lines -/
def execOp (op : Op) : M (List String) := do
  match op with
  | .spawn =>
    let id ← opSpawn
    pure [s!"ret {(← get).ordOf id}", s!"id e {id.render}"]
  | .despawn n =>
    sendTargeted .despawn ((← get).ordKey n) {}
    pure []
  | .insert n k v =>
    let s ← freshC
    sendTargeted (.ins k) ((← get).ordKey n) { cell := ⟨v, s⟩ }
    pure []
  | .remove n k =>
    sendTargeted (.rem k) ((← get).ordKey n) {}
    pure []
  | .send g =>
    let s ← freshE
    sendGlobal (.g g) { serial := s }
    pure []
  | .sendto t n =>
    let s ← freshE
    sendTargeted (.t t) ((← get).ordKey n) { serial := s }
    pure []
  | .addh h =>
    match ← addHandler h with
    | .ok k => pure ["ret ok", s!"id h {k.render}"]
    | .dup k => pure ["ret dup", s!"id h {k.render}"]
    | .err cls => pure [s!"ret err:{cls}"]
  | .rmh name =>
    -- the harness removes the first handler of that name in insertion order (`Handlers::iter`)
    let w ← get
    let live := w.byInsertOrder.filterMap fun k => (w.handlers.get k).map fun h => (k, h)
    match live.find? fun (_, h) => h.name == name with
    | some (k, _) => pure [renderResult (← removeHandler k)]
    | none => pure ["ret none"]
  | .addc k =>
    let id ← addComponent k
    pure [s!"id c {id.render}"]
  | .rmc k =>
    match (← get).compIdxOfTy k with
    | some (id, _) => pure [renderResult (← removeComponent id)]
    | none => pure ["ret none"]
  | .addev ev =>
    let id ← addEvent ev
    pure [s!"id {if ev.targeted then "t" else "g"} {id.render}"]
  | .rmev ev =>
    let w ← get
    match (if ev.targeted then w.tevOfTy ev else w.gevOfTy ev) with
    | some (id, _) => pure [renderResult (← removeEvent ev id)]
    | none => pure ["ret none"]
  | .setgen n g =>
    -- hook `verif_set_entity_generation`: slot generation and the id stored in the archetype row
    let w ← get
    let id := w.ordKey n
    match w.entities.get id with
    | none => pure ["ret none"]
    | some loc =>
      let id' : Key := ⟨id.idx, g⟩
      match w.entities.slots[id.idx]? with
      | none => pure ["ret none"]
      | some s =>
        if g % 2 != 1 || g < s.gen then pure ["ret none"] else
        let ents := { w.entities with slots := w.entities.slots.set id.idx { s with gen := g } }
        let a ← getArch loc.arch "setgen:arch"
        set { w with entities := ents, ords := w.ords.map fun k => if k == id then id' else k }
        setArch { a with ids := a.ids.set loc.row id' }
        pure ["ret some"]
  | .drop =>
    -- `World::drop`: every archetype drops its columns
    let w ← get
    for (_, a) in w.archs.toList do
      for (c, col) in a.comps.zip a.cols do
        for x in col do dropCellIdx c x
    modify fun w => { w with archs := { entries := [], next := 0 }, entities := {} }
    pure []

def natSort (l : List Nat) : List Nat := (l.toArray.qsort (· < ·)).toList

/-- `> st`: the value of every component of every entity ever spawned, through `World::get` -/
def World.renderStore (w : World) : String :=
  let ents := (List.range w.ords.size).map fun n =>
    let id := w.ordKey n
    match w.entities.get id with
    | none => s!"#{n}=x"
    | some loc =>
      match w.archs.get loc.arch with
      | none => s!"#{n}=?"
      | some a =>
        let cells := (List.range 6).filterMap fun ty =>
          match w.compIdxOfTy ty with
          | none => none
          | some (k, _) =>
            match a.readCell k.idx loc.row with
            | some c => some (if compSized ty then s!"K{ty}:{c.v}" else s!"K{ty}")
            | none => none
        s!"#{n}=" ++ "{" ++ ",".intercalate cells ++ "}"
  s!"st n={w.entities.len} " ++ " ".intercalate ents

def evOrder : List EvTy :=
  [.g 0, .g 1, .g 2, .g 3, .spawn, .addC, .remC, .addH, .remH, .addG, .addT, .remG, .remT,
   .t 0, .t 1, .t 2, .despawn] ++ (List.range 6).map .ins ++ (List.range 6).map .rem

/-- `> reg`: current ids of every registered component, event and handler; how many removed ids are valid -/
def World.renderReg (w : World) : String :=
  let cs := (List.range 6).filterMap fun ty => (w.compIdxOfTy ty).map fun (k, _) => s!"K{ty}={k.render}"
  let es := evOrder.filterMap fun ty =>
    (if ty.targeted then w.tevOfTy ty else w.gevOfTy ty).map fun (k, _) => s!"{ty.render}={k.render}"
  let hs := w.byInsertOrder.filterMap fun k => (w.handlers.get k).map fun h => s!"{h.name}={k.render}"
  let stale := w.removedIds.filter fun (c, k) =>
    match c with
    | 'c' => w.comps.contains k
    | 'g' => w.gevs.contains k
    | 't' => w.tevs.contains k
    | _ => w.handlers.contains k
  s!"reg c:{",".intercalate cs} e:{",".intercalate es} h:{",".intercalate hs} stale={stale.length}"

def renderCDrops (l : List (Nat × Nat)) : String :=
  let strs := l.map fun (ty, s) => if compSized ty then s!"K{ty}:s{s}" else s!"K{ty}"
  " ".intercalate (sortStrings strs)

def renderKeys (l : List Key) : String := "[" ++ ",".intercalate (l.map Key.render) ++ "]"
def keyOrd (k : Key) : Nat := k.gen * 4294967296 + k.idx

def HandlerList.dump (l : HandlerList Key) : String :=
  s!"before={l.before} after={l.after} {renderKeys l.entries}"

/-- `World::verif_snapshot` (the `arch` channel): same text as the hook in `/repo` prints -/
def World.renderSnapshot (w : World) : List String :=
  let nextkey := match w.entities.nextKey w.entities.nextKeyIndex with
    | .key k _ => k.render
    | _ => "none"
  let ent := s!"ent len={w.entities.len} nextfree={w.entities.nextFree} res.index={w.resIndex} res.count={w.resCount} nextkey={nextkey} queue={w.queue.length}"
  let locs := "locs [" ++ ",".intercalate (w.entities.toList.map fun (k, l) => s!"{k.render}@{l.arch}:{l.row}") ++ "]"
  let archs := w.archs.toList.flatMap fun (i, a) =>
    let edges (m : List (Nat × Nat)) := "[" ++ ",".intercalate (m.map fun (c, d) => s!"{c}>{d}") ++ "]"
    let refresh := (a.refresh.toArray.qsort fun x y => keyOrd x < keyOrd y).toList
    let ls := ((a.listeners.keys.zip a.listeners.values).toArray.qsort fun x y => x.1 < y.1).toList
    let lss := ";".intercalate (ls.map fun (k, l) => s!"{k}:{HandlerList.dump l}")
    [s!"arch {i} index={a.index} comps=[{",".intercalate (a.comps.map toString)}] ids={renderKeys a.ids} ins={edges a.insEdges} rem={edges a.remEdges} refresh={renderKeys refresh} listeners=[{lss}]",
     s!"archcap {i} {a.cap}"]
  let n := w.archs.toList.length
  let exact := w.archs.toList.all fun (i, a) => w.archByComps a.comps == some i
  let glists := w.byGlobal.zipIdx.map fun (l, i) => s!"glist {i} {HandlerList.dump l}"
  let members := w.comps.toList.map fun (k, ci) => s!"member {k.idx} [{",".intercalate (ci.memberOf.map toString)}]"
  [ent, locs] ++ archs ++ [s!"bycomps n={n} exact={exact}"] ++ glists
    ++ [s!"hord {renderKeys w.byInsertOrder}", s!"hlen {w.handlers.len}"] ++ members

/-- one protocol step: the observation lines for `op` -/
def step (w : World) (op : Op) (snap : Bool := false) : World × List String :=
  let w := { w with out := #[], edrops := [], cdrops := [], budget := BUDGET }
  let (r, w) := (execOp op).run.run w
  let head := match r with
    | .ok lines => lines
    | .error (.panic cls) => [s!"panic {cls}"]
    | .error (.ub site) => [s!"ub {site}"]
    | .error (.assert site) => [s!"assert {site}"]
  let lines := head ++ w.out.toList.map (fun s => "t " ++ s)
    ++ [s!"ed {" ".intercalate ((natSort w.edrops).map toString)}".trimAsciiEnd.toString,
        s!"cd {renderCDrops w.cdrops}".trimAsciiEnd.toString]
    ++ (match op with
        | .drop => []
        | _ => [w.renderStore, w.renderReg, s!"pend res={w.resCount} queue={w.queue.length}"]
               ++ (if snap then w.renderSnapshot.map ("snap " ++ ·) else []))
  (w, lines)

end Evenio
