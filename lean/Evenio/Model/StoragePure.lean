import Evenio.Model.Storage
/-! Pure (non-monadic) counterparts of the storage-relevant part of the world operations of `World.lean`
    (`moveEntity`, `removeEntity`, `archSpawn` + the `entities` slot-map bookkeeping), built from the SAME building
    blocks (`moveCols`, `SparseMap.swapRemove`, `assignCol`).  What is left out is exactly what does not touch
    component storage: capacities / buffer epochs (`reserveOne`), handler caches (`handlerRefresh`,
    `handlerRemoveArch`), the drop *ledger* (`dropCellIdx`: here the dropped cells are returned instead), and the
    generational part of the entity slot map (the `locs` association list holds the live entities only).
    Archetypes are addressed by their position in `archs` (the world addresses them by `Arch.index` in a slab; in
    every reachable world `index` = position).  Core Lean only. -/
namespace Evenio
open SparseMap (swapRemove)

structure Store where
  archs : List Arch            -- `Archetypes.archetypes`, indexed by position
  locs  : List (Key × Loc)     -- `Entities`: live entity ↦ location, keys distinct
deriving Repr, Inhabited

namespace Store

/-- `Entities::get` -/
def loc (st : Store) (e : Key) : Option Loc := (st.locs.find? fun p => p.1 = e).map (·.2)

/-- `World.setLoc` (`*entities.get_mut(id).unwrap_unchecked() = f(..)`); `none` = the `ubErr` branch -/
def setLoc (st : Store) (id : Key) (f : Loc → Loc) : Option Store :=
  match st.loc id with
  | some _ => some { st with locs := st.locs.map fun p => if p.1 = id then (p.1, f p.2) else p }
  | none => none

/-- `entities.remove(id)`; `none` = the `ubErr` branch -/
def removeLoc (st : Store) (id : Key) : Option (Loc × Store) :=
  match st.loc id with
  | some l => some (l, { st with locs := st.locs.filter fun p => p.1 ≠ id })
  | none => none

/-- the `for (c, x) in new` loop of the same-archetype branch of `moveEntity` (`column_of_mut` + `Column::assign`);
    returns the archetype and the overwritten (dropped) cells, in order -/
def assignAll (a : Arch) (row : Nat) : List (Nat × Cell) → Option (Arch × List Cell)
  | [] => some (a, [])
  | (c, x) :: new =>
    match a.colIdx c with
    | none => none                                    -- "archetype.rs:move_entity:column_of_mut"
    | some i =>
      match a.cols[i]? >>= fun col => assignCol col row x with
      | none => none                                  -- "archetype.rs:assign:oob"
      | some (col', old) =>
        match assignAll { a with cols := a.cols.set i col' } row new with
        | some (a', dr) => some (a', old :: dr)       -- `dropCellIdx c old`
        | none => none

/-- `moveEntity` of `World.lean`, line by line. Returns the new store and the dropped cells. -/
def moveEntity (st : Store) (src : Loc) (dst : Nat) (new : List (Nat × Cell)) : Option (Store × List Cell) :=
  if src.arch = dst then                                            -- if src.arch == dst then
    match st.archs[src.arch]? with                                  --   let a ← getArch src.arch
    | none => none
    | some a =>
      match assignAll a src.row new with                            --   for (c, x) in new do … assignCol …
      | none => none
      | some (a', dr) => some ({ st with archs := st.archs.set src.arch a' }, dr)   -- setArch a; return
  else
    match st.archs[src.arch]?, st.archs[dst]? with                  -- let sa ← getArch src.arch; let da ← getArch dst
    | some sa, some da =>
      let dstRow := da.ids.length                                   -- let dstRow := da.ids.length
                                                                    -- (reserveOne: only cap / epoch)
      match moveCols src.row sa.comps sa.cols da.comps da.cols new with
      | none => none                                                -- "archetype.rs:move_entity:merge"
      | some r =>                                                   -- (dropCellIdx for r.dropped: returned)
        match sa.ids[src.row]? with
        | none => none                                              -- swap_remove index out of bounds
        | some eid =>
          let sids := swapRemove sa.ids src.row                     -- let sids := swapRemove sa.ids src.row
          let sa' := { sa with cols := r.src, ids := sids }
          let da' := { da with cols := r.dst, ids := da.ids ++ [eid] }
          let st1 : Store := { st with archs := (st.archs.set src.arch sa').set dst da' }  -- setArch sa; setArch da
          match st1.setLoc eid fun _ => ⟨dst, dstRow⟩ with          -- setLoc eid … fun _ => ⟨dst, dstRow⟩
          | none => none
          | some st2 =>
            match sids[src.row]? with                               -- match sids[src.row]? with
            | some swapped =>                                       -- | some swapped => setLoc swapped … row := src.row
              match st2.setLoc swapped fun l => { l with row := src.row } with
              | none => none
              | some st3 => some (st3, r.dropped)
            | none => some (st2, r.dropped)                         -- | none => pure ()
    | _, _ => none

/-- the `for (c, col) in a.comps.zip a.cols` loop of `removeEntity`: new columns and the dropped cells -/
def removeCols (row : Nat) : List (Nat × List Cell) → Option (List (List Cell) × List Cell)
  | [] => some ([], [])
  | (_, col) :: rest =>
    match col[row]?, removeCols row rest with
    | some x, some (cols, dr) => some (swapRemove col row :: cols, x :: dr)   -- dropCellIdx c x; cols ++ [swapRemove …]
    | _, _ => none                                                            -- "archetype.rs:swap_remove:oob"

/-- `removeEntity` of `World.lean`, line by line. -/
def removeEntity (st : Store) (loc : Loc) : Option (Store × List Cell) :=
  match st.archs[loc.arch]? with                                    -- let a ← getArch loc.arch
  | none => none
  | some a =>
    match removeCols loc.row (a.comps.zip a.cols) with              -- for (c, col) in a.comps.zip a.cols do …
    | none => none
    | some (cols, dr) =>
      match a.ids[loc.row]? with                                    -- match a.ids[loc.row]? with
      | none => none                                                -- assume_unchecked
      | some id =>
        let ids := swapRemove a.ids loc.row                         -- let ids := swapRemove a.ids loc.row
        let a' := { a with cols := cols, ids := ids }
        let st1 : Store := { st with archs := st.archs.set loc.arch a' }   -- setArch a
        match st1.removeLoc id with                                 -- w.entities.remove id
        | none => none
        | some (_, st2) =>                                          -- (debug_assert removed == loc)
          match ids[loc.row]? with
          | some displaced =>                                       -- setLoc displaced … row := loc.row
            match st2.setLoc displaced fun l => { l with row := loc.row } with
            | none => none
            | some st3 => some (st3, dr)
          | none => some (st2, dr)

/-- `archSpawn id` followed by `entities.set k loc` (`spawnAll`): append to archetype 0 (which has no columns). -/
def spawn (st : Store) (id : Key) : Store :=
  match st.archs[0]? with                                           -- let empty ← getArch 0
  | none => st
  | some empty =>
    let row := empty.ids.length                                     -- let row := empty.ids.length
    { archs := st.archs.set 0 { empty with ids := empty.ids ++ [id] },   -- setArch { empty with ids := ids ++ [id] }
      locs := st.locs ++ [(id, ⟨0, row⟩)] }                         -- entities.set k ⟨0, row⟩

/-! ### abstraction -/

/-- the entity id stored at a location -/
def rowId (st : Store) (l : Loc) : Option Key :=
  match st.archs[l.arch]? with
  | some a => a.ids[l.row]?
  | none => none

/-- reading component `c` of entity `e` through its location -/
def get (st : Store) (e : Key) (c : Nat) : Option Cell :=
  match st.loc e with
  | none => none
  | some l =>
    match st.archs[l.arch]? with
    | none => none
    | some a => a.readCell c l.row

/-- the component set of `e`'s archetype -/
def comps (st : Store) (e : Key) : Option (List Nat) :=
  match st.loc e with
  | none => none
  | some l => (st.archs[l.arch]?).map (·.comps)

/-- all cells in storage -/
def cells (st : Store) : List Cell := st.archs.flatMap fun a => a.cols.flatten

/-- per-archetype shape invariant -/
structure ArchWF (a : Arch) : Prop where
  cols_len : a.cols.length = a.comps.length
  col_len : ∀ col ∈ a.cols, col.length = a.ids.length
  sorted : a.comps.Pairwise (· < ·)

/-- well-formedness: shapes, distinct keys, locations ↔ rows bijection -/
structure WF (st : Store) : Prop where
  arch : ∀ a ∈ st.archs, ArchWF a
  keys : (st.locs.map (·.1)).Nodup
  bij : ∀ e l, (e, l) ∈ st.locs ↔ st.rowId l = some e

/-- archetype 0 is the empty archetype (no columns) -/
def HasEmpty (st : Store) : Prop := ∃ a, st.archs[0]? = some a ∧ a.comps = []

end Store
end Evenio
