import Evenio.Model.World
/-! The quiescent-point invariant `Inv` (C17, and the conjuncts C08/C10/C14/C15 rest on), as an executable predicate
    over the model state.  The driver evaluates it after every top-level operation (`--inv`); the theorems about the
    component data structures (`Props/`) are the preservation lemmas of its conjuncts. -/
namespace Evenio

def listSubset (a b : List Key) : Bool := a.all fun x => b.contains x
def sameSet (a b : List Key) : Bool := listSubset a b && listSubset b a
def strictlySorted : List Nat → Bool
  | [] => true
  | [_] => true
  | x :: y :: r => x < y && strictlySorted (y :: r)

/-- handlers of a given priority, in insertion order -/
def World.handlersWhere (w : World) (p : HInfo → Bool) : List Key :=
  let live := w.byInsertOrder.filterMap fun k => (w.handlers.get k).map fun h => (k, h)
  let sel (pr : Priority) := (live.filter fun (_, h) => h.prio == pr && p h).map (·.1)
  sel .high ++ sel .medium ++ sel .low

/-- every live entity is stored at exactly the row its recorded location says, and vice versa; columns are as long
    as the id list -/
def World.invStore (w : World) : Bool :=
  (w.entities.toList.all fun (k, loc) =>
    match w.archs.get loc.arch with
    | some a => a.ids[loc.row]? == some k
    | none => false)
  && (w.archs.toList.all fun (i, a) =>
    a.cols.length == a.comps.length
    && (a.cols.all fun col => col.length == a.ids.length)
    && (a.ids.zipIdx.all fun (id, row) => w.entities.get id == some ⟨i, row⟩))
  && w.entities.len == (w.archs.toList.map fun (_, a) => a.ids.length).sum

/-- archetypes have pairwise distinct, strictly sorted component sets over live component types, are retrievable by
    component set, and the component-less archetype exists at index 0 -/
def World.invArch (w : World) : Bool :=
  (match w.archs.get 0 with | some a => a.comps.isEmpty | none => false)
  && (w.archs.toList.all fun (i, a) =>
    a.index == i && strictlySorted a.comps
    && (a.comps.all fun c => (w.comps.getByIndex c).isSome)
    && w.archByComps a.comps == some i
    && (w.archs.toList.all fun (j, b) => i == j || a.comps != b.comps))

/-- cached transitions lead to live archetypes that differ by exactly the labelled component -/
def World.invEdges (w : World) : Bool :=
  w.archs.toList.all fun (_, a) =>
    (a.insEdges.all fun (c, d) =>
      match w.archs.get d with
      | some b => !a.comps.contains c && b.comps == insertSorted a.comps c
      | none => false)
    && (a.remEdges.all fun (c, d) =>
      match w.archs.get d with
      | some b => a.comps.contains c && b.comps == a.comps.filter (· != c)
      | none => false)

/-- `member_of` of every component type is exactly the set of archetypes having it -/
def World.invMembers (w : World) : Bool :=
  w.comps.toList.all fun (k, ci) =>
    let expected := (w.archs.toList.filter fun (_, a) => a.comps.contains k.idx).map (·.1)
    ci.memberOf.eraseDups.length == ci.memberOf.length
    && (ci.memberOf.all fun i => expected.contains i) && (expected.all fun i => ci.memberOf.contains i)

/-- per-archetype listener tables: for every targeted event, exactly the live handlers receiving it whose filter
    matches the archetype, by priority then insertion order (C07, C08, C15) -/
def World.invListeners (w : World) : Bool :=
  w.archs.toList.all fun (_, a) =>
    (w.tevs.toList.all fun (tk, _) =>
      let expected := w.handlersWhere fun h => h.recv.targeted && h.recvKey == tk && h.filter.matches a.S
      match a.listeners.get tk.idx with
      | some l => l.entries == expected
          && l.before == (expected.filter fun k => (w.handlers.get k).any (·.prio == .high)).length
          && l.after == (expected.filter fun k => (w.handlers.get k).any (·.prio != .low)).length
      | none => expected.isEmpty)
    -- and no table for an event index that no live event uses holds anything
    && ((a.listeners.keys.zip a.listeners.values).all fun (t, l) =>
          l.entries.isEmpty || (w.tevs.getByIndex t).isSome)

/-- global handler lists (C07, C15) -/
def World.invGlobal (w : World) : Bool :=
  (w.gevs.toList.all fun (gk, _) =>
    let expected := w.handlersWhere fun h => !h.recv.targeted && h.recvKey == gk
    match w.byGlobal[gk.idx]? with
    | some l => l.entries == expected
    | none => false)
  && (w.byGlobal.zipIdx.all fun (l, i) => l.entries.isEmpty || (w.gevs.getByIndex i).isSome)
  && w.byInsertOrder.length == w.handlers.len
  && (w.byInsertOrder.all fun k => w.handlers.contains k)

/-- refresh listeners: exactly the live handlers whose archetype filter matches -/
def World.invRefresh (w : World) : Bool :=
  w.archs.toList.all fun (_, a) =>
    let expected := (w.byInsertOrder.filter fun k =>
      match w.handlers.get k with
      | some h => h.archFilter.matches a.S
      | none => false)
    sameSet a.refresh expected && a.refresh.eraseDups.length == a.refresh.length

/-- fetcher caches hold exactly the non-empty matching live archetypes, with their current arch state and buffer
    epoch (C10) -/
def World.invCache (w : World) : Bool :=
  w.handlers.toList.all fun (_, h) =>
    h.params.all fun p =>
      !p.hasQ ||
      ((w.archs.toList.all fun (i, a) =>
          let expected := if a.ids.isEmpty then none else (p.q.archState a.S).map fun st => (st, a.epoch)
          p.cache.get i == expected)
       && (p.cache.keys.all fun i => (w.archs.get i).isSome)
       && p.cache.keys.eraseDups.length == p.cache.keys.length
       && p.cache.keys.length == p.cache.values.length)

/-- nothing is pending -/
def World.invPending (w : World) : Bool :=
  w.resCount == 0 && w.queue.isEmpty && w.resIndex == w.entities.nextKeyIndex

/-- registry cross references: components know their Insert/Remove events; handlers reference live things (C14) -/
def World.invRegistry (w : World) : Bool :=
  (w.comps.toList.all fun (_, ci) =>
    (ci.insEvents ++ ci.remEvents).all fun e => w.tevs.contains e)
  && (w.tevs.toList.all fun (_, ei) =>
    match ei.kind with
    | .insert c | .remove c => (w.comps.getByIndex c).isSome
    | _ => true)
  && (w.handlers.toList.all fun (_, h) =>
    (h.referenced.all fun c => (w.comps.getByIndex c).isSome)
    && (if h.recv.targeted then w.tevs.contains h.recvKey else w.gevs.contains h.recvKey)
    && (h.sentG.all fun i => (w.gevs.getByIndex i).isSome)
    && (h.sentT.all fun i => (w.tevs.getByIndex i).isSome))

def World.invReport (w : World) : List String :=
  [("store", w.invStore), ("arch", w.invArch), ("edges", w.invEdges), ("members", w.invMembers),
   ("listeners", w.invListeners), ("global", w.invGlobal), ("refresh", w.invRefresh), ("cache", w.invCache),
   ("pending", w.invPending), ("registry", w.invRegistry)].filterMap fun (n, ok) => if ok then none else some n

/-- the invariant of C17 -/
def World.Inv (w : World) : Bool := w.invReport.isEmpty

end Evenio
