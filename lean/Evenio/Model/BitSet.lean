/-! Model of `bit_set.rs` (`BitSet<T>`): a set of indices backed by a vector of 64-bit blocks.

    Import-free and executable.  Every definition mirrors the Rust function of the same name block by block;
    `Block = usize` is `BitVec 64` (64-bit target), `Vec<Block>` is `List (BitVec 64)`.  Values are taken as the
    `usize` produced by `SparseIndex::index()`, represented by a `Nat`; `div_rem(idx, BITS)` is `(v / 64, v % 64)`.

    Out of scope: the `assert_ne!(block_idx, usize::MAX)` in `grow_to_block` (block count overflow; an index
    `v < 2^64` has `v / 64 < 2^58`, so the assertion cannot fire on a 64-bit target), allocation failure of
    `Vec::resize`, and `Vec::shrink_to_fit` (capacity is not observable). -/
namespace Evenio

/-- `pub(crate) struct BitSet<T = usize> { blocks: Vec<Block>, _marker }`. -/
structure BitSet where
  blocks : List (BitVec 64) := []
deriving Repr, Inhabited, DecidableEq

namespace BitSet

/-- `type Block = usize`. -/
abbrev Block := BitVec 64

/-- `const BITS: usize = Block::BITS as usize`. -/
abbrev BITS : Nat := 64

/-- `Vec::resize(new_len, 0)`: truncate, or extend with zero blocks. -/
def resize (l : List Block) (newLen : Nat) : List Block :=
  l.take newLen ++ List.replicate (newLen - l.length) 0

/-- `1 << bit` as a `usize` (callers pass `bit < 64`). -/
def mask (bit : Nat) : Block := 1#64 <<< bit

/-- `BitSet::new()` (also `Default::default()`). -/
def new : BitSet := ⟨[]⟩

/-- `clear`: `self.blocks.clear()`. -/
def clear (_s : BitSet) : BitSet := ⟨[]⟩

/-- `grow_to_block`: `if block_idx >= self.blocks.len() { self.blocks.resize(block_idx + 1, 0) }`.
    The returned `&mut Block` is `blocks[block_idx]` of the result.  (The `usize::MAX` assertion is out of scope.) -/
def growToBlock (s : BitSet) (blockIdx : Nat) : BitSet :=
  if blockIdx ≥ s.blocks.length then ⟨resize s.blocks (blockIdx + 1)⟩ else s

/-- `is_disjoint`: `self.blocks.iter().zip(other.blocks.iter()).all(|(a, b)| a & b == 0)`. -/
def isDisjoint (s other : BitSet) : Bool :=
  (s.blocks.zip other.blocks).all fun (a, b) => a &&& b == 0

/-- `len`: `self.blocks.iter().map(|block| block.count_ones() as usize).sum()`. -/
def len (s : BitSet) : Nat :=
  (s.blocks.map fun block => block.cpop.toNat).sum

/-- `is_empty`: `self.blocks.iter().all(|&block| block == 0)`. -/
def isEmpty (s : BitSet) : Bool :=
  s.blocks.all fun block => block == 0

/-- `insert`; the `Bool` is `newly_inserted`. -/
def insert (s : BitSet) (value : Nat) : BitSet × Bool :=
  let block := value / BITS
  let bit := value % BITS
  let s' := s.growToBlock block
  let b := s'.blocks.getD block 0            -- `*block` (in bounds after `grow_to_block`)
  let newlyInserted := b &&& mask bit == 0
  (⟨s'.blocks.set block (b ||| mask bit)⟩, newlyInserted)

/-- `remove`; the `Bool` is `removed` (`false` when the block does not exist). -/
def remove (s : BitSet) (value : Nat) : BitSet × Bool :=
  let block := value / BITS
  let bit := value % BITS
  match s.blocks[block]? with
  | some b =>
    let removed := b &&& mask bit != 0
    (⟨s.blocks.set block (b &&& ~~~ mask bit)⟩, removed)
  | none => (s, false)

/-- `contains`: `self.blocks.get(block).map_or(false, |&block| (block >> bit) & 1 == 1)`. -/
def contains (s : BitSet) (value : Nat) : Bool :=
  let block := value / BITS
  let bit := value % BITS
  match s.blocks[block]? with
  | none => false
  | some b => (b >>> bit) &&& 1 == 1

/-- `struct Iter { bits, block_idx, blocks }`. -/
structure Iter where
  bits : Block
  blockIdx : Nat
  blocks : List Block
deriving Repr

/-- `BitSet::iter`: `bits = blocks.first().copied().unwrap_or(0)`, `block_idx = 0`. -/
def mkIter (s : BitSet) : Iter :=
  { bits := s.blocks.head?.getD 0, blockIdx := 0, blocks := s.blocks }

/-- The loop `while self.bits == 0 { self.bits = *self.blocks.get(self.block_idx + 1)?; self.block_idx += 1; }`.
    The `Bool` is `true` when the loop is left normally (`bits != 0`) and `false` when `?` returns `None`
    (the state is then unchanged by the failing iteration).  `fuel` bounds the number of iterations;
    `blocks.len() + 1` always suffices (`Iter.skipZero_spec` in the proofs). -/
def Iter.skipZero : Nat → Iter → Iter × Bool
  | 0, it => (it, false)
  | fuel + 1, it =>
    if it.bits == 0 then
      match it.blocks[it.blockIdx + 1]? with
      | none => (it, false)
      | some b => Iter.skipZero fuel { it with bits := b, blockIdx := it.blockIdx + 1 }
    else (it, true)

/-- `Iter::next`: result and the iterator state afterwards. -/
def Iter.next (it : Iter) : Option Nat × Iter :=
  match it.skipZero (it.blocks.length + 1) with
  | (it', false) => (none, it')
  | (it', true) =>
    let zeros := it'.bits.ctz.toNat                       -- `self.bits.trailing_zeros() as usize`
    (some (it'.blockIdx * BITS + zeros), { it' with bits := it'.bits ^^^ mask zeros })

/-- Drive `next` until the first `None` (at most `fuel` calls). -/
def Iter.collect : Nat → Iter → List Nat
  | 0, _ => []
  | fuel + 1, it =>
    match it.next with
    | (none, _) => []
    | (some v, it') => v :: Iter.collect fuel it'

/-- `iter().collect()`.  A set with `n` blocks yields at most `64 * n` items, so `64 * n + 1` calls of `next`
    reach the first `None` (`iter_eq_filter` in the proofs shows that nothing is cut off). -/
def iter (s : BitSet) : List Nat :=
  s.mkIter.collect (BITS * s.blocks.length + 1)

/-- The `while let Some(&last) = self.blocks.last() { if last != 0 { break } self.blocks.pop(); }` loop,
    on the reversed vector. -/
def dropZeroPrefix : List Block → List Block
  | [] => []
  | last :: rest => if last != 0 then last :: rest else dropZeroPrefix rest

/-- `shrink_to_fit`: pop trailing zero blocks (the capacity change is not observable). -/
def shrinkToFit (s : BitSet) : BitSet :=
  ⟨(dropZeroPrefix s.blocks.reverse).reverse⟩

/-- `for (a, b) in self.blocks.iter_mut().zip(rhs.blocks.iter()) { *a = f(*a, *b) }`: the zip stops at the
    shorter side, the remaining blocks of `self` stay. -/
def zipAssign (f : Block → Block → Block) : List Block → List Block → List Block
  | [], _ => []
  | as, [] => as
  | a :: as, b :: bs => f a b :: zipAssign f as bs

/-- `BitOrAssign<&Self>`: `self |= rhs`. -/
def orAssign (s rhs : BitSet) : BitSet :=
  let blocks := if s.blocks.length < rhs.blocks.length then resize s.blocks rhs.blocks.length else s.blocks
  ⟨zipAssign (· ||| ·) blocks rhs.blocks⟩

/-- `BitXorAssign<&Self>`: `self ^= rhs`. -/
def xorAssign (s rhs : BitSet) : BitSet :=
  let blocks := if s.blocks.length < rhs.blocks.length then resize s.blocks rhs.blocks.length else s.blocks
  ⟨zipAssign (· ^^^ ·) blocks rhs.blocks⟩

/-- `Ord::cmp`, the iterations in which `left.next()` is `None` (slice iterators are fused):
    `(None, None) => Equal`, `(None, Some(&r)) => if r != 0 { break Greater }`. -/
def cmpLeftDone : List Block → Ordering
  | [] => .eq
  | r :: rs => if r != 0 then .gt else cmpLeftDone rs

/-- `Ord::cmp`, the iterations in which `right.next()` is `None`:
    `(Some(&l), None) => if l != 0 { break Less }`. -/
def cmpRightDone : List Block → Ordering
  | [] => .eq
  | l :: ls => if l != 0 then .lt else cmpRightDone ls

/-- The `loop { match (left.next(), right.next()) { … } }` of `Ord::cmp`, written literally:
    a nonzero surplus block on the RIGHT gives `Greater`, a nonzero surplus block on the LEFT gives `Less`;
    common positions compare as unsigned integers (`usize::cmp`). -/
def cmpBlocks : List Block → List Block → Ordering
  | [], rs => cmpLeftDone rs
  | l :: ls, [] => cmpRightDone (l :: ls)
  | l :: ls, r :: rs =>
    match compare l.toNat r.toNat with
    | .lt => .lt
    | .eq => cmpBlocks ls rs
    | .gt => .gt

/-- `impl Ord for BitSet`: `self.cmp(other)`. -/
def cmp (s other : BitSet) : Ordering := cmpBlocks s.blocks other.blocks

/-- `impl PartialEq for BitSet`: `self.cmp(other).is_eq()`. -/
def beq (s other : BitSet) : Bool := s.cmp other == .eq

/-- `FromIterator`: insert every item into a new set. -/
def ofList (vs : List Nat) : BitSet :=
  vs.foldl (fun s v => (s.insert v).1) new

end BitSet
end Evenio
