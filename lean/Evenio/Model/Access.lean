import Evenio.Generated.AccessTables
/-! Model of `access.rs`: `ComponentAccess` as a DNF over literals `(component index, CaseAccess)`.
    Executable, import-free (core Lean only).  The per-literal tables (`combine`, `negate`, `clearLit`,
    `positive`, `varLit`, `Access.join`) are regenerated from the Rust source on every run. -/
namespace Evenio

/-- `type Case = Vec<(ComponentIdx, CaseAccess)>`, sorted ascending by component index. -/
abbrev Case := List (Nat × CaseAccess)
/-- `ComponentAccess { cases }` -/
abbrev CA := List Case

/-- The inner `loop` of `ComponentAccess::and`: merge of two sorted association lists.
    `none` is `continue 'next_case` (contradictory literal). -/
def mergeCase : Case → Case → Option Case
  | [], r => some r
  | l, [] => some l
  | (li, la) :: l, (ri, ra) :: r =>
    if li < ri then (mergeCase l ((ri, ra) :: r)).map ((li, la) :: ·)
    else if li = ri then
      match combine la ra with
      | none => none
      | some a => (mergeCase l r).map ((li, a) :: ·)
    else (mergeCase ((li, la) :: l) r).map ((ri, ra) :: ·)

/-- `ComponentAccess::new_true` -/
def CA.tt : CA := [[]]
/-- `ComponentAccess::new_false` -/
def CA.ff : CA := []
/-- `ComponentAccess::var` -/
def CA.var (idx : Nat) (a : Access) : CA := [[(idx, varLit a)]]
/-- `ComponentAccess::and`: the outer loop runs over `rhs`, the inner one over `self`. -/
def CA.and (a b : CA) : CA := b.flatMap fun right => a.filterMap fun left => mergeCase left right
/-- `ComponentAccess::or` -/
def CA.or (a b : CA) : CA := a ++ b
/-- one literal of `ComponentAccess::not`, as a single-literal case -/
def negLit : Nat × CaseAccess → Case
  | (i, a) => [(i, negate a)]
/-- `ComponentAccess::not` -/
def CA.not (ca : CA) : CA := ca.foldl (fun acc c => acc.and (c.map negLit)) CA.tt
/-- `ComponentAccess::clear_access` -/
def CA.clearAccess (ca : CA) : CA := ca.map fun c => c.map fun (i, a) => (i, clearLit a)

/-- truth of one literal on an archetype `S` (the closure passed to `matches_archetype`) -/
def lit (S : Nat → Bool) : Nat × CaseAccess → Bool
  | (i, a) => if positive a then S i else !S i
def Case.sat (c : Case) (S : Nat → Bool) : Bool := c.all (lit S)
/-- `ComponentAccess::matches_archetype` -/
def CA.matches (ca : CA) (S : Nat → Bool) : Bool := ca.any (·.sat S)

/-- `collect_conflicts`, in first-occurrence order, without duplicates (an `IndexSet`). -/
def CA.conflicts (ca : CA) : List Nat :=
  (ca.flatMap fun c => c.filterMap fun (i, a) => if a = .cf then some i else none).eraseDups
def CA.hasConflict (ca : CA) : Bool := ca.any fun c => c.any fun (_, a) => a == .cf

/-- rendering identical to Rust's `{:?}` of `ComponentAccess` modulo the names (used by the driver) -/
def CaseAccess.render : CaseAccess → String
  | .wth => "With" | .rd => "Read" | .rw => "ReadWrite" | .nt => "Not" | .cf => "Conflict"
def CA.render (ca : CA) : String :=
  "[" ++ ", ".intercalate (ca.map fun c =>
    "[" ++ ", ".intercalate (c.map fun (i, a) => s!"({i},{a.render})") ++ "]") ++ "]"

end Evenio
