import Evenio.Model.SlotMap
/-! Model of `sparse_map.rs`: `sparse[key] = dense index | MAX`, `dense` values, `indices` keys (same length). -/
namespace Evenio

structure SparseMap (ν : Type) where
  sparse : List Nat := []
  dense : List ν := []
  indices : List Nat := []
deriving Repr, Inhabited

namespace SparseMap
variable {ν : Type}

def get (m : SparseMap ν) (key : Nat) : Option ν :=
  match m.sparse[key]? with
  | none => none
  | some idx => if idx ≥ U32MAX then none else m.dense[idx]?

/-- like `get`, but distinguishes the `get_unchecked` out-of-bounds case (`none` on the outside = UB marker) -/
def getChecked (m : SparseMap ν) (key : Nat) : Option (Option ν) :=
  match m.sparse[key]? with
  | none => some none
  | some idx => if idx ≥ U32MAX then some none else
      match m.dense[idx]? with
      | some v => some (some v)
      | none => none

def insert (m : SparseMap ν) (key : Nat) (v : ν) : SparseMap ν :=
  let sparse := if key ≥ m.sparse.length then m.sparse ++ List.replicate (key + 1 - m.sparse.length) U32MAX else m.sparse
  match sparse[key]? with
  | some idx =>
    if idx = U32MAX then
      { sparse := sparse.set key m.dense.length, dense := m.dense ++ [v], indices := m.indices ++ [key] }
    else { sparse := sparse, dense := m.dense.set idx v, indices := m.indices }
  | none => m  -- unreachable: `sparse` was resized

/-- `Vec::swap_remove` -/
def swapRemove {α : Type} (l : List α) (i : Nat) : List α :=
  match l.getLast? with
  | none => l
  | some last => if i + 1 = l.length then l.dropLast else (l.set i last).dropLast

def remove (m : SparseMap ν) (key : Nat) : SparseMap ν :=
  match m.sparse[key]? with
  | none => m
  | some idx =>
    let sparse := m.sparse.set key U32MAX
    if idx = U32MAX then { m with sparse := sparse }
    else
      let dense := swapRemove m.dense idx
      let indices := swapRemove m.indices idx
      match indices[idx]? with
      | some moved => { sparse := sparse.set moved idx, dense, indices }
      | none => { sparse, dense, indices }

def keys (m : SparseMap ν) : List Nat := m.indices
def values (m : SparseMap ν) : List ν := m.dense

end SparseMap
end Evenio
