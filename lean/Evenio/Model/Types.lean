/-! Basic enumerations shared by the generated tables and the model (`access.rs`). -/
namespace Evenio

/-- `access.rs: enum Access` -/
inductive Access | none | read | readWrite
deriving DecidableEq, Repr, Inhabited

/-- `access.rs: enum CaseAccess` (`wth` = `With`, `nt` = `Not`, `cf` = `Conflict`) -/
inductive CaseAccess | wth | rd | rw | nt | cf
deriving DecidableEq, Repr, Inhabited

def CaseAccess.all : List CaseAccess := [.wth, .rd, .rw, .nt, .cf]

end Evenio
