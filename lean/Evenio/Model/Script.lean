import Evenio.Model.Query
import Evenio.Model.Storage
/-! The operation vocabulary shared by the Rust harness and the model: event types, handler specifications
    (parameter lists + scripted bodies) and top-level operations. -/
namespace Evenio

/-- the event types of the fixed universe: user events `G0..`, `T0..` and the built-ins -/
inductive EvTy
  | g (n : Nat) | t (n : Nat)
  | spawn | despawn | ins (k : Nat) | rem (k : Nat)
  | addC | remC | addH | remH | addG | addT | remG | remT
deriving DecidableEq, Repr, Inhabited

def EvTy.targeted : EvTy → Bool
  | .t _ | .despawn | .ins _ | .rem _ => true
  | _ => false

inductive EvKind | normal | insert (c : Nat) | remove (c : Nat) | spawn | despawn
deriving DecidableEq, Repr, Inhabited

/-- layout classes of the component universe `K0..K5` (C01/C12):
    K0 sized plain, K1 sized+Drop, K2 ZST, K3 ZST+Drop, K4 over-aligned sized+Drop, K5 over-aligned ZST -/
def compNeedsDrop (k : Nat) : Bool := k == 1 || k == 3 || k == 4
def compSized (k : Nat) : Bool := k == 0 || k == 1 || k == 4

def EvTy.render : EvTy → String
  | .g n => s!"G{n}" | .t n => s!"T{n}"
  | .spawn => "Spawn" | .despawn => "Despawn"
  | .ins k => s!"InsK{k}" | .rem k => s!"RemK{k}"
  | .addC => "AddC" | .remC => "RemC" | .addH => "AddH" | .remH => "RemH"
  | .addG => "AddG" | .addT => "AddT" | .remG => "RemG" | .remT => "RemT"

/-- how a script names an entity -/
inductive Tgt
  | self            -- the target of the received (targeted) event
  | ev              -- the entity carried in the received event's payload
  | ord (n : Nat)   -- the n-th id ever returned by a spawn
  | last            -- the most recently returned id
  | null
deriving DecidableEq, Repr, Inhabited

/-- scripted handler actions (interpreted by the harness inside real handlers and by the model) -/
inductive Act
  | send (g : Nat)
  | sendto (t : Nat) (tgt : Tgt)
  | spawn
  | despawn (tgt : Tgt)
  | ins (tgt : Tgt) (k v : Nat)
  | rem (tgt : Tgt) (k : Nat)
  | take
  | panic
  | iter (p : Nat)
  | bump (p : Nat)
  | get (p : Nat) (tgt : Tgt)
  | getMany (p : Nat) (tgts : List Tgt)
  | single (p : Nat)
  | recv
  | ents
  | alloc (n : Nat)       -- allocate `n` bytes in the arena and send `G3` carrying them (C20)
  | fwd                   -- forward the received arena payload in a new `G3`
deriving Repr, Inhabited

/-- handler parameters; queries are over component *type* numbers -/
inductive PSpec
  | recv (ev : EvTy) (mutable : Bool) (q : Option Query)
  | fetch (q : Query)
  | single (q : Query)
  | trySingle (q : Query)
  | snd (evs : List EvTy)
  | ents
deriving Repr, Inhabited

structure HSpec where
  name : String
  prio : Priority := .medium
  tid : Option Nat := none
  params : List PSpec := []
  body : List Act := []
deriving Repr, Inhabited

inductive Op
  | spawn
  | despawn (n : Nat)
  | insert (n k v : Nat)
  | remove (n k : Nat)
  | send (g : Nat)
  | sendto (t n : Nat)
  | addh (h : HSpec)
  | rmh (name : String)
  | addc (k : Nat)
  | rmc (k : Nat)
  | addev (ev : EvTy)
  | rmev (ev : EvTy)
  | setgen (n g : Nat)      -- hook: set the generation of live entity `#n` (C03 wrap-around)
  | drop
deriving Repr, Inhabited

end Evenio
