import Evenio.Model.SparseMap
import Evenio.Model.HandlerList
/-! Model of the storage half of `archetype.rs`: column-major archetype storage, `move_entity` as a merge over
    two sorted component lists, `remove_entity`, growth (`reserve_one`) with buffer epochs, and the `slab` crate's
    index allocation.  Values are `Cell`s: a payload and a ledger serial (C12). -/
namespace Evenio

structure Cell where
  v : Nat
  ser : Nat
deriving Repr, DecidableEq, Inhabited

structure Loc where
  arch : Nat
  row : Nat
deriving Repr, DecidableEq, Inhabited

def Loc.NULL : Loc := ⟨U32MAX, U32MAX⟩

/-- `struct Archetype`. `ρ`-valued handler pointers are `Key`s in the world model. -/
structure Arch where
  index : Nat
  comps : List Nat                      -- `component_indices`, sorted ascending
  cols : List (List Cell)               -- `columns`, one per entry of `comps`, each as long as `ids`
  ids : List Key                        -- `entity_ids`
  cap : Nat := 0                        -- `entity_ids.capacity()`
  epoch : Nat := 0                      -- identifies the current column buffers; changes on reallocation
  insEdges : List (Nat × Nat) := []     -- `insert_components : BTreeMap<ComponentIdx, ArchetypeIdx>`
  remEdges : List (Nat × Nat) := []     -- `remove_components`
  refresh : List Key := []              -- `refresh_listeners : BTreeSet<HandlerInfoPtr>`
  listeners : SparseMap (HandlerList Key) := {}   -- `event_listeners`
deriving Repr, Inhabited

def Arch.hasComp (a : Arch) (c : Nat) : Bool := a.comps.contains c
/-- `column_of` -/
def Arch.colIdx (a : Arch) (c : Nat) : Option Nat := a.comps.idxOf? c
def Arch.readCell (a : Arch) (c : Nat) (row : Nat) : Option Cell := do
  let i ← a.colIdx c
  let col ← a.cols[i]?
  col[row]?

/-- `Vec::reserve(1)` growth of `entity_ids` (amortised doubling, minimum non-zero capacity 4). Any policy with
    `len < grow len` would do for the theorems. -/
def growCap (cap : Nat) : Nat := max (2 * cap) 4

/-- `reserve_one`: returns `(arch', reallocated)`; `fresh` is an unused epoch. -/
def Arch.reserveOne (a : Arch) (fresh : Nat) : Arch × Bool :=
  if a.ids.length < a.cap then (a, false)
  else ({ a with cap := growCap a.cap, epoch := fresh }, true)

/-- BTreeMap insert / remove / get on sorted association lists -/
def edgeGet (m : List (Nat × Nat)) (k : Nat) : Option Nat := (m.find? (·.1 == k)).map (·.2)
def edgeInsert : List (Nat × Nat) → Nat → Nat → List (Nat × Nat)
  | [], k, v => [(k, v)]
  | (k', v') :: m, k, v =>
    if k < k' then (k, v) :: (k', v') :: m
    else if k = k' then (k, v) :: m
    else (k', v') :: edgeInsert m k v
def edgeRemove (m : List (Nat × Nat)) (k : Nat) : List (Nat × Nat) := m.filter (·.1 != k)

/-- sorted insertion of a component index (`new_components.insert(idx, component_idx)` after `binary_search`) -/
def insertSorted : List Nat → Nat → List Nat
  | [], c => [c]
  | x :: xs, c => if c < x then c :: x :: xs else if c = x then x :: xs else x :: insertSorted xs c

open SparseMap (swapRemove)

/-- result of the column merge in `move_entity` -/
structure MoveCols where
  src : List (List Cell)
  dst : List (List Cell)
  dropped : List Cell
deriving Repr

/-- The `loop` of `move_entity` (rows already fixed): walks the two sorted component lists.
    component only in the source: `swap_remove` (dropped); in both: `transfer_elem`; only in the destination:
    the next new component is written.  `none` = an unchecked precondition failed (missing new component,
    mismatching index, or a column shorter than the row). -/
def moveCols (row : Nat) :
    List Nat → List (List Cell) → List Nat → List (List Cell) → List (Nat × Cell) → Option MoveCols
  | [], [], [], [], _ => some ⟨[], [], []⟩
  | _ :: scs, scol :: scols, [], [], new =>
    match scol[row]?, moveCols row scs scols [] [] new with
    | some x, some r => some ⟨swapRemove scol row :: r.src, r.dst, x :: r.dropped⟩
    | _, _ => none
  | [], [], dc :: dcs, dcol :: dcols, (nc, nv) :: new =>
    if nc = dc then
      match moveCols row [] [] dcs dcols new with
      | some r => some ⟨r.src, (dcol ++ [nv]) :: r.dst, r.dropped⟩
      | none => none
    else none
  | sc :: scs, scol :: scols, dc :: dcs, dcol :: dcols, new =>
    if sc < dc then
      match scol[row]?, moveCols row scs scols (dc :: dcs) (dcol :: dcols) new with
      | some x, some r => some ⟨swapRemove scol row :: r.src, r.dst, x :: r.dropped⟩
      | _, _ => none
    else if sc = dc then
      match scol[row]?, moveCols row scs scols dcs dcols new with
      | some x, some r => some ⟨swapRemove scol row :: r.src, (dcol ++ [x]) :: r.dst, r.dropped⟩
      | _, _ => none
    else
      match new with
      | (nc, nv) :: new' =>
        if nc = dc then
          match moveCols row (sc :: scs) (scol :: scols) dcs dcols new' with
          | some r => some ⟨r.src, (dcol ++ [nv]) :: r.dst, r.dropped⟩
          | none => none
        else none
      | [] => none
  | _, _, _, _, _ => none

/-- `Column::assign`: the old value is dropped, the new one stored. -/
def assignCol (col : List Cell) (row : Nat) (x : Cell) : Option (List Cell × Cell) :=
  match col[row]? with
  | some old => some (col.set row x, old)
  | none => none

/-- the `slab` crate: `Vec<Entry>` plus the head of the vacant list -/
inductive SlabEntry (α : Type)
  | vacant (next : Nat)
  | occ (a : α)
deriving Repr, Inhabited

structure Slab (α : Type) where
  entries : List (SlabEntry α) := []
  next : Nat := 0
deriving Repr, Inhabited

namespace Slab
variable {α : Type}
def get (s : Slab α) (i : Nat) : Option α :=
  match s.entries[i]? with
  | some (.occ a) => some a
  | _ => none
def set (s : Slab α) (i : Nat) (a : α) : Slab α :=
  match s.entries[i]? with
  | some (.occ _) => { s with entries := s.entries.set i (.occ a) }
  | _ => s
def vacantKey (s : Slab α) : Nat := s.next
def insert (s : Slab α) (a : α) : Slab α :=
  let key := s.next
  if key = s.entries.length then { entries := s.entries ++ [.occ a], next := key + 1 }
  else match s.entries[key]? with
    | some (.vacant n) => { entries := s.entries.set key (.occ a), next := n }
    | _ => s  -- unreachable!() in the slab crate
def remove (s : Slab α) (i : Nat) : Option (α × Slab α) :=
  match s.entries[i]? with
  | some (.occ a) => some (a, { entries := s.entries.set i (.vacant s.next), next := i })
  | _ => none
/-- iteration in index order -/
def toList (s : Slab α) : List (Nat × α) :=
  s.entries.zipIdx.filterMap fun (e, i) => match e with | .occ a => some (i, a) | .vacant _ => none
end Slab

end Evenio
