/-! Model of `slot_map.rs`: generational slot map with a free list threaded through vacant slots,
    retirement of a slot whose generation wraps to 0, and `NextKeyIter` (key prediction).
    Generations are natural numbers taken modulo `M` exactly where the code wraps (`wrapping_add`);
    the world instantiates `M = 2^32`. Core Lean only. -/
namespace Evenio

/-- `u32::MAX`: `Key::NULL` index, end-of-free-list marker, `ArchetypeIdx::NULL`, … -/
def U32MAX : Nat := 4294967295
def GENMOD : Nat := 4294967296

structure Key where
  idx : Nat
  gen : Nat
deriving Repr, DecidableEq, Inhabited, BEq

def Key.NULL : Key := ⟨U32MAX, U32MAX⟩
def Key.render (k : Key) : String := s!"{k.idx}v{k.gen}"

/-- A slot: `gen` odd = occupied (then `val = some _`), even = vacant (then `next` is the free-list link). -/
structure Slot (α : Type) where
  gen : Nat
  next : Nat
  val : Option α
deriving Repr, Inhabited

structure SlotMap (α : Type) where
  slots : List (Slot α) := []
  nextFree : Nat := U32MAX
  len : Nat := 0
deriving Repr, Inhabited

namespace SlotMap
variable {α : Type}

def empty : SlotMap α := {}

/-- `insert_with`: returns the key and the new map; `none` when the index space is exhausted. -/
def insertWith (sm : SlotMap α) (f : Key → α) : Option (Key × SlotMap α) :=
  match sm.slots[sm.nextFree]? with
  | some s =>
    let k : Key := ⟨sm.nextFree, s.gen + 1⟩
    some (k, { slots := sm.slots.set sm.nextFree ⟨s.gen + 1, s.next, some (f k)⟩,
               nextFree := s.next, len := sm.len + 1 })
  | none =>
    let i := sm.slots.length
    if i = U32MAX then none
    else
      let k : Key := ⟨i, 1⟩
      some (k, { slots := sm.slots ++ [⟨1, U32MAX, some (f k)⟩], nextFree := sm.nextFree, len := sm.len + 1 })

/-- `remove`: the generation is bumped with wrap-around; a slot whose generation wrapped to 0 is retired
    (not put back on the free list). -/
def remove (sm : SlotMap α) (k : Key) : Option (α × SlotMap α) :=
  match sm.slots[k.idx]? with
  | none => none
  | some s =>
    if s.gen ≠ k.gen then none else
    match s.val with
    | none => none
    | some v =>
      let g := (s.gen + 1) % GENMOD
      if g ≠ 0 then
        some (v, { slots := sm.slots.set k.idx ⟨g, sm.nextFree, none⟩, nextFree := k.idx, len := sm.len - 1 })
      else
        some (v, { slots := sm.slots.set k.idx ⟨0, s.next, none⟩, nextFree := sm.nextFree, len := sm.len - 1 })

def get (sm : SlotMap α) (k : Key) : Option α :=
  match sm.slots[k.idx]? with
  | none => none
  | some s => if s.gen = k.gen then s.val else none

def contains (sm : SlotMap α) (k : Key) : Bool := (sm.get k).isSome

def set (sm : SlotMap α) (k : Key) (v : α) : SlotMap α :=
  match sm.slots[k.idx]? with
  | some s => if s.gen = k.gen then { sm with slots := sm.slots.set k.idx { s with val := some v } } else sm
  | none => sm

/-- `get_by_index` -/
def getByIndex (sm : SlotMap α) (i : Nat) : Option (Key × α) :=
  match sm.slots[i]? with
  | none => none
  | some s => if s.gen % 2 = 0 then none else s.val.map fun v => (⟨i, s.gen⟩, v)

/-- `iter`: occupied slots in index order -/
def toList (sm : SlotMap α) : List (Key × α) :=
  (sm.slots.zipIdx).filterMap fun (s, i) =>
    if s.gen % 2 = 0 then none else s.val.map fun v => (⟨i, s.gen⟩, v)

/-- `next_key_iter().index` -/
def nextKeyIndex (sm : SlotMap α) : Nat :=
  if sm.nextFree = U32MAX then sm.slots.length else sm.nextFree

/-- result of `NextKeyIter::next` -/
inductive NextKey
  | key (k : Key) (index' : Nat)
  | exhausted
  | badState      -- `panic!("incorrect state for next key iter")`
deriving Repr

def nextKey (sm : SlotMap α) (index : Nat) : NextKey :=
  match sm.slots[index]? with
  | some s =>
    if s.gen % 2 = 0 then
      .key ⟨index, s.gen + 1⟩ (if s.next = U32MAX then sm.slots.length else s.next)
    else .badState
  | none =>
    if index < U32MAX then .key ⟨index, 1⟩ (index + 1) else .exhausted

end SlotMap
end Evenio
