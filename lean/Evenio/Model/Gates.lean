import Evenio.Generated.Gates
import Evenio.Model.Query
/-! The `ReadOnlyQuery` gate as a function of the query, driven by the table regenerated from the marker impls in
    `query.rs` / `evenio_macros` (`Evenio.Gates.ro_*`). The driver answers `gate <query>` lines with it (C18
    correspondence against rustc) and `Props/C18.lean` proves it sound. -/
namespace Evenio
open Gates

/-- how a marker-impl shape decides `Q: ReadOnlyQuery`, given whether all type arguments are -/
def Gates.RO.eval : RO → Bool → Bool
  | .never, _ => false
  | .always, _ => true
  | .inner, args => args

/-- `Q: ReadOnlyQuery`, decided by the generated marker-impl table.  `()` is the 0-ary tuple. -/
def Query.readOnlyGate : Query → Bool
  | .ref _ => ro_ref.eval true
  | .mut _ => ro_mut.eval true
  | .unit => ro_tup.eval true
  | .snoc t q => ro_tup.eval (t.readOnlyGate && q.readOnlyGate)
  | .opt q => ro_opt.eval q.readOnlyGate
  | .or l r => ro_or.eval (l.readOnlyGate && r.readOnlyGate)
  | .xor l r => ro_xor.eval (l.readOnlyGate && r.readOnlyGate)
  | .not q => ro_not.eval q.readOnlyGate
  | .wth q => ro_wth.eval q.readOnlyGate
  | .has q => ro_has.eval q.readOnlyGate
  | .eid => ro_eid.eval true
  | .phantom => ro_phantom.eval true

end Evenio
