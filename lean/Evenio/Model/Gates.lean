import Evenio.Generated.Gates
import Evenio.Model.Query
/-! The `ReadOnlyQuery` gate as a function of the query, driven by the table regenerated from the marker impls in
    `query.rs` / `evenio_macros` (`Evenio.Gates.ro_*`). -/
namespace Evenio
open Gates

def Gates.RO.apply (r : RO) (inner : Bool) : Bool :=
  match r with
  | .never => false
  | .always => true
  | .inner => inner

/-- does rustc find a `ReadOnlyQuery` impl for the query type? -/
def Query.roGate : Query → Bool
  | .ref _ => ro_ref.apply true
  | .mut _ => ro_mut.apply true
  | .unit => ro_tup.apply true
  | .snoc t q => ro_tup.apply (roGate t && roGate q)
  | .opt q => ro_opt.apply (roGate q)
  | .or l r => ro_or.apply (roGate l && roGate r)
  | .xor l r => ro_xor.apply (roGate l && roGate r)
  | .not q => ro_not.apply (roGate q)
  | .wth q => ro_wth.apply (roGate q)
  | .has q => ro_has.apply (roGate q)
  | .eid => ro_eid.apply true
  | .phantom => ro_phantom.apply true

end Evenio
