import Evenio.Model.Inv
/-! Further executable conjuncts that the proofs showed are needed to make `World.Inv` inductive (reports of the C10, C15,
    C17, C02World proofs): well-formedness of the slab, of every slot map and sparse map, `ids.length ≤ cap`, handler
    consistency. They are evaluated by the driver together with `Inv` (`--inv`) and are the invariant the world-level
    preservation theorems are stated for. -/
namespace Evenio

/-- follow a free chain: `fuel` bounds the walk; returns the visited indices or `none` if it does not end at `stop` -/
def walkChain (next : Nat → Option Nat) (stop : Nat) : Nat → Nat → List Nat → Option (List Nat)
  | 0, _, _ => none
  | fuel + 1, i, acc =>
    if i = stop then some acc.reverse
    else match next i with
      | some j => walkChain next stop fuel j (i :: acc)
      | none => none

/-- the `slab` crate's vacant list: from `next`, through `vacant` links, to `entries.length`; duplicate-free and it visits
    every vacant entry -/
def Slab.wfCheck {α : Type} (s : Slab α) : Bool :=
  let nextOf (i : Nat) : Option Nat := match s.entries[i]? with | some (.vacant n) => some n | _ => none
  match walkChain nextOf s.entries.length (s.entries.length + 1) s.next [] with
  | none => false
  | some chain =>
    chain.eraseDups.length == chain.length
    && chain.length == (s.entries.filter fun e => match e with | .vacant _ => true | .occ _ => false).length

/-- executable `SlotMap.WF` -/
def SlotMap.wfCheck {α : Type} (sm : SlotMap α) : Bool :=
  (sm.slots.all fun s => s.gen < GENMOD && (s.val.isSome == (s.gen % 2 == 1)))
  && sm.slots.length ≤ U32MAX
  && sm.len == (sm.slots.filter fun s => s.gen % 2 == 1).length
  && (let nextOf (i : Nat) : Option Nat :=
        match sm.slots[i]? with
        | some s => if s.gen % 2 == 0 && s.gen != 0 then some s.next else none
        | none => none
      match walkChain nextOf U32MAX (sm.slots.length + 1) sm.nextFree [] with
      | none => false
      | some chain => chain.eraseDups.length == chain.length)

/-- executable `SparseMap.WF` -/
def SparseMap.wfCheck {ν : Type} (m : SparseMap ν) : Bool :=
  m.indices.length == m.dense.length
  && m.dense.length < U32MAX
  && (m.indices.zipIdx.all fun (k, i) => m.sparse[k]? == some i)
  && (m.sparse.zipIdx.all fun (d, k) => d == U32MAX || m.indices[d]? == some k)

def HandlerList.invCheck (l : HandlerList Key) : Bool :=
  l.before ≤ l.after && l.after ≤ l.entries.length && l.entries.eraseDups.length == l.entries.length

/-- handler entries are consistent with how `addHandler` builds them -/
def World.invHandlers (w : World) : Bool :=
  w.byInsertOrder.eraseDups.length == w.byInsertOrder.length
  && (w.handlers.toList.all fun (k, h) =>
    h.key == k && h.recvIdx == h.recvKey.idx
    && w.byInsertOrder.contains k
    && (let accesses := (h.params.filter (·.hasQ)).map fun p => p.q.init
        h.archFilter == accesses.foldl (fun acc a => acc.or a) CA.ff
        && h.compAccess == accesses.foldl (fun acc a => acc.and a) CA.tt)
    && (h.params.all fun p => p.cache.wfCheck))
  -- insertion order is by `order`
  && (let orders := w.byInsertOrder.filterMap fun k => (w.handlers.get k).map (·.order)
      strictlySorted orders && orders.all (· < w.insertCounter))

def World.invWF (w : World) : Bool :=
  w.archs.wfCheck
  && w.entities.wfCheck && w.comps.wfCheck && w.gevs.wfCheck && w.tevs.wfCheck && w.handlers.wfCheck
  && (w.archs.toList.all fun (_, a) =>
    a.ids.length ≤ a.cap && a.index < U32MAX && a.listeners.wfCheck
    && (a.listeners.values.all fun l => l.invCheck)
    && strictlySorted (a.insEdges.map (·.1)) && strictlySorted (a.remEdges.map (·.1)))
  && (w.byGlobal.all fun l => l.invCheck)

def World.invPlusReport (w : World) : List String :=
  w.invReport ++
  ([("wf", w.invWF), ("handlers", w.invHandlers)].filterMap fun (n, ok) => if ok then none else some n)

/-- the strengthened invariant -/
def World.InvPlus (w : World) : Bool := w.invPlusReport.isEmpty

end Evenio
